#!/usr/bin/env python3
"""translate/gentie.py — the further generators of the translator tie (called by tables.py).

Every generator re-reads /repo's CURRENT source text and writes one coq/Gen/<Name>.v.  A generator
that does not recognise the shape of its function raises Unparsed: the caller then REMOVES
Gen/<Name>.v (and its compiled files) — never a stale or guessed table — and reports the table as
`unavailable`; ./check then skips the companion files Properties/<Cxx>_tie*.v that need it and the
differential tie remains.

Generated files use only stdlib types (N, bool, string, list): whatever the Rust source says, a
generated file compiles; a difference shows up as a failing lemma of Proofs/GenAgree<Name>.v.

  Constants.v      every `dw!` block of src/constants.rs           (name -> value, per struct lists)
  EhPe.v           DwEhPe::{format,application,is_absent,is_indirect,is_valid_encoding}
  BackEdge.v       has_die_back_edge (src/write/unit.rs)
  ValueType.v      ValueType::{bit_size,from_encoding}, Value::value_type (src/read/value.rs)
  SectionNames.v   SectionId::{name,dwo_name,xcoff_name} (src/common.rs), IndexSectionId +
                   section_id, the DW_SECT / DW_SECT_V2 column matches of UnitIndex::parse
  Loader.v         field wiring of DwarfSections/Dwarf/DwarfPackageSections/DwarfPackage (src/read/dwarf.rs)
  OpTable.v        opcode -> Operation constructors + reader calls of Operation::parse (src/read/op.rs)
  CfiTable.v       opcode -> CallFrameInstruction constructors of CallFrameInstruction::parse
  LineTable.v      opcode -> LineInstruction constructors of LineInstruction::parse
  CaseFold.v       CASE_FOLD_DATA (src/case_fold_data.rs)
"""
import functools
import os
import re

import tables as T
from tables import Unparsed

HEADER = T.HEADER


@functools.lru_cache(maxsize=None)
def src_of(repo, rel):
    return T.strip_comments(open(os.path.join(repo, rel)).read())


def coq_str(s):
    if '"' in s or '\\' in s or any(ord(c) < 32 or ord(c) > 126 for c in s):
        raise Unparsed('string %r not representable' % s)
    return '"%s"' % s


def coq_list(items, indent='  ', per_line=1):
    if not items:
        return '[]'
    rows = []
    for i in range(0, len(items), per_line):
        rows.append('; '.join(items[i:i + per_line]))
    return '[ ' + ('\n' + indent + '; ').join(rows) + ' ]'


def lit(val):
    v = val.replace('_', '')
    if re.fullmatch(r'0x[0-9a-fA-F]+', v):
        return int(v, 16)
    if re.fullmatch(r'0b[01]+', v):
        return int(v, 2)
    if re.fullmatch(r'\d+', v):
        return int(v)
    # constant expressions of literals: `0x01 << 6`, `a | b`, `a + b`
    if re.fullmatch(r'[0-9a-fA-Fxb_\s<|+()]+', val) and re.search(r'<<|\||\+', val):
        toks = re.findall(r'<<|[|+()]|[0-9][0-9a-fA-Fxb_]*', val)
        if ''.join(toks) != re.sub(r'\s+', '', val):
            raise Unparsed('literal %r' % val)
        expr = ' '.join(t if t in ('<<', '|', '+', '(', ')') else str(lit(t)) for t in toks)
        try:
            r = eval(expr, {'__builtins__': {}}, {})
        except Exception:
            raise Unparsed('literal %r' % val)
        if isinstance(r, int) and 0 <= r < 2 ** 64:
            return r
    raise Unparsed('literal %r' % val)


# ---- Constants.v ------------------------------------------------------------------------------

@functools.lru_cache(maxsize=None)
def dw_blocks(repo):
    """[(struct, type, [(name, value)], [(alias, value)])] of every dw!( ... ) invocation"""
    src = src_of(repo, 'src/constants.rs')
    # the macro definition itself is `macro_rules! dw {`; invocations are `dw!(`
    out = []
    for m in re.finditer(r'\bdw!\s*\(', src):
        i = m.end() - 1
        j = T.matching(src, i, '(', ')')
        inner = src[i + 1:j - 1]
        inner = re.sub(r'#\[[^\]]*\]', '', inner)
        h = re.match(r'\s*(\w+)\s*\(\s*(u8|u16|u32|u64)\s*\)\s*\{', inner)
        if not h:
            raise Unparsed('dw! block header %r' % inner[:60])
        b0 = h.end() - 1
        b1 = T.matching(inner, b0)
        body = inner[b0 + 1:b1 - 1]
        rest = inner[b1:].strip()
        aliases = ''
        if rest:
            ma = re.fullmatch(r',\s*aliases\s*\{(.*)\}\s*,?', rest, re.S)
            if not ma:
                raise Unparsed('dw! block %s: trailing text %r' % (h.group(1), rest[:60]))
            aliases = ma.group(1)

        def entries(text):
            es = []
            for item in text.split(','):
                item = item.strip()
                if not item:
                    continue
                e = re.fullmatch(r'(\w+)\s*=\s*([0-9a-fA-Fxb_\s<|+()]+)', item)
                if not e:
                    raise Unparsed('dw! block %s: entry %r' % (h.group(1), item[:60]))
                es.append((e.group(1), lit(e.group(2))))
            return es
        bits = int(h.group(2)[1:])
        vals, als = entries(body), entries(aliases)
        for n, v in vals + als:
            if v >= 2 ** bits:
                raise Unparsed('%s = %d does not fit %s' % (n, v, h.group(2)))
        out.append((h.group(1), bits, vals, als))
    if len(out) < 10:
        raise Unparsed('only %d dw! blocks found' % len(out))
    return out


@functools.lru_cache(maxsize=None)
def all_constants(repo):
    d = {}
    for _, _, vals, als in dw_blocks(repo):
        for n, v in vals + als:
            if n in d:
                raise Unparsed('constant %s defined twice' % n)
            d[n] = v
    return d


def gen_constants(repo, outdir):
    blocks = dw_blocks(repo)
    seen = set()
    lines = []
    for struct, bits, vals, als in blocks:
        lines.append('\n(* %s(u%d) *)' % (struct, bits))
        for n, v in vals + als:
            if n in seen or not re.fullmatch(r'DW_\w+', n):
                raise Unparsed('constant name %r' % n)
            seen.add(n)
            lines.append('Definition %s : N := %d.' % (n, v))
        lines.append('Definition %s_bits : N := %d.' % (struct, bits))
        lines.append('(* the values of the block proper (no aliases), in source order: the arms of static_string *)')
        lines.append('Definition %s_values : list N :=\n  %s.' % (struct, coq_list([str(v) for _, v in vals], per_line=16)))
    text = (HEADER % 'src/constants.rs (every dw! block)' +
            'From Coq Require Import List NArith.\nImport ListNotations.\nLocal Open Scope N_scope.\n' +
            '\n'.join(lines) + '\n')
    T.write(outdir, 'Constants.v', text)


# ---- EhPe.v -----------------------------------------------------------------------------------

def squeeze(s):
    return re.sub(r'\s+', '', s)


def gen_ehpe(repo, outdir):
    src = src_of(repo, 'src/constants.rs')
    consts = all_constants(repo)
    masks = {}
    for nm in ('DW_EH_PE_FORMAT_MASK', 'DW_EH_PE_APPLICATION_MASK'):
        m = re.search(r'const\s+' + nm + r'\s*:\s*u8\s*=\s*([0-9a-fA-Fxb_]+)\s*;', src)
        if not m:
            raise Unparsed(nm + ' not found')
        masks[nm] = lit(m.group(1))
    im = re.search(r'impl\s+DwEhPe\s*\{', src)
    if not im:
        raise Unparsed('impl DwEhPe not found')
    impl = src[im.end() - 1:T.matching(src, im.end() - 1)]

    def body(name, ret):
        return squeeze(T.fn_body(impl, r'pub\s+fn\s+' + name + r'\s*\(\s*self\s*\)\s*->\s*' + ret))
    if body('format', 'DwEhPe') != 'DwEhPe(self.0&DW_EH_PE_FORMAT_MASK)':
        raise Unparsed('DwEhPe::format has an unexpected body')
    if body('application', 'DwEhPe') != 'DwEhPe(self.0&DW_EH_PE_APPLICATION_MASK)':
        raise Unparsed('DwEhPe::application has an unexpected body')
    if body('is_absent', 'bool') != 'self==DW_EH_PE_omit':
        raise Unparsed('DwEhPe::is_absent has an unexpected body')
    if body('is_indirect', 'bool') != 'self.0&DW_EH_PE_indirect.0!=0':
        raise Unparsed('DwEhPe::is_indirect has an unexpected body')
    v = body('is_valid_encoding', 'bool')
    m = re.fullmatch(r'ifself\.is_absent\(\)\{returntrue;\}'
                     r'matchself\.format\(\)\{([\w|]+)=>\{\},?_=>returnfalse,?\}'
                     r'matchself\.application\(\)\{([\w|]+)=>\{\},?_=>returnfalse,?\}true', v)
    if not m:
        raise Unparsed('DwEhPe::is_valid_encoding has an unexpected body')

    def vals(pats):
        out = []
        for p in pats.split('|'):
            if not p.startswith('DW_EH_PE_') or p not in consts:
                raise Unparsed('pattern %r' % p)
            out.append(consts[p])
        return out
    fm, ap = vals(m.group(1)), vals(m.group(2))

    def disj(var, vs):
        return ' || '.join('(%s =? %d)' % (var, x) for x in vs)
    text = (HEADER % 'src/constants.rs (impl DwEhPe)' +
            'From Coq Require Import NArith Bool.\nLocal Open Scope N_scope.\n\n'
            'Definition format_mask : N := %d.\nDefinition application_mask : N := %d.\n'
            'Definition omit : N := %d.\nDefinition indirect : N := %d.\n\n'
            'Definition format (e : N) : N := N.land e format_mask.\n'
            'Definition application (e : N) : N := N.land e application_mask.\n'
            'Definition is_absent (e : N) : bool := e =? omit.\n'
            'Definition is_indirect (e : N) : bool := negb (N.land e indirect =? 0).\n\n'
            '(* the first arm of `match self.format()` / `match self.application()` *)\n'
            'Definition format_known (f : N) : bool :=\n  %s.\n'
            'Definition application_known (a : N) : bool :=\n  %s.\n\n'
            'Definition is_valid_encoding (e : N) : bool :=\n'
            '  if is_absent e then true\n'
            '  else if negb (format_known (format e)) then false\n'
            '  else if negb (application_known (application e)) then false\n'
            '  else true.\n'
            % (masks['DW_EH_PE_FORMAT_MASK'], masks['DW_EH_PE_APPLICATION_MASK'],
               consts['DW_EH_PE_omit'], consts['DW_EH_PE_indirect'], disj('f', fm), disj('a', ap)))
    T.write(outdir, 'EhPe.v', text)


# ---- BackEdge.v -------------------------------------------------------------------------------

def gen_back_edge(repo, outdir):
    consts = all_constants(repo)
    src = src_of(repo, 'src/write/unit.rs')
    body = T.fn_body(src, r'fn\s+has_die_back_edge\s*\(\s*&self\s*\)\s*->\s*bool')
    if not re.fullmatch(r'matchself\.tag\{.*\}', squeeze(body), re.S):
        raise Unparsed('has_die_back_edge is not a single match on self.tag')
    arms = T.match_arms(body, r'self\.tag')
    false_tags, decl_tags, default = [], [], None
    for pats, expr in arms:
        vals = T.pat_values(pats, consts, 'DW_TAG_')
        e = squeeze(expr)
        if vals is None:
            if e not in ('true', 'false'):
                raise Unparsed('wildcard arm %r' % e)
            default = e
            break
        if e == 'false':
            false_tags += vals
        elif e == 'true':
            raise Unparsed('an explicit `=> true` arm is not handled')
        else:
            m = re.fullmatch(r'self\.has_attr\((?:constants::)?(DW_AT_\w+)\)', e)
            if not m or m.group(1) not in consts:
                raise Unparsed('arm expression %r' % e)
            decl_tags.append((vals, m.group(1), consts[m.group(1)]))
    if default != 'true' or len(decl_tags) != 1:
        raise Unparsed('has_die_back_edge: unexpected arm structure')
    dvals, dname, dval = decl_tags[0]
    text = (HEADER % 'src/write/unit.rs (has_die_back_edge)' +
            'From Coq Require Import List NArith Bool.\nImport ListNotations.\nLocal Open Scope N_scope.\n\n'
            '(* the tags of the `=> false` arm, in source order *)\n'
            'Definition no_back_edge_tags : list N :=\n  %s.\n\n'
            '(* the tags of the `=> self.has_attr(%s)` arm and the value of that attribute name *)\n'
            'Definition attr_tags : list N := %s.\nDefinition attr_name : N := %d.\n\n'
            '(* [has] : the DIE has the attribute [attr_name] *)\n'
            'Definition has_die_back_edge (tag : N) (has : bool) : bool :=\n'
            '  if existsb (N.eqb tag) no_back_edge_tags then false\n'
            '  else if existsb (N.eqb tag) attr_tags then has\n'
            '  else true.\n'
            % (coq_list([str(v) for v in false_tags], per_line=12), dname,
               coq_list([str(v) for v in dvals]), dval))
    T.write(outdir, 'BackEdge.v', text)



# ---- generic helpers for `match self { Enum::A | Enum::B => expr, ... }` tables ---------------

def enum_variants(src, name):
    m = re.search(r'pub\s+enum\s+' + name + r'\s*\{', src)
    if not m:
        raise Unparsed('enum %s not found' % name)
    i = m.end() - 1
    j = T.matching(src, i)
    body = re.sub(r'#\[[^\]]*\]', '', src[i + 1:j - 1])
    out = []
    for item in body.split(','):
        item = item.strip()
        if not item:
            continue
        v = re.fullmatch(r'(\w+)(?:\s*\(\s*[\w:<>]+\s*\))?', item)
        if not v:
            raise Unparsed('enum %s: variant %r' % (name, item[:40]))
        out.append(v.group(1))
    if not out:
        raise Unparsed('enum %s is empty' % name)
    return out


def impl_block(src, header_re):
    m = re.search(header_re + r'\s*\{', src)
    if not m:
        raise Unparsed('impl %r not found' % header_re)
    i = m.end() - 1
    return src[i:T.matching(src, i)]


def enum_match(body, scrut_re, enum, variants, payload=False):
    """arms of `match <scrut> { Enum::V [| Enum::W] => expr }`: [(variants, expr)], wildcard as (None, expr)"""
    out = []
    for pats, expr in T.match_arms(body, scrut_re):
        if pats == ['_']:
            out.append((None, expr))
            continue
        vs = []
        for p in pats:
            m = re.fullmatch(re.escape(enum) + r'::(\w+)' + (r'\(_\)' if payload else ''), squeeze(p))
            if not m or m.group(1) not in variants:
                raise Unparsed('pattern %r of a match on %s' % (p, enum))
            vs.append(m.group(1))
        out.append((vs, expr))
    return out


def strings(xs):
    return [coq_str(x) for x in xs]


def pair(a, b):
    return '(%s, %s)' % (a, b)


# ---- ValueType.v ------------------------------------------------------------------------------

def gen_value_type(repo, outdir):
    consts = all_constants(repo)
    src = src_of(repo, 'src/read/value.rs')
    vt = enum_variants(src, 'ValueType')
    val = enum_variants(src, 'Value')
    impl_vt = impl_block(src, r'impl\s+ValueType')
    impl_v = impl_block(src, r'impl\s+Value')
    # mask_bit_size
    if squeeze(T.fn_body(src, r'fn\s+mask_bit_size\s*\(\s*addr_mask\s*:\s*u64\s*\)\s*->\s*u32')) != '64-addr_mask.leading_zeros()':
        raise Unparsed('mask_bit_size has an unexpected body')
    # bit_size
    body = T.fn_body(impl_vt, r'pub\s+fn\s+bit_size\s*\(\s*self\s*,\s*addr_mask\s*:\s*u64\s*\)\s*->\s*u32')
    if not re.fullmatch(r'matchself\{.*\}', squeeze(body), re.S):
        raise Unparsed('ValueType::bit_size is not a single match')
    bits = []
    for vs, expr in enum_match(body, 'self', 'ValueType', vt):
        e = squeeze(expr)
        if vs is None:
            raise Unparsed('ValueType::bit_size has a wildcard arm')
        if e == 'mask_bit_size(addr_mask)':
            c = 'None'
        elif re.fullmatch(r'\d+', e):
            c = 'Some %s' % e
        else:
            raise Unparsed('bit_size arm %r' % e)
        bits += [pair(coq_str(v), c) for v in vs]
    # from_encoding
    body = T.fn_body(impl_vt, r'pub\s+fn\s+from_encoding\s*\(\s*encoding\s*:\s*constants::DwAte\s*,\s*byte_size\s*:\s*u64\s*\)\s*->\s*Option<ValueType>')
    if not re.fullmatch(r'Some\(match\(encoding,byte_size\)\{.*\}\)', squeeze(body), re.S):
        raise Unparsed('ValueType::from_encoding has an unexpected shape')
    enc = []
    seen_default = False
    for pats, expr in T.match_arms(body, r'\(\s*encoding\s*,\s*byte_size\s*\)'):
        e = squeeze(expr)
        if pats == ['_']:
            if e != 'returnNone':
                raise Unparsed('from_encoding wildcard arm %r' % e)
            seen_default = True
            continue
        if seen_default:
            raise Unparsed('arm after the wildcard')
        m = re.fullmatch(r'ValueType::(\w+)', e)
        if not m or m.group(1) not in vt:
            raise Unparsed('from_encoding arm %r' % e)
        for p in pats:
            pm = re.fullmatch(r'\((?:constants::)?(DW_ATE_\w+),(\d+)\)', squeeze(p))
            if not pm or pm.group(1) not in consts:
                raise Unparsed('from_encoding pattern %r' % p)
            enc.append(pair(pair(str(consts[pm.group(1)]), pm.group(2)), coq_str(m.group(1))))
    if not seen_default:
        raise Unparsed('from_encoding has no wildcard arm')
    # Value::value_type
    body = T.fn_body(impl_v, r'pub\s+fn\s+value_type\s*\(\s*&self\s*\)\s*->\s*ValueType')
    if not re.fullmatch(r'match\*self\{.*\}', squeeze(body), re.S):
        raise Unparsed('Value::value_type is not a single match')
    vty = []
    for vs, expr in enum_match(body, r'\*self', 'Value', val, payload=True):
        m = re.fullmatch(r'ValueType::(\w+)', squeeze(expr))
        if vs is None or not m:
            raise Unparsed('value_type arm %r' % expr)
        vty += [pair(coq_str(v), coq_str(m.group(1))) for v in vs]
    text = (HEADER % 'src/read/value.rs (ValueType, Value::value_type)' +
            'From Coq Require Import List NArith String.\nImport ListNotations.\nLocal Open Scope string_scope.\nLocal Open Scope N_scope.\n\n'
            '(* enum ValueType / enum Value, in declaration order *)\n'
            'Definition value_type_variants : list string :=\n  %s.\n'
            'Definition value_variants : list string :=\n  %s.\n\n'
            '(* ValueType::bit_size: None = mask_bit_size(addr_mask) = 64 - addr_mask.leading_zeros() *)\n'
            'Definition bit_size_table : list (string * option N) :=\n  %s.\n\n'
            '(* ValueType::from_encoding: ((DW_ATE value, byte_size), variant); everything else is None *)\n'
            'Definition from_encoding_table : list ((N * N) * string) :=\n  %s.\n\n'
            '(* Value::value_type: (Value variant, ValueType variant) *)\n'
            'Definition value_type_table : list (string * string) :=\n  %s.\n'
            % (coq_list(strings(vt), per_line=11), coq_list(strings(val), per_line=11),
               coq_list(bits, per_line=4), coq_list(enc, per_line=2), coq_list(vty, per_line=4)))
    T.write(outdir, 'ValueType.v', text)


# ---- SectionNames.v ---------------------------------------------------------------------------

def name_table(impl, fn, ret_opt, enum, variants):
    body = T.fn_body(impl, r'pub\s+fn\s+' + fn + r'\s*\(\s*self\s*\)\s*->\s*' +
                     (r"Option<&'static\s+str>" if ret_opt else r"&'static\s+str"))
    sq = squeeze(body)
    if not re.fullmatch(r'Some\(matchself\{.*\}\)' if ret_opt else r'matchself\{.*\}', sq, re.S):
        raise Unparsed('%s::%s has an unexpected shape' % (enum, fn))
    out = []
    for vs, expr in enum_match(body, 'self', enum, variants):
        if vs is None:
            if not ret_opt or squeeze(expr) != 'returnNone':
                raise Unparsed('%s::%s wildcard arm' % (enum, fn))
            continue
        m = re.fullmatch(r'"([^"\\]*)"', expr.strip())
        if not m:
            raise Unparsed('%s::%s arm %r' % (enum, fn, expr))
        out += [pair(coq_str(v), coq_str(m.group(1))) for v in vs]
    return out


def gen_section_names(repo, outdir):
    consts = all_constants(repo)
    # comments are stripped with a regexp that does not know string literals: none of these contains `//`
    common = src_of(repo, 'src/common.rs')
    ids = enum_variants(common, 'SectionId')
    impl = impl_block(common, r'impl\s+SectionId')
    names = name_table(impl, 'name', False, 'SectionId', ids)
    dwo = name_table(impl, 'dwo_name', True, 'SectionId', ids)
    xcoff = name_table(impl, 'xcoff_name', True, 'SectionId', ids)
    index = src_of(repo, 'src/read/index.rs')
    iids = enum_variants(index, 'IndexSectionId')
    iimpl = impl_block(index, r'impl\s+IndexSectionId')
    body = T.fn_body(iimpl, r'pub\s+fn\s+section_id\s*\(\s*self\s*\)\s*->\s*SectionId')
    if not re.fullmatch(r'matchself\{.*\}', squeeze(body), re.S):
        raise Unparsed('IndexSectionId::section_id is not a single match')
    sid = []
    for vs, expr in enum_match(body, 'self', 'IndexSectionId', iids):
        m = re.fullmatch(r'SectionId::(\w+)', squeeze(expr))
        if vs is None or not m or m.group(1) not in ids:
            raise Unparsed('section_id arm %r' % expr)
        sid += [pair(coq_str(v), coq_str(m.group(1))) for v in vs]
    if squeeze(T.fn_body(iimpl, r"pub\s+fn\s+dwo_name\s*\(\s*self\s*\)\s*->\s*&'static\s+str")) != \
            'self.section_id().dwo_name().unwrap()':
        raise Unparsed('IndexSectionId::dwo_name has an unexpected body')
    # the two column-kind matches of UnitIndex::parse
    parse = T.fn_body(index, r'(?:pub\s+)?fn\s+parse\s*\(\s*mut\s+input\s*:\s*R\s*\)\s*->\s*Result<UnitIndex<R>>')
    if not re.search(r'sections\[iasusize\]=ifversion==2\{matchconstants::DwSectV2\(section\)\{.*?\}\}else\{matchconstants::DwSect\(section\)\{',
                     squeeze(parse), re.S):
        raise Unparsed('UnitIndex::parse: the version 2 / version 5 column matches were not found')

    def cols(scrut, prefix, err):
        out = []
        arms = T.match_arms(parse, scrut)
        for k, (pats, expr) in enumerate(arms):
            e = squeeze(expr)
            if k == len(arms) - 1:
                if pats != ['section'] or e != 'returnErr(Error::%s(section))' % err:
                    raise Unparsed('last arm of the %s match: %r => %r' % (prefix, pats, e))
                continue
            m = re.fullmatch(r'IndexSectionId::(\w+)', e)
            if not m or m.group(1) not in iids:
                raise Unparsed('%s arm %r' % (prefix, e))
            for v in T.pat_values(pats, consts, prefix):
                out.append(pair(str(v), coq_str(m.group(1))))
        return out
    v2 = cols(r'constants::DwSectV2\(\s*section\s*\)', 'DW_SECT_V2_', 'UnknownIndexSectionV2')
    v5 = cols(r'constants::DwSect\(\s*section\s*\)', 'DW_SECT_', 'UnknownIndexSection')
    m = re.search(r'const\s+SECTION_COUNT_MAX\s*:\s*u8\s*=\s*(\d+)\s*;', index)
    if not m:
        raise Unparsed('SECTION_COUNT_MAX not found')
    text = (HEADER % 'src/common.rs (SectionId), src/read/index.rs (IndexSectionId, UnitIndex::parse)' +
            'From Coq Require Import List NArith String.\nImport ListNotations.\nLocal Open Scope string_scope.\nLocal Open Scope N_scope.\n\n'
            '(* enum SectionId, in declaration order *)\nDefinition section_ids : list string :=\n  %s.\n\n'
            '(* SectionId::name *)\nDefinition name_table : list (string * string) :=\n  %s.\n\n'
            '(* SectionId::dwo_name: variants not listed return None *)\nDefinition dwo_name_table : list (string * string) :=\n  %s.\n\n'
            '(* SectionId::xcoff_name: variants not listed return None *)\nDefinition xcoff_name_table : list (string * string) :=\n  %s.\n\n'
            '(* enum IndexSectionId, in declaration order *)\nDefinition index_section_ids : list string :=\n  %s.\n\n'
            '(* IndexSectionId::section_id; IndexSectionId::dwo_name is self.section_id().dwo_name().unwrap() *)\n'
            'Definition section_id_table : list (string * string) :=\n  %s.\n\n'
            '(* UnitIndex::parse, version 2: DW_SECT_V2_* value -> IndexSectionId; other values: Err(UnknownIndexSectionV2) *)\n'
            'Definition sect_v2_table : list (N * string) :=\n  %s.\n\n'
            '(* UnitIndex::parse, version 5: DW_SECT_* value -> IndexSectionId; other values: Err(UnknownIndexSection) *)\n'
            'Definition sect_v5_table : list (N * string) :=\n  %s.\n\n'
            'Definition SECTION_COUNT_MAX : N := %s.\n'
            % (coq_list(strings(ids), per_line=6), coq_list(names, per_line=2), coq_list(dwo, per_line=2),
               coq_list(xcoff, per_line=2), coq_list(strings(iids), per_line=6), coq_list(sid, per_line=2),
               coq_list(v2, per_line=4), coq_list(v5, per_line=4), m.group(1)))
    T.write(outdir, 'SectionNames.v', text)



# ---- Loader.v ---------------------------------------------------------------------------------

def split_top(text, sep=','):
    out, depth, cur = [], 0, ''
    for c in text:
        if c in '({[<' and not (c == '<' and cur.endswith('<')):
            depth += 1
        elif c in ')}]>' and not (c == '>' and (cur.endswith('-') or cur.endswith('='))):
            depth -= 1
        if c == sep and depth == 0:
            out.append(cur)
            cur = ''
        else:
            cur += c
    if cur.strip():
        out.append(cur)
    return [x.strip() for x in out if x.strip()]


def struct_fields(src, name):
    m = re.search(r'pub\s+struct\s+' + name + r'\s*<[^{;]*?>\s*\{', src)
    if not m:
        raise Unparsed('struct %s not found' % name)
    i = m.end() - 1
    body = re.sub(r'#\[[^\]]*\]', '', src[i + 1:T.matching(src, i) - 1])
    out = []
    for item in split_top(body):
        f = re.fullmatch(r'pub\s+(\w+)\s*:\s*(\w+)\s*(?:<.*>)?', item, re.S)
        if not f:
            raise Unparsed('struct %s: field %r' % (name, item[:50]))
        out.append((f.group(1), f.group(2)))
    return out


def struct_literal(body, name):
    """the fields of the only `Name { ... }` literal of a function body: [(field, squeezed expr)]"""
    ms = list(re.finditer(r'(?<![\w:])' + name + r'\s*\{', body))
    if len(ms) != 1:
        raise Unparsed('%d literals of %s' % (len(ms), name))
    i = ms[0].end() - 1
    inner = body[i + 1:T.matching(body, i) - 1]
    out = []
    for item in split_top(inner):
        f = re.fullmatch(r'(\w+)\s*(?::(.*))?', item, re.S)
        if not f:
            raise Unparsed('literal of %s: %r' % (name, item[:50]))
        out.append((f.group(1), squeeze(f.group(2)) if f.group(2) is not None else f.group(1)))
    return out


def refs_of(expr, prefix):
    return re.findall(r'(?<![\w.])' + re.escape(prefix) + r'\.(\w+)', expr)


def section_impls(repo):
    out = []
    d = os.path.join(repo, 'src/read')
    for fn in sorted(os.listdir(d)):
        if not fn.endswith('.rs'):
            continue
        src = src_of(repo, 'src/read/' + fn)
        for m in re.finditer(r'impl\s*<[^>]*>\s*Section\s*<\s*R\s*>\s*for\s+(\w+)\s*<\s*R\s*>\s*\{', src):
            i = m.end() - 1
            blk = src[i:T.matching(src, i)]
            b = squeeze(T.fn_body(blk, r'fn\s+id\s*\(\s*\)\s*->\s*SectionId'))
            k = re.fullmatch(r'SectionId::(\w+)', b)
            if not k:
                raise Unparsed('Section::id of %s: %r' % (m.group(1), b))
            out.append((m.group(1), k.group(1)))
    if len(out) < 15 or len(set(t for t, _ in out)) != len(out):
        raise Unparsed('impl Section blocks: %d found' % len(out))
    return out


def gen_loader(repo, outdir):
    src = src_of(repo, 'src/read/dwarf.rs')
    impls = section_impls(repo)
    S = struct_fields(src, 'DwarfSections')
    D = struct_fields(src, 'Dwarf')
    PS = struct_fields(src, 'DwarfPackageSections')
    P = struct_fields(src, 'DwarfPackage')
    iS = impl_block(src, r'impl\s*<\s*T\s*>\s*DwarfSections\s*<\s*T\s*>')
    iD = impl_block(src, r'impl\s*<\s*T\s*>\s*Dwarf\s*<\s*T\s*>')
    iPS = impl_block(src, r'impl\s*<\s*T\s*>\s*DwarfPackageSections\s*<\s*T\s*>')
    iP = impl_block(src, r'impl\s*<\s*R\s*:\s*Reader\s*>\s*DwarfPackage\s*<\s*R\s*>')

    def lit_of(impl, fn_re, name, prefix):
        body = T.fn_body(impl, fn_re)
        return [(f, e, refs_of(e, prefix)) for f, e in struct_literal(body, name)]
    tabs = [
        ('dwarf_sections_load', 'DwarfSections::load', lit_of(iS, r'pub\s+fn\s+load\s*<', 'DwarfSections', 'self')),
        ('dwarf_sections_borrow', 'DwarfSections::borrow', lit_of(iS, r'pub\s+fn\s+borrow\s*<', 'DwarfSections', 'self')),
        ('dwarf_from_sections', 'Dwarf::from_sections', lit_of(iD, r'fn\s+from_sections\s*\(', 'Dwarf', 'sections')),
        ('dwarf_borrow', 'Dwarf::borrow', lit_of(iD, r'pub\s+fn\s+borrow\s*<', 'Dwarf', 'self')),
        ('package_sections_load', 'DwarfPackageSections::load', lit_of(iPS, r'pub\s+fn\s+load\s*<', 'DwarfPackageSections', 'self')),
        ('package_sections_borrow', 'DwarfPackageSections::borrow', lit_of(iPS, r'pub\s+fn\s+borrow\s*<', 'DwarfPackageSections', 'self')),
        ('package_from_sections', 'DwarfPackage::from_sections', lit_of(iP, r'fn\s+from_sections\s*\(', 'DwarfPackage', 'sections')),
    ]
    # Dwarf::load / DwarfPackage::load are compositions
    if squeeze(T.fn_body(iD, r'pub\s+fn\s+load\s*<')) != 'letsections=DwarfSections::load(section)?;Ok(Self::from_sections(sections))':
        raise Unparsed('Dwarf::load has an unexpected body')
    if squeeze(T.fn_body(iP, r'pub\s+fn\s+load\s*<')) != 'letsections=DwarfPackageSections::load(section)?;Ok(Self::from_sections(sections,empty)?)':
        raise Unparsed('DwarfPackage::load has an unexpected body')
    bws = squeeze(T.fn_body(iS, r'pub\s+fn\s+borrow_with_sup\s*<'))
    if bws != 'letmutdwarf=self.borrow(&mutborrow);ifletSome(sup)=sup{dwarf.set_sup(sup.borrow(&mutborrow));}dwarf':
        raise Unparsed('DwarfSections::borrow_with_sup has an unexpected body')
    # the borrow functions wrap their literal
    if not re.fullmatch(r'Dwarf::from_sections\(DwarfSections\{.*\}\)', squeeze(T.fn_body(iS, r'pub\s+fn\s+borrow\s*<')), re.S):
        raise Unparsed('DwarfSections::borrow is not Dwarf::from_sections(DwarfSections {..})')
    if not re.fullmatch(r'DwarfPackage::from_sections\(DwarfPackageSections\{.*\},empty,?\)',
                        squeeze(T.fn_body(iPS, r'pub\s+fn\s+borrow\s*<')), re.S):
        raise Unparsed('DwarfPackageSections::borrow is not DwarfPackage::from_sections(DwarfPackageSections {..}, empty)')
    for nm, impl, lit in (('DwarfSections::load', iS, 'DwarfSections'), ('DwarfPackageSections::load', iPS, 'DwarfPackageSections')):
        if not re.fullmatch(r'Ok\(' + lit + r'\{.*\}\)', squeeze(T.fn_body(impl, r'pub\s+fn\s+load\s*<')), re.S):
            raise Unparsed('%s is not Ok(%s {..})' % (nm, lit))

    # DwarfPackage::sections: kind -> variable prefix, and the dwp_range calls
    body = T.fn_body(iP, r'pub\s+fn\s+sections\s*\(')
    kinds = []
    for pats, expr in T.match_arms(body, r'section\.section'):
        e = squeeze(expr)
        m = re.fullmatch(r'\{(\w+)_offset=section\.offset;(\w+)_size=section\.size;\}', e)
        if len(pats) != 1 or not m or m.group(1) != m.group(2):
            raise Unparsed('DwarfPackage::sections arm %r => %r' % (pats, e))
        k = re.fullmatch(r'IndexSectionId::(\w+)', pats[0])
        if not k:
            raise Unparsed('DwarfPackage::sections pattern %r' % pats[0])
        kinds.append((k.group(1), m.group(1)))
    sq = squeeze(body)
    for _, v in kinds:
        if sq.count('letmut%s_offset=0;' % v) != 1 or sq.count('letmut%s_size=0;' % v) != 1:
            raise Unparsed('DwarfPackage::sections: %s_offset/%s_size are not initialised to 0 exactly once' % (v, v))
    ranges = re.findall(r'let(\w+)=self\.(\w+)\.dwp_range\((\w+)_offset,(\w+)_size\)\?;', sq)
    if len(ranges) != sq.count('dwp_range('):
        raise Unparsed('DwarfPackage::sections: a dwp_range call has an unexpected shape')
    lets = re.findall(r'let(\w+)=((?:self|parent)\.[\w.()]+);', sq)
    lets = [(a, b) for a, b in lets if '.dwp_range(' not in b]
    result = [(f, e, []) for f, e in struct_literal(body, 'Dwarf')]

    def tab3(rows):
        return coq_list(['(%s, (%s, %s))' % (coq_str(f), coq_str(e), coq_list(strings(r), per_line=4)) for f, e, r in rows])

    def tab2(rows, per_line=2):
        return coq_list([pair(coq_str(a), coq_str(b)) for a, b in rows], per_line=per_line)
    parts = ['(* `impl Section<R> for X<R> { fn id() }` of src/read/*.rs: (type, SectionId) *)\n'
             'Definition section_impls : list (string * string) :=\n  %s.\n' % tab2(impls),
             '(* struct fields, in declaration order: (field, head of its type) *)\n'
             'Definition dwarf_sections_fields : list (string * string) :=\n  %s.\n' % tab2(S),
             'Definition dwarf_fields : list (string * string) :=\n  %s.\n' % tab2(D),
             'Definition package_sections_fields : list (string * string) :=\n  %s.\n' % tab2(PS),
             'Definition package_fields : list (string * string) :=\n  %s.\n' % tab2(P),
             '(* struct literals: (field, (expression without white space, the `self.<x>` / `sections.<x>` it mentions)) *)']
    for nm, what, rows in tabs:
        parts.append('(* %s *)\nDefinition %s : list (string * (string * list string)) :=\n  %s.\n' % (what, nm, tab3(rows)))
    parts.append('(* DwarfPackage::sections: `IndexSectionId::K => { v_offset = section.offset; v_size = section.size; }` : (K, v) *)\n'
                 'Definition package_kind_vars : list (string * string) :=\n  %s.\n' % tab2(kinds))
    parts.append('(* `let x = self.f.dwp_range(v_offset, w_size)?;` : (x, (f, (v, w))) *)\n'
                 'Definition package_ranges : list (string * (string * (string * string))) :=\n  %s.\n'
                 % coq_list(['(%s, (%s, (%s, %s)))' % tuple(coq_str(t) for t in r) for r in ranges]))
    parts.append('(* the other `let x = self.../parent...;` bindings *)\n'
                 'Definition package_lets : list (string * string) :=\n  %s.\n' % tab2(lets, per_line=1))
    parts.append('(* the Dwarf { .. } literal returned by DwarfPackage::sections (a bare field name is the local of that name) *)\n'
                 'Definition package_unit_literal : list (string * string) :=\n  %s.\n' % tab2([(f, e) for f, e, _ in result]))
    text = (HEADER % 'src/read/dwarf.rs (loader wiring), src/read/*.rs (impl Section)' +
            'From Coq Require Import List String.\nImport ListNotations.\nLocal Open Scope string_scope.\n\n' + '\n'.join(parts))
    T.write(outdir, 'Loader.v', text)



# ---- OpTable.v --------------------------------------------------------------------------------

READ_RE = r'(?:bytes|input)\.(read_\w+|split)\('


def gen_op_table(repo, outdir):
    consts = all_constants(repo)
    src = src_of(repo, 'src/read/op.rs')
    body = T.fn_body(src, r'pub\s+fn\s+parse\s*\(\s*bytes\s*:\s*&mut\s+R\s*,\s*encoding\s*:\s*Encoding\s*\)\s*->\s*Result<Operation<R,\s*Offset>>')
    if not re.fullmatch(r'letopcode=bytes\.read_u8\(\)\?;letname=constants::DwOp\(opcode\);matchname\{.*\}', squeeze(body), re.S):
        raise Unparsed('Operation::parse has an unexpected frame')
    rows, seen, default = [], set(), False
    for pats, expr in T.match_arms(body, 'name'):
        e = squeeze(expr)
        if pats == ['_']:
            if e != 'Err(Error::InvalidExpression(name))':
                raise Unparsed('wildcard arm of Operation::parse: %r' % e[:60])
            default = True
            continue
        if default:
            raise Unparsed('arm after the wildcard')
        vals = T.pat_values(pats, consts, 'DW_OP_')
        ctors = []
        for c in re.findall(r'Operation::(\w+)', e):
            if c not in ctors:
                ctors.append(c)
        if not ctors:
            raise Unparsed('arm %r builds no Operation' % pats[0])
        branching = re.search(r'(?<!\w)(if|match)(?!\w)', expr) is not None
        reads = re.findall(READ_RE, e)
        for v in vals:
            if v in seen or v > 255:
                raise Unparsed('opcode %d' % v)
            seen.add(v)
            rows.append('(%d, (%s, %s))' % (v, coq_list(strings(ctors), per_line=8),
                                            'None' if branching else 'Some ' + coq_list(strings(reads), per_line=8)))
    if not default:
        raise Unparsed('Operation::parse has no wildcard arm')
    text = (HEADER % 'src/read/op.rs (Operation::parse)' +
            'From Coq Require Import List NArith String.\nImport ListNotations.\nLocal Open Scope string_scope.\nLocal Open Scope N_scope.\n\n'
            '(* opcode -> (the Operation variants its arm can build, the reader calls of the arm in order;\n'
            '   None when the arm branches).  Opcodes not listed: Err(InvalidExpression). *)\n'
            'Definition op_table : list (N * (list string * option (list string))) :=\n  %s.\n' % coq_list(rows))
    T.write(outdir, 'OpTable.v', text)


# ---- CfiTable.v -------------------------------------------------------------------------------

def gen_cfi_table(repo, outdir):
    consts = all_constants(repo)
    src = src_of(repo, 'src/read/cfi.rs')
    m = re.search(r'const\s+CFI_INSTRUCTION_HIGH_BITS_MASK\s*:\s*u8\s*=\s*([0-9a-fA-Fxb_]+)\s*;', src)
    if not m or not re.search(r'const\s+CFI_INSTRUCTION_LOW_BITS_MASK\s*:\s*u8\s*=\s*!\s*CFI_INSTRUCTION_HIGH_BITS_MASK\s*;', src):
        raise Unparsed('CFI_INSTRUCTION_*_BITS_MASK not found')
    mask = lit(m.group(1))
    impl = impl_block(src, r'impl\s*<\s*T\s*:\s*ReaderOffset\s*>\s*CallFrameInstruction\s*<\s*T\s*>')
    body = T.fn_body(impl, r'fn\s+parse\s*<\s*R\s*:\s*Reader<Offset\s*=\s*T>\s*>\s*\(')
    sq = squeeze(body)
    head = re.match(r'letinstruction=input\.read_u8\(\)\?;lethigh_bits=instruction&CFI_INSTRUCTION_HIGH_BITS_MASK;', sq)
    if not head:
        raise Unparsed('CallFrameInstruction::parse has an unexpected head')
    k = head.end()
    high = []
    while sq.startswith('ifhigh_bits==', k):
        c = re.match(r'ifhigh_bits==constants::(DW_CFA_\w+)\.0\{', sq[k:])
        if not c or c.group(1) not in consts:
            raise Unparsed('high-bits test %r' % sq[k:k + 60])
        b0 = k + c.end() - 1
        b1 = T.matching(sq, b0)
        blk = sq[b0:b1]
        cs = set(re.findall(r'returnOk\(CallFrameInstruction::(\w+)', blk))
        if len(cs) != 1:
            raise Unparsed('high-bits block of %s' % c.group(1))
        high.append((consts[c.group(1)], cs.pop(), re.findall(READ_RE, blk)))
        k = b1
    if not sq.startswith('debug_assert_eq!(high_bits,0);letinstruction=constants::DwCfa(instruction);matchinstruction{', k):
        raise Unparsed('CallFrameInstruction::parse: unexpected text after the high-bits tests')
    rows, default = [], False
    for pats, expr in T.match_arms(body, 'instruction'):
        e = squeeze(expr)
        if pats == ['otherwise']:
            if e != 'Err(Error::UnknownCallFrameInstruction(otherwise))':
                raise Unparsed('last arm %r' % e[:60])
            default = True
            continue
        if default or len(pats) != 1:
            raise Unparsed('arm %r' % pats)
        g = re.fullmatch(r'(?:constants::)?(DW_CFA_\w+)(?:\s+if\s+vendor\s*==\s*Vendor::(\w+))?', pats[0].strip())
        if not g or g.group(1) not in consts:
            raise Unparsed('pattern %r' % pats[0])
        cs = set(re.findall(r'CallFrameInstruction::(\w+)', e))
        if len(cs) != 1:
            raise Unparsed('arm of %s builds %d variants' % (g.group(1), len(cs)))
        rows.append('(%d, (%s, %s))' % (consts[g.group(1)], coq_str(cs.pop()), coq_str(g.group(2) or '')))
    if not default:
        raise Unparsed('no catch-all arm')
    text = (HEADER % 'src/read/cfi.rs (CallFrameInstruction::parse)' +
            'From Coq Require Import List NArith String.\nImport ListNotations.\nLocal Open Scope string_scope.\nLocal Open Scope N_scope.\n\n'
            'Definition high_bits_mask : N := %d.\n\n'
            '(* `if high_bits == DW_CFA_x.0 { .. return Ok(CallFrameInstruction::V ..) }`, in source order: (value, V) *)\n'
            'Definition high_table : list (N * string) :=\n  %s.\n\n'
            '(* the match on the whole byte: (opcode, (variant, vendor guard or "")); not listed: Err(UnknownCallFrameInstruction) *)\n'
            'Definition low_table : list (N * (string * string)) :=\n  %s.\n'
            % (mask, coq_list(['(%d, %s)' % (v, coq_str(c)) for v, c, _ in high], per_line=3), coq_list(rows, per_line=2)))
    T.write(outdir, 'CfiTable.v', text)



# ---- LineTable.v ------------------------------------------------------------------------------

def gen_line_table(repo, outdir):
    consts = all_constants(repo)
    src = src_of(repo, 'src/read/line.rs')
    impl = impl_block(src, r'impl\s*<\s*R\s*,\s*Offset\s*>\s*LineInstruction\s*<\s*R\s*,\s*Offset\s*>\s*where[^{]*')
    body = T.fn_body(impl, r"fn\s+parse\s*<\s*'header\s*>\s*\(")
    sq = squeeze(body)
    fr = re.fullmatch(r'letopcode=input\.read_u8\(\)\?;ifopcode==0\{letlength=input\.read_uleb128\(\)\.and_then\(R::Offset::from_u64\)\?;'
                      r'letmutinstr_rest=input\.split\(length\)\?;letopcode=instr_rest\.read_u8\(\)\?;matchconstants::DwLne\(opcode\)\{.*\}\}'
                      r'elseifopcode>=header\.opcode_base\{Ok\(LineInstruction::Special\(opcode\)\)\}'
                      r'else\{matchconstants::DwLns\(opcode\)\{.*\}\}', sq, re.S)
    if not fr:
        raise Unparsed('LineInstruction::parse has an unexpected frame')

    def table(scrut, prefix, other_ctors):
        rows, default = [], None
        for pats, expr in T.match_arms(body, scrut):
            e = squeeze(expr)
            cs = []
            for c in re.findall(r'LineInstruction::(\w+)', e):
                if c not in cs:
                    cs.append(c)
            if pats == ['otherwise']:
                if cs != other_ctors:
                    raise Unparsed('catch-all arm of the %s match builds %r' % (prefix, cs))
                default = cs
                continue
            if default is not None or not cs:
                raise Unparsed('arm %r' % pats)
            for v in T.pat_values(pats, consts, prefix):
                rows.append('(%d, %s)' % (v, coq_list(strings(cs), per_line=4)))
        if default is None:
            raise Unparsed('no catch-all arm in the %s match' % prefix)
        return rows
    ext = table(r'constants::DwLne\(\s*opcode\s*\)', 'DW_LNE_', ['UnknownExtended'])
    std = table(r'constants::DwLns\(\s*opcode\s*\)', 'DW_LNS_', ['UnknownStandard0', 'UnknownStandard1', 'UnknownStandardN'])
    text = (HEADER % 'src/read/line.rs (LineInstruction::parse)' +
            'From Coq Require Import List NArith String.\nImport ListNotations.\nLocal Open Scope string_scope.\nLocal Open Scope N_scope.\n\n'
            '(* opcode 0: extended opcode -> the LineInstruction variants its arm can build; not listed: UnknownExtended *)\n'
            'Definition extended_table : list (N * list string) :=\n  %s.\n\n'
            '(* 0 < opcode < opcode_base: standard opcode -> variant; not listed: UnknownStandard0/1/N by standard_opcode_lengths.\n'
            '   opcode >= opcode_base: Special *)\n'
            'Definition standard_table : list (N * list string) :=\n  %s.\n'
            % (coq_list(ext, per_line=2), coq_list(std, per_line=3)))
    T.write(outdir, 'LineTable.v', text)


# ---- CaseFold.v -------------------------------------------------------------------------------

def gen_case_fold(repo, outdir):
    src = src_of(repo, 'src/case_fold.rs')
    if squeeze(T.fn_body(src, r'fn\s+case_fold_data\s*\(\s*c\s*:\s*char\s*\)\s*->\s*char')) != \
            'matchCASE_FOLD_DATA.binary_search_by(|&(key,_)|key.cmp(&c)){Ok(i)=>CASE_FOLD_DATA[i].1,Err(_)=>c,}':
        raise Unparsed('case_fold_data has an unexpected body')
    if 'include!("case_fold_data.rs");' not in src:
        raise Unparsed('case_fold.rs does not include case_fold_data.rs')
    data = open(os.path.join(repo, 'src/case_fold_data.rs')).read()   # char literals: do not strip `//`
    m = re.search(r'CASE_FOLD_DATA\s*:\s*&?\s*\[\s*\(\s*char\s*,\s*char\s*\)\s*;\s*(\d+)\s*\]\s*=\s*&?\s*\[', data)
    if not m:
        raise Unparsed('CASE_FOLD_DATA not found')
    i = m.end() - 1
    inner = data[i + 1:T.matching(data, i, '[', ']') - 1]
    pairs = re.findall(r"\(\s*'(\\u\{[0-9a-fA-F]+\}|[^'\\])'\s*,\s*'(\\u\{[0-9a-fA-F]+\}|[^'\\])'\s*\)", inner)

    def cp(t):
        return int(t[3:-1], 16) if t.startswith('\\u') else ord(t)
    if len(pairs) != int(m.group(1)) or re.sub(r"\(\s*'(?:\\u\{[0-9a-fA-F]+\}|[^'\\])'\s*,\s*'(?:\\u\{[0-9a-fA-F]+\}|[^'\\])'\s*\)|[\s,]", '', inner):
        raise Unparsed('CASE_FOLD_DATA: %d pairs parsed, %s declared' % (len(pairs), m.group(1)))
    rows = ['(%d, %d)' % (cp(a), cp(b)) for a, b in pairs]
    text = (HEADER % 'src/case_fold_data.rs (CASE_FOLD_DATA), src/case_fold.rs (case_fold_data)' +
            'From Coq Require Import List NArith.\nImport ListNotations.\nLocal Open Scope N_scope.\n\n'
            '(* (scalar value, folded scalar value); case_fold_data binary-searches the first components *)\n'
            'Definition case_fold_data : list (N * N) :=\n  %s.\n' % coq_list(rows, per_line=8))
    T.write(outdir, 'CaseFold.v', text)



# ---- EncodedValue.v ---------------------------------------------------------------------------

def gen_encoded_value(repo, outdir):
    consts = all_constants(repo)
    src = src_of(repo, 'src/read/cfi.rs')
    body = T.fn_body(src, r'fn\s+parse_encoded_value\s*<\s*R\s*:\s*Reader\s*>\s*\(\s*encoding\s*:\s*constants::DwEhPe\s*,')
    if not re.fullmatch(r'matchencoding\.format\(\)\{.*\}', squeeze(body), re.S):
        raise Unparsed('parse_encoded_value is not a single match on encoding.format()')
    rows, default = [], False
    for pats, expr in T.match_arms(body, r'encoding\.format\(\)'):
        e = squeeze(expr)
        if pats == ['_']:
            if e != 'unreachable!()':
                raise Unparsed('wildcard arm %r' % e)
            default = True
            continue
        if default or len(pats) != 1:
            raise Unparsed('arm %r' % pats)
        m = re.fullmatch(r'input\.(read_\w+)\((parameters\.address_size)?\)(?:\.map\((u64::from|\|a\|aasu64)\))?', e)
        if not m or (m.group(1) == 'read_address') != (m.group(2) is not None):
            raise Unparsed('arm expression %r' % e)
        cast = {None: '', 'u64::from': 'u64::from', '|a|aasu64': 'as u64'}[m.group(3)]
        for v in T.pat_values(pats, consts, 'DW_EH_PE_'):
            rows.append('(%d, (%s, %s))' % (v, coq_str(m.group(1)), coq_str(cast)))
    if not default:
        raise Unparsed('no wildcard arm')
    text = (HEADER % 'src/read/cfi.rs (parse_encoded_value)' +
            'From Coq Require Import List NArith String.\nImport ListNotations.\nLocal Open Scope string_scope.\nLocal Open Scope N_scope.\n\n'
            '(* encoding.format() value -> (reader method, conversion to u64: "" | "u64::from" | "as u64");\n'
            '   other formats: unreachable!() *)\n'
            'Definition encoded_value_table : list (N * (string * string)) :=\n  %s.\n' % coq_list(rows, per_line=2))
    T.write(outdir, 'EncodedValue.v', text)


JOBS = [
    ('Constants', gen_constants),
    ('EhPe', gen_ehpe),
    ('BackEdge', gen_back_edge),
    ('ValueType', gen_value_type),
    ('SectionNames', gen_section_names),
    ('Loader', gen_loader),
    ('OpTable', gen_op_table),
    ('CfiTable', gen_cfi_table),
    ('LineTable', gen_line_table),
    ('CaseFold', gen_case_fold),
    ('EncodedValue', gen_encoded_value),
]
