#!/usr/bin/env python3
"""translate/tables.py <repo> <outdir> — translator tie (DESIGN §1.2 item 2).

Re-reads the Rust sources and regenerates the table-shaped parts of the model as Coq functions:

  <outdir>/FormCodes.v       DW_FORM_* values of src/constants.rs, as a function of Spec.FormSpec.form
  <outdir>/FormSize.v        get_attribute_size      (src/read/abbrev.rs)
  <outdir>/AllowSecOffset.v  allow_section_offset    (src/read/unit.rs)
  <outdir>/AttrValueTable.v  the name -> class-macro table of Attribute::value (src/read/unit.rs)

The hand-written model does not use these files; Proofs/GenAgree.v proves that they are equal to the
hand-written tables. A function whose shape this script does not understand is skipped with a
warning (its previously generated file, if any, is left alone) and the script still exits 0: the
correspondence streams cover the same finite domains exhaustively.
"""
import os
import re
import sys

WARNINGS = []


def warn(msg):
    WARNINGS.append(msg)
    print('tables.py: WARNING: ' + msg)


class Unparsed(Exception):
    pass


def strip_comments(src):
    src = re.sub(r'/\*.*?\*/', '', src, flags=re.S)
    src = re.sub(r'//[^\n]*', '', src)
    return src


def matching(src, i, open_c='{', close_c='}'):
    """index just after the bracket matching src[i] (which must be open_c)"""
    assert src[i] == open_c
    depth = 0
    while i < len(src):
        c = src[i]
        if c == open_c:
            depth += 1
        elif c == close_c:
            depth -= 1
            if depth == 0:
                return i + 1
        i += 1
    raise Unparsed('unbalanced brackets')


def fn_body(src, signature_re):
    m = re.search(signature_re, src)
    if not m:
        raise Unparsed('signature %r not found' % signature_re)
    i = src.index('{', m.end())
    j = matching(src, i)
    return src[i + 1:j - 1]


def match_arms(body, scrutinee_re):
    """arms of the first `match <scrutinee> {` in body: list of (patterns, expr_text)"""
    m = re.search(r'match\s+' + scrutinee_re + r'\s*\{', body)
    if not m:
        raise Unparsed('match on %s not found' % scrutinee_re)
    i = m.end() - 1
    j = matching(body, i)
    inner = body[i + 1:j - 1]
    arms = []
    k = 0
    n = len(inner)
    while True:
        while k < n and inner[k] in ' \t\r\n,':
            k += 1
        if k >= n:
            break
        a = inner.find('=>', k)
        if a < 0:
            raise Unparsed('arm without =>')
        pats = [p.strip() for p in inner[k:a].split('|')]
        k = a + 2
        while k < n and inner[k] in ' \t\r\n':
            k += 1
        if k < n and inner[k] == '{':
            e = matching(inner, k)
            expr = inner[k:e]
            k = e
        else:
            depth = 0
            e = k
            while e < n:
                c = inner[e]
                if c in '({[':
                    depth += 1
                elif c in ')}]':
                    depth -= 1
                elif c == ',' and depth == 0:
                    break
                e += 1
            expr = inner[k:e]
            k = e
        arms.append((pats, expr.strip()))
    return arms


def constants(repo, struct):
    src = strip_comments(open(os.path.join(repo, 'src/constants.rs')).read())
    m = re.search(re.escape(struct) + r'\s*\{', src)
    if not m:
        raise Unparsed('constants block %s not found' % struct)
    i = m.end() - 1
    j = matching(src, i)
    out = {}
    for name, val in re.findall(r'(\w+)\s*=\s*(0x[0-9a-fA-F_]+|\d[\d_]*)', src[i + 1:j - 1]):
        out[name] = int(val.replace('_', ''), 0)
    # aliases { ... } directly after the block
    rest = src[j:j + 4000]
    ma = re.match(r'\s*,\s*aliases\s*\{', rest)
    if ma:
        a0 = j + ma.end() - 1
        a1 = matching(src, a0)
        for name, val in re.findall(r'(\w+)\s*=\s*(0x[0-9a-fA-F_]+|\d[\d_]*)', src[a0 + 1:a1 - 1]):
            out.setdefault(name, int(val.replace('_', ''), 0))
    return out


def pat_values(pats, consts, prefix):
    """numeric values of constant patterns; None for the wildcard arm"""
    vals = []
    for p in pats:
        if p == '_':
            return None
        m = re.fullmatch(r'(?:constants::)?(' + prefix + r'\w+)', p)
        if not m or m.group(1) not in consts:
            raise Unparsed('pattern %r' % p)
        vals.append(consts[m.group(1)])
    return vals


# ---- a tiny expression translator (whitespace-free text) -------------------------------------

def tr_size_expr(t):
    """Option<u8> expressions of get_attribute_size"""
    t = t.strip()
    while t.startswith('{') and matching(t, 0) == len(t):
        t = t[1:-1].strip()
    t0 = re.sub(r'\s+', '', t)
    if t0 == 'None':
        return 'None'
    m = re.fullmatch(r'Some\((.*)\)', t0, flags=re.S)
    if m:
        return 'Some (%s)' % tr_u8(m.group(1))
    raise Unparsed('size expression %r' % t0)


def tr_u8(t):
    if re.fullmatch(r'\d+', t):
        return t
    if t == 'encoding.address_size':
        return 'address_size e'
    if t == 'encoding.format.word_size()':
        return 'word_size (fmt64 e)'
    m = re.fullmatch(r'if(.+?)\{(.+)\}else\{(.+)\}', t)
    if m:
        return 'if %s then %s else %s' % (tr_cond(m.group(1), 'encoding.version', 'version e'),
                                          tr_u8(m.group(2)), tr_u8(m.group(3)))
    raise Unparsed('u8 expression %r' % t)


def tr_cond(t, var, coqvar):
    """boolean combinations of comparisons of `var` with literals"""
    t = re.sub(r'\s+', '', t)
    if '||' in t:
        return ' || '.join('(%s)' % tr_cond(x, var, coqvar) for x in t.split('||'))
    if '&&' in t:
        return ' && '.join('(%s)' % tr_cond(x, var, coqvar) for x in t.split('&&'))
    if t == 'true' or t == 'false':
        return t
    m = re.fullmatch(re.escape(var) + r'(==|<=|<|>=|>|!=)(\d+)', t)
    if not m:
        raise Unparsed('condition %r' % t)
    op, k = m.group(1), m.group(2)
    return {'==': '%s =? %s', '<=': '%s <=? %s', '<': '%s <? %s', '>=': '%s <=? %s', '>': '%s <? %s',
            '!=': 'negb (%s =? %s)'}[op] % ((coqvar, k) if op in ('==', '<=', '<', '!=') else (k, coqvar))


def chain(var, arms, default):
    """if-chain over (values, expr) arms"""
    lines = []
    for vals, expr in arms:
        cond = ' || '.join('(%s =? %d)' % (var, v) for v in vals)
        lines.append('  if %s then %s\n  else' % (cond, expr))
    return '\n'.join(lines) + ' ' + default + '.'


HEADER = '(* GENERATED by translate/tables.py from %s — do not edit; regenerated on every ./check run *)\n'


def write(outdir, name, text):
    path = os.path.join(outdir, name)
    old = open(path).read() if os.path.exists(path) else None
    if old != text:
        with open(path, 'w') as f:
            f.write(text)
    print('tables.py: wrote %s' % path)


# ---- FormCodes.v ------------------------------------------------------------------------------

def gen_form_codes(repo, outdir, verif_root):
    forms = constants(repo, 'DwForm(u16)')
    spec = open(os.path.join(verif_root, 'coq/Spec/FormSpec.v')).read()
    m = re.search(r'Inductive form : Type :=(.*?)\.\n', spec, re.S)
    if not m:
        raise Unparsed('Inductive form not found in FormSpec.v')
    ctors = re.findall(r'\|\s*(F_\w+)', m.group(1))
    arms = []
    for c in ctors:
        rn = 'DW_FORM_' + c[2:]
        if rn not in forms:
            raise Unparsed('constants.rs has no %s' % rn)
        arms.append('  | %s => %d' % (c, forms[rn]))
    text = (HEADER % 'src/constants.rs (dw!(DwForm ...))' +
            'From Coq Require Import NArith.\nRequire Import GV.Spec.FormSpec.\nLocal Open Scope N_scope.\n\n'
            '(* value of the Rust constant DW_FORM_<x> for the constructor F_<x> *)\n'
            'Definition rust_form_code (f : form) : N :=\n  match f with\n' + '\n'.join(arms) + '\n  end.\n')
    write(outdir, 'FormCodes.v', text)


# ---- FormSize.v -------------------------------------------------------------------------------

def gen_form_size(repo, outdir):
    forms = constants(repo, 'DwForm(u16)')
    src = strip_comments(open(os.path.join(repo, 'src/read/abbrev.rs')).read())
    body = fn_body(src, r'fn\s+get_attribute_size\s*\(\s*form\s*:\s*constants::DwForm\s*,\s*encoding\s*:\s*Encoding\s*\)\s*->\s*Option<u8>')
    arms = match_arms(body, 'form')
    out, default = [], None
    for pats, expr in arms:
        vals = pat_values(pats, forms, 'DW_FORM_')
        e = tr_size_expr(expr)
        if vals is None:
            default = e
            break
        out.append((vals, e))
    if default is None:
        raise Unparsed('get_attribute_size: no wildcard arm')
    text = (HEADER % 'src/read/abbrev.rs (get_attribute_size)' +
            'From Coq Require Import NArith Bool.\nRequire Import GV.Model.Prim GV.Spec.FormSpec.\nLocal Open Scope N_scope.\n\n'
            'Definition get_attribute_size (form : N) (e : enc) : option N :=\n' + chain('form', out, default) + '\n')
    write(outdir, 'FormSize.v', text)


# ---- AllowSecOffset.v -------------------------------------------------------------------------

def gen_allow(repo, outdir):
    ats = constants(repo, 'DwAt(u16)')
    src = strip_comments(open(os.path.join(repo, 'src/read/unit.rs')).read())
    body = fn_body(src, r'fn\s+allow_section_offset\s*\(\s*name\s*:\s*constants::DwAt\s*,\s*version\s*:\s*u16\s*\)\s*->\s*bool')
    arms = match_arms(body, 'name')
    out, default = [], None
    for pats, expr in arms:
        vals = pat_values(pats, ats, 'DW_AT_')
        e = tr_cond(expr, 'version', 'ver')
        if vals is None:
            default = e
            break
        out.append((vals, e))
    if default is None:
        raise Unparsed('allow_section_offset: no wildcard arm')
    text = (HEADER % 'src/read/unit.rs (allow_section_offset)' +
            'From Coq Require Import NArith Bool.\nLocal Open Scope N_scope.\n\n'
            'Definition allow_section_offset (name ver : N) : bool :=\n' + chain('name', out, default) + '\n')
    write(outdir, 'AllowSecOffset.v', text)


# ---- AttrValueTable.v -------------------------------------------------------------------------

U8 = {'Ordering', 'Visibility', 'Inline', 'Accessibility', 'CallingConvention', 'Encoding', 'IdentifierCase',
      'Virtuality', 'DecimalSign', 'Endianity'}
UD = {'Udata', 'FileIndex', 'AddressClass', 'DwoId'}
OFF = {'DebugAddrBase': 'OAddrBase', 'DebugLineRef': 'OLineRef', 'LocationListsRef': 'OLocationListsRef',
       'DebugLocListsBase': 'OLocListsBase', 'DebugMacinfoRef': 'OMacinfoRef', 'DebugMacroRef': 'OMacroRef',
       'RangeListsRef': 'ORangeListsRef', 'DebugRngListsBase': 'ORngListsBase',
       'DebugStrOffsetsBase': 'OStrOffsetsBase'}


def conv_of(value_fn, variant):
    if value_fn == 'u8_value' and variant in U8:
        return 'CU8 U8' + variant
    if value_fn == 'u16_value' and variant == 'Language':
        return 'CU16Language'
    if value_fn == 'udata_value' and variant in UD:
        return 'CUdata U' + variant
    if value_fn == 'exprloc_value' and variant == 'Exprloc':
        return 'CExprloc'
    if value_fn == 'offset_value' and variant in OFF:
        return 'COffset ' + OFF[variant]
    raise Unparsed('conversion (%s, %s)' % (value_fn, variant))


def gen_value_table(repo, outdir):
    ats = constants(repo, 'DwAt(u16)')
    src = strip_comments(open(os.path.join(repo, 'src/read/unit.rs')).read())
    body = fn_body(src, r'pub\s+fn\s+value\s*\(\s*&self\s*\)\s*->\s*AttributeValue<R>')
    # macro definitions: name -> conv | None (expands to nothing) | 'constant'
    macros = {}
    for m in re.finditer(r'macro_rules!\s*(\w+)\s*\{', body):
        i = m.end() - 1
        j = matching(body, i)
        text = re.sub(r'\s+', '', body[i + 1:j - 1])
        name = m.group(1)
        if name == 'constant':
            if 'self.$value()' not in text or 'AttributeValue::$variant(' not in text or 'return' not in text:
                raise Unparsed('constant! macro has an unexpected body')
            macros[name] = 'constant'
        elif re.fullmatch(r'\(\)=>\{\};?', text):
            macros[name] = None
        else:
            fns = set(re.findall(r'self\.(\w+)\(\)', text))
            vs = set(re.findall(r'returnAttributeValue::(\w+)\(', text))
            if len(fns) != 1 or len(vs) != 1 or not text.startswith('()=>{iflet'):
                raise Unparsed('macro %s! has an unexpected body' % name)
            macros[name] = conv_of(fns.pop(), vs.pop())
    arms = match_arms(body, r'self\.name')
    table = {}
    for pats, expr in arms:
        vals = pat_values(pats, ats, 'DW_AT_')
        stmts = re.sub(r'\s+', '', expr.strip()[1:-1] if expr.strip().startswith('{') else expr)
        convs = []
        k = 0
        while k < len(stmts):
            m = re.match(r'(\w+)!\(([^()]*)\);', stmts[k:])
            if not m:
                raise Unparsed('statement %r in Attribute::value' % stmts[k:k + 40])
            name, args = m.group(1), [a for a in m.group(2).split(',') if a]
            if name not in macros:
                raise Unparsed('unknown macro %s!' % name)
            if macros[name] == 'constant':
                if len(args) not in (2, 3):
                    raise Unparsed('constant! arity')
                convs.append(conv_of(args[0], args[1]))
            elif macros[name] is not None:
                convs.append(macros[name])
            k += m.end()
        if vals is None:
            if convs:
                raise Unparsed('wildcard arm of Attribute::value does something')
            break
        for v in vals:
            table.setdefault(v, convs)
    lines = ['  | %d => [%s]' % (v, '; '.join(c)) for v, c in sorted(table.items()) if c]
    text = (HEADER % 'src/read/unit.rs (Attribute::value)' +
            'From Coq Require Import List NArith.\nRequire Import GV.Model.Attr.\nImport ListNotations.\nLocal Open Scope N_scope.\n\n'
            '(* the macro invocations that expand to something, per attribute name, in source order *)\n'
            'Definition name_convs (name : N) : list conv :=\n  match name with\n' + '\n'.join(lines) +
            '\n  | _ => []\n  end.\n')
    write(outdir, 'AttrValueTable.v', text)


def main():
    if len(sys.argv) != 3:
        print(__doc__)
        return 2
    repo, outdir = sys.argv[1], sys.argv[2]
    verif_root = os.path.dirname(os.path.dirname(os.path.abspath(__file__)))
    os.makedirs(outdir, exist_ok=True)
    jobs = [('FormCodes.v', lambda: gen_form_codes(repo, outdir, verif_root)),
            ('FormSize.v', lambda: gen_form_size(repo, outdir)),
            ('AllowSecOffset.v', lambda: gen_allow(repo, outdir)),
            ('AttrValueTable.v', lambda: gen_value_table(repo, outdir))]
    status = {}
    for name, job in jobs:
        try:
            job()
            status[name[:-2]] = 'ok'
        except (Unparsed, OSError, AssertionError, ValueError, IndexError, KeyError) as ex:
            status[name[:-2]] = 'unavailable'
            warn('%s not regenerated (%s: %s); translator tie unavailable for it, the correspondence '
                 'streams still cover the table' % (name, type(ex).__name__, ex))
    # further tables (translate/gentie.py): one Gen file per table; a table that cannot be parsed is REMOVED
    # (never stale), ./check then skips the Properties/<Cxx>_tie*.v companions that need it
    try:
        sys.path.insert(0, os.path.dirname(os.path.abspath(__file__)))
        import gentie
        extra = gentie.JOBS
    except Exception as ex:  # a broken generator module must not crash the check
        extra = []
        warn('translate/gentie.py could not be loaded (%s: %s)' % (type(ex).__name__, ex))
    for name, job in extra:
        try:
            job(repo, outdir)
            status[name] = 'ok'
        except Exception as ex:
            status[name] = 'unavailable'
            for ext in ('.v', '.vo', '.vok', '.vos', '.glob'):
                p = os.path.join(outdir, name + ext)
                if os.path.exists(p):
                    os.remove(p)
            warn('%s.v not generated and removed (%s: %s); translator tie unavailable for it'
                 % (name, type(ex).__name__, ex))
    import json
    print('tables.py: STATUS ' + json.dumps(status, sort_keys=True))
    return 0


if __name__ == '__main__':
    sys.exit(main())
