(* Base/Bytes.v — bytes are Coq.Init.Byte.byte (256 constructors), so "all byte
   strings" is `forall bs : list byte` with no side condition. *)
From Coq Require Import List NArith ZArith Lia.
From Coq.Strings Require Import Byte.
Import ListNotations.

Definition b2n (b : byte) : N := Byte.to_N b.

(* total: reduces modulo 256 *)
Definition n2b (n : N) : byte :=
  match Byte.of_N (n mod 256) with Some b => b | None => x00 end.

Lemma b2n_lt (b : byte) : (b2n b < 256)%N.
Proof. unfold b2n. pose proof (Byte.to_N_bounded b). lia. Qed.

Lemma n2b_b2n (b : byte) : n2b (b2n b) = b.
Proof.
  unfold n2b, b2n. rewrite N.mod_small by (pose proof (Byte.to_N_bounded b); lia).
  now rewrite Byte.of_to_N.
Qed.

Lemma b2n_n2b (n : N) : b2n (n2b n) = (n mod 256)%N.
Proof.
  unfold n2b, b2n.
  assert (H : (n mod 256 < 256)%N) by (apply N.mod_lt; lia).
  destruct (Byte.of_N (n mod 256)) eqn:E.
  - now apply Byte.to_of_N in E.
  - apply Byte.of_N_None_iff in E. lia.
Qed.

Lemma b2n_n2b_small (n : N) : (n < 256)%N -> b2n (n2b n) = n.
Proof. intros. rewrite b2n_n2b. now apply N.mod_small. Qed.

Lemma b2n_inj a b : b2n a = b2n b -> a = b.
Proof. intros H. rewrite <- (n2b_b2n a), <- (n2b_b2n b). now rewrite H. Qed.

Definition bytes_eqb (a b : list byte) : bool :=
  if list_eq_dec Byte.byte_eq_dec a b then true else false.
