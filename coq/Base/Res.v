(* Base/Res.v — outcome type shared by every model function (DESIGN §2).
   No proofs here beyond trivial monad laws; models must stay runnable. *)
From Coq Require Import List NArith ZArith Bool.
Import ListNotations.

(* Error variants the properties distinguish. Names equal the Rust variant
   names of gimli::read::Error / write::Error / write::ConvertError with an
   E/W/C prefix; ocaml/errnames.ml is generated from this block. *)
Inductive error : Type :=
| EUnexpectedEof | EBadUnsignedLeb128 | EBadSignedLeb128
| EUnknownReservedLength | EUnsupportedAddressSize | EUnsupportedOffsetSize
| EUnsupportedOffset | EAddressOverflow
| EAbbreviationTagZero | EAttributeNameZero | EAttributeFormZero
| EInvalidAbbreviationChildren | EUnknownForm | EDuplicateAbbreviationCode
| EUnknownVersion | EInvalidAbbreviationCode | EInvalidImplicitConst
| EUnknownLocListsEntry | EUnknownRangeListsEntry
| EMinimumInstructionLengthZero | EMaximumOperationsPerInstructionZero
| ELineRangeZero | EOpcodeBaseZero | EBadUtf8
| ENotCieId | ENotCiePointer | EBadBranchTarget | EInvalidPushObjectAddress
| ENotEnoughStackItems | ETooManyIterations | EInvalidExpression
| EUnsupportedEvaluation | EInvalidPiece | EInvalidExpressionTerminator
| EDivisionByZero | ETypeMismatch | EIntegralTypeRequired
| EUnsupportedTypeOperation | EInvalidShiftExpression | EInvalidDerefSize
| EUnknownCallFrameInstruction | EInvalidCfiSetLoc
| ECfiInstructionInInvalidContext | EPopWithEmptyStack
| ENoUnwindInfoForAddress | EUnknownPointerEncoding
| ENoEntryAtGivenOffset | EOffsetOutOfBounds | EUnknownAugmentation
| EUnsupportedPointerEncoding | EUnsupportedIndirectPointer
| EUnsupportedRegister | ETooManyRegisterRules | EStackFull
| EUnknownUnitType | EUnsupportedSegmentSize | EMissingUnitDie
| EUnsupportedAttributeForm | EMissingFileEntryFormatPath
| EExpectedStringAttributeValue
| EUnsupportedIndexSectionCount | EInvalidIndexSlotCount | EInvalidIndexRow
| EUnknownIndexSection | EUnknownIndexSectionV2
| EPcRelativePointerButSectionBaseIsUndefined
| ETextRelativePointerButTextBaseIsUndefined
| EDataRelativePointerButDataBaseIsUndefined
| EFuncRelativePointerInBadContext | ECannotParseOmitPointerEncoding
| EInvalidNameAttributeIndex | EInvalidMacinfoType | EInvalidMacroType
| EUnsupportedOpcodeOperandsTable | EMissingSplitUnit | EIo
(* write::Error *)
| WOffsetOutOfBounds | WLengthOutOfBounds | WInvalidAttributeValue
| WValueTooLarge | WUnsupportedWordSize | WUnsupportedVersion
| WInitialLengthOverflow | WInvalidAddress | WInvalidReference
| WNeedVersion | WLineStringFormMismatch | WInvalidRange
| WIncompatibleLineProgramEncoding | WInvalidFrameCodeOffset
| WInvalidFrameDataOffset | WUnsupportedPointerEncoding
| WUnsupportedCfiExpressionReference | WUnsupportedExpressionForwardReference
| WUnexpectedBaseAddress | WMissingBaseAddress
(* write::ConvertError (Read/Write wrappers are flattened to the inner one) *)
| CUnsupportedAttributeValue | CInvalidAttributeValue | CInvalidDebugInfoOffset
| CInvalidAddress | CUnsupportedLineInstruction | CUnsupportedLineStringForm
| CMissingLineEndSequence | CMissingCompilationName
| CMissingCompilationDirectory | CInvalidFileIndex | CInvalidDirectoryIndex
| CInvalidLineBase | CInvalidLineRef | CInvalidUnitRef | CInvalidDebugInfoRef
| CInvalidRangeRelativeAddress | CUnsupportedCfiInstruction
| CUnsupportedIndirectAddress | CUnsupportedOperation | CInvalidBranchTarget
| CUnsupportedUnitType
| EOther.

Inductive res (A : Type) : Type :=
| Ok (a : A)
| Err (e : error)
| Panic            (* arithmetic overflow in a checked build, unwrap(None), index out of range, assert *)
| OutOfFuel.       (* model artefact only; excluded explicitly by theorem statements *)
Arguments Ok {A} a.
Arguments Err {A} e.
Arguments Panic {A}.
Arguments OutOfFuel {A}.

Definition bind {A B} (r : res A) (f : A -> res B) : res B :=
  match r with
  | Ok a => f a
  | Err e => Err e
  | Panic => Panic
  | OutOfFuel => OutOfFuel
  end.

Definition rmap {A B} (f : A -> B) (r : res A) : res B :=
  bind r (fun a => Ok (f a)).

Declare Scope res_scope.
Delimit Scope res_scope with res.
Notation "'let*' x ':=' r 'in' k" := (bind r (fun x => k))
  (at level 200, x pattern, r at level 100, k at level 200, right associativity) : res_scope.
Open Scope res_scope.

Definition is_ok {A} (r : res A) : bool := match r with Ok _ => true | _ => false end.
Definition is_err {A} (r : res A) : bool := match r with Err _ => true | _ => false end.
Definition is_panic {A} (r : res A) : bool := match r with Panic => true | _ => false end.

Definition of_option {A} (e : error) (o : option A) : res A :=
  match o with Some a => Ok a | None => Err e end.
Definition unwrap {A} (o : option A) : res A :=
  match o with Some a => Ok a | None => Panic end.

Lemma bind_ok {A B} (r : res A) (f : A -> res B) b :
  bind r f = Ok b -> exists a, r = Ok a /\ f a = Ok b.
Proof. destruct r; simpl; intros H; try discriminate; eauto. Qed.

Lemma bind_not_panic {A B} (r : res A) (f : A -> res B) :
  r <> Panic -> (forall a, r = Ok a -> f a <> Panic) -> bind r f <> Panic.
Proof. destruct r; simpl; intros H1 H2; auto; try discriminate. Qed.
