(* Base/Int.v — fixed-width integer conventions (DESIGN §2).
   Definitions only + small arithmetic lemmas used everywhere. *)
From Coq Require Import List NArith ZArith Lia Bool.
Require Import GV.Base.Res.
Import ListNotations.
Local Open Scope N_scope.

Definition two64 : N := 18446744073709551616.
Definition two63 : N := 9223372036854775808.
Definition two32 : N := 4294967296.
Definition two16 : N := 65536.

Definition wrapN (bits : N) (x : N) : N := x mod (2 ^ bits).
Definition wrap64 (x : N) : N := x mod two64.
Definition wrap32 (x : N) : N := x mod two32.
Definition wrap16 (x : N) : N := x mod two16.
Definition wrap8 (x : N) : N := x mod 256.

(* two's complement reinterpretation of a w-bit pattern *)
Definition to_signed (bits : N) (x : N) : Z :=
  let m := wrapN bits x in
  if m <? 2 ^ (bits - 1) then Z.of_N m else (Z.of_N m - Z.of_N (2 ^ bits))%Z.
Definition to_i64 (x : N) : Z := to_signed 64 x.
Definition to_i32 (x : N) : Z := to_signed 32 x.
Definition to_i16 (x : N) : Z := to_signed 16 x.
Definition to_i8 (x : N) : Z := to_signed 8 x.

(* bit pattern of a signed value at w bits *)
Definition of_signed (bits : N) (z : Z) : N := Z.to_N (z mod Z.of_N (2 ^ bits))%Z.
Definition of_i64 (z : Z) : N := of_signed 64 z.

Definition in_i64 (z : Z) : bool := ((-9223372036854775808 <=? z) && (z <? 9223372036854775808))%Z.
Definition in_u64 (z : Z) : bool := ((0 <=? z) && (z <? 18446744073709551616))%Z.

(* Overflow-checked arithmetic on unsigned w-bit values: debug build panics,
   release build wraps. *)
Definition chk_add (bits : N) (dbg : bool) (a b : N) : res N :=
  let s := a + b in
  if s <? 2 ^ bits then Ok s else if dbg then Panic else Ok (wrapN bits s).
Definition chk_mul (bits : N) (dbg : bool) (a b : N) : res N :=
  let s := a * b in
  if s <? 2 ^ bits then Ok s else if dbg then Panic else Ok (wrapN bits s).
Definition chk_sub (bits : N) (dbg : bool) (a b : N) : res N :=
  if b <=? a then Ok (a - b) else if dbg then Panic else Ok (wrapN bits (2 ^ bits + a - b)).

(* signed counterparts on Z values known to be in range *)
Definition in_signed (bits : N) (z : Z) : bool :=
  ((- Z.of_N (2 ^ (bits - 1)) <=? z) && (z <? Z.of_N (2 ^ (bits - 1))))%Z.
Definition wrap_signed (bits : N) (z : Z) : Z := to_signed bits (of_signed bits z).
Definition chk_s (bits : N) (dbg : bool) (z : Z) : res Z :=
  if in_signed bits z then Ok z else if dbg then Panic else Ok (wrap_signed bits z).

(* ReaderAddress::ones_sized — `!0 >> (64 - size * 8)` with u8 arithmetic:
   size*8 overflows u8 for size >= 32, 64 - x underflows for x > 64, a shift by
   64 (size = 0) overflows. Callers validate size first; the model keeps the
   panics so that the proofs have to show they are unreachable. *)
Definition ones_sized (dbg : bool) (size : N) : res N :=
  let* s8 := chk_mul 8 dbg size 8 in
  let* sh := chk_sub 8 dbg 64 s8 in
  if 64 <=? sh then (if dbg then Panic else Ok (N.shiftr (two64 - 1) (sh mod 64)))
  else Ok (N.shiftr (two64 - 1) sh).

(* mask for validated sizes 1,2,4,8 *)
Definition mask_of (size : N) : N := 2 ^ (8 * size) - 1.

Lemma two64_eq : two64 = 2 ^ 64. Proof. reflexivity. Qed.
Lemma two63_eq : two63 = 2 ^ 63. Proof. reflexivity. Qed.
Lemma two32_eq : two32 = 2 ^ 32. Proof. reflexivity. Qed.

Lemma wrap64_small x : x < two64 -> wrap64 x = x.
Proof. intros; unfold wrap64; now apply N.mod_small. Qed.
Lemma wrap64_lt x : wrap64 x < two64.
Proof. unfold wrap64; apply N.mod_lt; discriminate. Qed.
