(* Model/UnitGlueWr.v — the GLUE between the three writer models:
     UnitWr  (write/unit.rs: DIE layout, attribute switches, unit header, fix-up patching),
     OpWr    (write/op.rs: Expression::{size,write}, the Exprloc / write_expression embeddings),
     ListsWr (write/range.rs, write/loc.rs: list tables).
   UnitWr keeps an Expression opaque (`xexpr` = a predicted size and a byte string) and takes the list
   offsets as numbers.  Here the opaque parameters are INSTANTIATED the way the Rust code does it:
     AttributeValue::Exprloc(e).size(unit, offsets)  = uleb(e.size(enc, Some(offsets))) + e.size(..)   (unit.rs)
       -- `offsets` is the table calculate_offsets has filled SO FAR (the entry itself included);
     AttributeValue::Exprloc(e).write(..)            = uleb(e.size(enc, Some(offsets))); e.write(w, Some(debug_info_refs), enc, Some(offsets))
       -- `offsets` is the complete table; fix-ups land at w.len() inside .debug_info;
     RangeListRef(id) / LocationListRef(id)          = the offset RangeListTable::write / LocationListTable::write returned for id;
     loc.rs write_expression(w, refs, enc, Some(offsets), e): length prefix + e.write at w.len() inside
       .debug_loc / .debug_loclists, fix-ups into sections.debug_loc_fixups (v <= 4) / debug_loclists_fixups (v = 5);
     UnitTable::write: every unit, then write_debug_info_fixups over .debug_info, .debug_loc, .debug_loclists.
   Restrictions (documented, tied as such): the unit's tree is given after Unit::reorder_base_types (modelled
   and proved in UnitWr), units carry LineProgram::none(), no string tables.
   No proofs in this file.  Stream: c11.glue *)
From Coq Require Import List NArith ZArith Bool.
From Coq.Strings Require Import Byte.
Require Import GV.Base.Res GV.Base.Byt GV.Base.Ints GV.Model.Leb GV.Model.Prim GV.Spec.UnitWrSpec.
Require Import GV.Model.UnitWr.
Require GV.Spec.ListWrSpec GV.Model.OpWr GV.Model.ListsWr.
Import ListNotations.
Local Open Scope N_scope.

(* ------------------------------------------------------------------ vocabulary conversions *)

(* unit.encoding() + the writer's byte order, as write::Expression sees it *)
Definition oenc (e : encoding) (be : bool) : OpWr.enc :=
  {| OpWr.e_version := e_ver e; OpWr.e_fmt64 := e_fmt64 e; OpWr.e_asize := e_asz e; OpWr.e_be := be |}.

(* &UnitOffsets *)
Definition ouo (unit_off : N) (entries : list N) : OpWr.uoffs :=
  {| OpWr.uo_unit := unit_off; OpWr.uo_entries := entries |}.

(* the DebugInfoFixup Expression::write pushed, in the unit writer's vocabulary *)
Definition gfix (f : OpWr.fixup) : fixup :=
  mkFixup (OpWr.fx_offset f) (OpWr.fx_size f) (N.to_nat (OpWr.fx_unit f))
          (mkEid (N.to_nat (OpWr.fx_unit f)) (N.to_nat (OpWr.fx_entry f))).

(* ------------------------------------------------------------------ attribute values *)

(* write::AttributeValue with a real Expression inside Exprloc *)
Inductive gval := GV (v : aval) | GExpr (ex : OpWr.wexpr).

(* the UnitWr value obtained by instantiating the opaque Expression with `ex` under the table `uo`:
   x_size = Expression::size, x_out = the bytes Expression::write appends when it starts at `base` *)
Definition inst (dbg : bool) (oe : OpWr.enc) (uo : OpWr.uoffs) (base : N) (v : gval) : aval :=
  match v with
  | GV v => v
  | GExpr ex =>
      AvExprloc (mkX (OpWr.size_expr dbg oe (Some uo) ex)
                     (let* r := OpWr.write_expr dbg oe (Some uo) true base ex in Ok (fst r)))
  end.

(* AttributeValue::size(unit, offsets) *)
Definition gav_size (dbg : bool) (e : encoding) (be : bool) (lpv : N) (uo : OpWr.uoffs) (v : gval) : res N :=
  av_size dbg e lpv (inst dbg (oenc e be) uo 0 v).

(* AttributeValue::write; `pos` = w.len() = w.offset() before the value.  Returns what is appended to
   .debug_info and the DebugInfoFixups pushed to `debug_info_refs`, in push order. *)
Definition gav_write (dbg : bool) (cx : wcx) (pos : N) (v : gval) : res (list wop * list fixup) :=
  match v with
  | GV v => let* ops := av_write dbg cx v in Ok (ops, ops_fixups pos ops)
  | GExpr ex =>
      (* the debug_assert_form! of this arm compares form() with the same `version >= 4` test: it cannot fire *)
      let oe := oenc (wc_enc cx) (wc_be cx) in
      let uo := ouo (wc_unit_off cx) (wc_entries cx) in
      let* size := OpWr.size_expr dbg oe (Some uo) ex in
      let* l := write_uleb128 size in
      let* r := OpWr.write_expr dbg oe (Some uo) true (pos + blen l) ex in
      Ok ([WB l; WB (fst r)], map gfix (snd r))
  end.

(* ------------------------------------------------------------------ DIE tree *)

Inductive gdie := GDie (id : nat) (tag : N) (sibling : bool) (attrs : list (N * gval)) (children : list gdie).

Definition gdie_id (d : gdie) : nat := match d with GDie i _ _ _ _ => i end.
Definition gdie_attrs (d : gdie) : list (N * gval) := match d with GDie _ _ _ a _ => a end.

(* an entry without its subtree: all that abbreviation() and size() look at below the entry is
   `children.is_empty()` *)
Definition shell (d : gdie) : die := match d with GDie i t s _ _ => Die i t s [] [] end.

Definition inst_attrs (dbg : bool) (oe : OpWr.enc) (uo : OpWr.uoffs) (attrs : list (N * gval)) : list (N * aval) :=
  map (fun p => (fst p, inst dbg oe uo 0 (snd p))) attrs.

(* DebuggingInformationEntry::calculate_offsets: offsets.entries[self.id] is assigned BEFORE self.size(unit,
   offsets, code) runs, and size() hands that partial table to every Expression::size *)
Fixpoint gcalc (dbg : bool) (e : encoding) (be : bool) (lpv unit_off : N) (d : gdie) (st : cst) : res cst :=
  match d with
  | GDie id tag sib attrs ch =>
      let* ents := set_nth id (cs_off st) (cs_entries st) in
      let d0 := Die id tag sib (inst_attrs dbg (oenc e be) (ouo unit_off ents) attrs) (map shell ch) in
      let* ab := die_abbrev dbg e d0 in
      let (code, tab) := abbrev_add (cs_abbrevs st) ab in
      let* codes := set_nth id code (cs_codes st) in
      let* sz := die_size dbg e lpv d0 code in
      let* off := chk_add 64 dbg (cs_off st) sz in
      let st1 := mkCst off ents tab codes in
      match ch with
      | [] => Ok st1
      | _ =>
          let* st2 := (fix go (l : list gdie) (s : cst) : res cst :=
                         match l with
                         | [] => Ok s
                         | c :: r => let* s' := gcalc dbg e be lpv unit_off c s in go r s'
                         end) ch st1 in
          let* off2 := chk_add 64 dbg (cs_off st2) 1 in
          Ok (mkCst off2 (cs_entries st2) (cs_abbrevs st2) (cs_codes st2))
      end
  end.

Fixpoint gattrs_write (dbg : bool) (cx : wcx) (pos : N) (attrs : list (N * gval)) : res (list wop * list fixup) :=
  match attrs with
  | [] => Ok ([], [])
  | (_, v) :: r =>
      let* o := gav_write dbg cx pos v in
      let* rest := gattrs_write dbg cx (pos + ops_len (fst o)) r in
      Ok (fst o ++ fst rest, snd o ++ snd rest)
  end.

Definition ghas_kids (ch : list gdie) : bool := match ch with [] => false | _ => true end.

(* DebuggingInformationEntry::write; `pos` = w.offset() on entry *)
Fixpoint gwrite_die (dbg : bool) (cx : wcx) (d : gdie) (pos : N) : res (list wop * list fixup) :=
  match d with
  | GDie id _ sib attrs ch =>
      let* _ := (if dbg
                 then let* here := debug_info_offset dbg (wc_unit cx) (wc_entries cx) (mkEid (wc_unit cx) id) in
                      dassert dbg (match here with Some o => o =? pos | None => false end)
                 else Ok tt) in
      let* code := idx_get (wc_codes cx) id in
      let* cb := write_uleb128 code in
      let w := wsz (wc_enc cx) in
      let has_sib := sib && ghas_kids ch in
      let head := blen cb + (if has_sib then w else 0) in
      let* a := gattrs_write dbg cx (pos + head) attrs in
      match ch with
      | [] => Ok (WMark id :: WB cb :: fst a, snd a)
      | _ =>
          let* c := (fix go (l : list gdie) (p : N) : res (list wop * list fixup) :=
                       match l with
                       | [] => Ok ([], [])
                       | k :: r =>
                           let* o := gwrite_die dbg cx k p in
                           let* rest := go r (p + ops_len (fst o)) in
                           Ok (fst o ++ fst rest, snd o ++ snd rest)
                       end) ch (pos + head + ops_len (fst a)) in
          let after := pos + head + ops_len (fst a) + ops_len (fst c) + 1 in
          let* sibb := (if has_sib
                        then let* next := chk_sub 64 dbg after (wc_unit_off cx) in
                             let* b := write_udata (wc_be cx) next w in Ok [WB b]
                        else Ok []) in
          Ok (WMark id :: WB cb :: sibb ++ fst a ++ fst c ++ [WB [x00]], snd a ++ snd c)
      end
  end.

(* ------------------------------------------------------------------ location lists holding expressions *)

(* write::Location *)
Inductive gloc :=
| GLBase (a : ListWrSpec.addr)
| GLOffsetPair (b e : N) (ex : OpWr.wexpr)
| GLStartEnd (b e : ListWrSpec.addr) (ex : OpWr.wexpr)
| GLStartLength (b : ListWrSpec.addr) (len : N) (ex : OpWr.wexpr)
| GLDefault (ex : OpWr.wexpr).

Definition lres := res (list byte * list OpWr.fixup).

(* the bytes `h` of an entry up to its expression, then loc.rs write_expression at w.len() = pos + |h| *)
Definition gentry_tail (dbg : bool) (oe : OpWr.enc) (uo : OpWr.uoffs) (pos : N) (h : list byte)
           (ex : OpWr.wexpr) : lres :=
  let* x := OpWr.write_loc_expression dbg oe (Some uo) (pos + blen h) ex in
  Ok (h ++ fst x, snd x).

(* LocationListTable::write_loc, one list; pos = w.len() *)
Fixpoint gwrite_list_v4 (dbg : bool) (oe : OpWr.enc) (uo : OpWr.uoffs) (asz mk : N) (hb : bool) (pos : N)
         (l : list gloc) : lres :=
  let be := OpWr.e_be oe in
  let entry (h : list byte) (ex : OpWr.wexpr) (k : N -> lres) : lres :=
    let* en := gentry_tail dbg oe uo pos h ex in
    let* rest := k (pos + blen (fst en)) in
    Ok (fst en ++ fst rest, snd en ++ snd rest) in
  match l with
  | [] =>
      let* z1 := write_udata be 0 asz in
      let* z2 := write_udata be 0 asz in
      Ok (z1 ++ z2, [])
  | GLBase a :: r =>
      let* b1 := write_udata be mk asz in
      let* b2 := ListsWr.write_address be a asz in
      let* rest := gwrite_list_v4 dbg oe uo asz mk true (pos + blen (b1 ++ b2)) r in
      Ok ((b1 ++ b2) ++ fst rest, snd rest)
  | GLOffsetPair b e ex :: r =>
      if b =? e then Err WInvalidRange else
      if negb hb then Err WMissingBaseAddress else
      if b =? mk then Err WInvalidRange else
      let* b1 := write_udata be b asz in
      let* b2 := write_udata be e asz in
      entry (b1 ++ b2) ex (fun p => gwrite_list_v4 dbg oe uo asz mk hb p r)
  | GLStartEnd b e ex :: r =>
      if ListWrSpec.addr_eqb b e then Err WInvalidRange else
      if hb then Err WUnexpectedBaseAddress else
      if ListWrSpec.addr_eqb b (ListWrSpec.AConst mk) then Err WInvalidRange else
      let* b1 := ListsWr.write_address be b asz in
      let* b2 := ListsWr.write_address be e asz in
      entry (b1 ++ b2) ex (fun p => gwrite_list_v4 dbg oe uo asz mk hb p r)
  | GLStartLength b len ex :: r =>
      let* e := ListsWr.start_length_end b len in
      if ListWrSpec.addr_eqb b e then Err WInvalidRange else
      if hb then Err WUnexpectedBaseAddress else
      if ListWrSpec.addr_eqb b (ListWrSpec.AConst mk) then Err WInvalidRange else
      let* b1 := ListsWr.write_address be b asz in
      let* b2 := ListsWr.write_address be e asz in
      entry (b1 ++ b2) ex (fun p => gwrite_list_v4 dbg oe uo asz mk hb p r)
  | GLDefault _ :: _ => Err WInvalidRange
  end.

(* one entry of LocationListTable::write_loclists *)
Definition gwrite_entry_v5 (dbg : bool) (oe : OpWr.enc) (uo : OpWr.uoffs) (asz pos : N) (x : gloc) : lres :=
  let be := OpWr.e_be oe in
  match x with
  | GLBase a =>
      let* b := ListsWr.write_address be a asz in
      Ok (n2b (ListsWr.kind_base true) :: b, [])
  | GLOffsetPair b e ex =>
      let* b1 := write_uleb128 b in
      let* b2 := write_uleb128 e in
      gentry_tail dbg oe uo pos (n2b ListsWr.kind_offset_pair :: b1 ++ b2) ex
  | GLStartEnd b e ex =>
      let* b1 := ListsWr.write_address be b asz in
      let* b2 := ListsWr.write_address be e asz in
      gentry_tail dbg oe uo pos (n2b (ListsWr.kind_start_end true) :: b1 ++ b2) ex
  | GLStartLength b len ex =>
      let* b1 := ListsWr.write_address be b asz in
      let* b2 := write_uleb128 len in
      gentry_tail dbg oe uo pos (n2b (ListsWr.kind_start_length true) :: b1 ++ b2) ex
  | GLDefault ex =>
      gentry_tail dbg oe uo pos [n2b ListsWr.kind_default] ex
  end.

Fixpoint gwrite_list_v5 (dbg : bool) (oe : OpWr.enc) (uo : OpWr.uoffs) (asz pos : N) (l : list gloc) : lres :=
  match l with
  | [] => Ok ([n2b 0], [])
  | x :: r =>
      let* en := gwrite_entry_v5 dbg oe uo asz pos x in
      let* rest := gwrite_list_v5 dbg oe uo asz (pos + blen (fst en)) r in
      Ok (fst en ++ fst rest, snd en ++ snd rest)
  end.

(* `for loc_list in self.locations.iter() { offsets.push(w.offset()); ... }` *)
Fixpoint gwrite_lists (wl : N -> list gloc -> lres) (pos : N) (tbl : list (list gloc))
  : res (list byte * list N * list OpWr.fixup) :=
  match tbl with
  | [] => Ok ([], [], [])
  | l :: r =>
      let* x := wl pos l in
      let* rest := gwrite_lists wl (pos + blen (fst x)) r in
      Ok (fst x ++ fst (fst rest), pos :: snd (fst rest), snd x ++ snd rest)
  end.

(* LocationListTable::write; start = w.len() of the section the version selects.
   Returns the bytes appended, LocationListOffsets and the fix-ups pushed to `refs`. *)
Definition gloc_table_write (dbg : bool) (oe : OpWr.enc) (uo : OpWr.uoffs) (hb : bool) (start : N)
           (tbl : list (list gloc)) : res (list byte * list N * list OpWr.fixup) :=
  let version := OpWr.e_version oe in
  let asz := OpWr.e_asize oe in
  match tbl with
  | [] => Ok ([], [], [])
  | _ =>
      if (2 <=? version) && (version <=? 4) then
        let* mk := ListsWr.marker_of asz in
        gwrite_lists (gwrite_list_v4 dbg oe uo asz mk hb) start tbl
      else if version =? 5 then
        let hdr := ListsWr.header_v5 (OpWr.e_be oe) version asz in
        let* x := gwrite_lists (gwrite_list_v5 dbg oe uo asz)
                               (start + ListsWr.initial_length_size (OpWr.e_fmt64 oe) + 8) tbl in
        let body := fst (fst x) in
        let* il := write_initial_length (OpWr.e_fmt64 oe) (OpWr.e_be oe) (8 + blen body) in
        Ok (il ++ hdr ++ body, snd (fst x), snd x)
      else Err WUnsupportedVersion
  end.

(* ------------------------------------------------------------------ Unit::write *)

Record gunit := mkGunit {
  gu_enc : encoding;
  gu_root : gdie;                               (* entries[root] with its subtree, after reorder_base_types *)
  gu_nentries : nat;                            (* self.entries.len() *)
  gu_ranges : list (list ListWrSpec.wrange);    (* self.ranges: the distinct lists in insertion order *)
  gu_locs : list (list gloc)                    (* self.locations *)
}.

(* write::Sections, the part Unit::write / UnitTable::write touch *)
Record gsec := mkGsec {
  g_info : list byte; g_abbrev : list byte;
  g_ranges : list byte; g_rnglists : list byte; g_loc : list byte; g_loclists : list byte;
  g_info_fx : list fixup; g_loc_fx : list fixup; g_loclists_fx : list fixup }.

Definition gsec_empty : gsec := mkGsec [] [] [] [] [] [] [] [] [].

(* `attr.name == DW_AT_low_pc && attr.value != AttributeValue::Address(Address::Constant(0))` *)
Definition gis_address_const0 (v : gval) : bool :=
  match v with GV (AvAddress (AConst 0)) => true | _ => false end.
Definition ghave_base (attrs : list (N * gval)) : bool :=
  existsb (fun p => (fst p =? DW_AT_low_pc) && negb (gis_address_const0 (snd p))) attrs.

Definition lpv_none : N := 2.    (* LineProgram::none().version() *)

(* what Unit::write leaves in self.offsets, and the unit's abbreviation table *)
Record guout := mkGuout { go_sec : gsec; go_unit_off : N; go_entries : list N; go_abbrevs : list abbrev;
                          go_rng : list N; go_loc : list N }.

Definition gunit_write (dbg be : bool) (uidx : nat) (u : gunit) (s : gsec) : res guout :=
  let e := gu_enc u in
  let w := wsz e in
  let info := g_info s in
  let unit_off := blen info in
  let* len0 := write_udata be 0 w in
  let esc := if e_fmt64 e then enc_un 4 be 4294967295 else [] in
  let length_offset := unit_off + blen esc in
  let ver := enc_un 2 be (e_ver e) in
  let abbrev_off := blen (g_abbrev s) in
  let* hdr := (if (2 <=? e_ver e) && (e_ver e <=? 4)
               then let* ao := write_udata be abbrev_off w in Ok (ao ++ [n2b (e_asz e)])
               else if e_ver e =? 5
               then let* ao := write_udata be abbrev_off w in Ok ([n2b DW_UT_compile; n2b (e_asz e)] ++ ao)
               else Err WUnsupportedVersion) in
  let header := esc ++ len0 ++ ver ++ hdr in
  let n := gu_nentries u in
  let pos0 := unit_off + blen header in
  let* st := gcalc dbg e be lpv_none unit_off (gu_root u) (mkCst pos0 (repeat 0 n) [] (repeat 0 n)) in
  let hb := ghave_base (gdie_attrs (gu_root u)) in
  let v4 := e_ver e <=? 4 in
  (* self.ranges.write(sections, encoding, have_base_address) *)
  let rsec := if v4 then g_ranges s else g_rnglists s in
  let* rr := ListsWr.table_write false be (e_fmt64 e) (e_ver e) (e_asz e) hb (blen rsec)
                                 (map (map ListWrSpec.loc_of_range) (gu_ranges u)) in
  (* self.locations.write(sections, encoding, have_base_address, Some(&offsets)) *)
  let lsec := if v4 then g_loc s else g_loclists s in
  let* ll := gloc_table_write dbg (oenc e be) (ouo unit_off (cs_entries st)) hb (blen lsec) (gu_locs u) in
  let lfx := map gfix (snd ll) in
  let cx := mkWcx e be uidx unit_off (cs_entries st) (cs_codes st) None [] [] (snd rr) (snd (fst ll)) lpv_none in
  let* dw := gwrite_die dbg cx (gu_root u) pos0 in
  let ops := fst dw in
  let sec1 := info ++ header ++ ops_bytes ops in
  let length := blen sec1 - (length_offset + w) in
  let* _ := (if negb (e_fmt64 e) && (4294967280 <=? length) && (length <=? 4294967295)
             then Err WInitialLengthOverflow else Ok tt) in
  let* sec2 := write_udata_at be sec1 length_offset length w in
  let* sec3 := patch_unit_refs dbg be uidx unit_off (cs_entries st) w (ops_unit_refs pos0 ops) sec2 in
  Ok (mkGuout
        (mkGsec sec3 (g_abbrev s)
                (if v4 then g_ranges s ++ fst rr else g_ranges s)
                (if v4 then g_rnglists s else g_rnglists s ++ fst rr)
                (if v4 then g_loc s ++ fst (fst ll) else g_loc s)
                (if v4 then g_loclists s else g_loclists s ++ fst (fst ll))
                (g_info_fx s ++ snd dw)
                (if v4 then g_loc_fx s ++ lfx else g_loc_fx s)
                (if v4 then g_loclists_fx s else g_loclists_fx s ++ lfx))
        unit_off (cs_entries st) (cs_abbrevs st) (snd rr) (snd (fst ll))).

(* ------------------------------------------------------------------ UnitTable::write *)

(* the offsets of a written unit, in the shape UnitWr.table_fixups reads them *)
Definition tu_of (o : guout) : tunit :=
  mkTunit (mkUnit (mkEnc 0 false 0) [] 0) (mkUparams true false lpv_none (Ok 0) (Ok []) (Ok []))
          true (go_unit_off o) (go_entries o).

Fixpoint gtable_units (dbg be : bool) (i : nat) (units : list gunit) (s : gsec) : res (list guout * gsec) :=
  match units with
  | [] => Ok ([], s)
  | u :: r =>
      let* o := gunit_write dbg be i u s in
      let* ab := abbrevs_write (go_abbrevs o) in
      let s0 := go_sec o in
      let s1 := mkGsec (g_info s0) (g_abbrev s0 ++ ab) (g_ranges s0) (g_rnglists s0) (g_loc s0) (g_loclists s0)
                       (g_info_fx s0) (g_loc_fx s0) (g_loclists_fx s0) in
      let* x := gtable_units dbg be (S i) r s1 in
      Ok (o :: fst x, snd x)
  end.

(* UnitTable::write on fresh (unwritten) units: the three write_debug_info_fixups calls in order *)
Definition gtable_write (dbg be : bool) (units : list gunit) (s : gsec) : res (list guout * gsec) :=
  let* x := gtable_units dbg be 0 units s in
  let s1 := snd x in
  let tus := map tu_of (fst x) in
  let* info := table_fixups dbg be tus (g_info_fx s1) (g_info s1) in
  let* loc := table_fixups dbg be tus (g_loc_fx s1) (g_loc s1) in
  let* loclists := table_fixups dbg be tus (g_loclists_fx s1) (g_loclists s1) in
  Ok (fst x, mkGsec info (g_abbrev s1) (g_ranges s1) (g_rnglists s1) loc loclists
                    (g_info_fx s1) (g_loc_fx s1) (g_loclists_fx s1)).
