(* Model/ConvertAttr.v — mirrors `ConvertUnit::convert_attribute_value` and `convert_file_index`
   (/repo/src/write/unit.rs `mod convert`) for the attribute value kinds that carry their meaning in the
   value itself: constants, flags, blocks, inline strings, addresses (direct and .debug_addr index), the
   supplementary-file / macro / type-signature offsets that are copied, class constants (DW_ATE_*, DW_LANG_*…),
   file indices (renumbered through the converted line program's file table; DW_FORM_implicit_const
   included: repo fix b755e5a) and DwoId (written as Udata).
   References to entries, strings in string sections, range/location lists, the line program reference and
   expressions need the surrounding tables; they are modelled in ConvertExpr / ConvertLists or checked by the
   whole-unit oracle (stream c12.corpus) and answer `Ok None` here ("outside this model").
   `Attribute::value()` is Model/Attr.v `attr_normalise` (C03).  Stream: c12.attrconv.  No proofs here. *)
From Coq Require Import List NArith ZArith Bool.
From Coq.Strings Require Import Byte.
Require Import GV.Base.Res GV.Base.Byt GV.Base.Ints GV.Spec.FormSpec GV.Model.Attr GV.Model.UnitWr.
Import ListNotations.
Local Open Scope N_scope.

(* `self.line_program_files.get(index as usize)` *)
Fixpoint nth_N {A} (l : list A) (n : N) : option A :=
  match l with
  | [] => None
  | x :: r => if n =? 0 then Some x else nth_N r (n - 1)
  end.

Section Conv.
  Variable ver : N.                          (* read_unit.encoding().version *)
  Variable files : list N.                   (* line_program_files: FileId (0-based index) per source file index *)
  Variable cvt : N -> option address.        (* convert_address *)
  Variable uaddr : N -> res N.               (* read_unit.address(index) *)

  (* ConvertUnit::convert_file_index *)
  Definition conv_file_index (index : N) : res (option N) :=
    if (index =? 0) && (ver <=? 4) then Ok None
    else match nth_N files index with
         | Some id => Ok (Some id)
         | None => Err CInvalidFileIndex
         end.

  Definition conv_address (a : N) : res aval :=
    match cvt a with Some w => Ok (AvAddress w) | None => Err CInvalidAddress end.

  (* convert_attribute_value; form / name / raw = attr.form() / attr.name() / attr.raw_value();
     Ok None = a kind outside this model *)
  Definition conv_attr (form name : N) (raw : attr_value) : res (option aval) :=
    let value := attr_normalise name raw in
    let some (v : aval) : res (option aval) := Ok (Some v) in
    if form =? DW_FORM_implicit_const then
      match raw with
      | VSdata val =>
          match value with
          | VFileIndex i => let* f := conv_file_index i in some (AvFileIndex f)
          | _ => some (AvImplicitConst val)
          end
      | _ => Err CInvalidAttributeValue
      end
    else
      match value with
      | VAddr a => let* v := conv_address a in some v
      | VBlock b => some (AvBlock b)
      | VData1 n => some (AvData1 n)
      | VData2 n => some (AvData2 n)
      | VData4 n => some (AvData4 n)
      | VData8 n => some (AvData8 n)
      | VData16 n => some (AvData16 n)
      | VSdata z => some (AvSdata z)
      | VUdata n => some (AvUdata n)
      | VFlag f => if form =? DW_FORM_flag_present then some AvFlagPresent else some (AvFlag f)
      | VDebugAddrIndex i => let* a := uaddr i in let* v := conv_address a in some v
      | VDebugInfoRefSup o => some (AvDebugInfoRefSup o)
      | VDebugMacinfoRef o => some (AvDebugMacinfoRef o)
      | VDebugMacroRef o => some (AvDebugMacroRef o)
      | VDebugTypesRef s => some (AvDebugTypesRef s)
      | VDebugStrRefSup o => some (AvDebugStrRefSup o)
      | VString s => some (AvString s)
      | VEncoding n => some (AvEncoding n)
      | VDecimalSign n => some (AvDecimalSign n)
      | VEndianity n => some (AvEndianity n)
      | VAccessibility n => some (AvAccessibility n)
      | VVisibility n => some (AvVisibility n)
      | VVirtuality n => some (AvVirtuality n)
      | VLanguage n => some (AvLanguage n)
      | VAddressClass n => some (AvAddressClass n)
      | VIdentifierCase n => some (AvIdentifierCase n)
      | VCallingConvention n => some (AvCallingConvention n)
      | VInline n => some (AvInline n)
      | VOrdering n => some (AvOrdering n)
      | VFileIndex i => let* f := conv_file_index i in some (AvFileIndex f)
      | VDwoId v => some (AvUdata v)
      | VSecOffset _ | VDebugAddrBase _ | VDebugLocListsBase _ | VDebugRngListsBase _
      | VDebugStrOffsetsBase _ => Err CInvalidAttributeValue
      | VExprloc _ | VUnitRef _ | VDebugInfoRef _ | VDebugLineRef _
      | VLocationListsRef _ | VDebugLocListsIndex _ | VRangeListsRef _ | VDebugRngListsIndex _
      | VDebugStrRef _ | VDebugStrOffsetsIndex _ | VDebugLineStrRef _ => Ok None
      end.
End Conv.

(* ------------------------------------------------------------------ the payload a reader finds (Spec) *)

(* the data of a source value of one of the modelled kinds, as C11's form decoder (Spec/UnitWrSpec.v rval)
   presents the data of a written value *)
Definition rd_payload (uaddr : N -> res N) (v : attr_value) : option UnitWrSpec.rval :=
  match v with
  | VAddr a => Some (UnitWrSpec.RU a)
  | VDebugAddrIndex i => match uaddr i with Ok a => Some (UnitWrSpec.RU a) | _ => None end
  | VBlock b | VString b => Some (UnitWrSpec.RB b)
  | VData1 n | VData2 n | VData4 n | VData8 n | VData16 n | VUdata n
  | VDebugInfoRefSup n | VDebugMacinfoRef n | VDebugMacroRef n | VDebugTypesRef n | VDebugStrRefSup n
  | VEncoding n | VDecimalSign n | VEndianity n | VAccessibility n | VVisibility n | VVirtuality n
  | VLanguage n | VAddressClass n | VIdentifierCase n | VCallingConvention n | VInline n | VOrdering n
  | VDwoId n => Some (UnitWrSpec.RU n)
  | VSdata z => Some (UnitWrSpec.RS z)
  | VFlag f => Some (UnitWrSpec.RU (if f then 1 else 0))
  | _ => None
  end.

(* values of the Rust field widths *)
Definition rd_value_typed (v : attr_value) : Prop :=
  match v with
  | VData1 n => n < 256 ^ 1 | VData2 n => n < 256 ^ 2 | VData4 n => n < 256 ^ 4
  | VData8 n | VDebugTypesRef n => n < 256 ^ 8
  | VData16 n => n < 256 ^ 16
  | VAddr n | VDebugInfoRefSup n | VDebugMacinfoRef n | VDebugMacroRef n | VDebugStrRefSup n => n < 2 ^ 64
  | _ => True
  end.
