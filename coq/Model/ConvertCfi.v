(* Model/ConvertCfi.v — mirrors /repo/src/write/cfi.rs `mod convert`:
     CallFrameInstruction::from          -> conv_step   (one read instruction -> write instruction / absorbed)
     CommonInformationEntry::from (loop) -> conv_cie    (initial instructions: offsets are tracked and dropped)
     FrameDescriptionEntry::from  (loop) -> conv_fde    (instructions paired with the running code offset)
   on top of the checked integer conversions of Model/ConvertArith.v.
   Source instructions are the reader's decoded instructions (Spec/CfaSpec.v `insn`, a lazily decoded
   stream `item` whose decode error ends the conversion with that error); results are the writer's
   instructions (Spec/CfaEncSpec.v `cfi`).  `xconv` stands for `expression.get(frame)?` followed by
   `Expression::from(..)` (modelled in Model/ConvertExpr.v) and the serialisation of the result: in the
   writer model of C14 (Model/CfiWr.v) an expression operand is the byte string that is emitted.
   Second half: the MEANING of a converted program (no proofs): the CfaSpec program it denotes under unit
   alignment factors, and the unwind information a table gives for one address.
   Streams: c12.cficonv (this file vs FrameTable::from), c12.arith (ConvertArith). *)
From Coq Require Import List NArith ZArith Bool.
From Coq.Strings Require Import Byte.
Require Import GV.Base.Res GV.Base.Byt GV.Base.Ints GV.Spec.CfaEncSpec GV.Spec.CfaSpec GV.Model.ConvertArith.
Import ListNotations.
Local Open Scope N_scope.

(* ------------------------------------------------------------------ the converter *)

Section Conv.
  Variable caf : N.                              (* from_cie.code_alignment_factor() : u64 *)
  Variable daf : Z.                              (* from_cie.data_alignment_factor() : i64 *)
  Variable xconv : uexpr -> res (list byte).     (* expression.get(frame)? ; Expression::from(..)? *)

  (* u32::try_from(size) *)
  Definition convert_args_size (n : N) : res N :=
    if n <? 2 ^ 32 then Ok n else Err CUnsupportedCfiInstruction.

  (* CallFrameInstruction::from; `offset` is the `&mut u32`; None = `return Ok(None)` *)
  Definition conv_step (offset : N) (i : insn) : res (N * option cfi) :=
    let keep (c : cfi) : res (N * option cfi) := Ok (offset, Some c) in
    match i with
    | ISetLoc _ => Err CUnsupportedCfiInstruction
    | IAdvanceLoc d => let* o := convert_advance offset d caf in Ok (o, None)
    | IDefCfa r off => let* o := convert_offset off in keep (Cfa r o)
    | IDefCfaSf r fo => let* o := convert_factored_offset fo daf in keep (Cfa r o)
    | IDefCfaRegister r => keep (CfaRegister r)
    | IDefCfaOffset off => let* o := convert_offset off in keep (CfaOffset o)
    | IDefCfaOffsetSf fo => let* o := convert_factored_offset fo daf in keep (CfaOffset o)
    | IDefCfaExpression e => let* b := xconv e in keep (CfaExpression b)
    | IUndefined r => keep (Undefined r)
    | ISameValue r => keep (SameValue r)
    | IOffset r fo => let* o := convert_unsigned_factored_offset fo daf in keep (Offset r o)
    | IOffsetExtendedSf r fo => let* o := convert_factored_offset fo daf in keep (Offset r o)
    | IValOffset r fo => let* o := convert_unsigned_factored_offset fo daf in keep (ValOffset r o)
    | IValOffsetSf r fo => let* o := convert_factored_offset fo daf in keep (ValOffset r o)
    | IRegister d s => keep (Register d s)
    | IExpression r e => let* b := xconv e in keep (Expression r b)
    | IValExpression r e => let* b := xconv e in keep (ValExpression r b)
    | IRestore r => keep (Restore r)
    | IRememberState => keep RememberState
    | IRestoreState => keep RestoreState
    | IArgsSize n => let* m := convert_args_size n in keep (ArgsSize m)
    | INegateRaState => keep NegateRaState
    | INop => Ok (offset, None)
    end.

  (* `while let Some(i) = from_instructions.next()? { if let Some(x) = CallFrameInstruction::from(..)? { push } }`
     of CommonInformationEntry::from: the running offset is shared by the loop but not stored *)
  Fixpoint conv_cie_from (offset : N) (items : list item) : res (list cfi) :=
    match items with
    | [] => Ok []
    | Bad e :: _ => Err e
    | BadPanic :: _ => Panic
    | BadFuel :: _ => OutOfFuel
    | It i :: rest =>
        let* (o, c) := conv_step offset i in
        let* l := conv_cie_from o rest in
        Ok (match c with Some x => x :: l | None => l end)
    end.
  Definition conv_cie (items : list item) : res (list cfi) := conv_cie_from 0 items.

  (* the same loop of FrameDescriptionEntry::from: `fde.instructions.push((offset, instruction))` *)
  Fixpoint conv_fde_from (offset : N) (items : list item) : res (list (N * cfi)) :=
    match items with
    | [] => Ok []
    | Bad e :: _ => Err e
    | BadPanic :: _ => Panic
    | BadFuel :: _ => OutOfFuel
    | It i :: rest =>
        let* (o, c) := conv_step offset i in
        let* l := conv_fde_from o rest in
        Ok (match c with Some x => (o, x) :: l | None => l end)
    end.
  Definition conv_fde (items : list item) : res (list (N * cfi)) := conv_fde_from 0 items.
End Conv.

(* CommonInformationEntry::from / FrameDescriptionEntry::from as far as the unwind programs go:
   factors first (u8 / i8), then the two instruction loops *)
Definition conv_entry (caf : N) (daf : Z) (xconv : uexpr -> res (list byte)) (cie fde : list item)
  : res ((N * Z) * list cfi * list (N * cfi)) :=
  let* f := convert_factors caf daf in
  let* c := conv_cie caf daf xconv cie in
  let* d := conv_fde caf daf xconv fde in
  Ok (f, c, d).

(* ------------------------------------------------------------------ what a converted program means *)

(* a write-side instruction carries its offsets unfactored: under alignment factors 1 it is this reader
   instruction.  `plc` names the place where the emitted expression bytes end up. *)
Definition den_cfi (plc : list byte -> uexpr) (c : cfi) : insn :=
  match c with
  | Cfa r o => IDefCfaSf r o
  | CfaRegister r => IDefCfaRegister r
  | CfaOffset o => IDefCfaOffsetSf o
  | CfaExpression e => IDefCfaExpression (plc e)
  | Restore r => IRestore r
  | Undefined r => IUndefined r
  | SameValue r => ISameValue r
  | Offset r o => IOffsetExtendedSf r o
  | ValOffset r o => IValOffsetSf r o
  | Register a b => IRegister a b
  | Expression r e => IExpression r (plc e)
  | ValExpression r e => IValExpression r (plc e)
  | RememberState => IRememberState
  | RestoreState => IRestoreState
  | ArgsSize n => IArgsSize n
  | NegateRaState => INegateRaState
  end.

(* a located program (code offset, instruction), from code offset `cur` on: advance to each offset, then
   the instruction; offsets in bytes (code alignment factor 1) *)
Fixpoint den_fde (plc : list byte -> uexpr) (cur : N) (l : list (N * cfi)) : list insn :=
  match l with
  | [] => []
  | (o, c) :: r =>
      (if o =? cur then [] else [IAdvanceLoc (o - cur)]) ++ den_cfi plc c :: den_fde plc o r
  end.

Definition unit_params (asize : N) : sparams := {| sp_caf := 1; sp_daf := 1; sp_asize := asize |}.

(* the meaning of a converted CIE + FDE pair for the address range [init, end): the unwind table of the
   denoted programs *)
Definition converted_rows (plc : list byte -> uexpr) (asize init_addr end_addr : N)
           (cl : list cfi) (fl : list (N * cfi)) : list srow * outcome :=
  run_spec (unit_params asize) init_addr end_addr
           (map It (map (den_cfi plc) cl)) (map It (den_fde plc 0 fl)).

(* the unwind information a table holds for address a: the first row that covers it *)
Definition covers (a : N) (r : srow) : bool := (sr_start r <=? a) && (a <? sr_end r).
Definition content_at (rows : list srow) (a : N) : option (cfa_rule * N * rmap) :=
  match find (covers a) rows with
  | Some r => Some (sr_cfa r, sr_args r, sr_rules r)
  | None => None
  end.

(* the reader instruction a decoded written instruction (CfaEncSpec.dinsn) is: same opcode class, same
   operands as encoded *)
Definition rd_of_dinsn (plc : list byte -> uexpr) (d : dinsn) : insn :=
  match d with
  | DAdvance delta => IAdvanceLoc delta
  | DOffset r fo => IOffset r fo
  | DRestore r => IRestore r
  | DNop => INop
  | DUndefined r => IUndefined r
  | DSameValue r => ISameValue r
  | DRegister a b => IRegister a b
  | DRememberState => IRememberState
  | DRestoreState => IRestoreState
  | DDefCfa r o => IDefCfa r o
  | DDefCfaRegister r => IDefCfaRegister r
  | DDefCfaOffset o => IDefCfaOffset o
  | DDefCfaExpression e => IDefCfaExpression (plc e)
  | DExpression r e => IExpression r (plc e)
  | DOffsetExtendedSf r fo => IOffsetExtendedSf r fo
  | DDefCfaSf r fo => IDefCfaSf r fo
  | DDefCfaOffsetSf fo => IDefCfaOffsetSf fo
  | DValOffset r fo => IValOffset r fo
  | DValOffsetSf r fo => IValOffsetSf r fo
  | DValExpression r e => IValExpression r (plc e)
  | DArgsSize n => IArgsSize n
  | DNegateRaState => INegateRaState
  end.
