(* Model/EntryBuf.v — the STATEFUL side of /repo/src/read/unit.rs that Model/DieRd.v abstracts away:
     EntriesRaw::read_entry(&mut DebuggingInformationEntry)   the caller's buffer is an explicit argument:
        depth/offset are stored first, `attrs` is cleared and refilled one attribute at a time, a null
        entry does set_null(); after an Err the buffer holds whatever had been stored so far ON TOP OF
        ITS PREVIOUS CONTENTS, and the reader is left somewhere inside the entry
     EntriesRaw::read_abbreviation + skip_attributes          (the documented way to skip an entry)
     EntriesCursor::{next_entry, next_dfs, next_sibling}      cached_current is that buffer; on Err the
        reader is emptied and the cached entry set_null() (depth/offset of the failed entry stay)
     EntriesTree::{root, next} + EntriesTreeNode/EntriesTreeIter   `entry` is that buffer; root() restores
        input and depth from `root`
   written as step machines  state -> op -> state * out  with the buffer / cached entry as a state
   component, plus the drivers the harness uses (budgeted partial tree walks).
   The pure parsing functions are DieRd's / Attr's; this file only adds the threading of the buffer.
   Correspondence streams: c20.bufm c20.curm c20.treem.  NO proofs in this file. *)
From Coq Require Import List NArith ZArith Bool.
From Coq.Strings Require Import Byte.
Require Import GV.Base.Res GV.Base.Byt GV.Base.Ints GV.Model.Leb GV.Model.Prim GV.Spec.FormSpec
               GV.Model.Attr GV.Spec.Forest GV.Model.AbbrevRd GV.Model.DieRd.
Import ListNotations.
Local Open Scope N_scope.

(* ------------------------------------------------------------------ *)
(** * EntriesRaw::read_entry into a caller-supplied buffer *)

(* EntriesRaw::read_attributes(specs, &mut attrs) after attrs.clear(): push one parsed attribute at a
   time; on Err the attributes parsed so far stay in the Vec *)
Fixpoint read_attrs_into (dbg : bool) (e : enc) (specs : list aspec) (bs : list byte)
         (acc : list (aspec * attr_value)) : list (aspec * attr_value) * res (list byte) :=
  match specs with
  | [] => (acc, Ok bs)
  | s :: t =>
      match parse_attribute dbg e s bs with
      | Ok (v, r) => read_attrs_into dbg e t r (acc ++ [(s, v)])
      | Err x => (acc, Err x)
      | Panic => (acc, Panic)
      | OutOfFuel => (acc, OutOfFuel)
      end
  end.

(* what a call of read_entry leaves behind *)
Inductive rd : Type :=
| RdOk (nonnull : bool) (b : die) (r : raw_st)
| RdErr (x : error) (b : die) (end_offset : N) (depth : Z)   (* the reader stays inside the failed entry:
                                                                its end_offset and depth are known, its
                                                                position is not modelled *)
| RdPanic
| RdFuel.

Definition with_od (off : N) (depth : Z) (b : die) : die :=
  mkDie off depth (d_tag b) (d_children b) (d_attrs b).
Definition with_tag (tag : N) (ch : bool) (b : die) : die :=
  mkDie (d_offset b) (d_depth b) tag ch (d_attrs b).
Definition with_attrs (l : list (aspec * attr_value)) (b : die) : die :=
  mkDie (d_offset b) (d_depth b) (d_tag b) (d_children b) l.

Definition read_entry_buf (dbg : bool) (e : enc) (tbl : abbrevs) (r : raw_st) (b : die) : rd :=
  match next_offset dbg r with
  | Ok off =>
      (* entry.depth = self.next_depth(); entry.offset = self.next_offset(); *)
      let b1 := with_od off (r_depth r) b in
      match read_uleb128 dbg (r_in r) with
      | Ok (code, rest) =>
          if code =? 0 then
            match chk_s 64 dbg (r_depth r - 1) with
            | Ok d => RdOk false (set_null b1) (mkRaw rest (r_end r) d)
            | Err x => RdErr x b1 (r_end r) (r_depth r)
            | Panic => RdPanic
            | OutOfFuel => RdFuel
            end
          else
            match tbl_get tbl code with
            | None => RdErr EInvalidAbbreviationCode b1 (r_end r) (r_depth r)
            | Some a =>
                match (if ab_children a then chk_s 64 dbg (r_depth r + 1) else Ok (r_depth r)) with
                | Ok d =>
                    (* entry.tag = ..; entry.has_children = ..; attrs.clear(); push, push, ... *)
                    let b2 := with_tag (ab_tag a) (ab_children a) b1 in
                    let '(attrs, rr) := read_attrs_into dbg e (ab_specs a) rest [] in
                    let b3 := with_attrs attrs b2 in
                    match rr with
                    | Ok rest' => RdOk true b3 (mkRaw rest' (r_end r) d)
                    | Err x => RdErr x b3 (r_end r) d
                    | Panic => RdPanic
                    | OutOfFuel => RdFuel
                    end
                | Err x => RdErr x b1 (r_end r) (r_depth r)
                | Panic => RdPanic
                | OutOfFuel => RdFuel
                end
            end
      | Err x => RdErr x b1 (r_end r) (r_depth r)
      | Panic => RdPanic
      | OutOfFuel => RdFuel
      end
  | Err x => RdErr x b (r_end r) (r_depth r)
  | Panic => RdPanic
  | OutOfFuel => RdFuel
  end.

(* ------------------------------------------------------------------ *)
(** * A raw reader and one reused buffer *)

Inductive reader : Type :=
| Live (r : raw_st)
| Broken (end_offset : N) (depth : Z).        (* after a failed read/skip on the raw reader *)

Record rstate : Type := mkRS { rs_rd : reader; rs_buf : die }.

Inductive rop : Type :=
| ORead                     (* read_entry(&mut buf) *)
| OSkip                     (* read_abbreviation(), then skip_attributes(abbrev.attributes()) *)
| OReopen (off : N).        (* a new EntriesRaw from UnitHeader::entries_raw(Some(off)); same buffer *)

(* next_offset, next_depth, is_empty of a live reader *)
Definition observe (dbg : bool) (rd : reader) : option (res N * Z * bool) :=
  match rd with
  | Live r => Some (next_offset dbg r, r_depth r, raw_is_empty r)
  | Broken _ _ => None
  end.

Inductive rout : Type :=
| OutRead (r : res bool) (buf : die) (obs : option (res N * Z * bool))
    (* the result and the buffer as the caller sees it afterwards — after an Err too *)
| OutSkip (r : res (option N)) (obs : option (res N * Z * bool))      (* the tag skipped / null *)
| OutReopen (r : res unit) (obs : option (res N * Z * bool))
| OutUndefined.             (* an operation on a Broken reader: not modelled, never generated *)

Definition rstep (dbg : bool) (h : unit_header) (tbl : abbrevs) (s : rstate) (o : rop) : rstate * rout :=
  match o with
  | OReopen off =>
      match entries_raw dbg h (Some off) with
      | Ok r => (mkRS (Live r) (rs_buf s), OutReopen (Ok tt) (observe dbg (Live r)))
      | Err x => (s, OutReopen (Err x) (observe dbg (rs_rd s)))
      | Panic => (s, OutReopen Panic None)
      | OutOfFuel => (s, OutReopen OutOfFuel None)
      end
  | ORead =>
      match rs_rd s with
      | Broken _ _ => (s, OutUndefined)
      | Live r =>
          match read_entry_buf dbg (u_enc h) tbl r (rs_buf s) with
          | RdOk k b r' => (mkRS (Live r') b, OutRead (Ok k) b (observe dbg (Live r')))
          | RdErr x b en d => (mkRS (Broken en d) b, OutRead (Err x) b None)
          | RdPanic => (s, OutRead Panic (rs_buf s) None)
          | RdFuel => (s, OutRead OutOfFuel (rs_buf s) None)
          end
      end
  | OSkip =>
      match rs_rd s with
      | Broken _ _ => (s, OutUndefined)
      | Live r =>
          match read_abbreviation dbg tbl r with
          | Ok (None, r1) => (mkRS (Live r1) (rs_buf s), OutSkip (Ok None) (observe dbg (Live r1)))
          | Ok (Some a, r1) =>
              match skip_attributes dbg (u_enc h) (ab_specs a) (r_in r1) with
              | Ok rest =>
                  let r2 := mkRaw rest (r_end r1) (r_depth r1) in
                  (mkRS (Live r2) (rs_buf s), OutSkip (Ok (Some (ab_tag a))) (observe dbg (Live r2)))
              | Err x => (mkRS (Broken (r_end r1) (r_depth r1)) (rs_buf s), OutSkip (Err x) None)
              | Panic => (s, OutSkip Panic None)
              | OutOfFuel => (s, OutSkip OutOfFuel None)
              end
          | Err x => (mkRS (Broken (r_end r) (r_depth r)) (rs_buf s), OutSkip (Err x) None)
          | Panic => (s, OutSkip Panic None)
          | OutOfFuel => (s, OutSkip OutOfFuel None)
          end
      end
  end.

Fixpoint rrun (dbg : bool) (h : unit_header) (tbl : abbrevs) (ops : list rop) (s : rstate) : list rout :=
  match ops with
  | [] => []
  | o :: t => let '(s', out) := rstep dbg h tbl s o in out :: rrun dbg h tbl t s'
  end.

(* the same history when the caller hands a fresh DebuggingInformationEntry::null() to every read *)
Definition fresh_buf (s : rstate) : rstate := mkRS (rs_rd s) null_die.
Fixpoint rrun_fresh (dbg : bool) (h : unit_header) (tbl : abbrevs) (ops : list rop) (s : rstate) : list rout :=
  match ops with
  | [] => []
  | o :: t => let '(s', out) := rstep dbg h tbl (fresh_buf s) o in out :: rrun_fresh dbg h tbl t s'
  end.

(* what the property speaks about: after an Err the buffer contents are unspecified ("some fields in the
   entry may be modified"), so they are erased from the comparison *)
Definition clean (o : rout) : rout :=
  match o with
  | OutRead (Ok k) b obs => OutRead (Ok k) b obs
  | OutRead r _ obs => OutRead r null_die obs
  | other => other
  end.

(* ------------------------------------------------------------------ *)
(** * EntriesCursor: cached_current is the buffer *)

(* EntriesCursor::next_entry *)
Definition next_entry_buf (dbg : bool) (e : enc) (tbl : abbrevs) (c : cursor) : res bool * cursor :=
  if raw_is_empty (c_raw c) then (Ok false, mkCur (c_raw c) (set_null (c_cur c))) else
  match read_entry_buf dbg e tbl (c_raw c) (c_cur c) with
  | RdOk _ b r' => (Ok true, mkCur r' b)
  | RdErr x b en d => (Err x, mkCur (mkRaw [] en d) (set_null b))     (* input.empty(); set_null() *)
  | RdPanic => (Panic, c)
  | RdFuel => (OutOfFuel, c)
  end.

(* EntriesCursor::next_dfs; the entry returned is `current()` of the new state *)
Fixpoint next_dfs_buf (fuel : nat) (dbg : bool) (e : enc) (tbl : abbrevs) (c : cursor)
  : res bool * cursor :=
  match fuel with
  | O => (OutOfFuel, c)
  | S k =>
      match next_entry_buf dbg e tbl c with
      | (Ok true, c') => if negb (is_null (c_cur c')) then (Ok true, c') else next_dfs_buf k dbg e tbl c'
      | other => other
      end
  end.

(* the `loop` of EntriesCursor::next_sibling *)
Fixpoint sibling_loop_buf (fuel : nat) (dbg : bool) (e : enc) (tbl : abbrevs) (current_depth : Z) (c : cursor)
  : res bool * cursor :=
  match fuel with
  | O => (OutOfFuel, c)
  | S k =>
      match (match current c with
             | Some cur => sibling_jump dbg (c_raw c) cur
             | None => Ok (c_raw c)
             end) with
      | Ok r1 =>
          match next_entry_buf dbg e tbl (mkCur r1 (c_cur c)) with
          | (Ok true, c') =>
              if (d_depth (c_cur c') =? current_depth)%Z
              then (Ok (negb (is_null (c_cur c'))), c')       (* Ok(self.current()) *)
              else sibling_loop_buf k dbg e tbl current_depth c'
          | other => other
          end
      | Err x => (Err x, c)
      | Panic => (Panic, c)
      | OutOfFuel => (OutOfFuel, c)
      end
  end.

Definition next_sibling_buf (fuel : nat) (dbg : bool) (e : enc) (tbl : abbrevs) (c : cursor)
  : res bool * cursor :=
  match current c with
  | None => (Ok false, c)
  | Some cur => sibling_loop_buf fuel dbg e tbl (d_depth cur) c
  end.

Inductive cop : Type := CEntry | CDfs | CSibling.

(* result (Ok true = an entry was returned / the cursor moved), then what the accessors say:
   current(), offset(), depth(), next_offset(), next_depth() *)
Record cout : Type :=
  mkCout { co_res : res bool; co_cur : option die; co_off : N; co_depth : Z; co_noff : res N; co_ndepth : Z }.

Definition cstep (dbg : bool) (e : enc) (tbl : abbrevs) (c : cursor) (o : cop) : cursor * cout :=
  let '(r, c') :=
    match o with
    | CEntry => next_entry_buf dbg e tbl c
    | CDfs => next_dfs_buf (cursor_fuel c) dbg e tbl c
    | CSibling => next_sibling_buf (cursor_fuel c) dbg e tbl c
    end in
  (c', mkCout r (current c') (d_offset (c_cur c')) (d_depth (c_cur c')) (next_offset dbg (c_raw c'))
              (r_depth (c_raw c'))).

(* several cursors side by side: `CDup i` pushes a clone of cursor i, `COn i o` steps cursor i *)
Inductive mop : Type := MDup (i : nat) | MOn (i : nat) (o : cop).
Inductive mout : Type := MNone | MOut (o : cout).

Fixpoint set_nth {A} (i : nat) (x : A) (l : list A) : list A :=
  match l, i with
  | [], _ => []
  | _ :: t, O => x :: t
  | a :: t, S k => a :: set_nth k x t
  end.

Definition mstep (dbg : bool) (e : enc) (tbl : abbrevs) (cs : list cursor) (o : mop) : list cursor * mout :=
  match o with
  | MDup i => match nth_error cs i with Some c => (cs ++ [c], MNone) | None => (cs, MNone) end
  | MOn i op =>
      match nth_error cs i with
      | Some c => let '(c', out) := cstep dbg e tbl c op in (set_nth i c' cs, MOut out)
      | None => (cs, MNone)
      end
  end.

Fixpoint mrun (dbg : bool) (e : enc) (tbl : abbrevs) (ops : list mop) (cs : list cursor) : list mout :=
  match ops with
  | [] => []
  | o :: t => let '(cs', out) := mstep dbg e tbl cs o in out :: mrun dbg e tbl t cs'
  end.

Fixpoint crun (dbg : bool) (e : enc) (tbl : abbrevs) (ops : list cop) (c : cursor) : list cout :=
  match ops with
  | [] => []
  | o :: t => let '(c', out) := cstep dbg e tbl c o in out :: crun dbg e tbl t c'
  end.

(* ------------------------------------------------------------------ *)
(** * EntriesTree: `entry` is the buffer, `root` the bytes to restart from *)

Record btree : Type := mkBT { bt_root : list byte; bt_rd : reader; bt_entry : die }.

Definition reader_end (rd : reader) : N := match rd with Live r => r_end r | Broken e _ => e end.

(* UnitHeader::entries_tree *)
Definition entries_tree_buf (dbg : bool) (h : unit_header) (offset : option N) : res btree :=
  let* t := entries_tree dbg h offset in Ok (mkBT (tr_root t) (Live (tr_raw t)) (tr_entry t)).

(* EntriesTree::root: self.input.input = self.root.clone(); self.input.depth = 0; read_entry(&mut entry).
   Ok true: a node (children requested with depth 1). On Err the reader is NOT emptied. *)
Definition root_buf (dbg : bool) (e : enc) (tbl : abbrevs) (t : btree) : res unit * btree :=
  let r0 := mkRaw (bt_root t) (reader_end (bt_rd t)) 0 in
  match read_entry_buf dbg e tbl r0 (bt_entry t) with
  | RdOk true b r1 => (Ok tt, mkBT (bt_root t) (Live r1) b)
  | RdOk false b r1 => (Err ENoEntryAtGivenOffset, mkBT (bt_root t) (Live r1) b)
  | RdErr x b en d => (Err x, mkBT (bt_root t) (Broken en d) b)
  | RdPanic => (Panic, t)
  | RdFuel => (OutOfFuel, t)
  end.

(* the Err arms of EntriesTree::next: self.input.empty(); self.entry.set_null() *)
Definition bt_fail (t : btree) (b : die) (en : N) (d : Z) : btree :=
  mkBT (bt_root t) (Live (mkRaw [] en d)) (set_null b).

(* the `loop` of EntriesTree::next (only ever entered with a live reader) *)
Fixpoint bt_next_loop (fuel : nat) (dbg : bool) (e : enc) (tbl : abbrevs) (depth : Z)
         (t : btree) (r : raw_st) : res bool * btree :=
  match fuel with
  | O => (OutOfFuel, t)
  | S k =>
      match sibling_jump dbg r (bt_entry t) with
      | Ok r1 =>
          if raw_is_empty r1 then (Ok false, mkBT (bt_root t) (Live r1) (set_null (bt_entry t))) else
          match read_entry_buf dbg e tbl r1 (bt_entry t) with
          | RdOk ok b r2 =>
              if (d_depth b =? depth)%Z then (Ok ok, mkBT (bt_root t) (Live r2) b)
              else bt_next_loop k dbg e tbl depth (mkBT (bt_root t) (Live r2) b) r2
          | RdErr x b en d => (Err x, bt_fail t b en d)
          | RdPanic => (Panic, t)
          | RdFuel => (OutOfFuel, t)
          end
      | Err x => (Err x, t)
      | Panic => (Panic, t)
      | OutOfFuel => (OutOfFuel, t)
      end
  end.

(* EntriesTree::next(depth) *)
Definition bt_next (fuel : nat) (dbg : bool) (e : enc) (tbl : abbrevs) (depth : Z) (t : btree)
  : res bool * btree :=
  match bt_rd t with
  | Broken _ _ => (Panic, t)      (* unreachable through the API: a node exists only after root() = Ok *)
  | Live r =>
      if (d_depth (bt_entry t) <? depth)%Z then
        if dbg && negb (d_depth (bt_entry t) + 1 =? depth)%Z then (Panic, t) else
        if negb (d_children (bt_entry t)) then (Ok false, t) else
        if raw_is_empty r then (Ok false, mkBT (bt_root t) (Live r) (set_null (bt_entry t))) else
        match read_entry_buf dbg e tbl r (bt_entry t) with
        | RdOk ok b r2 => (Ok ok, mkBT (bt_root t) (Live r2) b)
        | RdErr x b en d => (Err x, bt_fail t b en d)
        | RdPanic => (Panic, t)
        | RdFuel => (OutOfFuel, t)
        end
      else bt_next_loop fuel dbg e tbl depth t r
  end.

Definition bt_fuel (t : btree) : nat :=
  match bt_rd t with Live r => S (length (r_in r)) | Broken _ _ => 1%nat end.

(* the driver of the harness: a traversal that may be abandoned anywhere and may decline to descend.
     fn walk(node) -> bool { emit(node.entry()); budget -= 1; if budget == 0 { return false }
                             if !descend(node.entry()) { return true }
                             let mut ch = node.children();
                             loop { match ch.next() { Ok(Some(c)) => if !walk(c) { return false },
                                                      Ok(None) => return true,
                                                      Err(e) => { emit(e); return false } } } }
   `descend` = the entry's offset is not a multiple of k (k = 0: always descend). *)
Definition descend (k : N) (d : die) : bool := (k =? 0) || negb (d_offset d mod k =? 0).

Inductive wev : Type := WEntry (d : die) | WErr (x : error) | WCrash | WFuel.

(* the `loop` over node.children() for a node whose children have depth [depth]; [budget] entries may
   still be emitted. Returns the events, the budget left, whether the walk goes on, the tree. *)
Fixpoint walk_kids (fuel : nat) (dbg : bool) (e : enc) (tbl : abbrevs) (k : N) (budget : nat) (depth : Z) (t : btree)
  : list wev * nat * bool * btree :=
  match fuel with
  | O => ([WFuel], budget, false, t)
  | S f =>
      match bt_next (bt_fuel t) dbg e tbl depth t with
      | (Ok false, t1) => ([], budget, true, t1)
      | (Ok true, t1) =>
          let d := bt_entry t1 in
          match budget with
          | O | S O => ([WEntry d], O, false, t1)             (* budget exhausted by this entry *)
          | S b =>
              let '(sub, b1, go, t2) :=
                (if descend k d then walk_kids f dbg e tbl k b (depth + 1) t1 else ([], b, true, t1)) in
              if go then
                let '(rest, b2, go2, t3) := walk_kids f dbg e tbl k b1 depth t2 in
                (WEntry d :: sub ++ rest, b2, go2, t3)
              else (WEntry d :: sub, b1, false, t2)
          end
      | (Err x, t1) => ([WErr x], budget, false, t1)
      | (Panic, t1) => ([WCrash], budget, false, t1)
      | (OutOfFuel, t1) => ([WFuel], budget, false, t1)
      end
  end.

(* tree.root() and the walk from it, visiting at most [budget] >= 1 entries *)
Definition walk_from_root (dbg : bool) (e : enc) (tbl : abbrevs) (k : N) (budget : nat) (t : btree)
  : list wev * btree :=
  match root_buf dbg e tbl t with
  | (Ok _, t1) =>
      let d := bt_entry t1 in
      match budget with
      | O | S O => ([WEntry d], t1)
      | S b =>
          if descend k d then
            let '(evs, _, _, t2) := walk_kids (S (S (length (bt_root t)))) dbg e tbl k b 1 t1 in
            (WEntry d :: evs, t2)
          else ([WEntry d], t1)
      end
  | (Err x, t1) => ([WErr x], t1)
  | (Panic, t1) => ([WCrash], t1)
  | (OutOfFuel, t1) => ([WFuel], t1)
  end.

(* a history of (budget, k) walks on ONE tree, and the same walks each on a tree fresh from
   UnitHeader::entries_tree *)
Fixpoint walks (dbg : bool) (e : enc) (tbl : abbrevs) (h : list (nat * N)) (t : btree) : list (list wev) :=
  match h with
  | [] => []
  | (b, k) :: rest => let '(evs, t') := walk_from_root dbg e tbl k b t in evs :: walks dbg e tbl rest t'
  end.
Definition walks_fresh (dbg : bool) (e : enc) (tbl : abbrevs) (h : list (nat * N)) (t0 : btree) : list (list wev) :=
  map (fun bk : nat * N => fst (walk_from_root dbg e tbl (snd bk) (fst bk) t0)) h.
