(* Model/LineWr.v — mirrors /repo/src/write/line.rs:
     LineProgram::{new, add_directory, add_file, begin_sequence, set_address, end_sequence,
                   generate_row, op_advance, write}, LineRow::initial_state, LineInstruction::write,
     LineString::{form, write}, FileId::{initial_state, raw}, and the string tables of
     /repo/src/write/str.rs (add / offset).
   Correspondence streams: c13.grid c13.gridx c13.newpre c13.prog c13.known
   No proofs in this file. *)
From Coq Require Import List NArith ZArith Bool.
From Coq.Strings Require Import Byte.
Require Import GV.Base.Res GV.Base.Byt GV.Base.Ints GV.Model.Leb GV.Model.Prim GV.Spec.LineAdvSpec.
Import ListNotations.
Local Open Scope N_scope.

(* ---------------------------------------------------------------- parameters *)

(* common::LineEncoding *)
Record lenc : Type := mkLenc {
  le_min_len : N;            (* u8 *)
  le_max_ops : N;            (* u8 *)
  le_default_is_stmt : bool;
  le_line_base : Z;          (* i8 *)
  le_line_range : N          (* u8 *)
}.

(* common::Encoding *)
Record enc : Type := mkEnc {
  e_fmt64 : bool;
  e_version : N;             (* u16 *)
  e_addr_size : N            (* u8 *)
}.

Definition OPCODE_BASE : N := 13.

(* write::Address *)
Inductive waddr : Type :=
| AConst (v : N)
| ASym (sym : N) (addend : Z).

(* ---------------------------------------------------------------- string tables (write/str.rs) *)

Definition strtab : Type := list (list byte).

Definition has_nul (s : list byte) : bool := existsb (fun b => b2n b =? 0) s.

Fixpoint tab_find (t : strtab) (s : list byte) (i : N) : option N :=
  match t with
  | [] => None
  | x :: r => if bytes_eqb x s then Some i else tab_find r s (i + 1)
  end.

(* $name::add : assert!(!bytes.contains(&0)); insert_full *)
Definition tab_add (t : strtab) (s : list byte) : res (strtab * N) :=
  if has_nul s then Panic else
  match tab_find t s 0 with
  | Some i => Ok (t, i)
  | None => Ok (t ++ [s], N.of_nat (length t))
  end.

(* $name::offset : self.offsets[id.index] *)
Fixpoint tab_offset (t : strtab) (id : nat) : res N :=
  match id, t with
  | _, [] => Panic
  | O, _ :: _ => Ok 0
  | S k, x :: r => let* o := tab_offset r k in Ok (N.of_nat (length x) + 1 + o)
  end.

(* $name::write *)
Fixpoint tab_bytes (t : strtab) : list byte :=
  match t with
  | [] => []
  | x :: r => x ++ [x00] ++ tab_bytes r
  end.

(* ---------------------------------------------------------------- LineString, FileInfo *)

Inductive lstr : Type :=
| LStr (val : list byte)
| LStrRef (id : N)          (* .debug_str *)
| LLineStrRef (id : N).     (* .debug_line_str *)

Definition lstr_eqb (a b : lstr) : bool :=
  match a, b with
  | LStr x, LStr y => bytes_eqb x y
  | LStrRef i, LStrRef j => i =? j
  | LLineStrRef i, LLineStrRef j => i =? j
  | _, _ => false
  end.

Definition DW_FORM_string : N := 8.
Definition DW_FORM_strp : N := 14.
Definition DW_FORM_udata : N := 15.
Definition DW_FORM_data16 : N := 30.
Definition DW_FORM_line_strp : N := 31.

(* LineString::form *)
Definition lstr_form (s : lstr) : N :=
  match s with
  | LStr _ => DW_FORM_string
  | LStrRef _ => DW_FORM_strp
  | LLineStrRef _ => DW_FORM_line_strp
  end.

Record finfo : Type := mkFinfo {
  fi_timestamp : N;
  fi_size : N;
  fi_md5 : list byte;        (* [u8; 16] *)
  fi_source : option lstr
}.
Definition finfo_default : finfo := mkFinfo 0 0 (repeat x00 16) None.

(* LineString::write *)
Definition lstr_write (dbg be : bool) (s : lstr) (form : N) (e : enc) (line_strs strs : strtab)
  : res (list byte) :=
  if negb (form =? lstr_form s) then Err WLineStringFormMismatch else
  match s with
  | LStr val =>
      (* debug_assert!(!val.is_empty()) for version <= 4 *)
      if dbg && (e_version e <=? 4) && (match val with [] => true | _ => false end) then Panic
      else Ok (val ++ [x00])
  | LStrRef id =>
      if e_version e <? 5 then Err WNeedVersion else
      let* off := tab_offset strs (N.to_nat id) in
      write_udata be off (word_size (e_fmt64 e))
  | LLineStrRef id =>
      if e_version e <? 5 then Err WNeedVersion else
      let* off := tab_offset line_strs (N.to_nat id) in
      write_udata be off (word_size (e_fmt64 e))
  end.

(* ---------------------------------------------------------------- rows and instructions *)

(* write::LineRow; `file` is the 0-based FileId index *)
Record wrow : Type := mkWrow {
  w_address_offset : N;
  w_op_index : N;
  w_file : N;
  w_line : N;
  w_column : N;
  w_discriminator : N;
  w_is_statement : bool;
  w_basic_block : bool;
  w_prologue_end : bool;
  w_epilogue_begin : bool;
  w_isa : N
}.

(* FileId::initial_state *)
Definition fileid_initial (version : N) : N := if version =? 5 then 1 else 0.
(* FileId::raw : `self.0 as u64 + 1` for version <= 4 *)
Definition fileid_raw (dbg : bool) (version : N) (f : N) : res N :=
  if version <=? 4 then chk_add 64 dbg f 1 else Ok f.

(* LineRow::initial_state *)
Definition wrow_initial (e : enc) (l : lenc) : wrow :=
  mkWrow 0 0 (fileid_initial (e_version e)) 1 0 0 (le_default_is_stmt l) false false false 0.

(* write::line::LineInstruction *)
Inductive linsn : Type :=
| ISpecial (opcode : N)
| ICopy
| IAdvancePc (n : N)
| IAdvanceLine (d : Z)
| ISetFile (f : N)
| ISetColumn (c : N)
| INegateStatement
| ISetBasicBlock
| IConstAddPc
| ISetPrologueEnd
| ISetEpilogueBegin
| ISetIsa (i : N)
| IEndSequence
| ISetAddress (a : waddr)
| ISetDiscriminator (d : N).

(* LineInstruction::write *)
Definition insn_write (dbg be : bool) (e : enc) (i : linsn) : res (list byte) :=
  match i with
  | ISpecial v => Ok [n2b v]
  | ICopy => Ok [x01]
  | IAdvancePc v => let* l := write_uleb128 v in Ok (x02 :: l)
  | IAdvanceLine v => let* l := write_sleb128 v in Ok (x03 :: l)
  | ISetFile f => let* raw := fileid_raw dbg (e_version e) f in
                  let* l := write_uleb128 raw in Ok (x04 :: l)
  | ISetColumn v => let* l := write_uleb128 v in Ok (x05 :: l)
  | INegateStatement => Ok [x06]
  | ISetBasicBlock => Ok [x07]
  | IConstAddPc => Ok [x08]
  | ISetPrologueEnd => Ok [x0a]
  | ISetEpilogueBegin => Ok [x0b]
  | ISetIsa v => let* l := write_uleb128 v in Ok (x0c :: l)
  | IEndSequence => let* l := write_uleb128 1 in Ok (x00 :: l ++ [x01])
  | ISetAddress a =>
      let* l := write_uleb128 (1 + e_addr_size e) in
      let* ab := match a with
                 | AConst v => write_udata be v (e_addr_size e)
                 | ASym _ _ => Err WInvalidAddress
                 end in
      Ok (x00 :: l ++ [x02] ++ ab)
  | ISetDiscriminator v =>
      let* val := write_uleb128 v in
      let* l := write_uleb128 (1 + N.of_nat (length val)) in
      Ok (x00 :: l ++ [x04] ++ val)
  end.

Fixpoint insns_write (dbg be : bool) (e : enc) (is : list linsn) : res (list byte) :=
  match is with
  | [] => Ok []
  | i :: r => let* a := insn_write dbg be e i in
              let* b := insns_write dbg be e r in Ok (a ++ b)
  end.

(* ---------------------------------------------------------------- LineProgram *)

Record prog : Type := mkProg {
  p_enc : enc;
  p_lenc : lenc;
  p_dirs : list lstr;                          (* FnvIndexSet<LineString> *)
  p_files : list ((lstr * N) * finfo);         (* FnvIndexMap<(LineString, DirectoryId), FileInfo> *)
  p_has_timestamp : bool;
  p_has_size : bool;
  p_has_md5 : bool;
  p_has_source : bool;
  p_prev : wrow;
  p_row : wrow;
  p_insns : list linsn;
  p_in_seq : bool
}.

Definition set_dirs d p := mkProg (p_enc p) (p_lenc p) d (p_files p) (p_has_timestamp p) (p_has_size p)
  (p_has_md5 p) (p_has_source p) (p_prev p) (p_row p) (p_insns p) (p_in_seq p).
Definition set_files f p := mkProg (p_enc p) (p_lenc p) (p_dirs p) f (p_has_timestamp p) (p_has_size p)
  (p_has_md5 p) (p_has_source p) (p_prev p) (p_row p) (p_insns p) (p_in_seq p).
Definition set_flags a b c d p := mkProg (p_enc p) (p_lenc p) (p_dirs p) (p_files p) a b c d
  (p_prev p) (p_row p) (p_insns p) (p_in_seq p).
Definition set_prev r p := mkProg (p_enc p) (p_lenc p) (p_dirs p) (p_files p) (p_has_timestamp p) (p_has_size p)
  (p_has_md5 p) (p_has_source p) r (p_row p) (p_insns p) (p_in_seq p).
Definition set_row r p := mkProg (p_enc p) (p_lenc p) (p_dirs p) (p_files p) (p_has_timestamp p) (p_has_size p)
  (p_has_md5 p) (p_has_source p) (p_prev p) r (p_insns p) (p_in_seq p).
Definition set_in_seq b p := mkProg (p_enc p) (p_lenc p) (p_dirs p) (p_files p) (p_has_timestamp p) (p_has_size p)
  (p_has_md5 p) (p_has_source p) (p_prev p) (p_row p) (p_insns p) b.
Definition push_insns (l : list linsn) p := mkProg (p_enc p) (p_lenc p) (p_dirs p) (p_files p) (p_has_timestamp p)
  (p_has_size p) (p_has_md5 p) (p_has_source p) (p_prev p) (p_row p) (p_insns p ++ l) (p_in_seq p).

Fixpoint dir_find (l : list lstr) (d : lstr) (i : N) : option N :=
  match l with
  | [] => None
  | x :: r => if lstr_eqb x d then Some i else dir_find r d (i + 1)
  end.

(* LineProgram::add_directory *)
Definition add_directory (p : prog) (d : lstr) : res (prog * N) :=
  let* _ := match d with
            | LStr val =>
                if (e_version (p_enc p) <=? 4) && negb (match p_dirs p with [] => true | _ => false end)
                   && (match val with [] => true | _ => false end) then Panic
                else if has_nul val then Panic else Ok tt
            | _ => Ok tt
            end in
  match dir_find (p_dirs p) d 0 with
  | Some i => Ok (p, i)
  | None => Ok (set_dirs (p_dirs p ++ [d]) p, N.of_nat (length (p_dirs p)))
  end.

Definition key_eqb (a b : lstr * N) : bool := lstr_eqb (fst a) (fst b) && (snd a =? snd b).

Fixpoint file_find (l : list ((lstr * N) * finfo)) (k : lstr * N) (i : N) : option N :=
  match l with
  | [] => None
  | (k', _) :: r => if key_eqb k' k then Some i else file_find r k (i + 1)
  end.

Fixpoint file_replace (l : list ((lstr * N) * finfo)) (k : lstr * N) (info : finfo)
  : list ((lstr * N) * finfo) :=
  match l with
  | [] => []
  | (k', v) :: r => if key_eqb k' k then (k', info) :: r else (k', v) :: file_replace r k info
  end.

(* LineProgram::add_file *)
Definition add_file (p : prog) (f : lstr) (dir : N) (info : option finfo) : res (prog * N) :=
  let* _ := match f with
            | LStr val =>
                if (e_version (p_enc p) <=? 4) && (match val with [] => true | _ => false end) then Panic
                else if has_nul val then Panic else Ok tt
            | _ => Ok tt
            end in
  let key := (f, dir) in
  match file_find (p_files p) key 0, info with
  | Some i, Some inf => Ok (set_files (file_replace (p_files p) key inf) p, i)
  | Some i, None => Ok (p, i)
  | None, Some inf => Ok (set_files (p_files p ++ [(key, inf)]) p, N.of_nat (length (p_files p)))
  | None, None => Ok (set_files (p_files p ++ [(key, finfo_default)]) p, N.of_nat (length (p_files p)))
  end.

(* LineProgram::new.
   `assert!(line_base <= 0); assert!(i16::from(line_base) + i16::from(line_range) > 0)` (the i16 sum of an
   i8 and a u8 cannot overflow). Modelled at /repo commit a8af08f (after fixes eea5f40, 4a025e8, c8c5891, 64c2c71). *)
Definition lp_new (dbg : bool) (e : enc) (l : lenc) (working_dir : lstr) (source_dir : option lstr)
           (source_file : lstr) (source_info : option finfo) : res prog :=
  if negb (le_line_base l <=? 0)%Z then Panic else
  if negb (0 <? le_line_base l + Z.of_N (le_line_range l))%Z then Panic else
  let p0 := mkProg e l [] [] false false false false (wrow_initial e l) (wrow_initial e l) [] false in
  let* (p1, wd) := add_directory p0 working_dir in
  if 5 <=? e_version e then
    let* (p2, sd) := match source_dir with
                     | Some d => add_directory p1 d
                     | None => Ok (p1, wd)
                     end in
    let* (p3, _) := add_file p2 source_file sd source_info in
    Ok p3
  else Ok p1.

(* LineProgram::begin_sequence *)
Definition begin_sequence (p : prog) (a : option waddr) : res prog :=
  if p_in_seq p then Panic else
  let p := set_in_seq true p in
  match a with
  | Some a => Ok (push_insns [ISetAddress a] p)
  | None => Ok p
  end.

Definition with_op_index (r : wrow) (opi : N) : wrow :=
  mkWrow (w_address_offset r) opi (w_file r) (w_line r) (w_column r) (w_discriminator r)
         (w_is_statement r) (w_basic_block r) (w_prologue_end r) (w_epilogue_begin r) (w_isa r).

(* LineProgram::set_address: DW_LNE_set_address also resets the reader's op_index, so
   `self.prev_row.op_index = 0` (fix 64c2c71) *)
Definition set_address (p : prog) (a : waddr) : prog :=
  set_prev (with_op_index (p_prev p) 0) (push_insns [ISetAddress a] (set_in_seq true p)).

(* LineProgram::op_advance *)
Definition op_advance (dbg : bool) (l : lenc) (row prev : wrow) : res N :=
  if dbg && (w_address_offset row <? w_address_offset prev) then Panic else
  let* adv := chk_sub 64 dbg (w_address_offset row) (w_address_offset prev) in
  let* adv :=
    if negb (le_min_len l =? 1) then
      if le_min_len l =? 0 then Panic                                   (* `%` / `/` by zero *)
      else if dbg && negb (w_address_offset row mod le_min_len l =? 0) then Panic   (* debug_assert_eq! *)
      else Ok (adv / le_min_len l)
    else Ok adv in
  let* m := chk_mul 64 dbg adv (le_max_ops l) in
  let* s := chk_add 64 dbg m (w_op_index row) in
  chk_sub 64 dbg s (w_op_index prev).

(* The line/address part of generate_row, in the order of the source: the debug assertions, the line
   advance (special opcode candidate or DW_LNS_advance_line), the operation advance (folded into the
   special opcode, DW_LNS_const_add_pc + special, or DW_LNS_advance_pc), the row-emitting opcode. *)

(* debug_assert!(line_base <= 0); debug_assert!(i16::from(line_base) + i16::from(line_range) >= 0); *)
Definition adv_debug_asserts (dbg : bool) (l : lenc) : res unit :=
  if dbg then
    if negb (le_line_base l <=? 0)%Z then Panic else
    if negb (0 <=? le_line_base l + Z.of_N (le_line_range l))%Z then Panic else Ok tt
  else Ok tt.

(* special_default = special_base.wrapping_sub(line_base) *)
Definition special_default (l : lenc) : N := wrap64 (OPCODE_BASE + two64 - of_i64 (le_line_base l)).

(* `if line_advance != 0 { ... }` : (special, use_special, instructions) *)
Definition adv_line_stage (dbg : bool) (l : lenc) (line_advance : Z) : res (N * bool * list linsn) :=
  let line_base := of_i64 (le_line_base l) in                       (* i64::from(line_base) as u64 *)
  if negb (line_advance =? 0)%Z then
    let special_line := wrap64 (of_i64 line_advance + two64 - line_base) in   (* wrapping_sub *)
    (* `special_line < line_range && special_base + special_line <= 255`: the special opcode must fit a byte *)
    if special_line <? le_line_range l then
      let* s := chk_add 64 dbg OPCODE_BASE special_line in
      if s <=? 255 then Ok (s, true, [])
      else Ok (special_default l, false, [IAdvanceLine line_advance])
    else Ok (special_default l, false, [IAdvanceLine line_advance])
  else Ok (special_default l, false, []).

(* u64::saturating_mul / saturating_add *)
Definition sat_mul64 (a b : N) : N := N.min (a * b) (two64 - 1).
Definition sat_add64 (a b : N) : N := N.min (a + b) (two64 - 1).

(* `if op_advance != 0 { ... }` (fix c8c5891: the fit tests saturate instead of overflowing) *)
Definition adv_op_stage (dbg : bool) (l : lenc) (special : N) (use_special : bool) (op_adv : N)
  : res (N * bool * list linsn) :=
  let line_range := le_line_range l in
  if negb (op_adv =? 0) then
    let t := sat_add64 special (sat_mul64 op_adv line_range) in
    let* (special_op_advance, const_add_pc) :=
      if t <=? 255 then Ok (op_adv, false)
      else
        if line_range =? 0 then Panic else                            (* division by zero *)
        let op_range := (255 - OPCODE_BASE) / line_range in
        let* d := chk_sub 64 dbg op_adv op_range in Ok (d, true) in
    let special_op := sat_mul64 special_op_advance line_range in
    if sat_add64 special special_op <=? 255 then
      let* t2 := chk_add 64 dbg special special_op in                 (* `special += special_op` *)
      Ok (t2, true, if const_add_pc then [IConstAddPc] else [])
    else Ok (special, use_special, [IAdvancePc op_adv])
  else Ok (special, use_special, []).

(* `if use_special && special != special_default { Special(special as u8) } else { Copy }` *)
Definition adv_final (dbg : bool) (l : lenc) (special : N) (use_special : bool) : res (list linsn) :=
  if use_special && negb (special =? special_default l) then
    if dbg && ((special <? OPCODE_BASE) || (255 <? special)) then Panic    (* debug_assert!s *)
    else Ok [ISpecial (wrap8 special)]                                       (* `special as u8` *)
  else Ok [ICopy].

Definition advance_insns (dbg : bool) (l : lenc) (line_advance : Z) (op_adv : N) : res (list linsn) :=
  let* _ := adv_debug_asserts dbg l in
  let* (special, use_special, pre) := adv_line_stage dbg l line_advance in
  let* (special, use_special, mid) := adv_op_stage dbg l special use_special op_adv in
  let* fin := adv_final dbg l special use_special in
  Ok (pre ++ mid ++ fin).

(* the register part of generate_row: instructions and the row with the per-row fields cleared *)
Definition field_insns (row prev : wrow) : list linsn :=
  (if negb (w_discriminator row =? 0) then [ISetDiscriminator (w_discriminator row)] else [])
  ++ (if w_basic_block row then [ISetBasicBlock] else [])
  ++ (if w_prologue_end row then [ISetPrologueEnd] else [])
  ++ (if w_epilogue_begin row then [ISetEpilogueBegin] else [])
  ++ (if negb (Bool.eqb (w_is_statement row) (w_is_statement prev)) then [INegateStatement] else [])
  ++ (if negb (w_file row =? w_file prev) then [ISetFile (w_file row)] else [])
  ++ (if negb (w_column row =? w_column prev) then [ISetColumn (w_column row)] else [])
  ++ (if negb (w_isa row =? w_isa prev) then [ISetIsa (w_isa row)] else []).

Definition clear_row_flags (r : wrow) : wrow :=
  mkWrow (w_address_offset r) (w_op_index r) (w_file r) (w_line r) (w_column r) 0
         (w_is_statement r) false false false (w_isa r).

(* fix 4a025e8: `line_delta` is an i128; the two `while` loops emit DW_LNS_advance_line(i64::MAX / i64::MIN)
   until the rest fits an i64 (only one of the loops can run; |delta| < 2^64 needs at most 2 rounds).
   Result: the chunk instructions and the remaining delta. *)
Definition I64_MAX : Z := 9223372036854775807.
Definition I64_MIN : Z := (-9223372036854775808).
Fixpoint line_chunks (fuel : nat) (delta : Z) : res (list linsn * Z) :=
  match fuel with
  | O => OutOfFuel
  | S f =>
      if (I64_MAX <? delta)%Z then
        let* (l, d) := line_chunks f (delta - I64_MAX)%Z in Ok (IAdvanceLine I64_MAX :: l, d)
      else if (delta <? I64_MIN)%Z then
        let* (l, d) := line_chunks f (delta - I64_MIN)%Z in Ok (IAdvanceLine I64_MIN :: l, d)
      else Ok ([], delta)
  end.

(* LineProgram::generate_row *)
Definition generate_row (dbg : bool) (p : prog) : res prog :=
  let row := p_row p in
  let prev := p_prev p in
  let fields := field_insns row prev in
  let row := clear_row_flags row in
  (* i128::from(self.row.line) - i128::from(self.prev_row.line), chunked *)
  let* (chunks, d) := line_chunks 3 (Z.of_N (w_line row) - Z.of_N (w_line prev))%Z in
  let line_advance := wrap_signed 64 d in                            (* `line_delta as i64` *)
  let* opa := op_advance dbg (p_lenc p) row prev in
  let* adv := advance_insns dbg (p_lenc p) line_advance opa in
  Ok (set_prev row (set_row row (push_insns (fields ++ chunks ++ adv) (set_in_seq true p)))).

(* LineProgram::end_sequence *)
Definition end_sequence (dbg : bool) (p : prog) (address_offset : N) : res prog :=
  let r := p_row p in
  let row := mkWrow address_offset (w_op_index r) (w_file r) (w_line r) (w_column r) (w_discriminator r)
                    (w_is_statement r) (w_basic_block r) (w_prologue_end r) (w_epilogue_begin r) (w_isa r) in
  let* opa := op_advance dbg (p_lenc p) row (p_prev p) in
  let ins := (if negb (opa =? 0) then [IAdvancePc opa] else []) ++ [IEndSequence] in
  let init := wrow_initial (p_enc p) (p_lenc p) in
  Ok (set_prev init (set_row init (push_insns ins (set_in_seq false p)))).

(* ---------------------------------------------------------------- LineProgram::write *)

Fixpoint dirs_write (dbg be : bool) (form : N) (e : enc) (ls ss : strtab) (ds : list lstr) : res (list byte) :=
  match ds with
  | [] => Ok []
  | d :: r => let* a := lstr_write dbg be d form e ls ss in
              let* b := dirs_write dbg be form e ls ss r in Ok (a ++ b)
  end.

(* version <= 4 file entries *)
Fixpoint files_write_v4 (dbg be : bool) (e : enc) (ls ss : strtab) (fs : list ((lstr * N) * finfo))
  : res (list byte) :=
  match fs with
  | [] => Ok []
  | ((f, dir), info) :: r =>
      let* a := lstr_write dbg be f DW_FORM_string e ls ss in
      let* d := write_uleb128 dir in
      let* t := write_uleb128 (fi_timestamp info) in
      let* s := write_uleb128 (fi_size info) in
      let* b := files_write_v4 dbg be e ls ss r in
      Ok (a ++ d ++ t ++ s ++ b)
  end.

(* find_map(|file| file.1.source.as_ref().map(LineString::form)).unwrap_or(DW_FORM_string) *)
Fixpoint source_form (fs : list ((lstr * N) * finfo)) : N :=
  match fs with
  | [] => DW_FORM_string
  | (_, info) :: r => match fi_source info with Some s => lstr_form s | None => source_form r end
  end.

(* version 5 file entries; the string tables may grow (empty source string) *)
Fixpoint files_write_v5 (dbg be : bool) (p : prog) (file_form src_form : N) (ls ss : strtab)
         (fs : list ((lstr * N) * finfo)) : res (list byte * strtab * strtab) :=
  match fs with
  | [] => Ok ([], ls, ss)
  | ((f, dir), info) :: r =>
      let e := p_enc p in
      let* a := lstr_write dbg be f file_form e ls ss in
      let* d := write_uleb128 dir in
      let* t := if p_has_timestamp p then write_uleb128 (fi_timestamp info) else Ok [] in
      let* s := if p_has_size p then write_uleb128 (fi_size info) else Ok [] in
      let m := if p_has_md5 p then fi_md5 info else [] in
      let* (src, ls, ss) :=
        if p_has_source p then
          match fi_source info with
          | Some source => let* b := lstr_write dbg be source src_form e ls ss in Ok (b, ls, ss)
          | None =>
              if src_form =? DW_FORM_line_strp then
                let* (ls', id) := tab_add ls [] in
                let* b := lstr_write dbg be (LLineStrRef id) src_form e ls' ss in Ok (b, ls', ss)
              else if src_form =? DW_FORM_strp then
                let* (ss', id) := tab_add ss [] in
                let* b := lstr_write dbg be (LStrRef id) src_form e ls ss' in Ok (b, ls, ss')
              else
                let* b := lstr_write dbg be (LStr []) src_form e ls ss in Ok (b, ls, ss)
          end
        else Ok ([], ls, ss) in
      let* (rest, ls, ss) := files_write_v5 dbg be p file_form src_form ls ss r in
      Ok (a ++ d ++ t ++ s ++ m ++ src ++ rest, ls, ss)
  end.

Definition std_opcode_lengths : list byte := [x00; x01; x01; x01; x01; x00; x00; x00; x01; x00; x00; x01].

Definition b2N (b : bool) : N := if b then 1 else 0.

(* LineProgram::write: bytes appended to an empty `.debug_line`, and the string tables afterwards.
   `unit_enc` is the encoding of the referring unit. *)
Definition write (dbg be : bool) (p : prog) (unit_enc : enc) (ls ss : strtab)
  : res (list byte * strtab * strtab) :=
  let e := p_enc p in
  let l := p_lenc p in
  let ver := e_version e in
  if ((e_version unit_enc <? 5) && (5 <=? ver)) || negb (e_addr_size unit_enc =? e_addr_size e)
  then Err WIncompatibleLineProgramEncoding else
  if (ver <? 2) || (5 <? ver) then Err WUnsupportedVersion else
  let pre := enc_un 2 be ver ++ (if 5 <=? ver then [n2b (e_addr_size e); x00] else []) in
  let* mo := if 4 <=? ver then Ok [n2b (le_max_ops l)]
             else if negb (le_max_ops l =? 1) then Err WNeedVersion else Ok [] in
  let fixed := [n2b (le_min_len l)] ++ mo ++ [n2b (b2N (le_default_is_stmt l))]
               ++ [n2b (of_signed 8 (le_line_base l)); n2b (le_line_range l); n2b OPCODE_BASE]
               ++ std_opcode_lengths in
  let* (tables, ls, ss) :=
    if ver <=? 4 then
      let* ds := dirs_write dbg be DW_FORM_string e ls ss (tl (p_dirs p)) in
      let* fs := files_write_v4 dbg be e ls ss (p_files p) in
      Ok (ds ++ [x00] ++ fs ++ [x00], ls, ss)
    else
      let* d0 := unwrap (hd_error (p_dirs p)) in
      let dir_form := lstr_form d0 in
      let* df := write_uleb128 dir_form in
      let* dn := write_uleb128 (N.of_nat (length (p_dirs p))) in
      let* ds := dirs_write dbg be dir_form e ls ss (p_dirs p) in
      let count := 2 + b2N (p_has_timestamp p) + b2N (p_has_size p) + b2N (p_has_md5 p) + b2N (p_has_source p) in
      let* f0 := unwrap (hd_error (p_files p)) in
      let file_form := lstr_form (fst (fst f0)) in
      let* ff := write_uleb128 file_form in
      let src_form := source_form (p_files p) in
      let* sf := write_uleb128 src_form in
      let* lnct_src := write_uleb128 8193 in      (* DW_LNCT_LLVM_source = 0x2001 *)
      let fmt := [x01] ++ ff ++ [x02; n2b DW_FORM_udata]
                 ++ (if p_has_timestamp p then [x03; n2b DW_FORM_udata] else [])
                 ++ (if p_has_size p then [x04; n2b DW_FORM_udata] else [])
                 ++ (if p_has_md5 p then [x05; n2b DW_FORM_data16] else [])
                 ++ (if p_has_source p then lnct_src ++ sf else []) in
      let* fnum := write_uleb128 (N.of_nat (length (p_files p))) in
      let* (fs, ls, ss) := files_write_v5 dbg be p file_form src_form ls ss (p_files p) in
      Ok ([x01; x01] ++ df ++ dn ++ ds ++ [n2b count] ++ fmt ++ fnum ++ fs, ls, ss) in
  let hdr := fixed ++ tables in
  let* hl := write_udata be (N.of_nat (length hdr)) (word_size (e_fmt64 e)) in
  let* ins := insns_write dbg be e (p_insns p) in
  let body := pre ++ hl ++ hdr ++ ins in
  let* il := write_initial_length (e_fmt64 e) be (N.of_nat (length body)) in
  Ok (il ++ body, ls, ss).

(* ---------------------------------------------------------------- scripts (what the harness drives) *)

(* a string as given to the harness: kind 0 = LineString::String, 1 = StringRef (added to the
   .debug_str table), 2 = LineStringRef (added to .debug_line_str) *)
Definition sstr : Type := (N * list byte)%type.
Record sinfo : Type := mkSinfo { si_timestamp : N; si_size : N; si_md5 : list byte; si_source : option sstr }.

Record rowspec : Type := mkRowspec {
  rs_address_offset : N; rs_op_index : N; rs_file : option N (* handle: k-th add_file result *);
  rs_line : N; rs_column : N; rs_discriminator : N; rs_is_statement : bool; rs_basic_block : bool;
  rs_prologue_end : bool; rs_epilogue_begin : bool; rs_isa : N
}.

Inductive sop : Type :=
| OAddDir (d : sstr)
| OAddFile (f : sstr) (dirh : N) (info : option sinfo)
| OBegin (a : option waddr)
| OSetAddr (a : waddr)
| ORow (r : rowspec)
| OEnd (off : N) (op_index : N)   (* row().op_index = op_index; end_sequence(off) *)
| OFlags (ts size md5 source : bool).

Record sstate : Type := mkSstate {
  st_prog : prog; st_ls : strtab; st_ss : strtab; st_dids : list N; st_fids : list N
}.

Definition mk_lstr (ls ss : strtab) (s : sstr) : res (lstr * strtab * strtab) :=
  let (kind, bs) := s in
  if kind =? 0 then Ok (LStr bs, ls, ss)
  else if kind =? 1 then let* (ss', id) := tab_add ss bs in Ok (LStrRef id, ls, ss')
  else let* (ls', id) := tab_add ls bs in Ok (LLineStrRef id, ls', ss).

Definition mk_info (ls ss : strtab) (i : option sinfo) : res (option finfo * strtab * strtab) :=
  match i with
  | None => Ok (None, ls, ss)
  | Some si =>
      let* (src, ls, ss) := match si_source si with
                             | None => Ok (None, ls, ss)
                             | Some s => let* (x, ls, ss) := mk_lstr ls ss s in Ok (Some x, ls, ss)
                             end in
      Ok (Some (mkFinfo (si_timestamp si) (si_size si) (si_md5 si) src), ls, ss)
  end.

Definition run_op (dbg : bool) (st : sstate) (o : sop) : res sstate :=
  let p := st_prog st in
  match o with
  | OAddDir d =>
      let* (x, ls, ss) := mk_lstr (st_ls st) (st_ss st) d in
      let* (p', id) := add_directory p x in
      Ok (mkSstate p' ls ss (st_dids st ++ [id]) (st_fids st))
  | OAddFile f dirh info =>
      let* (x, ls, ss) := mk_lstr (st_ls st) (st_ss st) f in
      let* (inf, ls, ss) := mk_info ls ss info in
      let* dir := unwrap (nth_error (st_dids st) (N.to_nat dirh)) in
      let* (p', id) := add_file p x dir inf in
      Ok (mkSstate p' ls ss (st_dids st) (st_fids st ++ [id]))
  | OBegin a => let* p' := begin_sequence p a in Ok (mkSstate p' (st_ls st) (st_ss st) (st_dids st) (st_fids st))
  | OSetAddr a => Ok (mkSstate (set_address p a) (st_ls st) (st_ss st) (st_dids st) (st_fids st))
  | ORow r =>
      let* f := match rs_file r with
                | None => Ok (w_file (p_row p))
                | Some h => unwrap (nth_error (st_fids st) (N.to_nat h))
                end in
      let row := mkWrow (rs_address_offset r) (rs_op_index r) f (rs_line r) (rs_column r) (rs_discriminator r)
                        (rs_is_statement r) (rs_basic_block r) (rs_prologue_end r) (rs_epilogue_begin r) (rs_isa r) in
      let* p' := generate_row dbg (set_row row p) in
      Ok (mkSstate p' (st_ls st) (st_ss st) (st_dids st) (st_fids st))
  | OEnd off opi =>
      let r := p_row p in
      let row := mkWrow (w_address_offset r) opi (w_file r) (w_line r) (w_column r) (w_discriminator r)
                        (w_is_statement r) (w_basic_block r) (w_prologue_end r) (w_epilogue_begin r) (w_isa r) in
      let* p' := end_sequence dbg (set_row row p) off in Ok (mkSstate p' (st_ls st) (st_ss st) (st_dids st) (st_fids st))
  | OFlags a b c d => Ok (mkSstate (set_flags a b c d p) (st_ls st) (st_ss st) (st_dids st) (st_fids st))
  end.

Fixpoint run_ops (dbg : bool) (st : sstate) (ops : list sop) : res sstate :=
  match ops with
  | [] => Ok st
  | o :: r => let* st' := run_op dbg st o in run_ops dbg st' r
  end.

(* the whole harness case: new, the script, write. Result: .debug_line, .debug_line_str, .debug_str *)
Definition run_script (dbg be : bool) (e : enc) (l : lenc) (unit_enc : enc)
           (wd : sstr) (sd : option sstr) (sf : sstr) (sfi : option sinfo) (ops : list sop)
  : res (list byte * list byte * list byte) :=
  let* (wdx, ls, ss) := mk_lstr [] [] wd in
  let* (sdx, ls, ss) := match sd with
                         | None => Ok (None, ls, ss)
                         | Some s => let* (x, ls, ss) := mk_lstr ls ss s in Ok (Some x, ls, ss)
                         end in
  let* (sfx, ls, ss) := mk_lstr ls ss sf in
  let* (inf, ls, ss) := mk_info ls ss sfi in
  let* p := lp_new dbg e l wdx sdx sfx inf in
  let* st := run_ops dbg (mkSstate p ls ss [0] []) ops in
  let* (bytes, ls, ss) := write dbg be (st_prog st) unit_enc (st_ls st) (st_ss st) in
  Ok (bytes, tab_bytes ls, tab_bytes ss).

(* ---------------------------------------------------------------- denotation of instructions *)

(* the raw DWARF instruction a writer instruction stands for (Constant addresses; file ids per version) *)
Definition denote (version : N) (i : linsn) : sinsn :=
  match i with
  | ISpecial v => SSpecial (Z.of_N v)
  | ICopy => SCopy
  | IAdvancePc n => SAdvancePc (Z.of_N n)
  | IAdvanceLine d => SAdvanceLine d
  | ISetFile f => SSetFile (Z.of_N (if version <=? 4 then f + 1 else f))
  | ISetColumn c => SSetColumn (Z.of_N c)
  | INegateStatement => SNegateStmt
  | ISetBasicBlock => SSetBasicBlock
  | IConstAddPc => SConstAddPc
  | ISetPrologueEnd => SSetPrologueEnd
  | ISetEpilogueBegin => SSetEpilogueBegin
  | ISetIsa i => SSetIsa (Z.of_N i)
  | IEndSequence => SEndSequence
  | ISetAddress (AConst a) => SSetAddress (Z.of_N a)
  | ISetAddress (ASym _ a) => SSetAddress a
  | ISetDiscriminator d => SSetDiscriminator (Z.of_N d)
  end.

Definition params_of (l : lenc) : lparams :=
  mkLP (Z.of_N (le_min_len l)) (Z.of_N (le_max_ops l)) (le_line_base l) (Z.of_N (le_line_range l))
       (Z.of_N OPCODE_BASE) (le_default_is_stmt l).
