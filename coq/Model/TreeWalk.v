(* Model/TreeWalk.v — callers' recursions over /repo/src/read/unit.rs EntriesTree / EntriesCursor that do
   NOT visit everything: the documented patterns

     fn walk(node) { visit(node.entry());
                     if let Some(n) = sel(node.entry()) {            // else: children() is not called
                         let mut ch = node.children(); let mut left = n;
                         while left > 0 { left -= 1;
                             match ch.next()? { Some(child) => walk(child)?, None => break } } } }

     fn sibwalk(c: &EntriesCursor) { visit(c.current());
                     if c.current().has_children() && let Some(n) = sel(c.current()) {
                         let mut k = c.clone(); if !k.next_entry()? { return }
                         let mut left = n;
                         while k.current().is_some() && left > 0 { left -= 1;
                             sibwalk(&k)?; if k.next_sibling()?.is_none() { break } } } }

   over the model functions of Model/DieRd.v (EntriesTree::next via EntriesTreeIter::next, which calls
   tree.next(depth) and hands out child nodes with depth + 1; EntriesCursor::{next_entry, next_sibling}).
   `sel : die -> option nat` is the caller's selection strategy (Spec/ForestSel.v): None = the children
   are not requested, Some n = stop after n children and go back to the parent's list. After a partial
   visit the next EntriesTreeIter::next of an enclosing list has to find the following sibling from
   wherever the reader was left inside the subtree (DW_AT_sibling fast path or scanning).
   No proofs here. Streams: c02.forest (tokens `skip`, `walk`), c02.nav (token `skip`). *)
From Coq Require Import List NArith ZArith Bool.
From Coq.Strings Require Import Byte.
Require Import GV.Base.Res GV.Base.Byt GV.Base.Ints GV.Model.Leb GV.Model.Prim GV.Spec.FormSpec GV.Model.Attr GV.Spec.Forest GV.Model.AbbrevRd GV.Model.DieRd.
Import ListNotations.
Local Open Scope N_scope.

(* the `while` loop over an EntriesTreeIter created with `depth`, at most `budget` calls of next();
   result: the entries visited in order, the error that ended the walk, the tree state left behind *)
Fixpoint walk_plan (fuel : nat) (dbg : bool) (e : enc) (tbl : abbrevs) (sel : die -> option nat)
  (depth : Z) (budget : nat) (t : tree_st) : res (list die * option error * tree_st) :=
  match fuel with
  | O => OutOfFuel
  | S k =>
      match budget with
      | O => Ok ([], None, t)
      | S b =>
          let* s := tree_next (tree_fuel t) dbg e tbl depth t in
          match s with
          | TErr x t' => Ok ([], Some x, t')
          | TOk false t' => Ok ([], None, t')
          | TOk true t' =>
              let d := tr_entry t' in
              let* (sub, err, t2) :=
                (match sel d with
                 | Some n => walk_plan k dbg e tbl sel (depth + 1) n t'
                 | None => Ok ([], None, t')
                 end) in
              match err with
              | Some x => Ok (d :: sub, Some x, t2)
              | None =>
                  let* (rest, err', t3) := walk_plan k dbg e tbl sel depth b t2 in
                  Ok (d :: sub ++ rest, err', t3)
              end
          end
      end
  end.

(* tree.root()? then walk(root) *)
Definition walk_tree_plan (dbg : bool) (e : enc) (tbl : abbrevs) (sel : die -> option nat) (t : tree_st)
  : res (list die * option error) :=
  match tree_root dbg e tbl t with
  | Ok t1 =>
      let* (l, err, _) :=
        (match sel (tr_entry t1) with
         | Some n => walk_plan (S (S (length (tr_root t)))) dbg e tbl sel 1 n t1
         | None => Ok ([], None, t1)
         end) in
      Ok (tr_entry t1 :: l, err)
  | Err x => Ok ([], Some x)
  | Panic => Panic
  | OutOfFuel => OutOfFuel
  end.

(* the `while k.current().is_some() && left > 0` loop of sibwalk over a cursor positioned on an entry
   of a sibling list; the recursive sibwalk(&k) works on a clone, so `c` itself only moves by
   next_sibling *)
Fixpoint cwalk_list (fuel : nat) (dbg : bool) (e : enc) (tbl : abbrevs) (sel : die -> option nat)
  (budget : nat) (c : cursor) : res (list die * option error) :=
  match fuel with
  | O => OutOfFuel
  | S k =>
      match current c with
      | None => Ok ([], None)
      | Some d =>
          match budget with
          | O => Ok ([], None)
          | S b =>
              let* (sub, err) :=
                (match (if d_children d then sel d else None) with
                 | None => Ok ([], None)
                 | Some n =>
                     let* s := next_entry dbg e tbl c in
                     match s with
                     | SErr x _ => Ok ([], Some x)
                     | SOk false _ => Ok ([], None)
                     | SOk true c1 => cwalk_list k dbg e tbl sel n c1
                     end
                 end) in
              match err with
              | Some x => Ok (d :: sub, Some x)
              | None =>
                  let* s := next_sibling (cursor_fuel c) dbg e tbl c in
                  match s with
                  | SErr x _ => Ok (d :: sub, Some x)
                  | SOk None _ => Ok (d :: sub, None)
                  | SOk (Some _) c2 =>
                      let* (rest, err') := cwalk_list k dbg e tbl sel b c2 in
                      Ok (d :: sub ++ rest, err')
                  end
              end
          end
      end
  end.

(* unit.entries(abbrevs), next_entry()? to the first top-level entry, then the loop *)
Definition walk_cursor (dbg : bool) (e : enc) (tbl : abbrevs) (sel : die -> option nat) (budget : nat) (c : cursor)
  : res (list die * option error) :=
  let* s := next_entry dbg e tbl c in
  match s with
  | SErr x _ => Ok ([], Some x)
  | SOk false _ => Ok ([], None)
  | SOk true c1 => cwalk_list (S (S (length (r_in (c_raw c))))) dbg e tbl sel budget c1
  end.
