(* Model/Cursor.v — reader kinds of gimli as executable Gallina (C10).
   Mirrors, function by function:
     src/read/reader.rs        trait Reader: required methods = record [reader_req]; provided methods
                               (read_u8_array, read_u8..read_u128, read_i8..read_i64, read_uint,
                               read_null_terminated_slice, read_address, read_word/read_offset/read_length,
                               read_sized_offset, is_empty) = the generic [g_*] functions over that record
     src/read/endian_reader.rs SubRange::{new,bytes,len,truncate,skip,read_slice} and
                               impl Reader for EndianReader           = [cur], [sr_*], [er_*], [er_impl]
     src/read/endian_slice.rs  impl Reader for EndianSlice            = [srd], [sl_*], [sl_impl]
     src/read/relocate.rs      impl Reader for RelocateReader         = [rcur], [rr_*], [rr_impl]
   An operation language [cop] and [gstep impl be root c op] run one Reader call; [pstep] runs a pool
   of live readers (clone / split results / drop in any order).
   NO proofs here. Correspondence streams: c10.seq c10.ops c10.utf8 (model = expected column);
   c10.parse compares the Rust reader kinds with each other only. *)
From Coq Require Import List NArith ZArith Bool.
From Coq.Strings Require Import Byte.
Require Import GV.Base.Res GV.Base.Byt GV.Base.Ints GV.Model.Prim GV.Spec.CursorSpec.
Import ListNotations.
Local Open Scope N_scope.

(* ------------------------------------------------------------------ state-and-result monad *)
(* A `&mut self` method that returns Result<A>: the reader after the call is explicit even when the
   call fails (some composite methods consume before failing). *)
Definition M (R A : Type) : Type := R -> R * res A.
Definition mret {R A} (a : A) : M R A := fun c => (c, Ok a).
Definition mfail {R A} (e : error) : M R A := fun c => (c, Err e).
Definition mpanic {R A} : M R A := fun c => (c, Panic).
Definition mbind {R A B} (m : M R A) (f : A -> M R B) : M R B :=
  fun c => let (c1, r) := m c in
           match r with
           | Ok a => f a c1
           | Err e => (c1, Err e)
           | Panic => (c1, Panic)
           | OutOfFuel => (c1, OutOfFuel)
           end.
Definition mmap {R A B} (f : A -> B) (m : M R A) : M R B := mbind m (fun a => mret (f a)).
(* `&self` method *)
Definition mget {R A} (f : R -> res A) : M R A := fun c => (c, f c).
(* primitive `&mut self` method whose body tests, then mutates: an early return leaves self untouched *)
Definition mprim {R A} (f : R -> res (A * R)) : M R A :=
  fun c => match f c with
           | Ok (a, c') => (c', Ok a)
           | Err e => (c, Err e)
           | Panic => (c, Panic)
           | OutOfFuel => (c, OutOfFuel)
           end.

(* ------------------------------------------------------------------ trait Reader *)
(* required methods (reader.rs `pub trait Reader`), Offset = usize = u64 *)
Record reader_req (R : Type) : Type := mkReq {
  q_len : R -> N;
  q_empty : M R unit;
  q_truncate : N -> M R unit;
  q_offset_from : R -> R -> res N;              (* self, base *)
  q_offset_id : R -> N;
  q_lookup_offset_id : R -> N -> res (option N);
  q_find : R -> byte -> res N;
  q_skip : N -> M R unit;
  q_split : N -> M R R;
  q_to_slice : R -> list byte;                  (* always Ok *)
  q_to_string : R -> res (list byte);
  q_read_slice : N -> M R (list byte)           (* read_slice(&mut buf) with |buf| = n; the copied bytes *)
}.
Arguments q_len {R}. Arguments q_empty {R}. Arguments q_truncate {R}. Arguments q_offset_from {R}.
Arguments q_offset_id {R}. Arguments q_lookup_offset_id {R}. Arguments q_find {R}. Arguments q_skip {R}.
Arguments q_split {R}. Arguments q_to_slice {R}. Arguments q_to_string {R}. Arguments q_read_slice {R}.

Section Provided.
  Variable R : Type.
  Variable q : reader_req R.

  (* read_u8_array::<[u8; w]> then Endianity::read_uN *)
  Definition g_read_un (w : nat) (be : bool) : M R N :=
    mbind (q_read_slice q (N.of_nat w)) (fun bs => mret (if be then be_val bs else le_val bs)).
  (* read_i8..i64: `as iN` of the unsigned value *)
  Definition g_read_in (w : nat) (be : bool) : M R Z :=
    mbind (g_read_un w be) (fun v => mret (to_signed (8 * N.of_nat w) v)).
  (* read_uint(n): `&mut buf[..n]` of an 8-byte array panics for n > 8 before anything is read *)
  Definition g_read_uint (n : nat) (be : bool) : M R N :=
    if Nat.ltb 8 n then mpanic else g_read_un n be.
  (* read_null_terminated_slice: find(0)?; split(idx)?; skip(1)? *)
  Definition g_read_cstr : M R R :=
    mbind (mget (fun c => q_find q c x00)) (fun idx =>
    mbind (q_split q idx) (fun v =>
    mbind (q_skip q 1) (fun _ => mret v))).
  Definition g_read_address (be : bool) (size : N) : M R N :=
    if size =? 1 then g_read_un 1 be
    else if size =? 2 then g_read_un 2 be
    else if size =? 4 then g_read_un 4 be
    else if size =? 8 then g_read_un 8 be
    else mfail EUnsupportedAddressSize.
  (* read_word; Offset::from_u64 never fails for usize = u64 *)
  Definition g_read_word (be : bool) (fmt64 : bool) : M R N :=
    if fmt64 then g_read_un 8 be else g_read_un 4 be.
  Definition g_read_sized_offset (be : bool) (size : N) : M R N :=
    if size =? 1 then g_read_un 1 be
    else if size =? 2 then g_read_un 2 be
    else if size =? 4 then g_read_un 4 be
    else if size =? 8 then g_read_un 8 be
    else mfail EUnsupportedOffsetSize.
  Definition g_is_empty (c : R) : bool := q_len q c =? 0.
End Provided.
Arguments g_read_un {R}. Arguments g_read_in {R}. Arguments g_read_uint {R}. Arguments g_read_cstr {R}.
Arguments g_read_address {R}. Arguments g_read_word {R}. Arguments g_read_sized_offset {R}.
Arguments g_is_empty {R}.

(* an implementation = required methods + the provided methods it may override *)
Record reader_impl (R : Type) : Type := mkImpl {
  i_req : reader_req R;
  i_read_address : bool -> N -> M R N;           (* be, address_size *)
  i_read_offset : bool -> bool -> M R N;         (* be, format = Dwarf64 *)
  i_read_sized_offset : bool -> N -> M R N       (* be, size *)
}.
Arguments i_req {R}. Arguments i_read_address {R}. Arguments i_read_offset {R}.
Arguments i_read_sized_offset {R}.

Definition default_impl {R} (q : reader_req R) : reader_impl R :=
  mkImpl R q (g_read_address q) (g_read_word q) (g_read_sized_offset q).

(* ------------------------------------------------------------------ operations and their results *)
Inductive cop : Type :=
| CReadSlice (n : N)               (* read_slice(&mut [0; n]) *)
| CReadUn (w : nat)                (* read_u8/u16/u32/u64/u128 for w = 1,2,4,8,16 *)
| CReadIn (w : nat)                (* read_i8/i16/i32/i64 *)
| CReadUint (n : nat)              (* read_uint(n) *)
| CSkip (n : N)
| CSplit (n : N)
| CTruncate (n : N)
| CEmpty
| CFind (b : byte)
| CLen
| CIsEmpty
| COffsetId
| CLookupId (id : N)               (* self.lookup_offset_id(ReaderOffsetId(id)) *)
| CRootLookupSelf                  (* root.lookup_offset_id(self.offset_id()) *)
| COffsetFromRoot                  (* self.offset_from(&root) *)
| CToSlice
| CToString
| CReadCstr                        (* read_null_terminated_slice *)
| CReadAddress (size : N)
| CReadOffset (fmt64 : bool)
| CReadLength (fmt64 : bool)       (* read_length = read_word: never overridden *)
| CReadSizedOffset (size : N).

Inductive oval (R : Type) : Type :=
| VUnit
| VNum (n : N)
| VInt (z : Z)
| VBool (b : bool)
| VBytes (bs : list byte)
| VRd (r : R)
| VOpt (o : option N).
Arguments VUnit {R}. Arguments VNum {R}. Arguments VInt {R}. Arguments VBool {R}.
Arguments VBytes {R}. Arguments VRd {R}. Arguments VOpt {R}.

(* one Reader call on [c]; [root] is the section reader the caller keeps *)
Definition gstep {R} (I : reader_impl R) (be : bool) (root c : R) (op : cop) : R * res (oval R) :=
  let q := i_req I in
  match op with
  | CReadSlice n => mmap VBytes (q_read_slice q n) c
  | CReadUn w => mmap VNum (g_read_un q w be) c
  | CReadIn w => mmap VInt (g_read_in q w be) c
  | CReadUint n => mmap VNum (g_read_uint q n be) c
  | CSkip n => mmap (fun _ => VUnit) (q_skip q n) c
  | CSplit n => mmap VRd (q_split q n) c
  | CTruncate n => mmap (fun _ => VUnit) (q_truncate q n) c
  | CEmpty => mmap (fun _ => VUnit) (q_empty q) c
  | CFind b => (c, rmap VNum (q_find q c b))
  | CLen => (c, Ok (VNum (q_len q c)))
  | CIsEmpty => (c, Ok (VBool (g_is_empty q c)))
  | COffsetId => (c, Ok (VNum (q_offset_id q c)))
  | CLookupId id => (c, rmap VOpt (q_lookup_offset_id q c id))
  | CRootLookupSelf => (c, rmap VOpt (q_lookup_offset_id q root (q_offset_id q c)))
  | COffsetFromRoot => (c, rmap VNum (q_offset_from q c root))
  | CToSlice => (c, Ok (VBytes (q_to_slice q c)))
  | CToString => (c, rmap VBytes (q_to_string q c))
  | CReadCstr => mmap VRd (g_read_cstr q) c
  | CReadAddress size => mmap VNum (i_read_address I be size) c
  | CReadOffset f => mmap VNum (i_read_offset I be f) c
  | CReadLength f => mmap VNum (g_read_word q be f) c
  | CReadSizedOffset size => mmap VNum (i_read_sized_offset I be size) c
  end.

(* a history on one reader: final reader and the outputs in order *)
Fixpoint grun {R} (I : reader_impl R) (be : bool) (root c : R) (ops : list cop) : R * list (res (oval R)) :=
  match ops with
  | [] => (c, [])
  | op :: r => let (c1, o) := gstep I be root c op in
               let (c2, os) := grun I be root c1 r in (c2, o :: os)
  end.

(* ------------------------------------------------------------------ shared helpers *)
(* slice.iter().position(|x| *x == byte) *)
Fixpoint position (b : byte) (l : list byte) : option N :=
  match l with
  | [] => None
  | x :: r => if b2n x =? b2n b then Some 0
              else match position b r with Some i => Some (N.succ i) | None => None end
  end.

(* core::str::from_utf8(..).is_ok() *)
Definition inr (lo hi : N) (b : byte) : bool := (lo <=? b2n b) && (b2n b <=? hi).
Definition cont (b : byte) : bool := inr 128 191 b.
Definition lead3 (a b : byte) : bool :=
  (inr 224 224 a && inr 160 191 b) || (inr 225 236 a && cont b)
  || (inr 237 237 a && inr 128 159 b) || (inr 238 239 a && cont b).
Definition lead4 (a b : byte) : bool :=
  (inr 240 240 a && inr 144 191 b) || (inr 241 243 a && cont b) || (inr 244 244 a && inr 128 143 b).
Fixpoint utf8_valid (l : list byte) : bool :=
  match l with
  | [] => true
  | a :: r =>
    if b2n a <? 128 then utf8_valid r else
    match r with
    | [] => false
    | b :: r2 =>
      if inr 194 223 a then cont b && utf8_valid r2 else
      match r2 with
      | [] => false
      | c :: r3 =>
        if lead3 a b then cont c && utf8_valid r3 else
        match r3 with
        | [] => false
        | d :: r4 => lead4 a b && cont c && cont d && utf8_valid r4
        end
      end
    end
  end.

(* Reader::offset_from as written in both slice readers: two debug_assert!s, then `ptr - base_ptr` *)
Definition offset_from_ptrs (dbg : bool) (p plen bp blen : N) : res N :=
  if dbg && negb (bp <=? p) then Panic else
  let* e1 := (if dbg then chk_add 64 dbg p plen else Ok 0) in
  let* e2 := (if dbg then chk_add 64 dbg bp blen else Ok 0) in
  if dbg && negb (e1 <=? e2) then Panic else
  chk_sub 64 dbg p bp.

(* Reader::lookup_offset_id as written in both slice readers *)
Definition lookup_id_ptrs (dbg : bool) (self_id self_len id : N) : res (option N) :=
  let* hi := chk_add 64 dbg self_id self_len in
  if (self_id <=? id) && (id <=? hi) then
    let* d := chk_sub 64 dbg id self_id in Ok (Some d)
  else Ok None.

(* ------------------------------------------------------------------ EndianReader<_, T> (Rc, Arc, custom) *)
(* SubRange { bytes: T, ptr, len }: [buf] = *bytes (never changes), [base] = address of bytes[0],
   ptr = base + off. Representation invariant (Proofs): off + len <= |buf|. *)
Record cur : Type := mkCur { buf : list byte; base : N; off : N; len : N }.
Definition with_win (c : cur) (o l : N) : cur := mkCur (buf c) (base c) o l.
Definition blen (c : cur) : N := N.of_nat (length (buf c)).
Definition ptr (c : cur) : N := base c + off c.

(* SubRange::new / EndianReader::new *)
Definition new (b : list byte) (a : N) : cur := mkCur b a 0 (N.of_nat (length b)).
(* SubRange::bytes — unsafe { slice::from_raw_parts(self.ptr, self.len) } *)
Definition bytes (c : cur) : list byte := view_of (buf c) (off c) (len c).

(* SubRange::truncate *)
Definition sr_truncate (c : cur) (n : N) : res cur :=
  if n <=? len c then Ok (with_win c (off c) n) else Panic.
(* SubRange::skip: assert!; ptr.add(len); self.len -= len *)
Definition sr_skip (dbg : bool) (c : cur) (n : N) : res cur :=
  if n <=? len c then
    let* l := chk_sub 64 dbg (len c) n in Ok (with_win c (off c + n) l)
  else Panic.
(* SubRange::read_slice -> Option<&[u8]> *)
Definition sr_read_slice (dbg : bool) (c : cur) (n : N) : res (option (list byte * cur)) :=
  if len c <? n then Ok None
  else let bs := view_of (buf c) (off c) n in
       let* c' := sr_skip dbg c n in Ok (Some (bs, c')).

Definition er_empty (c : cur) : res (unit * cur) :=
  let* c' := sr_truncate c 0 in Ok (tt, c').
Definition er_truncate (c : cur) (n : N) : res (unit * cur) :=
  if len c <? n then Err EUnexpectedEof
  else let* c' := sr_truncate c n in Ok (tt, c').
Definition er_offset_from (dbg : bool) (c b : cur) : res N :=
  offset_from_ptrs dbg (ptr c) (len c) (ptr b) (len b).
Definition er_offset_id (c : cur) : N := ptr c.
Definition er_lookup_offset_id (dbg : bool) (c : cur) (id : N) : res (option N) :=
  lookup_id_ptrs dbg (ptr c) (len c) id.
Definition er_find (c : cur) (b : byte) : res N :=
  match position b (bytes c) with Some i => Ok i | None => Err EUnexpectedEof end.
Definition er_skip (dbg : bool) (c : cur) (n : N) : res (unit * cur) :=
  if len c <? n then Err EUnexpectedEof
  else let* c' := sr_skip dbg c n in Ok (tt, c').
(* let mut r = self.clone(); r.range.truncate(len); self.range.skip(len); Ok(r) *)
Definition er_split (dbg : bool) (c : cur) (n : N) : res (cur * cur) :=
  if len c <? n then Err EUnexpectedEof
  else let* r := sr_truncate c n in
       let* c' := sr_skip dbg c n in Ok (r, c').
Definition er_to_string (c : cur) : res (list byte) :=
  if utf8_valid (bytes c) then Ok (bytes c) else Err EBadUtf8.
Definition er_read_slice (dbg : bool) (c : cur) (n : N) : res (list byte * cur) :=
  let* o := sr_read_slice dbg c n in
  match o with Some p => Ok p | None => Err EUnexpectedEof end.

Definition er_req (dbg : bool) : reader_req cur :=
  mkReq cur len (mprim er_empty) (fun n => mprim (fun c => er_truncate c n))
        (er_offset_from dbg) er_offset_id (er_lookup_offset_id dbg) er_find
        (fun n => mprim (fun c => er_skip dbg c n)) (fun n => mprim (fun c => er_split dbg c n))
        bytes er_to_string (fun n => mprim (fun c => er_read_slice dbg c n)).
Definition er_impl (dbg : bool) : reader_impl cur := default_impl (er_req dbg).

Definition step (dbg be : bool) (root c : cur) (op : cop) : cur * res (oval cur) :=
  gstep (er_impl dbg) be root c op.
Definition run (dbg be : bool) (root c : cur) (ops : list cop) : cur * list (res (oval cur)) :=
  grun (er_impl dbg) be root c ops.

(* ------------------------------------------------------------------ EndianSlice<'input, _> *)
(* slice: &'input [u8] = (address of its first byte, its contents) *)
Record srd : Type := mkS { saddr : N; swin : list byte }.
Definition slen (s : srd) : N := N.of_nat (length (swin s)).

(* EndianSlice::read_slice (inherent): &self.slice[..len], self.slice = &self.slice[len..] *)
Definition sl_read_slice (s : srd) (n : N) : res (list byte * srd) :=
  if slen s <? n then Err EUnexpectedEof
  else Ok (firstn (N.to_nat n) (swin s), mkS (saddr s + n) (skipn (N.to_nat n) (swin s))).
(* `self.slice = &self.slice[..0]`: keeps the position (repaired in fd639ac; it used to be `&[]`) *)
Definition sl_empty (s : srd) : res (unit * srd) := Ok (tt, mkS (saddr s) (firstn 0 (swin s))).
Definition sl_truncate (s : srd) (n : N) : res (unit * srd) :=
  if slen s <? n then Err EUnexpectedEof
  else Ok (tt, mkS (saddr s) (firstn (N.to_nat n) (swin s))).
Definition sl_offset_from (dbg : bool) (s b : srd) : res N :=
  offset_from_ptrs dbg (saddr s) (slen s) (saddr b) (slen b).
Definition sl_lookup_offset_id (dbg : bool) (s : srd) (id : N) : res (option N) :=
  lookup_id_ptrs dbg (saddr s) (slen s) id.
Definition sl_find (s : srd) (b : byte) : res N :=
  match position b (swin s) with Some i => Ok i | None => Err EUnexpectedEof end.
Definition sl_skip (s : srd) (n : N) : res (unit * srd) :=
  if slen s <? n then Err EUnexpectedEof
  else Ok (tt, mkS (saddr s + n) (skipn (N.to_nat n) (swin s))).
Definition sl_split (s : srd) (n : N) : res (srd * srd) :=
  let* (bs, s') := sl_read_slice s n in Ok (mkS (saddr s) bs, s').
Definition sl_to_string (s : srd) : res (list byte) :=
  if utf8_valid (swin s) then Ok (swin s) else Err EBadUtf8.

Definition sl_req (dbg : bool) : reader_req srd :=
  mkReq srd slen (mprim sl_empty) (fun n => mprim (fun s => sl_truncate s n))
        (sl_offset_from dbg) saddr (sl_lookup_offset_id dbg) sl_find
        (fun n => mprim (fun s => sl_skip s n)) (fun n => mprim (fun s => sl_split s n))
        swin sl_to_string (fun n => mprim (fun s => sl_read_slice s n)).
Definition sl_impl (dbg : bool) : reader_impl srd := default_impl (sl_req dbg).

Definition sstep (dbg be : bool) (root s : srd) (op : cop) : srd * res (oval srd) :=
  gstep (sl_impl dbg) be root s op.
Definition srun (dbg be : bool) (root s : srd) (ops : list cop) :=
  grun (sl_impl dbg) be root s ops.

(* what an EndianSlice over the same window looks like *)
Definition abs (c : cur) : srd := mkS (ptr c) (bytes c).

(* ------------------------------------------------------------------ RelocateReader<R, T> *)
Record rrd (R : Type) : Type := mkRR { rsection : R; rreader : R }.
Arguments mkRR {R}. Arguments rsection {R}. Arguments rreader {R}.
Definition set_reader {R} (rc : rrd R) (c : R) : rrd R := mkRR (rsection rc) c.
(* RelocateReader::new: reader = section.clone() *)
Definition rr_new {R} (section : R) : rrd R := mkRR section section.

Section Reloc.
  Variable R : Type.
  Variable I : reader_impl R.                   (* the inner reader *)
  Variable rel_addr : N -> N -> res N.           (* Relocate::relocate_address(offset, value) *)
  Variable rel_off : N -> N -> res N.            (* Relocate::relocate_offset(offset, value) *)
  Let q := i_req I.

  (* run an inner `&mut self` method on self.reader *)
  Definition on_reader {A} (m : M R A) : M (rrd R) A :=
    fun rc => let (c', r) := m (rreader rc) in (set_reader rc c', r).

  (* let mut other = self.clone(); other.reader.truncate(len)?; self.reader.skip(len)?; Ok(other) *)
  Definition rr_split (n : N) : M (rrd R) (rrd R) :=
    fun rc =>
      let (t, r1) := q_truncate q n (rreader rc) in
      match r1 with
      | Ok _ => let (c', r2) := q_skip q n (rreader rc) in
                match r2 with
                | Ok _ => (set_reader rc c', Ok (set_reader rc t))
                | Err e => (set_reader rc c', Err e)
                | Panic => (set_reader rc c', Panic)
                | OutOfFuel => (set_reader rc c', OutOfFuel)
                end
      | Err e => (rc, Err e)
      | Panic => (rc, Panic)
      | OutOfFuel => (rc, OutOfFuel)
      end.

  Definition rr_req : reader_req (rrd R) :=
    mkReq (rrd R)
      (fun rc => q_len q (rreader rc))
      (on_reader (q_empty q))
      (fun n => on_reader (q_truncate q n))
      (fun rc b => q_offset_from q (rreader rc) (rreader b))
      (fun rc => q_offset_id q (rreader rc))
      (fun rc id => q_lookup_offset_id q (rreader rc) id)
      (fun rc b => q_find q (rreader rc) b)
      (fun n => on_reader (q_skip q n))
      rr_split
      (fun rc => q_to_slice q (rreader rc))
      (fun rc => q_to_string q (rreader rc))
      (fun n => on_reader (q_read_slice q n)).

  (* let offset = self.reader.offset_from(&self.section); let value = self.reader.read_X(..)?;
     self.relocate.relocate_X(offset, value) *)
  Definition rr_relocated (inner : M R N) (rel : N -> N -> res N) : M (rrd R) N :=
    fun rc =>
      match q_offset_from q (rreader rc) (rsection rc) with
      | Ok offset =>
          let (c', r) := inner (rreader rc) in
          (set_reader rc c', let* v := r in rel offset v)
      | Err e => (rc, Err e)
      | Panic => (rc, Panic)
      | OutOfFuel => (rc, OutOfFuel)
      end.

  Definition rr_impl : reader_impl (rrd R) :=
    mkImpl (rrd R) rr_req
      (fun be size => rr_relocated (i_read_address I be size) rel_addr)
      (fun be f => rr_relocated (i_read_offset I be f) rel_off)
      (fun be size => rr_relocated (i_read_sized_offset I be size) rel_off).
End Reloc.
Arguments on_reader {R A}. Arguments rr_split {R}. Arguments rr_req {R}. Arguments rr_relocated {R}.
Arguments rr_impl {R}.

(* the identity relocation *)
Definition rel_id (_ v : N) : res N := Ok v.
Definition rstep (dbg be : bool) (root rc : rrd cur) (op : cop) : rrd cur * res (oval (rrd cur)) :=
  gstep (rr_impl (er_impl dbg) rel_id rel_id) be root rc op.
Definition rrun (dbg be : bool) (root rc : rrd cur) (ops : list cop) :=
  grun (rr_impl (er_impl dbg) rel_id rel_id) be root rc ops.

(* lifting an inner result to the wrapper: same section, new inner reader *)
Definition lift_val (rc : rrd cur) (v : oval cur) : oval (rrd cur) :=
  match v with
  | VUnit => VUnit | VNum n => VNum n | VInt z => VInt z | VBool b => VBool b
  | VBytes bs => VBytes bs | VRd r => VRd (set_reader rc r) | VOpt o => VOpt o
  end.
Definition lift_out (rc : rrd cur) (x : cur * res (oval cur)) : rrd cur * res (oval (rrd cur)) :=
  (set_reader rc (fst x), rmap (lift_val rc) (snd x)).

(* ------------------------------------------------------------------ a pool of live readers *)
Inductive pop : Type :=
| POp (i : nat) (op : cop)         (* a Reader call on reader i; a returned reader joins the pool *)
| PClone (i : nat)
| PDrop (i : nat)
| POffsetFrom (i j : nat)          (* pool[i].offset_from(&pool[j]) *)
| PLookup (i j : nat).             (* pool[i].lookup_offset_id(pool[j].offset_id()) *)

Fixpoint set_nth {A} (i : nat) (x : A) (l : list A) : list A :=
  match l with
  | [] => []
  | h :: t => match i with O => x :: t | S k => h :: set_nth k x t end
  end.
Fixpoint remove_nth {A} (i : nat) (l : list A) : list A :=
  match l with
  | [] => []
  | h :: t => match i with O => t | S k => h :: remove_nth k t end
  end.

(* None = no such reader (the operation is ignored) *)
Definition pstep (dbg be : bool) (root : cur) (p : list cur) (o : pop)
  : list cur * option (res (oval cur)) :=
  match o with
  | POp i op =>
      match nth_error p i with
      | None => (p, None)
      | Some c =>
          let (c', r) := step dbg be root c op in
          let p' := set_nth i c' p in
          (match r with Ok (VRd x) => p' ++ [x] | _ => p' end, Some r)
      end
  | PClone i =>
      match nth_error p i with
      | None => (p, None)
      | Some c => (p ++ [c], Some (Ok (VRd c)))
      end
  | PDrop i =>
      match nth_error p i with
      | None => (p, None)
      | Some _ => (remove_nth i p, Some (Ok VUnit))
      end
  | POffsetFrom i j =>
      match nth_error p i, nth_error p j with
      | Some a, Some b => (p, Some (rmap VNum (er_offset_from dbg a b)))
      | _, _ => (p, None)
      end
  | PLookup i j =>
      match nth_error p i, nth_error p j with
      | Some a, Some b => (p, Some (rmap VOpt (er_lookup_offset_id dbg a (er_offset_id b))))
      | _, _ => (p, None)
      end
  end.

Fixpoint prun (dbg be : bool) (root : cur) (p : list cur) (ops : list pop)
  : list cur * list (option (res (oval cur))) :=
  match ops with
  | [] => (p, [])
  | o :: r => let (p1, x) := pstep dbg be root p o in
              let (p2, xs) := prun dbg be root p1 r in (p2, x :: xs)
  end.
