(* Model/Prim.v — mirrors Reader::{read_u8..read_u128, read_i*, read_uint,
   read_address, read_address_size, read_word, read_sized_offset,
   read_initial_length, read_null_terminated_slice} (src/read/reader.rs),
   Endianity (src/endianity.rs), ReaderAddress::{add_sized, wrapping_add_sized,
   min_tombstone} and Writer::{write_u*, write_udata, write_sdata,
   write_uleb128, write_sleb128, write_initial_length(+_at)} (src/write/writer.rs).
   Streams: c09.fixed c09.uint c09.addr c09.soff c09.ilen c09.wudata c09.wsdata c09.wilen *)
From Coq Require Import List NArith ZArith Bool.
From Coq.Strings Require Import Byte.
Require Import GV.Base.Res GV.Base.Byt GV.Base.Ints GV.Model.Leb.
Import ListNotations.
Local Open Scope N_scope.

(* little-endian value of a byte list *)
Fixpoint le_val (bs : list byte) : N :=
  match bs with
  | [] => 0
  | b :: r => b2n b + 256 * le_val r
  end.
Definition be_val (bs : list byte) : N := le_val (rev bs).

(* Reader::read_slice / read_u8_array: take exactly n bytes or fail without consuming *)
Fixpoint take (n : nat) (bs : list byte) : option (list byte * list byte) :=
  match n with
  | O => Some ([], bs)
  | S k => match bs with
           | [] => None
           | b :: r => match take k r with Some (h, t) => Some (b :: h, t) | None => None end
           end
  end.

Definition read_bytes (n : nat) (bs : list byte) : res (list byte * list byte) :=
  match take n bs with Some p => Ok p | None => Err EUnexpectedEof end.

(* read_u16/u32/u64/u128: n-byte unsigned in byte order be *)
Definition read_un (n : nat) (be : bool) (bs : list byte) : res (N * list byte) :=
  let* (h, t) := read_bytes n bs in
  Ok ((if be then be_val h else le_val h), t).

Definition read_u16 := read_un 2.
Definition read_u32 := read_un 4.
Definition read_u64 := read_un 8.
Definition read_u128 := read_un 16.

(* read_i8/i16/i32/i64: `as iN` of the unsigned value *)
Definition read_in (n : nat) (be : bool) (bs : list byte) : res (Z * list byte) :=
  let* (v, t) := read_un n be bs in
  Ok (to_signed (8 * N.of_nat n) v, t).

(* Reader::read_uint(n): `buf[..n]` of an 8-byte buffer panics for n > 8.
   Endianity::read_uint zero-extends on the correct side. *)
Definition read_uint (n : nat) (be : bool) (bs : list byte) : res (N * list byte) :=
  if Nat.ltb 8 n then Panic else read_un n be bs.

Definition read_address_size (bs : list byte) : res (N * list byte) :=
  let* (s, r) := read_u8 bs in
  if (s =? 1) || (s =? 2) || (s =? 4) || (s =? 8) then Ok (s, r)
  else Err EUnsupportedAddressSize.

Definition read_address (size : N) (be : bool) (bs : list byte) : res (N * list byte) :=
  if size =? 1 then read_un 1 be bs
  else if size =? 2 then read_un 2 be bs
  else if size =? 4 then read_un 4 be bs
  else if size =? 8 then read_un 8 be bs
  else Err EUnsupportedAddressSize.

(* Offset = usize = u64 on the checked platform: from_u64 never fails.
   (On 32-bit targets it is Err UnsupportedOffset; not modelled.) *)
Definition read_sized_offset (size : N) (be : bool) (bs : list byte) : res (N * list byte) :=
  if size =? 1 then read_un 1 be bs
  else if size =? 2 then read_un 2 be bs
  else if size =? 4 then read_un 4 be bs
  else if size =? 8 then read_un 8 be bs
  else Err EUnsupportedOffsetSize.

(* Format: false = Dwarf32, true = Dwarf64 *)
Definition word_size (fmt64 : bool) : N := if fmt64 then 8 else 4.

Definition read_word (fmt64 be : bool) (bs : list byte) : res (N * list byte) :=
  if fmt64 then read_un 8 be bs else read_un 4 be bs.

Definition read_initial_length (be : bool) (bs : list byte) : res ((N * bool) * list byte) :=
  let* (v, r) := read_un 4 be bs in
  if v <? 4294967280 then Ok ((v, false), r)
  else if v =? 4294967295 then
    let* (v8, r8) := read_un 8 be r in Ok ((v8, true), r8)
  else Err EUnknownReservedLength.

(* find(0) + split + skip(1) *)
Fixpoint read_cstr (bs : list byte) : res (list byte * list byte) :=
  match bs with
  | [] => Err EUnexpectedEof
  | b :: r => if b2n b =? 0 then Ok ([], r)
              else let* (s, t) := read_cstr r in Ok (b :: s, t)
  end.

(* ReaderAddress for validated sizes (1,2,4,8 — callers check; see Int.ones_sized for the raw shift) *)
Definition add_sized (a len size : N) : res N :=
  let s := a + len in
  if two64 <=? s then Err EAddressOverflow
  else if mask_of size <? s then Err EAddressOverflow
  else Ok s.
Definition wrapping_add_sized (a len size : N) : N :=
  N.land (wrap64 (a + len)) (mask_of size).
Definition min_tombstone (size : N) : N := wrapping_add_sized 0 (two64 - 2) size.

(* ---------------- writers ---------------- *)

(* n-byte encodings of v (v is reduced mod 256^n) *)
Fixpoint le_bytes (n : nat) (v : N) : list byte :=
  match n with
  | O => []
  | S k => n2b v :: le_bytes k (v / 256)
  end.
Definition be_bytes (n : nat) (v : N) : list byte := rev (le_bytes n v).
Definition enc_un (n : nat) (be : bool) (v : N) : list byte :=
  if be then be_bytes n v else le_bytes n v.

Definition write_udata (be : bool) (v size : N) : res (list byte) :=
  if size =? 1 then (if v <? 256 then Ok (enc_un 1 be v) else Err WValueTooLarge)
  else if size =? 2 then (if v <? two16 then Ok (enc_un 2 be v) else Err WValueTooLarge)
  else if size =? 4 then (if v <? two32 then Ok (enc_un 4 be v) else Err WValueTooLarge)
  else if size =? 8 then Ok (enc_un 8 be v)
  else Err WUnsupportedWordSize.

(* val : i64 as Z *)
Definition write_sdata (be : bool) (v : Z) (size : N) : res (list byte) :=
  if size =? 1 then (if in_signed 8 v then Ok (enc_un 1 be (of_signed 8 v)) else Err WValueTooLarge)
  else if size =? 2 then (if in_signed 16 v then Ok (enc_un 2 be (of_signed 16 v)) else Err WValueTooLarge)
  else if size =? 4 then (if in_signed 32 v then Ok (enc_un 4 be (of_signed 32 v)) else Err WValueTooLarge)
  else if size =? 8 then Ok (enc_un 8 be (of_signed 64 v))
  else Err WUnsupportedWordSize.

(* write_initial_length placeholder followed by write_initial_length_at(length):
   net effect on the output, given the final length *)
Definition write_initial_length (fmt64 be : bool) (len : N) : res (list byte) :=
  if negb fmt64 && (4294967280 <=? len) && (len <=? 4294967295) then Err WInitialLengthOverflow else
  let* body := write_udata be len (word_size fmt64) in
  Ok ((if fmt64 then enc_un 4 be 4294967295 else []) ++ body).
