(* Model/OpWr.v — mirrors /repo/src/write/op.rs:
     Expression::{op_* builders, next_index, set_target, size, write}, Operation::{size, write},
   the pieces of src/write/unit.rs they lean on (UnitOffsets::{debug_info_offset, unit_offset},
   DebugInfoFixup, UnitTable::write_debug_info_fixups) and the three places an expression is embedded with a
   length prefix computed from size(): AttributeValue::Exprloc (unit.rs), write_expression (loc.rs),
   CallFrameInstruction::{CfaExpression, Expression, ValExpression} (cfi.rs).
   Writer = the default methods of the Writer trait over EndianVec (no symbols: write_address(Symbol) and
   write_reference fail).  usize = u64.
   Correspondence streams: c15.expr (DIE attribute / location list / CFI contexts), c15.nest *)
From Coq Require Import List NArith ZArith Bool.
From Coq.Strings Require Import Byte.
Require Import GV.Base.Res GV.Base.Byt GV.Base.Ints GV.Model.Leb GV.Model.Prim.
Import ListNotations.
Local Open Scope N_scope.

(* Encoding { version: u16, format, address_size: u8 } + the writer's byte order *)
Record enc := { e_version : N; e_fmt64 : bool; e_asize : N; e_be : bool }.

(* write::Address *)
Inductive waddr := AConst (v : N) | ASym (sym : N) (addend : Z).
(* write::DebugInfoRef; units and entries are identified by their index *)
Inductive dref := RSym (sym : N) | REntry (unit : N) (entry : N).

(* write::op::Operation *)
Inductive wop : Type :=
| WoRaw (bytecode : list byte)
| WoSimple (opc : N)
| WoAddress (a : waddr)
| WoUConst (v : N)
| WoSConst (v : Z)
| WoConstType (base : N) (value : list byte)
| WoFrameOffset (off : Z)
| WoRegOffset (reg : N) (off : Z)
| WoRegType (reg : N) (base : N)
| WoPick (index : N)
| WoDeref (space : bool)
| WoDerefSize (space : bool) (size : N)
| WoDerefType (space : bool) (size : N) (base : N)
| WoPlusConst (v : N)
| WoSkip (target : N)
| WoBranch (target : N)
| WoCall (entry : N)
| WoCallRef (r : dref)
| WoVarValue (r : dref)
| WoConvert (base : option N)
| WoReinterpret (base : option N)
| WoEntryValue (expr : list wop)
| WoRegister (reg : N)
| WoImplicitValue (data : list byte)
| WoImplicitPointer (r : dref) (byte_off : Z)
| WoPiece (size_in_bytes : N)
| WoBitPiece (size_in_bits bit_off : N)
| WoParameterRef (entry : N)
| WoWasmLocal (i : N) | WoWasmGlobal (i : N) | WoWasmStack (i : N).

Definition wexpr := list wop.

(* UnitOffsets { unit: DebugInfoOffset, entries: Vec<DebugInfoOffset> } — 0 means "not assigned yet" *)
Record uoffs := { uo_unit : N; uo_entries : list N }.

(* DebugInfoFixup *)
Record fixup := { fx_offset : N; fx_size : N; fx_unit : N; fx_entry : N }.

Definition blen (bs : list byte) : N := N.of_nat (length bs).

(* slice[index] with a u64 index *)
Fixpoint nth_N {A} (l : list A) (n : N) : option A :=
  match l with
  | [] => None
  | x :: r => if n =? 0 then Some x else nth_N r (n - 1)
  end.

(* UnitOffsets::debug_info_offset (after /repo fix c42c00d): `let offset = *self.entries.get(entry.index)?;` — an id
   that was reserved but never added may lie beyond the entries vector: None, like an entry without offset *)
Definition debug_info_offset (uo : uoffs) (entry : N) : res (option N) :=
  match nth_N (uo_entries uo) entry with
  | None => Ok None
  | Some o => if o =? 0 then Ok None else Ok (Some o)
  end.

(* UnitOffsets::unit_offset: `(offset.0 - self.unit.0) as u64` *)
Definition unit_offset (dbg : bool) (uo : uoffs) (entry : N) : res (option N) :=
  let* o := debug_info_offset uo entry in
  match o with
  | None => Ok None
  | Some off => let* d := chk_sub 64 dbg off (uo_unit uo) in Ok (Some d)
  end.

(* the `entry_offset` closure of Operation::write *)
Definition entry_offset (dbg : bool) (uo : option uoffs) (entry : N) : res N :=
  match uo with
  | Some offs =>
      let* o := unit_offset dbg offs entry in
      match o with Some v => Ok v | None => Err WUnsupportedExpressionForwardReference end
  | None => Err WUnsupportedCfiExpressionReference
  end.

(* the `base_size` closure of Operation::size *)
Definition base_size (dbg : bool) (uo : option uoffs) (entry : N) : res N :=
  match uo with
  | Some offs =>
      let* o := unit_offset dbg offs entry in
      match o with Some v => Ok (uleb128_size v) | None => Err WUnsupportedExpressionForwardReference end
  | None => Err WUnsupportedCfiExpressionReference
  end.

(* usize `+` *)
Definition uadd (dbg : bool) (a b : N) : res N := chk_add 64 dbg a b.

(* the reference operand size of DW_OP_implicit_pointer *)
Definition iptr_size (e : enc) : N := if e_version e =? 2 then e_asize e else word_size (e_fmt64 e).

(* Expression::size: `let mut size = 0; for op { size += op.size()? }` *)
Definition sum_sizes (dbg : bool) (szf : wop -> res N) : N -> list wop -> res N :=
  fix go (acc : N) (l : list wop) {struct l} : res N :=
  match l with
  | [] => Ok acc
  | o :: r => let* s := szf o in let* acc' := uadd dbg acc s in go acc' r
  end.

(* Operation::size *)
Fixpoint size_op (dbg : bool) (e : enc) (uo : option uoffs) (o : wop) {struct o} : res N :=
  let one_plus (r : res N) : res N := let* n := r in uadd dbg 1 n in
  match o with
  | WoRaw bytecode => Ok (blen bytecode)
  | WoSimple _ => one_plus (Ok 0)
  | WoAddress _ => one_plus (Ok (e_asize e))
  | WoUConst v => one_plus (if v <? 32 then Ok 0 else Ok (uleb128_size v))
  | WoSConst v => one_plus (Ok (sleb128_size v))
  | WoConstType base value =>
      one_plus (let* b := base_size dbg uo base in let* t := uadd dbg b 1 in uadd dbg t (blen value))
  | WoFrameOffset off => one_plus (Ok (sleb128_size off))
  | WoRegOffset reg off =>
      one_plus (if reg <? 32 then Ok (sleb128_size off) else uadd dbg (uleb128_size reg) (sleb128_size off))
  | WoRegType reg base => one_plus (let* b := base_size dbg uo base in uadd dbg (uleb128_size reg) b)
  | WoPick index => one_plus (if 1 <? index then Ok 1 else Ok 0)
  | WoDeref _ => one_plus (Ok 0)
  | WoDerefSize _ _ => one_plus (Ok 1)
  | WoDerefType _ _ base => one_plus (let* b := base_size dbg uo base in uadd dbg 1 b)
  | WoPlusConst v => one_plus (Ok (uleb128_size v))
  | WoSkip _ => one_plus (Ok 2)
  | WoBranch _ => one_plus (Ok 2)
  | WoCall _ => one_plus (Ok 4)
  | WoCallRef _ => one_plus (Ok (word_size (e_fmt64 e)))
  | WoVarValue _ => one_plus (Ok (word_size (e_fmt64 e)))
  | WoConvert base => one_plus (match base with Some b => base_size dbg uo b | None => Ok 1 end)
  | WoReinterpret base => one_plus (match base with Some b => base_size dbg uo b | None => Ok 1 end)
  | WoEntryValue expr =>
      one_plus (let* length := sum_sizes dbg (size_op dbg e uo) 0 expr in
                uadd dbg (uleb128_size length) length)
  | WoRegister reg => one_plus (if reg <? 32 then Ok 0 else Ok (uleb128_size reg))
  | WoImplicitValue data => one_plus (uadd dbg (uleb128_size (blen data)) (blen data))
  | WoImplicitPointer _ byte_off => one_plus (uadd dbg (iptr_size e) (sleb128_size byte_off))
  | WoPiece sz => one_plus (Ok (uleb128_size sz))
  | WoBitPiece sz off => one_plus (uadd dbg (uleb128_size sz) (uleb128_size off))
  | WoParameterRef _ => one_plus (Ok 4)
  | WoWasmLocal i | WoWasmGlobal i | WoWasmStack i => one_plus (uadd dbg 1 (uleb128_size i))
  end.

Definition size_expr (dbg : bool) (e : enc) (uo : option uoffs) (ex : wexpr) : res N :=
  sum_sizes dbg (size_op dbg e uo) 0 ex.

(* ---- writing ---- *)

Definition wres := res (list byte * list fixup).
Definition only (r : res (list byte)) : wres := let* bs := r in Ok (bs, []).

(* Writer::write_address (default method) *)
Definition write_address (be : bool) (a : waddr) (size : N) : res (list byte) :=
  match a with
  | AConst v => write_udata be v size
  | ASym _ _ => Err WInvalidAddress
  end.

(* the DebugInfoRef operand of call_ref / variable_value / implicit_pointer; `at` = w.len() *)
Definition write_ref (be has_refs : bool) (r : dref) (size at_ : N) : wres :=
  match r with
  | RSym _ => Err WInvalidReference            (* Writer::write_reference default *)
  | REntry unit entry =>
      if has_refs then
        let* z := write_udata be 0 size in
        Ok (z, [{| fx_offset := at_; fx_size := size; fx_unit := unit; fx_entry := entry |}])
      else Err WInvalidReference
  end.

(* first loop of Expression::write: offsets.push(offset); offset += op.size()? *)
Definition calc_offsets (dbg : bool) (szf : wop -> res N) : N -> list wop -> res (list N * N) :=
  fix go (offset : N) (l : list wop) {struct l} : res (list N * N) :=
  match l with
  | [] => Ok ([], offset)
  | o :: r =>
      let* s := szf o in
      let* off' := uadd dbg offset s in
      let* (t, fin) := go off' r in
      Ok (offset :: t, fin)
  end.

(* second loop: zip(operations, offsets); debug_assert_eq!(w.len(), offset); operation.write(..) *)
Definition write_loop (dbg : bool) (wr : N -> wop -> wres) : N -> list wop -> list N -> wres :=
  fix go (pos : N) (l : list wop) (offs : list N) {struct l} : wres :=
  match l with
  | [] => Ok ([], [])
  | o :: r =>
      match offs with
      | [] => Panic     (* not reachable: offsets has one more element than operations (proved) *)
      | off :: offs' =>
          if dbg && negb (pos =? off) then Panic else
          let* (bs, fx) := wr pos o in
          let* (bs', fx') := go (pos + blen bs) r offs' in
          Ok (bs ++ bs', fx ++ fx')
      end
  end.

(* Expression::write, parameterised by Operation::write (tied below) *)
Definition write_expr_with (wr : list N -> N -> wop -> wres) (szf : wop -> res N)
           (dbg : bool) (base : N) (ex : list wop) : wres :=
  let* (offs, fin) := calc_offsets dbg szf base ex in
  let offsets := offs ++ [fin] in
  let* (bs, fx) := write_loop dbg (wr offsets) base ex offsets in
  if dbg && negb (base + blen bs =? fin) then Panic else Ok (bs, fx).

(* `offsets[target] as i64 - (w.len() as i64 + 2)` then write_sdata(offset, 2); `after_opcode` = w.len() *)
Definition branch_operand (dbg be : bool) (offsets : list N) (target after_opcode : N) : res (list byte) :=
  match nth_N offsets target with
  | None => Panic                                   (* offsets[target] out of range *)
  | Some t =>
      let* b := chk_s 64 dbg (to_i64 after_opcode + 2)%Z in
      let* d := chk_s 64 dbg (to_i64 t - b)%Z in
      write_sdata be d 2
  end.

Definition v5 (e : enc) : bool := 5 <=? e_version e.

(* Operation::write; `pos` = w.len() when the operation starts *)
Fixpoint write_op (dbg : bool) (e : enc) (uo : option uoffs) (has_refs : bool)
         (offsets : list N) (pos : N) (o : wop) {struct o} : wres :=
  let be := e_be e in
  match o with
  | WoRaw bytecode => Ok (bytecode, [])
  | WoSimple opc => Ok ([n2b opc], [])
  | WoAddress a => only (let* b := write_address be a (e_asize e) in Ok (n2b 3 :: b))
  | WoUConst v =>
      if v <? 32 then only (let* c := chk_add 8 dbg 48 (wrap8 v) in Ok [n2b c])
      else only (let* b := write_uleb128 v in Ok (n2b 16 :: b))
  | WoSConst v => only (let* b := write_sleb128 v in Ok (n2b 17 :: b))
  | WoConstType base value =>
      only (let* off := entry_offset dbg uo base in
            let* b := write_uleb128 off in
            let* l := write_udata be (blen value) 1 in
            Ok (n2b (if v5 e then 164 else 244) :: b ++ l ++ value))
  | WoFrameOffset off => only (let* b := write_sleb128 off in Ok (n2b 145 :: b))
  | WoRegOffset reg off =>
      only (let* h := (if reg <? 32 then let* c := chk_add 8 dbg 112 (wrap8 reg) in Ok [n2b c]
                       else let* b := write_uleb128 reg in Ok (n2b 146 :: b)) in
            let* s := write_sleb128 off in Ok (h ++ s))
  | WoRegType reg base =>
      only (let* r := write_uleb128 reg in
            let* off := entry_offset dbg uo base in
            let* b := write_uleb128 off in
            Ok (n2b (if v5 e then 165 else 245) :: r ++ b))
  | WoPick index =>
      if index =? 0 then Ok ([n2b 18], [])
      else if index =? 1 then Ok ([n2b 20], [])
      else Ok ([n2b 21; n2b index], [])
  | WoDeref space => Ok ([n2b (if space then 24 else 6)], [])
  | WoDerefSize space size => Ok ([n2b (if space then 149 else 148); n2b size], [])
  | WoDerefType space size base =>
      only (let* off := entry_offset dbg uo base in
            let* b := write_uleb128 off in
            Ok (n2b (if space then 167 else if v5 e then 166 else 246) :: n2b size :: b))
  | WoPlusConst v => only (let* b := write_uleb128 v in Ok (n2b 35 :: b))
  | WoSkip target => only (let* b := branch_operand dbg be offsets target (pos + 1) in Ok (n2b 47 :: b))
  | WoBranch target => only (let* b := branch_operand dbg be offsets target (pos + 1) in Ok (n2b 40 :: b))
  | WoCall entry =>
      only (let* off := entry_offset dbg uo entry in
            let* b := write_udata be off 4 in Ok (n2b 153 :: b))
  | WoCallRef r =>
      let* (b, fx) := write_ref be has_refs r (word_size (e_fmt64 e)) (pos + 1) in Ok (n2b 154 :: b, fx)
  | WoVarValue r =>
      let* (b, fx) := write_ref be has_refs r (word_size (e_fmt64 e)) (pos + 1) in Ok (n2b 253 :: b, fx)
  | WoConvert base =>
      only (let* b := (match base with
                       | Some b => let* off := entry_offset dbg uo b in write_uleb128 off
                       | None => Ok [n2b 0] end) in
            Ok (n2b (if v5 e then 168 else 247) :: b))
  | WoReinterpret base =>
      only (let* b := (match base with
                       | Some b => let* off := entry_offset dbg uo b in write_uleb128 off
                       | None => Ok [n2b 0] end) in
            Ok (n2b (if v5 e then 169 else 249) :: b))
  | WoEntryValue expr =>
      let* length := sum_sizes dbg (size_op dbg e uo) 0 expr in
      let* lb := write_uleb128 length in
      let* (bs, fx) := write_expr_with (write_op dbg e uo has_refs) (size_op dbg e uo) dbg
                                       (pos + 1 + blen lb) expr in
      Ok (n2b (if v5 e then 163 else 243) :: lb ++ bs, fx)
  | WoRegister reg =>
      if reg <? 32 then only (let* c := chk_add 8 dbg 80 (wrap8 reg) in Ok [n2b c])
      else only (let* b := write_uleb128 reg in Ok (n2b 144 :: b))
  | WoImplicitValue data =>
      only (let* b := write_uleb128 (blen data) in Ok (n2b 158 :: b ++ data))
  | WoImplicitPointer r byte_off =>
      let* (b, fx) := write_ref be has_refs r (iptr_size e) (pos + 1) in
      let* s := write_sleb128 byte_off in
      Ok (n2b (if v5 e then 160 else 242) :: b ++ s, fx)
  | WoPiece sz => only (let* b := write_uleb128 sz in Ok (n2b 147 :: b))
  | WoBitPiece sz off =>
      only (let* a := write_uleb128 sz in let* b := write_uleb128 off in Ok (n2b 157 :: a ++ b))
  | WoParameterRef entry =>
      only (let* off := entry_offset dbg uo entry in
            let* b := write_udata be off 4 in Ok (n2b 250 :: b))
  | WoWasmLocal i => only (let* b := write_uleb128 i in Ok (n2b 237 :: n2b 0 :: b))
  | WoWasmGlobal i => only (let* b := write_uleb128 i in Ok (n2b 237 :: n2b 1 :: b))
  | WoWasmStack i => only (let* b := write_uleb128 i in Ok (n2b 237 :: n2b 2 :: b))
  end.

(* Expression::write; `base` = w.len() on entry *)
Definition write_expr (dbg : bool) (e : enc) (uo : option uoffs) (has_refs : bool)
           (base : N) (ex : wexpr) : wres :=
  write_expr_with (write_op dbg e uo has_refs) (size_op dbg e uo) dbg base ex.

(* the offsets vector built by Expression::write (exposed for the branch theorems) *)
Definition expr_offsets (dbg : bool) (e : enc) (uo : option uoffs) (base : N) (ex : wexpr) : res (list N) :=
  let* (offs, fin) := calc_offsets dbg (size_op dbg e uo) base ex in Ok (offs ++ [fin]).

(* ---- embedding with a length prefix ---- *)

(* AttributeValue::Exprloc (size and write arms): ULEB(size) then the expression.
   `base` = w.len() before the attribute value. DW_FORM_exprloc (v>=4) and DW_FORM_block (v<4) share the layout. *)
Definition exprloc_size (dbg : bool) (e : enc) (uo : option uoffs) (ex : wexpr) : res N :=
  let* size := size_expr dbg e uo ex in uadd dbg (uleb128_size size) size.

Definition write_exprloc (dbg : bool) (e : enc) (uo : option uoffs) (base : N) (ex : wexpr) : wres :=
  let* size := size_expr dbg e uo ex in
  let* p := write_uleb128 size in
  let* (bs, fx) := write_expr dbg e uo true (base + blen p) ex in
  Ok (p ++ bs, fx).

(* loc.rs write_expression: u16 length for version <= 4, ULEB for 5 *)
Definition write_loc_expression (dbg : bool) (e : enc) (uo : option uoffs) (base : N) (ex : wexpr) : wres :=
  let* size := size_expr dbg e uo ex in
  let* p := (if e_version e <=? 4 then write_udata (e_be e) size 2 else write_uleb128 size) in
  let* (bs, fx) := write_expr dbg e uo true (base + blen p) ex in
  Ok (p ++ bs, fx).

(* cfi.rs CfaExpression / Expression / ValExpression arms (after the opcode and register):
   ULEB(expression.size(encoding, None)) then expression.write(w, None, encoding, None) *)
Definition write_cfi_expression (dbg : bool) (e : enc) (base : N) (ex : wexpr) : wres :=
  let* size := size_expr dbg e None ex in
  let* p := write_uleb128 size in
  let* (bs, fx) := write_expr dbg e None false (base + blen p) ex in
  Ok (p ++ bs, fx).

(* ---- fix-ups: UnitTable::write_debug_info_fixups over one section ---- *)

(* Writer::write_at on EndianVec *)
Fixpoint overwrite (buf : list byte) (off : nat) (bs : list byte) : list byte :=
  match off with
  | O => match bs with
         | [] => buf
         | b :: bs' => match buf with [] => [] | _ :: buf' => b :: overwrite buf' O bs' end
         end
  | S k => match buf with [] => [] | x :: buf' => x :: overwrite buf' k bs end
  end.

Definition write_at (buf : list byte) (offset : N) (bs : list byte) : res (list byte) :=
  if blen buf <? offset then Err WOffsetOutOfBounds
  else if blen buf - offset <? blen bs then Err WLengthOutOfBounds
  else Ok (overwrite buf (N.to_nat offset) bs).

(* `units` = the UnitOffsets of every unit of the table, by unit index; buf = the section, `sec_base` =
   section offset of buf's first byte (the model keeps only the expression bytes) *)
Fixpoint apply_fixups (be : bool) (units : list uoffs) (sec_base : N) (buf : list byte) (fxs : list fixup)
  : res (list byte) :=
  match fxs with
  | [] => Ok buf
  | f :: r =>
      match nth_N units (fx_unit f) with
      | None => Panic                               (* self.units[fixup.unit.index] *)
      | Some uo =>
          let* o := debug_info_offset uo (fx_entry f) in
          match o with
          | None => Err WInvalidReference
          | Some off =>
              let* w := write_udata be off (fx_size f) in
              let* buf' := write_at buf (fx_offset f - sec_base) w in
              apply_fixups be units sec_base buf' r
          end
      end
  end.

(* ---- the domain: values of the Rust types (u64, i64, u16 register, u8 index/size, u32 wasm index, usize) ---- *)
Definition is_u64 (n : N) : bool := n <? two64.
Definition wf_ref (r : dref) : bool :=
  match r with RSym s => is_u64 s | REntry u en => is_u64 u && is_u64 en end.

Fixpoint wf_op (o : wop) : bool :=
  match o with
  | WoRaw _ => true
  | WoSimple opc => opc <? 256
  | WoAddress (AConst v) => is_u64 v
  | WoAddress (ASym s a) => is_u64 s && in_i64 a
  | WoUConst v => is_u64 v
  | WoSConst v => in_i64 v
  | WoConstType b _ => is_u64 b
  | WoFrameOffset off => in_i64 off
  | WoRegOffset r off => (r <? 65536) && in_i64 off
  | WoRegType r b => (r <? 65536) && is_u64 b
  | WoPick i => i <? 256
  | WoDeref _ => true
  | WoDerefSize _ s => s <? 256
  | WoDerefType _ s b => (s <? 256) && is_u64 b
  | WoPlusConst v => is_u64 v
  | WoSkip t => is_u64 t
  | WoBranch t => is_u64 t
  | WoCall en => is_u64 en
  | WoCallRef r => wf_ref r
  | WoVarValue r => wf_ref r
  | WoConvert b => match b with Some b => is_u64 b | None => true end
  | WoReinterpret b => match b with Some b => is_u64 b | None => true end
  | WoEntryValue ex => forallb wf_op ex
  | WoRegister r => r <? 65536
  | WoImplicitValue _ => true
  | WoImplicitPointer r off => wf_ref r && in_i64 off
  | WoPiece s => is_u64 s
  | WoBitPiece s o => is_u64 s && is_u64 o
  | WoParameterRef en => is_u64 en
  | WoWasmLocal i => i <? two32
  | WoWasmGlobal i => i <? two32
  | WoWasmStack i => i <? two32
  end.

Definition wf_enc (e : enc) : bool := (e_version e <? 65536) && (e_asize e <? 256).
Definition wf_uoffs (uo : option uoffs) : bool :=
  match uo with
  | Some u => is_u64 (uo_unit u) && forallb is_u64 (uo_entries u)
  | None => true
  end.

(* ---- the builder interface (Expression::new + op_* + set_target) ---- *)

Inductive bcall :=
| BOp (o : wop)                      (* every op_* except skip/bra: pushes the operation *)
| BSkip | BBra                       (* push Skip(!0) / Branch(!0) *)
| BSetTarget (operation new_target : N).

Fixpoint set_nth (l : list wop) (n : N) (x : wop) : list wop :=
  match l with
  | [] => []
  | y :: r => if n =? 0 then x :: r else y :: set_nth r (n - 1) x
  end.

Definition usize_max : N := two64 - 1.

(* Expression::set_target: two debug_assert!s, `self.operations[operation]`, unimplemented!() *)
Definition set_target (dbg : bool) (ops : list wop) (operation new_target : N) : res (list wop) :=
  if dbg && (N.of_nat (length ops) <? new_target) then Panic
  else if dbg && (operation =? new_target) then Panic
  else match nth_N ops operation with
       | None => Panic
       | Some (WoSkip _) => Ok (set_nth ops operation (WoSkip new_target))
       | Some (WoBranch _) => Ok (set_nth ops operation (WoBranch new_target))
       | Some _ => Panic
       end.

Fixpoint build (dbg : bool) (ops : list wop) (calls : list bcall) : res (list wop) :=
  match calls with
  | [] => Ok ops
  | c :: r =>
      let* ops' := match c with
                   | BOp o => Ok (ops ++ [o])
                   | BSkip => Ok (ops ++ [WoSkip usize_max])
                   | BBra => Ok (ops ++ [WoBranch usize_max])
                   | BSetTarget o t => set_target dbg ops o t
                   end in
      build dbg ops' r
  end.
