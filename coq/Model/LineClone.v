(* Model/LineClone.v — C20, resumed / cloned LineRows (src/read/line.rs): the driver of stream c20.linem on
   top of Model/LineRd.v's state machine (lr_state, next_row). LineRows is `#[derive(Clone)]`: a clone is a
   copy of { program, row, instructions, in_sequence }.
     take up to k results from rows.next_row() (errors are recorded and iteration goes on, Ok(None) stops),
     clone, then drain the clone and the original (next_row until Ok(None), recording errors).
   NO proofs in this file. *)
From Coq Require Import List NArith ZArith Bool.
From Coq.Strings Require Import Byte.
Require Import GV.Base.Res GV.Spec.LineSpec GV.Model.LineRd.
Import ListNotations.

(* the first k calls; `Some s`: the iteration ended (or crashed) before k calls were made *)
Fixpoint line_head (k : nat) (dbg be : bool) (h : header) (st : lr_state)
  : list ev * option status * lr_state :=
  match k with
  | O => ([], None, st)
  | S k' =>
      match next_row dbg be false h st with
      | (NRow, st') => let '(es, s, stf) := line_head k' dbg be h st' in (EvRow (st_row st') :: es, s, stf)
      | (NErr e, st') => let '(es, s, stf) := line_head k' dbg be h st' in (EvErr e :: es, s, stf)
      | (NNone, st') => ([], Some SEnd, st')
      | (NPanic, st') => ([], Some SPanic, st')
      | (NFuel, st') => ([], Some SFuel, st')
      end
  end.

Definition drain_fuel (h : header) : nat := S (S (length (h_program h))).

(* head, what the clone yields, what the original yields afterwards *)
Definition line_clone (dbg be : bool) (h : header) (k : nat)
  : list ev * option status * (list ev * status) * (list ev * status) :=
  let '(es, early, st) := line_head k dbg be h (st_init h (h_program h)) in
  (es, early, cont_loop (drain_fuel h) dbg be h st, cont_loop (drain_fuel h) dbg be h st).

(* one next_row call as a step of a machine (for the clone-independence statement) *)
Definition line_step (dbg be resumed : bool) (h : header) (st : lr_state) (_ : unit) : lr_state * (nr_out * row) :=
  let '(o, st') := next_row dbg be resumed h st in (st', (o, st_row st')).
