(* Model/UnitWr.v — mirrors /repo/src/write/unit.rs
     (UnitTable::{add,write,write_debug_info_fixups}, Unit::{new,reserve,add_reserved,add,
      line_program_in_use,write,reorder_base_types}, DebuggingInformationEntry::{new_reserved,
      set_sibling,set,delete,delete_child,abbreviation,calculate_offsets,size,write},
      Attribute::specification, AttributeValue::{form,size,write}, UnitOffsets::{debug_info_offset,
      unit_offset}, DebugInfoFixup),
   /repo/src/write/abbrev.rs (AbbreviationTable::{add,write}, Abbreviation::write,
      AttributeSpecification::{new,write}),
   /repo/src/write/str.rs (define_string_table!: add, offset, write),
   /repo/src/write/dwarf.rs (Dwarf::write order), /repo/src/write/endian_vec.rs (write_at),
   /repo/src/write/writer.rs (write_udata_at, write_address, write_offset, write_reference).
   Opaque (supplied as parameters, owned by C13/C15/C16): the bytes and size of an expression, the
   offsets assigned to range / location lists, the offset of the unit's line program.
   No proofs in this file.  Streams: c11.units c11.attr c11.abbrev c11.str *)
From Coq Require Import List NArith ZArith Bool.
From Coq.Strings Require Import Byte.
Require Import GV.Base.Res GV.Base.Byt GV.Base.Ints GV.Model.Leb GV.Model.Prim GV.Spec.UnitWrSpec.
Import ListNotations.
Local Open Scope N_scope.

(* debug_assert!(c): panics only in a build with debug assertions *)
Definition dassert (dbg c : bool) : res unit := if dbg && negb c then Panic else Ok tt.

(* ------------------------------------------------------------------ values *)

(* write::Address *)
Inductive address := AConst (v : N) | ASym (sym : N) (addend : Z).

(* UnitEntryId { base_id, index }: BaseId is a per-Unit counter value in builds with debug
   assertions and () otherwise, so "same base" = "created by the same unit"; it is only ever
   inspected by debug_assert_eq!. *)
Record eid := mkEid { id_unit : nat; id_idx : nat }.

(* write::DebugInfoRef *)
Inductive dref := DSym (s : N) | DEntry (u : nat) (e : eid).

(* write::Expression, opaque: result of Expression::size and the bytes Expression::write appends *)
Record xexpr := mkX { x_size : res N; x_out : res (list byte) }.

(* write::AttributeValue — one constructor per variant *)
Inductive aval :=
| AvAddress (a : address)
| AvBlock (bs : list byte)
| AvData1 (v : N) | AvData2 (v : N) | AvData4 (v : N) | AvData8 (v : N) | AvData16 (v : N)
| AvSdata (z : Z)
| AvUdata (v : N)
| AvImplicitConst (z : Z)
| AvExprloc (x : xexpr)
| AvFlag (b : bool)
| AvFlagPresent
| AvUnitRef (id : eid)
| AvDebugInfoRef (r : dref)
| AvDebugInfoRefSup (v : N)
| AvLineProgramRef
| AvLocationListRef (i : nat)
| AvDebugMacinfoRef (v : N)
| AvDebugMacroRef (v : N)
| AvRangeListRef (i : nat)
| AvDebugTypesRef (v : N)
| AvStringRef (i : nat)
| AvDebugStrRefSup (v : N)
| AvLineStringRef (i : nat)
| AvString (bs : list byte)
| AvEncoding (v : N) | AvDecimalSign (v : N) | AvEndianity (v : N) | AvAccessibility (v : N)
| AvVisibility (v : N) | AvVirtuality (v : N) | AvLanguage (v : N) | AvAddressClass (v : N)
| AvIdentifierCase (v : N) | AvCallingConvention (v : N) | AvInline (v : N) | AvOrdering (v : N)
| AvFileIndex (f : option N).     (* Option<FileId>, 0-based index *)

(* ------------------------------------------------------------------ AttributeValue::form *)
Definition word_form (e : encoding) (f4 f8 : N) : N := if e_fmt64 e then f8 else f4.

Definition av_form (e : encoding) (v : aval) : N * option Z :=
  match v with
  | AvAddress _ => (DW_FORM_addr, None)
  | AvBlock _ => (DW_FORM_block, None)
  | AvData1 _ => (DW_FORM_data1, None)
  | AvData2 _ => (DW_FORM_data2, None)
  | AvData4 _ => (DW_FORM_data4, None)
  | AvData8 _ => (DW_FORM_data8, None)
  | AvData16 _ => (DW_FORM_data16, None)
  | AvExprloc _ => (if 4 <=? e_ver e then DW_FORM_exprloc else DW_FORM_block, None)
  | AvFlag _ => (DW_FORM_flag, None)
  | AvFlagPresent => (if 4 <=? e_ver e then DW_FORM_flag_present else DW_FORM_flag, None)
  | AvUnitRef _ => (word_form e DW_FORM_ref4 DW_FORM_ref8, None)
  | AvDebugInfoRef _ => (DW_FORM_ref_addr, None)
  | AvDebugInfoRefSup _ => (word_form e DW_FORM_ref_sup4 DW_FORM_ref_sup8, None)
  | AvLineProgramRef | AvLocationListRef _ | AvDebugMacinfoRef _ | AvDebugMacroRef _ | AvRangeListRef _ =>
      (if (e_ver e =? 2) || (e_ver e =? 3) then word_form e DW_FORM_data4 DW_FORM_data8
       else DW_FORM_sec_offset, None)
  | AvDebugTypesRef _ => (DW_FORM_ref_sig8, None)
  | AvStringRef _ => (DW_FORM_strp, None)
  | AvDebugStrRefSup _ => (DW_FORM_strp_sup, None)
  | AvLineStringRef _ => (DW_FORM_line_strp, None)
  | AvString _ => (DW_FORM_string, None)
  | AvEncoding _ | AvDecimalSign _ | AvEndianity _ | AvAccessibility _ | AvVisibility _
  | AvVirtuality _ | AvLanguage _ | AvAddressClass _ | AvIdentifierCase _ | AvCallingConvention _
  | AvInline _ | AvOrdering _ | AvFileIndex _ | AvUdata _ => (DW_FORM_udata, None)
  | AvSdata _ => (DW_FORM_sdata, None)
  | AvImplicitConst z =>
      if 5 <=? e_ver e then (DW_FORM_implicit_const, Some z) else (DW_FORM_sdata, None)
  end.

(* debug_assert_form!($form) *)
Definition assert_form (dbg : bool) (e : encoding) (v : aval) (form : N) : res unit :=
  dassert dbg (fst (av_form e v) =? form).

(* `.map(|id| id.raw(unit.line_program.version())).unwrap_or(0)`: FileId::raw is 1-based up to DWARF 4.
   `lpv` = version of the unit's line program (LineProgram::none() has version 2). *)
Definition file_raw (dbg : bool) (lpv : N) (f : option N) : res N :=
  match f with
  | None => Ok 0
  | Some i => if lpv <=? 4 then chk_add 64 dbg i 1 else Ok i
  end.

Definition blen (bs : list byte) : N := N.of_nat (length bs).

(* ------------------------------------------------------------------ AttributeValue::size *)
Definition sec_offset_assert (dbg : bool) (e : encoding) (v : aval) : res unit :=
  if 4 <=? e_ver e then assert_form dbg e v DW_FORM_sec_offset else Ok tt.

Definition av_size (dbg : bool) (e : encoding) (lpv : N) (v : aval) : res N :=
  let udata_like (x : N) := let* _ := assert_form dbg e v DW_FORM_udata in Ok (uleb128_size x) in
  match v with
  | AvAddress _ => let* _ := assert_form dbg e v DW_FORM_addr in Ok (e_asz e)
  | AvBlock bs => let* _ := assert_form dbg e v DW_FORM_block in
                  chk_add 64 dbg (uleb128_size (blen bs)) (blen bs)
  | AvData1 _ => let* _ := assert_form dbg e v DW_FORM_data1 in Ok 1
  | AvData2 _ => let* _ := assert_form dbg e v DW_FORM_data2 in Ok 2
  | AvData4 _ => let* _ := assert_form dbg e v DW_FORM_data4 in Ok 4
  | AvData8 _ => let* _ := assert_form dbg e v DW_FORM_data8 in Ok 8
  | AvData16 _ => let* _ := assert_form dbg e v DW_FORM_data16 in Ok 16
  | AvSdata z => let* _ := assert_form dbg e v DW_FORM_sdata in Ok (sleb128_size z)
  | AvImplicitConst z =>
      if 5 <=? e_ver e then let* _ := assert_form dbg e v DW_FORM_implicit_const in Ok 0
      else let* _ := assert_form dbg e v DW_FORM_sdata in Ok (sleb128_size z)
  | AvUdata x => udata_like x
  | AvExprloc x =>
      let* _ := (if 4 <=? e_ver e then assert_form dbg e v DW_FORM_exprloc
                 else assert_form dbg e v DW_FORM_block) in
      let* size := x_size x in
      chk_add 64 dbg (uleb128_size size) size
  | AvFlag _ => let* _ := assert_form dbg e v DW_FORM_flag in Ok 1
  | AvFlagPresent =>
      if 4 <=? e_ver e then let* _ := assert_form dbg e v DW_FORM_flag_present in Ok 0
      else let* _ := assert_form dbg e v DW_FORM_flag in Ok 1
  | AvUnitRef _ =>
      let* _ := assert_form dbg e v (word_form e DW_FORM_ref4 DW_FORM_ref8) in Ok (wsz e)
  | AvDebugInfoRef _ =>
      let* _ := assert_form dbg e v DW_FORM_ref_addr in
      Ok (if e_ver e =? 2 then e_asz e else wsz e)
  | AvDebugInfoRefSup _ =>
      let* _ := assert_form dbg e v (word_form e DW_FORM_ref_sup4 DW_FORM_ref_sup8) in Ok (wsz e)
  | AvLineProgramRef | AvLocationListRef _ | AvDebugMacinfoRef _ | AvDebugMacroRef _ | AvRangeListRef _ =>
      let* _ := sec_offset_assert dbg e v in Ok (wsz e)
  | AvDebugTypesRef _ => let* _ := assert_form dbg e v DW_FORM_ref_sig8 in Ok 8
  | AvStringRef _ => let* _ := assert_form dbg e v DW_FORM_strp in Ok (wsz e)
  | AvDebugStrRefSup _ => let* _ := assert_form dbg e v DW_FORM_strp_sup in Ok (wsz e)
  | AvLineStringRef _ => let* _ := assert_form dbg e v DW_FORM_line_strp in Ok (wsz e)
  | AvString bs => let* _ := assert_form dbg e v DW_FORM_string in chk_add 64 dbg (blen bs) 1
  | AvEncoding x | AvDecimalSign x | AvEndianity x | AvAccessibility x | AvVisibility x
  | AvVirtuality x | AvLanguage x | AvAddressClass x | AvIdentifierCase x | AvCallingConvention x
  | AvInline x | AvOrdering x => udata_like x
  | AvFileIndex f =>
      let* _ := assert_form dbg e v DW_FORM_udata in
      let* raw := file_raw dbg lpv f in Ok (uleb128_size raw)
  end.

(* ------------------------------------------------------------------ AttributeValue::write *)

(* what the DIE writer appends to `.debug_info`: plain bytes, or a zero placeholder whose
   position is remembered for a later patch *)
Inductive wop :=
| WMark (id : nat)                          (* ghost, no bytes: w.offset() at the debug_assert that opens DebuggingInformationEntry::write for entry `id` *)
| WB (bs : list byte)
| WUnitRef (id : eid) (w : N)               (* unit_refs.push((w.offset(), id)); w.write_udata(0, w) *)
| WInfoFix (u : nat) (id : eid) (sz : N).   (* debug_info_refs.push(DebugInfoFixup{offset: w.len(), unit, entry, size}); w.write_udata(0, size) *)

Definition zeros (n : N) : list byte := repeat x00 (N.to_nat n).

Definition op_bytes (o : wop) : list byte :=
  match o with WMark _ => [] | WB bs => bs | WUnitRef _ w => zeros w | WInfoFix _ _ sz => zeros sz end.
Definition ops_bytes (ops : list wop) : list byte := flat_map op_bytes ops.
Definition ops_len (ops : list wop) : N := blen (ops_bytes ops).

(* offsets known while the DIEs of one unit are written *)
Record wcx := mkWcx {
  wc_enc : encoding; wc_be : bool;
  wc_unit : nat;               (* index of the unit being written = its BaseId *)
  wc_unit_off : N;             (* UnitOffsets.unit *)
  wc_entries : list N;         (* UnitOffsets.entries (0 = not calculated) *)
  wc_codes : list N;           (* abbreviation code per entry index *)
  wc_line : option N;          (* Option<DebugLineOffset> of the unit's line program *)
  wc_lstr : list N;            (* LineStringTable.offsets *)
  wc_str : list N;             (* StringTable.offsets *)
  wc_rng : list N;             (* RangeListOffsets *)
  wc_loc : list N;             (* LocationListOffsets *)
  wc_lpv : N                   (* unit.line_program.version() *)
}.

(* `self.offsets[id.index]` *)
Definition idx_get (l : list N) (i : nat) : res N := unwrap (nth_error l i).

Definition valid_size (sz : N) : bool := (sz =? 1) || (sz =? 2) || (sz =? 4) || (sz =? 8).

Definition av_write (dbg : bool) (cx : wcx) (v : aval) : res (list wop) :=
  let e := wc_enc cx in
  let be := wc_be cx in
  let bytes (r : res (list byte)) : res (list wop) := let* b := r in Ok [WB b] in
  let udata_like (x : N) := let* _ := assert_form dbg e v DW_FORM_udata in bytes (write_uleb128 x) in
  let word_off (r : res N) := let* o := r in bytes (write_udata be o (wsz e)) in
  match v with
  | AvAddress a =>
      let* _ := assert_form dbg e v DW_FORM_addr in
      match a with
      | AConst x => bytes (write_udata be x (e_asz e))
      | ASym _ _ => Err WInvalidAddress
      end
  | AvBlock bs =>
      let* _ := assert_form dbg e v DW_FORM_block in
      let* l := write_uleb128 (blen bs) in Ok [WB l; WB bs]
  | AvData1 x => let* _ := assert_form dbg e v DW_FORM_data1 in Ok [WB (enc_un 1 be x)]
  | AvData2 x => let* _ := assert_form dbg e v DW_FORM_data2 in Ok [WB (enc_un 2 be x)]
  | AvData4 x => let* _ := assert_form dbg e v DW_FORM_data4 in Ok [WB (enc_un 4 be x)]
  | AvData8 x => let* _ := assert_form dbg e v DW_FORM_data8 in Ok [WB (enc_un 8 be x)]
  | AvData16 x => let* _ := assert_form dbg e v DW_FORM_data16 in Ok [WB (enc_un 16 be x)]
  | AvSdata z => let* _ := assert_form dbg e v DW_FORM_sdata in bytes (write_sleb128 z)
  | AvImplicitConst z =>
      if 5 <=? e_ver e then let* _ := assert_form dbg e v DW_FORM_implicit_const in Ok []
      else let* _ := assert_form dbg e v DW_FORM_sdata in bytes (write_sleb128 z)
  | AvUdata x => udata_like x
  | AvExprloc x =>
      let* _ := (if 4 <=? e_ver e then assert_form dbg e v DW_FORM_exprloc
                 else assert_form dbg e v DW_FORM_block) in
      let* size := x_size x in
      let* l := write_uleb128 size in
      let* body := x_out x in
      Ok [WB l; WB body]
  | AvFlag b => let* _ := assert_form dbg e v DW_FORM_flag in Ok [WB [if b then x01 else x00]]
  | AvFlagPresent =>
      if 4 <=? e_ver e then let* _ := assert_form dbg e v DW_FORM_flag_present in Ok []
      else let* _ := assert_form dbg e v DW_FORM_flag in Ok [WB [x01]]
  | AvUnitRef id =>
      let* _ := assert_form dbg e v (word_form e DW_FORM_ref4 DW_FORM_ref8) in
      Ok [WUnitRef id (wsz e)]
  | AvDebugInfoRef r =>
      let* _ := assert_form dbg e v DW_FORM_ref_addr in
      let size := if e_ver e =? 2 then e_asz e else wsz e in
      match r with
      | DSym _ => Err WInvalidReference            (* Writer::write_reference default *)
      | DEntry u id =>
          if valid_size size then Ok [WInfoFix u id size] else Err WUnsupportedWordSize
      end
  | AvDebugInfoRefSup x =>
      let* _ := assert_form dbg e v (word_form e DW_FORM_ref_sup4 DW_FORM_ref_sup8) in
      bytes (write_udata be x (wsz e))
  | AvLineProgramRef =>
      let* _ := sec_offset_assert dbg e v in
      match wc_line cx with
      | Some o => bytes (write_udata be o (wsz e))
      | None => Err WInvalidAttributeValue
      end
  | AvLocationListRef i => let* _ := sec_offset_assert dbg e v in word_off (idx_get (wc_loc cx) i)
  | AvDebugMacinfoRef x => let* _ := sec_offset_assert dbg e v in bytes (write_udata be x (wsz e))
  | AvDebugMacroRef x => let* _ := sec_offset_assert dbg e v in bytes (write_udata be x (wsz e))
  | AvRangeListRef i => let* _ := sec_offset_assert dbg e v in word_off (idx_get (wc_rng cx) i)
  | AvDebugTypesRef x => let* _ := assert_form dbg e v DW_FORM_ref_sig8 in Ok [WB (enc_un 8 be x)]
  | AvStringRef i => let* _ := assert_form dbg e v DW_FORM_strp in word_off (idx_get (wc_str cx) i)
  | AvDebugStrRefSup x => let* _ := assert_form dbg e v DW_FORM_strp_sup in bytes (write_udata be x (wsz e))
  | AvLineStringRef i => let* _ := assert_form dbg e v DW_FORM_line_strp in word_off (idx_get (wc_lstr cx) i)
  | AvString bs => let* _ := assert_form dbg e v DW_FORM_string in Ok [WB bs; WB [x00]]
  | AvEncoding x | AvDecimalSign x | AvEndianity x | AvAccessibility x | AvVisibility x
  | AvVirtuality x | AvLanguage x | AvAddressClass x | AvIdentifierCase x | AvCallingConvention x
  | AvInline x | AvOrdering x => udata_like x
  | AvFileIndex f =>
      let* _ := assert_form dbg e v DW_FORM_udata in
      let* raw := file_raw dbg (wc_lpv cx) f in bytes (write_uleb128 raw)
  end.

(* ------------------------------------------------------------------ abbreviations *)

Definition aspec_eqb (a b : aspec) : bool :=
  (as_name a =? as_name b) && (as_form a =? as_form b) && (as_ic a =? as_ic b)%Z.
Fixpoint aspecs_eqb (a b : list aspec) : bool :=
  match a, b with
  | [], [] => true
  | x :: r, y :: s => aspec_eqb x y && aspecs_eqb r s
  | _, _ => false
  end.
Definition abbrev_eqb (a b : abbrev) : bool :=
  (ab_tag a =? ab_tag b) && Bool.eqb (ab_children a) (ab_children b) && aspecs_eqb (ab_attrs a) (ab_attrs b).

(* IndexSet::insert_full: index of the first equal element, else append *)
Fixpoint abbrev_find (tab : list abbrev) (a : abbrev) : option nat :=
  match tab with
  | [] => None
  | x :: r => if abbrev_eqb x a then Some O
              else match abbrev_find r a with Some i => Some (S i) | None => None end
  end.

(* AbbreviationTable::add: returns (code, table') *)
Definition abbrev_add (tab : list abbrev) (a : abbrev) : N * list abbrev :=
  match abbrev_find tab a with
  | Some i => (N.of_nat i + 1, tab)
  | None => (N.of_nat (length tab) + 1, tab ++ [a])
  end.

(* AttributeSpecification::new (with its debug_assert) *)
Definition aspec_new (dbg : bool) (name form : N) (ic : option Z) : res aspec :=
  let* _ := dassert dbg (Bool.eqb (form =? DW_FORM_implicit_const) (match ic with Some _ => true | None => false end)) in
  Ok (mkAspec name form (match ic with Some z => z | None => 0%Z end)).

(* AttributeSpecification::write *)
Definition aspec_write (a : aspec) : res (list byte) :=
  let* n := write_uleb128 (as_name a) in
  let* f := write_uleb128 (as_form a) in
  let* c := (if as_form a =? DW_FORM_implicit_const then write_sleb128 (as_ic a) else Ok []) in
  Ok (n ++ f ++ c).

Fixpoint aspecs_write (l : list aspec) : res (list byte) :=
  match l with
  | [] => Ok []
  | a :: r => let* x := aspec_write a in let* y := aspecs_write r in Ok (x ++ y)
  end.

(* Abbreviation::write *)
Definition abbrev_write (a : abbrev) : res (list byte) :=
  let* t := write_uleb128 (ab_tag a) in
  let* s := aspecs_write (ab_attrs a) in
  Ok (t ++ [if ab_children a then x01 else x00] ++ s ++ [x00; x00]).

(* AbbreviationTable::write: codes 1.. in table order, then the null code *)
Fixpoint abbrevs_write_from (code : N) (tab : list abbrev) : res (list byte) :=
  match tab with
  | [] => Ok [x00]
  | a :: r =>
      let* c := write_uleb128 code in
      let* b := abbrev_write a in
      let* rest := abbrevs_write_from (code + 1) r in
      Ok (c ++ b ++ rest)
  end.
Definition abbrevs_write (tab : list abbrev) : res (list byte) := abbrevs_write_from 1 tab.

(* ------------------------------------------------------------------ DIE tree *)

(* the part of a unit reachable from its root, in children order *)
Inductive die := Die (id : nat) (tag : N) (sibling : bool) (attrs : list (N * aval)) (children : list die).

Definition die_id (d : die) : nat := match d with Die i _ _ _ _ => i end.
Definition die_tag (d : die) : N := match d with Die _ t _ _ _ => t end.
Definition die_children (d : die) : list die := match d with Die _ _ _ _ c => c end.
Definition die_attrs (d : die) : list (N * aval) := match d with Die _ _ _ a _ => a end.
Definition has_kids (ch : list die) : bool := match ch with [] => false | _ => true end.

(* DebuggingInformationEntry::abbreviation *)
Fixpoint attr_specs (dbg : bool) (e : encoding) (attrs : list (N * aval)) : res (list aspec) :=
  match attrs with
  | [] => Ok []
  | (name, v) :: r =>
      let (form, ic) := av_form e v in
      let* s := aspec_new dbg name form ic in
      let* rest := attr_specs dbg e r in
      Ok (s :: rest)
  end.

Definition die_abbrev (dbg : bool) (e : encoding) (d : die) : res abbrev :=
  match d with
  | Die _ tag sib attrs ch =>
      let sibling := sib && has_kids ch in
      let* sibspec := (if sibling
                       then let* s := aspec_new dbg DW_AT_sibling (word_form e DW_FORM_ref4 DW_FORM_ref8) None in Ok [s]
                       else Ok []) in
      let* specs := attr_specs dbg e attrs in
      Ok (mkAbbrev tag (has_kids ch) (sibspec ++ specs))
  end.

(* DebuggingInformationEntry::size *)
Fixpoint attrs_size (dbg : bool) (e : encoding) (lpv : N) (acc : N) (attrs : list (N * aval)) : res N :=
  match attrs with
  | [] => Ok acc
  | (_, v) :: r =>
      let* s := av_size dbg e lpv v in
      let* acc' := chk_add 64 dbg acc s in
      attrs_size dbg e lpv acc' r
  end.

Definition die_size (dbg : bool) (e : encoding) (lpv : N) (d : die) (code : N) : res N :=
  match d with
  | Die _ _ sib attrs ch =>
      let size := uleb128_size code in
      let* size := (if sib && has_kids ch then chk_add 64 dbg size (wsz e) else Ok size) in
      attrs_size dbg e lpv size attrs
  end.

(* `v[i] = x` on a Vec: index panic when out of range *)
Fixpoint set_nth {A} (i : nat) (x : A) (l : list A) : res (list A) :=
  match l, i with
  | [], _ => Panic
  | _ :: r, O => Ok (x :: r)
  | y :: r, S k => let* r' := set_nth k x r in Ok (y :: r')
  end.

(* state threaded through calculate_offsets *)
Record cst := mkCst {
  cs_off : N;                 (* *offset *)
  cs_entries : list N;        (* offsets.entries *)
  cs_abbrevs : list abbrev;   (* abbrevs *)
  cs_codes : list N           (* codes *)
}.

(* DebuggingInformationEntry::calculate_offsets *)
Fixpoint calc (dbg : bool) (e : encoding) (lpv : N) (d : die) (st : cst) : res cst :=
  match d with
  | Die id _ _ _ ch =>
      let* ents := set_nth id (cs_off st) (cs_entries st) in
      let* ab := die_abbrev dbg e d in
      let (code, tab) := abbrev_add (cs_abbrevs st) ab in
      let* codes := set_nth id code (cs_codes st) in
      let* sz := die_size dbg e lpv d code in
      let* off := chk_add 64 dbg (cs_off st) sz in
      let st1 := mkCst off ents tab codes in
      match ch with
      | [] => Ok st1
      | _ =>
          let* st2 := (fix go (l : list die) (s : cst) : res cst :=
                         match l with
                         | [] => Ok s
                         | c :: r => let* s' := calc dbg e lpv c s in go r s'
                         end) ch st1 in
          (* Null child *)
          let* off2 := chk_add 64 dbg (cs_off st2) 1 in
          Ok (mkCst off2 (cs_entries st2) (cs_abbrevs st2) (cs_codes st2))
      end
  end.

(* UnitOffsets::debug_info_offset *)
Definition debug_info_offset (dbg : bool) (unit : nat) (entries : list N) (id : eid) : res (option N) :=
  let* _ := dassert dbg (Nat.eqb unit (id_unit id)) in
  (* `*self.entries.get(entry.index)?`: an id that was reserved but never added may lie beyond the entries *)
  match nth_error entries (id_idx id) with
  | None => Ok None
  | Some o => Ok (if o =? 0 then None else Some o)
  end.

(* UnitOffsets::unit_offset *)
Definition unit_offset (dbg : bool) (unit : nat) (unit_off : N) (entries : list N) (id : eid) : res (option N) :=
  let* o := debug_info_offset dbg unit entries id in
  match o with
  | None => Ok None
  | Some x => let* r := chk_sub 64 dbg x unit_off in Ok (Some r)
  end.

Fixpoint attrs_write (dbg : bool) (cx : wcx) (attrs : list (N * aval)) : res (list wop) :=
  match attrs with
  | [] => Ok []
  | (_, v) :: r =>
      let* o := av_write dbg cx v in
      let* rest := attrs_write dbg cx r in
      Ok (o ++ rest)
  end.

(* DebuggingInformationEntry::write; `pos` = w.offset() on entry *)
Fixpoint write_die (dbg : bool) (cx : wcx) (d : die) (pos : N) : res (list wop) :=
  match d with
  | Die id _ sib attrs ch =>
      (* debug_assert_eq!(offsets.debug_info_offset(self.id), Some(w.offset())): not evaluated in release *)
      let* _ := (if dbg
                 then let* here := debug_info_offset dbg (wc_unit cx) (wc_entries cx) (mkEid (wc_unit cx) id) in
                      dassert dbg (match here with Some o => o =? pos | None => false end)
                 else Ok tt) in
      let* code := idx_get (wc_codes cx) id in
      let* cb := write_uleb128 code in
      let w := wsz (wc_enc cx) in
      let has_sib := sib && has_kids ch in
      let head := blen cb + (if has_sib then w else 0) in
      let* aops := attrs_write dbg cx attrs in
      match ch with
      | [] => Ok (WMark id :: WB cb :: aops)
      | _ =>
          let* cops := (fix go (l : list die) (p : N) : res (list wop) :=
                          match l with
                          | [] => Ok []
                          | c :: r =>
                              let* o := write_die dbg cx c p in
                              let* rest := go r (p + ops_len o) in
                              Ok (o ++ rest)
                          end) ch (pos + head + ops_len aops) in
          (* Null child, then the sibling placeholder is patched with the offset after it *)
          let after := pos + head + ops_len aops + ops_len cops + 1 in
          let* sibb := (if has_sib
                        then let* next := chk_sub 64 dbg after (wc_unit_off cx) in
                             let* b := write_udata (wc_be cx) next w in Ok [WB b]
                        else Ok []) in
          Ok (WMark id :: WB cb :: sibb ++ aops ++ cops ++ [WB [x00]])
      end
  end.

(* positions of the placeholders, in the order they were pushed *)
Fixpoint ops_unit_refs (pos : N) (ops : list wop) : list (N * eid) :=
  match ops with
  | [] => []
  | o :: r =>
      let rest := ops_unit_refs (pos + blen (op_bytes o)) r in
      match o with WUnitRef id _ => (pos, id) :: rest | _ => rest end
  end.

(* where each entry was emitted (ghost) *)
Fixpoint ops_marks (pos : N) (ops : list wop) : list (nat * N) :=
  match ops with
  | [] => []
  | o :: r =>
      let rest := ops_marks (pos + blen (op_bytes o)) r in
      match o with WMark id => (id, pos) :: rest | _ => rest end
  end.

Record fixup := mkFixup { fx_offset : N; fx_size : N; fx_unit : nat; fx_entry : eid }.

Fixpoint ops_fixups (pos : N) (ops : list wop) : list fixup :=
  match ops with
  | [] => []
  | o :: r =>
      let rest := ops_fixups (pos + blen (op_bytes o)) r in
      match o with WInfoFix u id sz => mkFixup pos sz u id :: rest | _ => rest end
  end.

(* ------------------------------------------------------------------ EndianVec::write_at *)
Definition write_at (sec : list byte) (off : N) (bs : list byte) : res (list byte) :=
  if blen sec <? off then Err WOffsetOutOfBounds
  else if blen sec - off <? blen bs then Err WLengthOutOfBounds
  else Ok (firstn (N.to_nat off) sec ++ bs ++ skipn (N.to_nat off + length bs) sec).

Definition write_udata_at (be : bool) (sec : list byte) (off v size : N) : res (list byte) :=
  let* b := write_udata be v size in write_at sec off b.

(* ------------------------------------------------------------------ Unit *)

Record entry := mkEntry {
  en_parent : option nat; en_tag : N; en_sibling : bool;
  en_attrs : list (N * aval); en_children : list nat }.

Definition new_reserved : entry := mkEntry None 0 false [] [].

Record wunit := mkUnit { u_enc : encoding; u_entries : list entry; u_reserved : nat }.

(* Unit::new: the root is entry 0 with DW_TAG_compile_unit *)
Definition unit_new (e : encoding) : wunit :=
  mkUnit e [mkEntry None DW_TAG_compile_unit false [] []] 1.

Definition unit_reserve (u : wunit) : nat * wunit :=
  (u_reserved u, mkUnit (u_enc u) (u_entries u) (S (u_reserved u))).

Fixpoint upd_nth {A} (i : nat) (f : A -> A) (l : list A) : res (list A) :=
  match l, i with
  | [], _ => Panic
  | x :: r, O => Ok (f x :: r)
  | y :: r, S k => let* r' := upd_nth k f r in Ok (y :: r')
  end.

Definition pad_entries (n : nat) (l : list entry) : list entry := l ++ repeat new_reserved (n - length l).

(* Unit::add_reserved *)
Definition unit_add_reserved (dbg : bool) (u : wunit) (child parent : nat) (tag : N) : res wunit :=
  let ents := pad_entries (u_reserved u) (u_entries u) in
  let* c := unwrap (nth_error ents child) in
  let* _ := dassert dbg (match en_parent c with None => true | Some _ => false end) in
  let* _ := dassert dbg (en_tag c =? 0) in
  let* ents1 := upd_nth child (fun x => mkEntry (Some parent) tag (en_sibling x) (en_attrs x) (en_children x)) ents in
  let* ents2 := upd_nth parent (fun x => mkEntry (en_parent x) (en_tag x) (en_sibling x) (en_attrs x) (en_children x ++ [child])) ents1 in
  Ok (mkUnit (u_enc u) ents2 (u_reserved u)).

(* Unit::add *)
Definition unit_add (dbg : bool) (u : wunit) (parent : nat) (tag : N) : res (nat * wunit) :=
  let (id, u1) := unit_reserve u in
  let* u2 := unit_add_reserved dbg u1 id parent tag in Ok (id, u2).

(* DebuggingInformationEntry::set *)
Fixpoint attrs_set (name : N) (v : aval) (l : list (N * aval)) : list (N * aval) :=
  match l with
  | [] => [(name, v)]
  | (n, x) :: r => if n =? name then (n, v) :: r else (n, x) :: attrs_set name v r
  end.
Definition entry_set (dbg : bool) (name : N) (v : aval) (x : entry) : res entry :=
  let* _ := dassert dbg (negb (name =? DW_AT_sibling)) in
  Ok (mkEntry (en_parent x) (en_tag x) (en_sibling x) (attrs_set name v (en_attrs x)) (en_children x)).
(* DebuggingInformationEntry::delete *)
Definition entry_delete (name : N) (x : entry) : entry :=
  mkEntry (en_parent x) (en_tag x) (en_sibling x)
          (filter (fun p => negb (fst p =? name)) (en_attrs x)) (en_children x).
Definition entry_set_sibling (b : bool) (x : entry) : entry :=
  mkEntry (en_parent x) (en_tag x) b (en_attrs x) (en_children x).
(* DebuggingInformationEntry::delete_child *)
Definition entry_delete_child (c : nat) (x : entry) : entry :=
  mkEntry (en_parent x) (en_tag x) (en_sibling x) (en_attrs x)
          (filter (fun k => negb (Nat.eqb k c)) (en_children x)).

(* Unit::get_mut(id) followed by one of the above (index panic when out of range) *)
Definition unit_upd (u : wunit) (i : nat) (f : entry -> res entry) : res wunit :=
  let* x := unwrap (nth_error (u_entries u) i) in
  let* y := f x in
  let* ents := set_nth i y (u_entries u) in
  Ok (mkUnit (u_enc u) ents (u_reserved u)).

(* Unit::reorder_base_types on the root's children *)
Definition entry_tag_at (ents : list entry) (i : nat) : res N :=
  let* x := unwrap (nth_error ents i) in Ok (en_tag x).
Fixpoint select_tags (ents : list entry) (want_base : bool) (l : list nat) : res (list nat) :=
  match l with
  | [] => Ok []
  | c :: r =>
      let* t := entry_tag_at ents c in
      let* rest := select_tags ents want_base r in
      Ok (if Bool.eqb (t =? DW_TAG_base_type) want_base then c :: rest else rest)
  end.
Definition reorder_base_types (ents : list entry) : res (list entry) :=
  let* root := unwrap (nth_error ents 0) in
  let* a := select_tags ents true (en_children root) in
  let* b := select_tags ents false (en_children root) in
  set_nth 0 (mkEntry (en_parent root) (en_tag root) (en_sibling root) (en_attrs root) (a ++ b)) ents.

(* the tree the two passes walk: `unit.entries[child.index]` for every child *)
Fixpoint tree_of (fuel : nat) (ents : list entry) (i : nat) : res die :=
  match fuel with
  | O => OutOfFuel
  | S f =>
      let* en := unwrap (nth_error ents i) in
      let* ch := (fix go (l : list nat) : res (list die) :=
                    match l with
                    | [] => Ok []
                    | c :: r => let* d := tree_of f ents c in let* ds := go r in Ok (d :: ds)
                    end) (en_children en) in
      Ok (Die i (en_tag en) (en_sibling en) (en_attrs en) ch)
  end.

(* the opaque collaborators of one unit *)
Record uparams := mkUparams {
  up_lp_none : bool;            (* line_program.is_none() *)
  up_lp_nonempty : bool;        (* !line_program.is_empty() *)
  up_lp_version : N;            (* line_program.version() (2 for LineProgram::none()) *)
  up_lp_write : res N;          (* result of line_program.write: its .debug_line offset *)
  up_rng : res (list N);        (* result of ranges.write *)
  up_loc : res (list N)         (* result of locations.write *)
}.

Definition is_file_index_some (p : N * aval) : bool :=
  match snd p with AvFileIndex (Some _) => true | _ => false end.

(* Unit::line_program_in_use *)
Definition line_program_in_use (u : wunit) (p : uparams) : bool :=
  if up_lp_none p then false
  else if up_lp_nonempty p then true
  else existsb (fun en => existsb is_file_index_some (en_attrs en)) (u_entries u).

(* what Unit::write leaves behind *)
Record uout := mkUout {
  uo_info : list byte;          (* .debug_info after this unit *)
  uo_fixups : list fixup;       (* appended to sections.debug_info_fixups *)
  uo_unit_off : N;              (* self.offsets.unit *)
  uo_entries : list N;          (* self.offsets.entries *)
  uo_abbrevs : list abbrev      (* the unit's abbreviation table *)
}.

Fixpoint patch_unit_refs (dbg be : bool) (unit : nat) (unit_off : N) (entries : list N) (w : N)
         (refs : list (N * eid)) (sec : list byte) : res (list byte) :=
  match refs with
  | [] => Ok sec
  | (off, id) :: r =>
      let* t := unit_offset dbg unit unit_off entries id in
      let* v := of_option WInvalidReference t in
      let* sec' := write_udata_at be sec off v w in
      patch_unit_refs dbg be unit unit_off entries w r sec'
  end.

(* Unit::write. `info` = .debug_info so far, `abbrev_off` = offset of this unit's abbreviations. *)
Definition unit_write (dbg be : bool) (uidx : nat) (u : wunit) (p : uparams)
           (lstr str : list N) (info : list byte) (abbrev_off : N) : res uout :=
  let e := u_enc u in
  let w := wsz e in
  let in_use := line_program_in_use u p in
  (* root: set or delete DW_AT_stmt_list (direct field access: no debug_assert) *)
  let* ents := upd_nth 0 (fun x =>
                 if in_use
                 then mkEntry (en_parent x) (en_tag x) (en_sibling x)
                              (attrs_set DW_AT_stmt_list AvLineProgramRef (en_attrs x)) (en_children x)
                 else entry_delete DW_AT_stmt_list x) (u_entries u) in
  let* line := (if in_use then let* o := up_lp_write p in Ok (Some o) else Ok None) in
  let unit_off := blen info in
  (* write_initial_length placeholder *)
  let* len0 := write_udata be 0 w in
  let esc := if e_fmt64 e then enc_un 4 be 4294967295 else [] in
  let length_offset := unit_off + blen esc in
  let ver := enc_un 2 be (e_ver e) in
  let* hdr := (if (2 <=? e_ver e) && (e_ver e <=? 4)
               then let* ao := write_udata be abbrev_off w in Ok (ao ++ [n2b (e_asz e)])
               else if e_ver e =? 5
               then let* ao := write_udata be abbrev_off w in Ok ([n2b DW_UT_compile; n2b (e_asz e)] ++ ao)
               else Err WUnsupportedVersion) in
  let header := esc ++ len0 ++ ver ++ hdr in
  let* ents2 := reorder_base_types ents in
  let n := length ents2 in
  let* root := tree_of (S n) ents2 0 in
  let pos0 := unit_off + blen header in
  let* st := calc dbg e (up_lp_version p) root (mkCst pos0 (repeat 0 n) [] (repeat 0 n)) in
  let* rng := up_rng p in
  let* loc := up_loc p in
  let cx := mkWcx e be uidx unit_off (cs_entries st) (cs_codes st) line lstr str rng loc (up_lp_version p) in
  let* ops := write_die dbg cx root pos0 in
  let sec1 := info ++ header ++ ops_bytes ops in
  (* write_initial_length_at *)
  let length := blen sec1 - (length_offset + w) in
  let* _ := (if negb (e_fmt64 e) && (4294967280 <=? length) && (length <=? 4294967295)
             then Err WInitialLengthOverflow else Ok tt) in
  let* sec2 := write_udata_at be sec1 length_offset length w in
  let* sec3 := patch_unit_refs dbg be uidx unit_off (cs_entries st) w (ops_unit_refs pos0 ops) sec2 in
  Ok (mkUout sec3 (ops_fixups pos0 ops) unit_off (cs_entries st) (cs_abbrevs st)).

(* ------------------------------------------------------------------ UnitTable *)

Record tunit := mkTunit {
  tu_unit : wunit; tu_params : uparams;
  tu_written : bool;
  tu_unit_off : N;              (* offsets.unit (!0 before the unit is written) *)
  tu_entries : list N           (* offsets.entries (empty before the unit is written) *)
}.

Record wsec := mkWsec { s_info : list byte; s_abbrev : list byte; s_fixups : list fixup }.

(* the `for unit in &mut self.units` loop of UnitTable::write; `i` = index of the head of `units` *)
Fixpoint table_units (dbg be : bool) (lstr str : list N) (i : nat) (units : list tunit) (s : wsec)
  : res (list tunit * wsec) :=
  match units with
  | [] => Ok ([], s)
  | t :: r =>
      if tu_written t then
        let* (r', s') := table_units dbg be lstr str (S i) r s in Ok (t :: r', s')
      else
        let* o := unit_write dbg be i (tu_unit t) (tu_params t) lstr str (s_info s) (blen (s_abbrev s)) in
        let* ab := abbrevs_write (uo_abbrevs o) in
        let t' := mkTunit (tu_unit t) (tu_params t) true (uo_unit_off o) (uo_entries o) in
        let s1 := mkWsec (uo_info o) (s_abbrev s ++ ab) (s_fixups s ++ uo_fixups o) in
        let* (r', s') := table_units dbg be lstr str (S i) r s1 in Ok (t' :: r', s')
  end.

(* UnitTable::write_debug_info_fixups on .debug_info *)
Fixpoint table_fixups (dbg be : bool) (units : list tunit) (fx : list fixup) (info : list byte) : res (list byte) :=
  match fx with
  | [] => Ok info
  | f :: r =>
      let* t := unwrap (nth_error units (fx_unit f)) in
      let* o := debug_info_offset dbg (fx_unit f) (tu_entries t) (fx_entry f) in
      let* v := of_option WInvalidReference o in
      let* info' := write_udata_at be info (fx_offset f) v (fx_size f) in
      table_fixups dbg be units r info'
  end.

(* UnitTable::write *)
Definition table_write (dbg be : bool) (lstr str : list N) (units : list tunit) (s : wsec)
  : res (list tunit * wsec) :=
  let* (units', s1) := table_units dbg be lstr str 0 units s in
  let* info := table_fixups dbg be units' (s_fixups s1) (s_info s1) in
  Ok (units', mkWsec info (s_abbrev s1) []).

(* ------------------------------------------------------------------ StringTable / LineStringTable *)

Record strtab := mkStrtab { st_strings : list (list byte); st_offsets : list N; st_len : N }.
Definition strtab_empty : strtab := mkStrtab [] [] 0.

Fixpoint str_find (l : list (list byte)) (s : list byte) : option nat :=
  match l with
  | [] => None
  | x :: r => if bytes_eqb x s then Some O
              else match str_find r s with Some i => Some (S i) | None => None end
  end.

Definition has_nul (s : list byte) : bool := existsb (fun b => b2n b =? 0) s.

(* $name::add *)
Definition strtab_add (dbg : bool) (t : strtab) (s : list byte) : res (nat * strtab) :=
  if has_nul s then Panic      (* assert!(!bytes.contains(&0)) *)
  else match str_find (st_strings t) s with
       | Some i => Ok (i, t)
       | None =>
           let* l1 := chk_add 64 dbg (blen s) 1 in
           let* len' := chk_add 64 dbg (st_len t) l1 in
           Ok (length (st_strings t),
               mkStrtab (st_strings t ++ [s]) (st_offsets t ++ [st_len t]) len')
       end.

(* $name::offset *)
Definition strtab_offset (t : strtab) (i : nat) : res N := idx_get (st_offsets t) i.

(* $name::write *)
Definition strtab_write (t : strtab) : list byte :=
  flat_map (fun s => s ++ [x00]) (st_strings t).
