(* Model/LineRd.v — mirrors /repo/src/read/line.rs function by function:
     LineProgramHeader::parse, FileEntryFormat::parse, parse_directory_v5, parse_file_v5, parse_attribute,
     FileEntry::parse, LineInstruction::parse, LineInstructions::{next_instruction, remove_trailing},
     LineRow::{new, execute, reset, apply_line_advance, apply_operation_advance, adjust_opcode,
     exec_special_opcode}, LineRows::{new, resume, next_row}, IncompleteLineProgram::{rows, sequences},
     CompleteLineProgram::resume_from; ReaderAddress::{add_sized, min_tombstone} on raw (unvalidated)
     address sizes.
   The reader is an EndianSlice; `be` is its byte order; Offset = usize = u64.
   Correspondence streams: c04.hdr c04.insn c04.op1 c04.prog c04.any c04.cont c04.seq.   NO proofs here. *)
From Coq Require Import List NArith ZArith Bool.
From Coq.Strings Require Import Byte.
Require Import GV.Base.Res GV.Base.Byt GV.Base.Ints GV.Model.Leb GV.Model.Prim GV.Spec.LineSpec.
Import ListNotations.
Local Open Scope N_scope.

(* ------------------------------------------------------------------ reader helpers *)

(* Reader::split(len) / read_slice: Err without consuming when len > remaining. len is a u64, so it is
   compared before being turned into a count. *)
Definition split_n (n : N) (bs : list byte) : res (list byte * list byte) :=
  if N.of_nat (length bs) <? n then Err EUnexpectedEof
  else Ok (firstn (N.to_nat n) bs, skipn (N.to_nat n) bs).

(* Reader::skip(len) *)
Definition skip_n (n : N) (bs : list byte) : res (list byte) :=
  if N.of_nat (length bs) <? n then Err EUnexpectedEof else Ok (skipn (N.to_nat n) bs).

(* Reader::truncate(len) *)
Definition truncate_n (n : N) (bs : list byte) : res (list byte) :=
  if N.of_nat (length bs) <? n then Err EUnexpectedEof else Ok (firstn (N.to_nat n) bs).

(* ReaderAddress::add_sized on u64 with an arbitrary size byte:
   checked_add first, then `ones_sized(size)` (which can itself overflow, see Ints.ones_sized),
   then `address & !mask != 0` — for the all-ones-shifted masks this is `mask < address`. *)
Definition add_sized_g (dbg : bool) (a len size : N) : res N :=
  let s := a + len in
  if two64 <=? s then Err EAddressOverflow
  else
    let* mask := ones_sized dbg size in
    if mask <? s then Err EAddressOverflow else Ok s.

(* ReaderAddress::min_tombstone: 0.wrapping_add_sized(-2i64 as u64, size) *)
Definition min_tombstone_g (dbg : bool) (size : N) : res N :=
  let* mask := ones_sized dbg size in
  Ok (N.land (two64 - 2) mask).

(* ------------------------------------------------------------------ header *)

(* parse_attribute (line.rs, the private copy for entry formats) *)
Definition parse_attribute (dbg be fmt64 : bool) (form : N) (inp : list byte) : res (form_val * list byte) :=
  if form =? FORM_block1 then
    let* (len, r) := read_u8 inp in let* (b, r) := split_n len r in Ok (VBlock b, r)
  else if form =? FORM_block2 then
    let* (len, r) := read_u16 be inp in let* (b, r) := split_n len r in Ok (VBlock b, r)
  else if form =? FORM_block4 then
    let* (len, r) := read_u32 be inp in let* (b, r) := split_n len r in Ok (VBlock b, r)
  else if form =? FORM_block then
    let* (len, r) := read_uleb128 dbg inp in let* (b, r) := split_n len r in Ok (VBlock b, r)
  else if form =? FORM_data1 then let* (v, r) := read_u8 inp in Ok (VData1 v, r)
  else if form =? FORM_data2 then let* (v, r) := read_u16 be inp in Ok (VData2 v, r)
  else if form =? FORM_data4 then let* (v, r) := read_u32 be inp in Ok (VData4 v, r)
  else if form =? FORM_data8 then let* (v, r) := read_u64 be inp in Ok (VData8 v, r)
  else if form =? FORM_data16 then let* (b, r) := split_n 16 inp in Ok (VBlock b, r)
  else if form =? FORM_udata then let* (v, r) := read_uleb128 dbg inp in Ok (VUdata v, r)
  else if form =? FORM_sdata then let* (v, r) := read_sleb128 dbg inp in Ok (VSdata v, r)
  else if form =? FORM_flag then let* (v, r) := read_u8 inp in Ok (VFlag (negb (v =? 0)), r)
  else if form =? FORM_sec_offset then let* (v, r) := read_word fmt64 be inp in Ok (VSecOffset v, r)
  else if form =? FORM_string then let* (s, r) := read_cstr inp in Ok (VString s, r)
  else if form =? FORM_strp then let* (v, r) := read_word fmt64 be inp in Ok (VStrRef v, r)
  else if (form =? FORM_strp_sup) || (form =? FORM_GNU_strp_alt) then
    let* (v, r) := read_word fmt64 be inp in Ok (VStrRefSup v, r)
  else if form =? FORM_line_strp then let* (v, r) := read_word fmt64 be inp in Ok (VLineStrRef v, r)
  else if (form =? FORM_strx) || (form =? FORM_GNU_str_index) then
    let* (v, r) := read_uleb128 dbg inp in Ok (VStrOffsetsIndex v, r)
  else if form =? FORM_strx1 then let* (v, r) := read_u8 inp in Ok (VStrOffsetsIndex v, r)
  else if form =? FORM_strx2 then let* (v, r) := read_u16 be inp in Ok (VStrOffsetsIndex v, r)
  else if form =? FORM_strx3 then let* (v, r) := read_uint 3 be inp in Ok (VStrOffsetsIndex v, r)
  else if form =? FORM_strx4 then let* (v, r) := read_u32 be inp in Ok (VStrOffsetsIndex v, r)
  else Err EUnknownForm.

(* AttributeValue::udata_value *)
Definition udata_value (v : form_val) : option N :=
  match v with
  | VData1 n | VData2 n | VData4 n | VData8 n | VUdata n => Some n
  | VSdata z => if (z <? 0)%Z then None else Some (Z.to_N z)
  | _ => None
  end.

(* FileEntryFormat::parse — the `for _ in 0..format_count` loop *)
Fixpoint parse_formats_loop (dbg : bool) (count : nat) (path_count : N) (inp : list byte)
  : res (list entry_format * N * list byte) :=
  match count with
  | O => Ok ([], path_count, inp)
  | S k =>
      let* (ct, r) := read_uleb128 dbg inp in
      let ct := if 65535 <? ct then 65535 else ct in
      let path_count := if ct =? LNCT_path then path_count + 1 else path_count in
      let* (form, r) := read_uleb128_u16 r in
      let* (fs, pc, r) := parse_formats_loop dbg k path_count r in
      Ok (mk_ef ct form :: fs, pc, r)
  end.

Definition parse_formats (dbg : bool) (inp : list byte) : res (list entry_format * list byte) :=
  let* (count, r) := read_u8 inp in
  let* (fs, pc, r) := parse_formats_loop dbg (N.to_nat count) 0 r in
  if pc =? 1 then Ok (fs, r) else Err EMissingFileEntryFormatPath.

(* parse_directory_v5 *)
Fixpoint parse_directory_loop (dbg be fmt64 : bool) (fmts : list entry_format) (path : option form_val)
  (inp : list byte) : res (option form_val * list byte) :=
  match fmts with
  | [] => Ok (path, inp)
  | f :: ft =>
      let* (v, r) := parse_attribute dbg be fmt64 (ef_form f) inp in
      parse_directory_loop dbg be fmt64 ft (if ef_ct f =? LNCT_path then Some v else path) r
  end.
Definition parse_directory_v5 (dbg be fmt64 : bool) (fmts : list entry_format) (inp : list byte)
  : res (form_val * list byte) :=
  let* (p, r) := parse_directory_loop dbg be fmt64 fmts None inp in
  let* p := unwrap p in Ok (p, r).

(* parse_file_v5: the `match format.content_type` body; md5 read_u8_array on a 16-byte block cannot fail *)
Definition file_field (ct : N) (v : form_val) (f : file_entry) (p : option form_val) : file_entry * option form_val :=
  if ct =? LNCT_path then (f, Some v)
  else if ct =? LNCT_directory_index then
    (match udata_value v with Some n => mk_file (fe_path f) n (fe_time f) (fe_size f) (fe_md5 f) (fe_source f) | None => f end, p)
  else if ct =? LNCT_timestamp then
    (match udata_value v with Some n => mk_file (fe_path f) (fe_dir f) n (fe_size f) (fe_md5 f) (fe_source f) | None => f end, p)
  else if ct =? LNCT_size then
    (match udata_value v with Some n => mk_file (fe_path f) (fe_dir f) (fe_time f) n (fe_md5 f) (fe_source f) | None => f end, p)
  else if ct =? LNCT_MD5 then
    (match v with
     | VBlock bs => if N.of_nat (length bs) =? 16
                    then mk_file (fe_path f) (fe_dir f) (fe_time f) (fe_size f) bs (fe_source f) else f
     | _ => f end, p)
  else if ct =? LNCT_LLVM_source then
    (mk_file (fe_path f) (fe_dir f) (fe_time f) (fe_size f) (fe_md5 f) (Some v), p)
  else (f, p).

Fixpoint parse_file_loop (dbg be fmt64 : bool) (fmts : list entry_format) (f : file_entry) (path : option form_val)
  (inp : list byte) : res (file_entry * option form_val * list byte) :=
  match fmts with
  | [] => Ok (f, path, inp)
  | fm :: ft =>
      let* (v, r) := parse_attribute dbg be fmt64 (ef_form fm) inp in
      let '(f', p') := file_field (ef_ct fm) v f path in
      parse_file_loop dbg be fmt64 ft f' p' r
  end.
Definition parse_file_v5 (dbg be fmt64 : bool) (fmts : list entry_format) (inp : list byte)
  : res (file_entry * list byte) :=
  let* (f, p, r) := parse_file_loop dbg be fmt64 fmts file0 None inp in
  let* p := unwrap p in
  Ok (mk_file p (fe_dir f) (fe_time f) (fe_size f) (fe_md5 f) (fe_source f), r).

(* `for _ in 0..count` over a u64 count: every iteration consumes input or fails, so the remaining
   length bounds the number of successful iterations (fuel = S (length inp)). *)
Fixpoint count_loop {A} (fuel : nat) (count : N) (one : list byte -> res (A * list byte)) (inp : list byte)
  : res (list A * list byte) :=
  if count =? 0 then Ok ([], inp) else
  match fuel with
  | O => OutOfFuel
  | S f =>
      let* (a, r) := one inp in
      let* (tl, r) := count_loop f (count - 1) one r in
      Ok (a :: tl, r)
  end.

(* FileEntry::parse (versions 2-4) *)
Definition file_entry_parse (dbg : bool) (inp : list byte) (path : list byte) : res (file_entry * list byte) :=
  let* (d, r) := read_uleb128 dbg inp in
  let* (t, r) := read_uleb128 dbg r in
  let* (s, r) := read_uleb128 dbg r in
  Ok (mk_file (VString path) d t s (repeat x00 16) None, r).

(* the `loop { read_null_terminated_slice; if empty break; push }` of versions 2-4 *)
Fixpoint dirs_v4_loop (fuel : nat) (inp : list byte) : res (list form_val * list byte) :=
  match fuel with
  | O => OutOfFuel
  | S f =>
      let* (d, r) := read_cstr inp in
      match d with
      | [] => Ok ([], r)
      | _ => let* (tl, r) := dirs_v4_loop f r in Ok (VString d :: tl, r)
      end
  end.
Fixpoint files_v4_loop (fuel : nat) (dbg : bool) (inp : list byte) : res (list file_entry * list byte) :=
  match fuel with
  | O => OutOfFuel
  | S f =>
      let* (p, r) := read_cstr inp in
      match p with
      | [] => Ok ([], r)
      | _ => let* (fe, r) := file_entry_parse dbg r p in
             let* (tl, r) := files_v4_loop f dbg r in Ok (fe :: tl, r)
      end
  end.

(* LineProgramHeader::parse; `asz0` is the caller's address_size argument, comp_dir/comp_name = None *)
Definition parse_header (dbg be : bool) (asz0 : N) (inp : list byte) : res header :=
  let* ((unit_length, fmt64), r) := read_initial_length be inp in
  let* (rest, _) := split_n unit_length r in
  let* (version, rest) := read_u16 be rest in
  if (version <? 2) || (5 <? version) then Err EUnknownVersion else
  let* (asz, rest) :=
    (if 5 <=? version then
       let* (a, rest) := read_address_size rest in
       let* (seg, rest) := read_u8 rest in
       if negb (seg =? 0) then Err EUnsupportedSegmentSize else Ok (a, rest)
     else Ok (asz0, rest)) in
  let* (header_length, rest) := read_word fmt64 be rest in
  let* program_buf := skip_n header_length rest in
  let* rest := truncate_n header_length rest in
  let* (mil, rest) := read_u8 rest in
  if mil =? 0 then Err EMinimumInstructionLengthZero else
  let* (mops, rest) := (if 4 <=? version then read_u8 rest else Ok (1, rest)) in
  if mops =? 0 then Err EMaximumOperationsPerInstructionZero else
  let* (dis, rest) := read_u8 rest in
  let* (lb, rest) := read_in 1 be rest in
  let* (lr, rest) := read_u8 rest in
  if lr =? 0 then Err ELineRangeZero else
  let* (ob, rest) := read_u8 rest in
  if ob =? 0 then Err EOpcodeBaseZero else
  let* (std, rest) := split_n (ob - 1) rest in
  let* (dfmt, dirs, rest) :=
    (if version <=? 4 then
       let* (ds, rest) := dirs_v4_loop (S (length rest)) rest in Ok ([], ds, rest)
     else
       let* (fm, rest) := parse_formats dbg rest in
       let* (count, rest) := read_uleb128 dbg rest in
       let* (ds, rest) := count_loop (S (length rest)) count (parse_directory_v5 dbg be fmt64 fm) rest in
       Ok (fm, ds, rest)) in
  let* (ffmt, files, rest) :=
    (if version <=? 4 then
       let* (fs, rest) := files_v4_loop (S (length rest)) dbg rest in Ok ([], fs, rest)
     else
       let* (fm, rest) := parse_formats dbg rest in
       let* (count, rest) := read_uleb128 dbg rest in
       let* (fs, rest) := count_loop (S (length rest)) count (parse_file_v5 dbg be fmt64 fm) rest in
       Ok (fm, fs, rest)) in
  Ok (mk_header fmt64 version asz unit_length header_length mil mops (negb (dis =? 0)) lb lr ob std
                dfmt dirs ffmt files program_buf).

(* ------------------------------------------------------------------ instructions *)

(* `for _ in 0..num_args { input.read_uleb128()?; }` *)
Fixpoint skip_ulebs (dbg : bool) (k : nat) (inp : list byte) : res (list byte) :=
  match k with
  | O => Ok inp
  | S k' => let* (_, r) := read_uleb128 dbg inp in skip_ulebs dbg k' r
  end.

(* LineInstruction::parse *)
Definition parse_insn (dbg be : bool) (h : header) (inp : list byte) : res (insn * list byte) :=
  match inp with
  | [] => Err EUnexpectedEof
  | b :: input =>
      let opcode := b2n b in
      if opcode =? 0 then
        let* (len, input) := read_uleb128 dbg input in
        let* (instr_rest, input) := split_n len input in
        let* (op, instr_rest) := read_u8 instr_rest in
        if op =? 1 then Ok (IEndSequence, input)
        else if op =? 2 then
          let* (a, _) := read_address (h_addr_size h) be instr_rest in Ok (ISetAddress a, input)
        else if op =? 3 then
          if h_version h <=? 4 then
            let* (path, r) := read_cstr instr_rest in
            let* (fe, _) := file_entry_parse dbg r path in
            Ok (IDefineFile fe, input)
          else Ok (IUnkExt 3 instr_rest, input)
        else if op =? 4 then
          let* (d, _) := read_uleb128 dbg instr_rest in Ok (ISetDiscriminator d, input)
        else Ok (IUnkExt op instr_rest, input)
      else if h_opcode_base h <=? opcode then Ok (ISpecial opcode, input)
      else if opcode =? 1 then Ok (ICopy, input)
      else if opcode =? 2 then let* (v, input) := read_uleb128 dbg input in Ok (IAdvancePc v, input)
      else if opcode =? 3 then let* (v, input) := read_sleb128 dbg input in Ok (IAdvanceLine v, input)
      else if opcode =? 4 then let* (v, input) := read_uleb128 dbg input in Ok (ISetFile v, input)
      else if opcode =? 5 then let* (v, input) := read_uleb128 dbg input in Ok (ISetColumn v, input)
      else if opcode =? 6 then Ok (INegateStmt, input)
      else if opcode =? 7 then Ok (ISetBasicBlock, input)
      else if opcode =? 8 then Ok (IConstAddPc, input)
      else if opcode =? 9 then let* (v, input) := read_u16 be input in Ok (IFixedAddPc v, input)
      else if opcode =? 10 then Ok (ISetPrologueEnd, input)
      else if opcode =? 11 then Ok (ISetEpilogueBegin, input)
      else if opcode =? 12 then let* (v, input) := read_uleb128 dbg input in Ok (ISetIsa v, input)
      else
        (* unknown standard opcode: operand count from standard_opcode_lengths[opcode - 1] *)
        let* ol := skip_n (opcode - 1) (h_std_lengths h) in
        let* (num_args, _) := read_u8 ol in
        if num_args =? 0 then Ok (IUnkStd0 opcode, input)
        else if num_args =? 1 then
          let* (a, input) := read_uleb128 dbg input in Ok (IUnkStd1 opcode a, input)
        else
          let* input' := skip_ulebs dbg (N.to_nat num_args) input in
          Ok (IUnkStdN opcode (firstn (length input - length input') input), input')
  end.

(* ------------------------------------------------------------------ the row / execute *)

Record row : Type := mk_row {
  r_tomb : bool; r_addr : N; r_opi : N; r_file : N; r_line : N; r_col : N;
  r_stmt : bool; r_bb : bool; r_end : bool; r_pe : bool; r_eb : bool; r_isa : N; r_disc : N }.

(* LineRow::new *)
Definition row_new (h : header) : row :=
  mk_row false 0 0 1 1 0 (h_default_is_stmt h) false false false false 0 0.

(* LineRow::reset *)
Definition row_reset (h : header) (r : row) : row :=
  if r_end r then row_new h
  else mk_row (r_tomb r) (r_addr r) (r_opi r) (r_file r) (r_line r) (r_col r) (r_stmt r)
              false (r_end r) false false (r_isa r) 0.

Definition set_line (r : row) (v : N) : row :=
  mk_row (r_tomb r) (r_addr r) (r_opi r) (r_file r) v (r_col r) (r_stmt r) (r_bb r) (r_end r) (r_pe r)
         (r_eb r) (r_isa r) (r_disc r).
Definition set_opi (r : row) (v : N) : row :=
  mk_row (r_tomb r) (r_addr r) v (r_file r) (r_line r) (r_col r) (r_stmt r) (r_bb r) (r_end r) (r_pe r)
         (r_eb r) (r_isa r) (r_disc r).
Definition set_addr (r : row) (v : N) : row :=
  mk_row (r_tomb r) v (r_opi r) (r_file r) (r_line r) (r_col r) (r_stmt r) (r_bb r) (r_end r) (r_pe r)
         (r_eb r) (r_isa r) (r_disc r).
Definition set_tomb (r : row) (v : bool) : row :=
  mk_row v (r_addr r) (r_opi r) (r_file r) (r_line r) (r_col r) (r_stmt r) (r_bb r) (r_end r) (r_pe r)
         (r_eb r) (r_isa r) (r_disc r).

(* LineRow::apply_line_advance — `unsigned_abs`, saturating at 0 downwards, Wrapping upwards *)
Definition apply_line_advance (r : row) (inc : Z) : row :=
  if (inc <? 0)%Z then
    let dec := Z.abs_N inc in
    if dec <=? r_line r then set_line r (r_line r - dec) else set_line r 0
  else set_line r (wrap64 (r_line r + Z.to_N inc)).

(* outcome of execute: a row is due, no row, or an error after a partial update *)
Inductive xout : Type := XRow | XNoRow | XErr (e : error).

(* LineRow::apply_operation_advance. All arithmetic is Wrapping<u64>; `%` and `/` by a zero
   maximum_operations_per_instruction panic in every build. On AddressOverflow the op_index update
   has already happened. *)
Definition apply_operation_advance (dbg : bool) (h : header) (r : row) (adv : N) : res (row * option error) :=
  if r_tomb r then Ok (r, None) else
  let mil := h_min_inst_len h in
  let mops := h_max_ops h in
  let* (r1, address_advance) :=
    (if mops =? 1 then Ok (set_opi r 0, wrap64 (mil * adv))
     else
       let t := wrap64 (r_opi r + adv) in
       if mops =? 0 then Panic
       else Ok (set_opi r (t mod mops), wrap64 (mil * (t / mops)))) in
  match add_sized_g dbg (r_addr r1) address_advance (h_addr_size h) with
  | Ok a => Ok (set_addr r1 a, None)
  | Err e => Ok (r1, Some e)
  | Panic => Panic
  | OutOfFuel => OutOfFuel
  end.

(* LineRow::adjust_opcode — `opcode - header.opcode_base` on u8 *)
Definition adjust_opcode (dbg : bool) (h : header) (opcode : N) : res N :=
  chk_sub 8 dbg opcode (h_opcode_base h).

Definition adv_result (x : res (row * option error)) (k : xout) : res (row * xout) :=
  let* (r, e) := x in
  match e with Some e => Ok (r, XErr e) | None => Ok (r, k) end.

(* LineRow::execute (DefineFile's effect on the file table is applied by next_row's caller state) *)
Definition execute (dbg : bool) (h : header) (r : row) (i : insn) : res (row * xout) :=
  match i with
  | ISpecial opcode =>
      (* exec_special_opcode *)
      let* adjusted := adjust_opcode dbg h opcode in
      let lr := h_line_range h in
      if lr =? 0 then Panic else
      let line_advance := adjusted mod lr in
      let operation_advance := adjusted / lr in
      let r1 := apply_line_advance r (h_line_base h + Z.of_N line_advance)%Z in
      adv_result (apply_operation_advance dbg h r1 operation_advance) XRow
  | ICopy => Ok (r, XRow)
  | IAdvancePc n => adv_result (apply_operation_advance dbg h r n) XNoRow
  | IAdvanceLine z => Ok (apply_line_advance r z, XNoRow)
  | ISetFile n =>
      Ok (mk_row (r_tomb r) (r_addr r) (r_opi r) n (r_line r) (r_col r) (r_stmt r) (r_bb r) (r_end r)
                 (r_pe r) (r_eb r) (r_isa r) (r_disc r), XNoRow)
  | ISetColumn n =>
      Ok (mk_row (r_tomb r) (r_addr r) (r_opi r) (r_file r) (r_line r) n (r_stmt r) (r_bb r) (r_end r)
                 (r_pe r) (r_eb r) (r_isa r) (r_disc r), XNoRow)
  | INegateStmt =>
      Ok (mk_row (r_tomb r) (r_addr r) (r_opi r) (r_file r) (r_line r) (r_col r) (negb (r_stmt r)) (r_bb r)
                 (r_end r) (r_pe r) (r_eb r) (r_isa r) (r_disc r), XNoRow)
  | ISetBasicBlock =>
      Ok (mk_row (r_tomb r) (r_addr r) (r_opi r) (r_file r) (r_line r) (r_col r) (r_stmt r) true (r_end r)
                 (r_pe r) (r_eb r) (r_isa r) (r_disc r), XNoRow)
  | IConstAddPc =>
      let* adjusted := adjust_opcode dbg h 255 in
      let lr := h_line_range h in
      if lr =? 0 then Panic else
      adv_result (apply_operation_advance dbg h r (adjusted / lr)) XNoRow
  | IFixedAddPc operand =>
      if r_tomb r then Ok (r, XNoRow) else
      match add_sized_g dbg (r_addr r) operand (h_addr_size h) with
      | Ok a => Ok (set_opi (set_addr r a) 0, XNoRow)
      | Err e => Ok (r, XErr e)
      | Panic => Panic
      | OutOfFuel => OutOfFuel
      end
  | ISetPrologueEnd =>
      Ok (mk_row (r_tomb r) (r_addr r) (r_opi r) (r_file r) (r_line r) (r_col r) (r_stmt r) (r_bb r) (r_end r)
                 true (r_eb r) (r_isa r) (r_disc r), XNoRow)
  | ISetEpilogueBegin =>
      Ok (mk_row (r_tomb r) (r_addr r) (r_opi r) (r_file r) (r_line r) (r_col r) (r_stmt r) (r_bb r) (r_end r)
                 (r_pe r) true (r_isa r) (r_disc r), XNoRow)
  | ISetIsa n =>
      Ok (mk_row (r_tomb r) (r_addr r) (r_opi r) (r_file r) (r_line r) (r_col r) (r_stmt r) (r_bb r) (r_end r)
                 (r_pe r) (r_eb r) n (r_disc r), XNoRow)
  | IEndSequence =>
      Ok (mk_row (r_tomb r) (r_addr r) (r_opi r) (r_file r) (r_line r) (r_col r) (r_stmt r) (r_bb r) true
                 (r_pe r) (r_eb r) (r_isa r) (r_disc r), XRow)
  | ISetAddress address =>
      (* `address < self.address || address >= min_tombstone(size)` — short-circuit *)
      let* tomb := (if address <? r_addr r then Ok true
                    else let* mt := min_tombstone_g dbg (h_addr_size h) in Ok (mt <=? address)) in
      if tomb then Ok (set_tomb r true, XNoRow)
      else Ok (set_opi (set_addr (set_tomb r false) address) 0, XNoRow)
  | ISetDiscriminator n =>
      Ok (mk_row (r_tomb r) (r_addr r) (r_opi r) (r_file r) (r_line r) (r_col r) (r_stmt r) (r_bb r) (r_end r)
                 (r_pe r) (r_eb r) (r_isa r) n, XNoRow)
  | IDefineFile _ | IUnkStd0 _ | IUnkStd1 _ _ | IUnkStdN _ _ | IUnkExt _ _ => Ok (r, XNoRow)
  end.

(* ------------------------------------------------------------------ LineRows *)

(* LineRows { program (only the files added so far matter), row, instructions, in_sequence } *)
Record lr_state : Type := mk_st { st_row : row; st_inp : list byte; st_added : list file_entry; st_inseq : bool }.

(* what one call of next_row returned *)
Inductive nr_out : Type := NRow | NNone | NErr (e : error) | NPanic | NFuel.

Definition add_file (resumed : bool) (i : insn) (added : list file_entry) : list file_entry :=
  match i with
  | IDefineFile f => if resumed then added else added ++ [f]   (* CompleteLineProgram::add_file is a nop *)
  | _ => added
  end.

(* the `loop` of LineRows::next_row. `inseq` is self.in_sequence ("a row has been returned for the
   current sequence"); it only changes when a row is returned. A tombstone row is skipped unless it is
   the end_sequence row of a sequence that already returned rows. *)
Fixpoint next_row_loop (fuel : nat) (dbg be resumed : bool) (h : header) (r : row) (inp : list byte)
  (added : list file_entry) (inseq : bool) : nr_out * lr_state :=
  match fuel with
  | O => (NFuel, mk_st r inp added inseq)
  | S f =>
      (* LineInstructions::next_instruction *)
      match inp with
      | [] => (NNone, mk_st r [] added inseq)
      | _ =>
          match parse_insn dbg be h inp with
          | Err e => (NErr e, mk_st r [] added inseq)          (* self.input.empty() *)
          | Panic => (NPanic, mk_st r inp added inseq)
          | OutOfFuel => (NFuel, mk_st r inp added inseq)
          | Ok (i, rest) =>
              match execute dbg h r i with
              | Panic => (NPanic, mk_st r rest added inseq)
              | OutOfFuel => (NFuel, mk_st r rest added inseq)
              | Err e => (NErr e, mk_st r rest added inseq)    (* not produced by execute *)
              | Ok (r', XErr e) => (NErr e, mk_st r' rest (add_file resumed i added) inseq)
              | Ok (r', XNoRow) => next_row_loop f dbg be resumed h r' rest (add_file resumed i added) inseq
              | Ok (r', XRow) =>
                  if r_tomb r' && negb (r_end r' && inseq) then
                    next_row_loop f dbg be resumed h (row_reset h r') rest added inseq
                  else (NRow, mk_st r' rest added (negb (r_end r')))
              end
          end
      end
  end.

(* LineRows::next_row *)
Definition next_row (dbg be resumed : bool) (h : header) (st : lr_state) : nr_out * lr_state :=
  next_row_loop (S (length (st_inp st))) dbg be resumed h (row_reset h (st_row st)) (st_inp st) (st_added st)
                (st_inseq st).

(* how a run over all rows ended *)
Inductive status : Type := SEnd | SErr (e : error) | SPanic | SFuel.

(* `while let Some(row) = rows.next_row()? { .. }`: the rows and how the iteration ended *)
Fixpoint rows_loop (fuel : nat) (dbg be resumed : bool) (h : header) (st : lr_state)
  : list row * status * lr_state :=
  match fuel with
  | O => ([], SFuel, st)
  | S f =>
      match next_row dbg be resumed h st with
      | (NRow, st') =>
          let '(rs, s, stf) := rows_loop f dbg be resumed h st' in (st_row st' :: rs, s, stf)
      | (NNone, st') => ([], SEnd, st')
      | (NErr e, st') => ([], SErr e, st')
      | (NPanic, st') => ([], SPanic, st')
      | (NFuel, st') => ([], SFuel, st')
      end
  end.

(* LineRows::new *)
Definition st_init (h : header) (inp : list byte) : lr_state := mk_st (row_new h) inp [] false.

(* LineRows::new + iteration: IncompleteLineProgram::rows; the final state carries the completed file table *)
Definition rows_full (dbg be : bool) (h : header) : list row * status * lr_state :=
  rows_loop (S (length (h_program h))) dbg be false h (st_init h (h_program h)).

Definition rows_model (dbg be : bool) (h : header) : list row * status :=
  let '(rs, s, _) := rows_full dbg be h in (rs, s).

(* a caller that keeps calling next_row after an Err (until Ok(None)) *)
Inductive ev : Type := EvRow (r : row) | EvErr (e : error).
Fixpoint cont_loop (fuel : nat) (dbg be : bool) (h : header) (st : lr_state) : list ev * status :=
  match fuel with
  | O => ([], SFuel)
  | S f =>
      match next_row dbg be false h st with
      | (NRow, st') => let '(es, s) := cont_loop f dbg be h st' in (EvRow (st_row st') :: es, s)
      | (NErr e, st') => let '(es, s) := cont_loop f dbg be h st' in (EvErr e :: es, s)
      | (NNone, _) => ([], SEnd)
      | (NPanic, _) => ([], SPanic)
      | (NFuel, _) => ([], SFuel)
      end
  end.
Definition rows_cont (dbg be : bool) (h : header) : list ev * status :=
  cont_loop (S (S (length (h_program h)))) dbg be h (st_init h (h_program h)).

(* ------------------------------------------------------------------ sequences / resume_from *)

Record line_seq : Type := mk_seq { sq_start : N; sq_end : N; sq_insns : list byte }.

(* LineInstructions::remove_trailing: the first (len self - len other) bytes of self *)
Definition remove_trailing (self other : list byte) : list byte :=
  firstn (length self - length other) self.

(* the `loop` of IncompleteLineProgram::sequences *)
Fixpoint seq_loop (fuel : nat) (dbg be : bool) (h : header) (st : lr_state) (instructions : list byte)
  (start : option N) : res (list file_entry * list line_seq) :=
  match fuel with
  | O => OutOfFuel
  | S f =>
      match next_row dbg be false h st with
      | (NNone, st') => Ok (st_added st', [])
      | (NErr e, _) => Err e
      | (NPanic, _) => Panic
      | (NFuel, _) => OutOfFuel
      | (NRow, st') =>
          let r := st_row st' in
          if r_end r then
            let s := mk_seq (match start with Some a => a | None => 0 end) (r_addr r)
                            (remove_trailing instructions (st_inp st')) in
            let* (fs, ss) := seq_loop f dbg be h st' (st_inp st') None in
            Ok (fs, s :: ss)
          else
            seq_loop f dbg be h st' instructions (match start with None => Some (r_addr r) | Some a => Some a end)
      end
  end.

(* IncompleteLineProgram::sequences: files added by DW_LNE_define_file, and the sequences *)
Definition sequences (dbg be : bool) (h : header) : res (list file_entry * list line_seq) :=
  seq_loop (S (length (h_program h))) dbg be h (st_init h (h_program h)) (h_program h) None.

(* CompleteLineProgram::resume_from (LineRows::resume: in_sequence = false) + iteration *)
Definition resume_rows (dbg be : bool) (h : header) (s : line_seq) : list row * status :=
  let '(rs, st, _) := rows_loop (S (length (sq_insns s))) dbg be true h (st_init h (sq_insns s)) in
  (rs, st).

(* the instruction dump of header.instructions(): all instructions up to the end or the first error *)
Fixpoint insns_loop (fuel : nat) (dbg be : bool) (h : header) (inp : list byte) : list insn * status :=
  match fuel with
  | O => ([], SFuel)
  | S f =>
      match inp with
      | [] => ([], SEnd)
      | _ =>
          match parse_insn dbg be h inp with
          | Ok (i, rest) => let '(is, s) := insns_loop f dbg be h rest in (i :: is, s)
          | Err e => ([], SErr e)
          | Panic => ([], SPanic)
          | OutOfFuel => ([], SFuel)
          end
      end
  end.
Definition insns_model (dbg be : bool) (h : header) : list insn * status :=
  insns_loop (S (length (h_program h))) dbg be h (h_program h).
