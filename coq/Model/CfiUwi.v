(* Model/CfiUwi.v — "looking an address up directly for unwind information":
     UnwindSection::unwind_info_for_address   (src/read/cfi.rs)
       = self.fde_for_address(bases, address, get_cie)?            Model/CfiRd.v  fde_for_address
         .unwind_info_for_address(self, bases, ctx, address)       Model/CfiRun.v unwind_info_for_address
     EhHdrTable::unwind_info_for_address
       = self.fde_for_address(frame, bases, address, get_cie)?     Model/CfiRd.v  hdr_fde_for_address
         .unwind_info_for_address(frame, bases, ctx, address)
   Neither half is re-modelled here: the only new definition is the adapter [fde_in_of] from the
   FDE/CIE records of the entry reader (C05) to the already-parsed CIE/FDE the table evaluator (C06)
   starts from. The adapter is exact when DW_CFA_set_loc operands are plain addresses, i.e. when
   the CIE has no 'R' augmentation or the FDE's instructions reach no DW_CFA_set_loc ([setloc_plain]);
   CfiRun decodes set_loc with `address_encoding = None` only. The encoded form is modelled
   separately below ([parse_set_loc]).
   Correspondence stream: c05.uwi (adapter + composition), c05.setloc. NO proofs in this file. *)
From Coq Require Import List NArith ZArith Bool.
From Coq.Strings Require Import Byte.
Require Import GV.Base.Res GV.Base.Byt GV.Base.Ints GV.Model.Leb GV.Model.Prim.
Require Import GV.Spec.CfaSpec GV.Model.CfiRun GV.Model.CfiRd.
Import ListNotations.
Local Open Scope N_scope.

(* what UnwindTable::new_for_fde / new_for_cie and fde.instructions() / cie.instructions() take
   from the parsed records: alignment factors, the CIE's address size, the section's byte order and
   vendor, the FDE's address range, and the two instruction windows with their section offsets *)
Definition fde_in_of (be aarch64 : bool) (f : CfiRd.fde) : CfiRun.fde_in :=
  let ci := fd_cie f in
  {| f_caf := ci_caf ci; f_daf := ci_daf ci; f_asize := ci_asz ci; f_be := be; f_aarch64 := aarch64;
     CfiRun.f_init := fd_init f; CfiRun.f_range := fd_range f;
     f_cie_off := off (ci_instr ci); f_cie := win (ci_instr ci);
     f_fde_off := off (fd_instr f); f_fde := win (fd_instr f) |}.

(* the address encoding the FDE's instruction iterator uses for DW_CFA_set_loc *)
Definition fde_addr_enc (f : CfiRd.fde) : option N :=
  match ci_aug (fd_cie f) with Some a => a_fde_enc a | None => None end.

Definition is_set_loc (x : CfaSpec.item) : bool :=
  match x with It (ISetLoc _) => true | _ => false end.

(* no DW_CFA_set_loc with an encoded operand is reached while the FDE's table is evaluated *)
Definition setloc_plain (dbg be aarch64 : bool) (f : CfiRd.fde) : bool :=
  match fde_addr_enc f with
  | None => true
  | Some _ =>
      negb (existsb is_set_loc
              (decode dbg (f_dparams (fde_in_of be aarch64 f)) (off (fd_instr f)) (win (fd_instr f))))
  end.

(* UnwindSection::unwind_info_for_address(bases, ctx, address, Section::cie_from_offset) *)
Definition unwind_info_for_address (dbg : bool) (cp : caps) (c : scfg) (aarch64 : bool)
           (sec : list byte) (cx : ctx) (a : N) : res row * ctx :=
  match fde_for_address dbg c sec a with
  | Ok fd => CfiRun.unwind_info_for_address dbg cp (fde_in_of (sc_be c) aarch64 fd) cx a
  | Err e => (Err e, cx)
  | Panic => (Panic, cx)
  | OutOfFuel => (OutOfFuel, cx)
  end.

(* EhHdrTable::unwind_info_for_address(frame, bases, ctx, address, EhFrame::cie_from_offset) *)
Definition hdr_unwind_info_for_address (dbg : bool) (cp : caps) (hb : sbases) (h : hdr) (c : scfg)
           (aarch64 : bool) (sec : list byte) (cx : ctx) (a : N) : res row * ctx :=
  match hdr_fde_for_address dbg hb h c sec a with
  | Ok fd => CfiRun.unwind_info_for_address dbg cp (fde_in_of (sc_be c) aarch64 fd) cx a
  | Err e => (Err e, cx)
  | Panic => (Panic, cx)
  | OutOfFuel => (OutOfFuel, cx)
  end.

(* the operand of DW_CFA_set_loc as CallFrameInstruction::parse reads it from an FDE's
   instructions: `parse_encoded_pointer(encoding, parameters, input)?.direct()?` when the CIE gave
   an FDE address encoding (parameters: bases.eh_frame, func_base None, the CIE's address size),
   a plain address otherwise. [r] = the reader just after the opcode byte. *)
Definition parse_set_loc (dbg : bool) (c : scfg) (f : CfiRd.fde) (r : rd) : res (N * rd) :=
  match fde_addr_enc f with
  | Some enc =>
      let* (p, r1) := parse_encoded_pointer dbg (sc_be c) enc (mkpp (sc_bases c) None (ci_asz (fd_cie f))) r in
      let* a := pointer_direct p in
      Ok (a, r1)
  | None => lift (read_address (ci_asz (fd_cie f)) (sc_be c)) r
  end.

(* the first instruction of an FDE's instruction window, when it is DW_CFA_set_loc (opcode 0x01) *)
Definition first_set_loc (dbg : bool) (c : scfg) (f : CfiRd.fde) : res (option (N * rd)) :=
  match win (fd_instr f) with
  | b :: _ =>
      if b2n b =? 1 then
        let* (_, r1) := rd_u8 (fd_instr f) in
        let* x := parse_set_loc dbg c f r1 in Ok (Some x)
      else Ok None
  | [] => Ok None
  end.
