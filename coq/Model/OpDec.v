(* Model/OpDec.v — mirrors /repo/src/read/op.rs `Operation::parse` (lines 421-833) on an
   EndianSlice reader, together with the reader helpers it calls
   (Reader::{read_u8,read_i8,..,read_address,read_offset,read_uleb128,read_sleb128,
   read_uleb128_u32,split}, Register::from_u64, ReaderOffset::from_u64 for usize = u64).
   Correspondence stream: c07.decode.  No proofs here. *)
From Coq Require Import List NArith ZArith Bool.
From Coq.Strings Require Import Byte.
Require Import GV.Base.Res GV.Base.Byt GV.Base.Ints GV.Model.Leb GV.Model.Prim.
Import ListNotations.
Local Open Scope N_scope.

(* common::Encoding + the byte order of the reader *)
Record enc : Type := mkEnc {
  e_asz : N;        (* address_size : u8 *)
  e_fmt64 : bool;   (* Format::Dwarf64 *)
  e_ver : N;        (* version : u16 *)
  e_be : bool       (* reader endianity: big *)
}.

Inductive dieref : Type :=
| UnitRef (o : N)
| DebugInfoRef (o : N).

(* read::Operation. Unsigned fields are N (u8/u16/u32/u64/usize by position), signed ones Z. *)
Inductive operation : Type :=
| ODeref (base_type size : N) (space : bool)
| ODrop
| OPick (index : N)
| OSwap | ORot | OAbs | OAnd | ODiv | OMinus | OMod | OMul | ONeg | ONot | OOr | OPlus
| OPlusConstant (value : N)
| OShl | OShr | OShra | OXor
| OBra (target : Z)
| OEq | OGe | OGt | OLe | OLt | ONe
| OSkip (target : Z)
| OUnsignedConstant (value : N)
| OSignedConstant (value : Z)
| ORegister (register : N)
| ORegisterOffset (register : N) (offset : Z) (base_type : N)
| OFrameOffset (offset : Z)
| ONop
| OPushObjectAddress
| OCall (offset : dieref)
| OVariableValue (offset : N)
| OTLS
| OCallFrameCFA
| OPiece (size_in_bits : N) (bit_offset : option N)
| OImplicitValue (data : list byte)
| OStackValue
| OImplicitPointer (value : N) (byte_offset : Z)
| OEntryValue (expression : list byte)
| OParameterRef (offset : N)
| OAddress (address : N)
| OAddressIndex (index : N)
| OConstantIndex (index : N)
| OTypedLiteral (base_type : N) (value : list byte)
| OConvert (base_type : N)
| OReinterpret (base_type : N)
| OUninitialized
| OWasmLocal (index : N)
| OWasmGlobal (index : N)
| OWasmStack (index : N).

(* Register::from_u64 (src/read/mod.rs) *)
Definition register_from_u64 (x : N) : res N :=
  if x <? two16 then Ok x else Err EUnsupportedRegister.

(* Reader::split for EndianSlice (read_slice): fails without consuming when too short.
   `len` is a usize; never converted to nat before the bound check. *)
Definition split_n (len : N) (bs : list byte) : res (list byte * list byte) :=
  if N.of_nat (length bs) <? len then Err EUnexpectedEof
  else Ok (firstn (N.to_nat len) bs, skipn (N.to_nat len) bs).

(* bytes.read_uleb128().and_then(Register::from_u64) *)
Definition read_register (dbg : bool) (bs : list byte) : res (N * list byte) :=
  let* (v, r) := read_uleb128 dbg bs in
  let* reg := register_from_u64 v in
  Ok (reg, r).

(* read_offset(format) = read_word; usize::from_u64 cannot fail on the 64-bit target *)
Definition read_offset (e : enc) (bs : list byte) : res (N * list byte) :=
  read_word (e_fmt64 e) (e_be e) bs.

Definition read_i (n : nat) (e : enc) (bs : list byte) : res (Z * list byte) :=
  read_in n (e_be e) bs.
Definition read_u (n : nat) (e : enc) (bs : list byte) : res (N * list byte) :=
  read_un n (e_be e) bs.

(* the arm of DW_OP_WASM_location *)
Definition parse_wasm (dbg : bool) (e : enc) (bs : list byte) : res (operation * list byte) :=
  let* (sub, r) := read_u8 bs in
  if sub =? 0 then let* (i, r') := read_uleb128_u32 dbg r in Ok (OWasmLocal i, r')
  else if sub =? 1 then let* (i, r') := read_uleb128_u32 dbg r in Ok (OWasmGlobal i, r')
  else if sub =? 2 then let* (i, r') := read_uleb128_u32 dbg r in Ok (OWasmStack i, r')
  else if sub =? 3 then let* (i, r') := read_u 4 e r in Ok (OWasmGlobal i, r')
  else Err EInvalidExpression.

(* Operation::parse, after `let opcode = bytes.read_u8()?` *)
Definition parse_opcode (dbg : bool) (e : enc) (opc : byte) (r : list byte) : res (operation * list byte) :=
  match opc with
  | x03 => let* (a, r') := read_address (e_asz e) (e_be e) r in Ok (OAddress a, r')
  | x06 => Ok (ODeref 0 (e_asz e) false, r)
  | x08 => let* (v, r') := read_u 1 e r in Ok (OUnsignedConstant v, r')
  | x09 => let* (v, r') := read_i 1 e r in Ok (OSignedConstant v, r')
  | x0a => let* (v, r') := read_u 2 e r in Ok (OUnsignedConstant v, r')
  | x0b => let* (v, r') := read_i 2 e r in Ok (OSignedConstant v, r')
  | x0c => let* (v, r') := read_u 4 e r in Ok (OUnsignedConstant v, r')
  | x0d => let* (v, r') := read_i 4 e r in Ok (OSignedConstant v, r')
  | x0e => let* (v, r') := read_u 8 e r in Ok (OUnsignedConstant v, r')
  | x0f => let* (v, r') := read_i 8 e r in Ok (OSignedConstant v, r')
  | x10 => let* (v, r') := read_uleb128 dbg r in Ok (OUnsignedConstant v, r')
  | x11 => let* (v, r') := read_sleb128 dbg r in Ok (OSignedConstant v, r')
  | x12 => Ok (OPick 0, r)
  | x13 => Ok (ODrop, r)
  | x14 => Ok (OPick 1, r)
  | x15 => let* (v, r') := read_u8 r in Ok (OPick v, r')
  | x16 => Ok (OSwap, r)
  | x17 => Ok (ORot, r)
  | x18 => Ok (ODeref 0 (e_asz e) true, r)
  | x19 => Ok (OAbs, r)
  | x1a => Ok (OAnd, r)
  | x1b => Ok (ODiv, r)
  | x1c => Ok (OMinus, r)
  | x1d => Ok (OMod, r)
  | x1e => Ok (OMul, r)
  | x1f => Ok (ONeg, r)
  | x20 => Ok (ONot, r)
  | x21 => Ok (OOr, r)
  | x22 => Ok (OPlus, r)
  | x23 => let* (v, r') := read_uleb128 dbg r in Ok (OPlusConstant v, r')
  | x24 => Ok (OShl, r)
  | x25 => Ok (OShr, r)
  | x26 => Ok (OShra, r)
  | x27 => Ok (OXor, r)
  | x28 => let* (t, r') := read_i 2 e r in Ok (OBra t, r')
  | x29 => Ok (OEq, r)
  | x2a => Ok (OGe, r)
  | x2b => Ok (OGt, r)
  | x2c => Ok (OLe, r)
  | x2d => Ok (OLt, r)
  | x2e => Ok (ONe, r)
  | x2f => let* (t, r') := read_i 2 e r in Ok (OSkip t, r')
  (* DW_OP_lit0 .. DW_OP_lit31: `opcode - DW_OP_lit0.0` on u8, no underflow inside the arm *)
  | x30 | x31 | x32 | x33 | x34 | x35 | x36 | x37 | x38 | x39 | x3a | x3b | x3c | x3d | x3e | x3f
  | x40 | x41 | x42 | x43 | x44 | x45 | x46 | x47 | x48 | x49 | x4a | x4b | x4c | x4d | x4e | x4f =>
      Ok (OUnsignedConstant (b2n opc - 48), r)
  | x50 | x51 | x52 | x53 | x54 | x55 | x56 | x57 | x58 | x59 | x5a | x5b | x5c | x5d | x5e | x5f
  | x60 | x61 | x62 | x63 | x64 | x65 | x66 | x67 | x68 | x69 | x6a | x6b | x6c | x6d | x6e | x6f =>
      Ok (ORegister (b2n opc - 80), r)
  | x70 | x71 | x72 | x73 | x74 | x75 | x76 | x77 | x78 | x79 | x7a | x7b | x7c | x7d | x7e | x7f
  | x80 | x81 | x82 | x83 | x84 | x85 | x86 | x87 | x88 | x89 | x8a | x8b | x8c | x8d | x8e | x8f =>
      let* (v, r') := read_sleb128 dbg r in Ok (ORegisterOffset (b2n opc - 112) v 0, r')
  | x90 => let* (reg, r') := read_register dbg r in Ok (ORegister reg, r')
  | x91 => let* (v, r') := read_sleb128 dbg r in Ok (OFrameOffset v, r')
  | x92 => let* (reg, r') := read_register dbg r in
           let* (off, r'') := read_sleb128 dbg r' in
           Ok (ORegisterOffset reg off 0, r'')
  | x93 => let* (size, r') := read_uleb128 dbg r in
           (* size.checked_mul(8).ok_or(InvalidExpression) *)
           if size * 8 <? two64 then Ok (OPiece (size * 8) None, r') else Err EInvalidExpression
  | x94 => let* (size, r') := read_u8 r in Ok (ODeref 0 size false, r')
  | x95 => let* (size, r') := read_u8 r in Ok (ODeref 0 size true, r')
  | x96 => Ok (ONop, r)
  | x97 => Ok (OPushObjectAddress, r)
  | x98 => let* (v, r') := read_u 2 e r in Ok (OCall (UnitRef v), r')
  | x99 => let* (v, r') := read_u 4 e r in Ok (OCall (UnitRef v), r')
  | x9a => let* (v, r') := read_offset e r in Ok (OCall (DebugInfoRef v), r')
  | xfd => let* (v, r') := read_offset e r in Ok (OVariableValue v, r')
  | x9b | xe0 => Ok (OTLS, r)
  | x9c => Ok (OCallFrameCFA, r)
  | x9d => let* (size, r') := read_uleb128 dbg r in
           let* (off, r'') := read_uleb128 dbg r' in
           Ok (OPiece size (Some off), r'')
  | x9e => let* (len, r') := read_uleb128 dbg r in
           let* (data, r'') := split_n len r' in
           Ok (OImplicitValue data, r'')
  | x9f => Ok (OStackValue, r)
  | xa0 | xf2 =>
      let* (v, r') := (if e_ver e =? 2 then read_address (e_asz e) (e_be e) r else read_offset e r) in
      let* (off, r'') := read_sleb128 dbg r' in
      Ok (OImplicitPointer v off, r'')
  | xa1 | xfb => let* (i, r') := read_uleb128 dbg r in Ok (OAddressIndex i, r')
  | xa2 | xfc => let* (i, r') := read_uleb128 dbg r in Ok (OConstantIndex i, r')
  | xa3 | xf3 => let* (len, r') := read_uleb128 dbg r in
                 let* (ex, r'') := split_n len r' in
                 Ok (OEntryValue ex, r'')
  | xfa => let* (v, r') := read_u 4 e r in Ok (OParameterRef v, r')
  | xa4 | xf4 => let* (bt, r') := read_uleb128 dbg r in
                 let* (len, r'') := read_u8 r' in
                 let* (v, r3) := split_n len r'' in
                 Ok (OTypedLiteral bt v, r3)
  | xa5 | xf5 => let* (reg, r') := read_register dbg r in
                 let* (bt, r'') := read_uleb128 dbg r' in
                 Ok (ORegisterOffset reg 0 bt, r'')
  | xa6 | xf6 => let* (size, r') := read_u8 r in
                 let* (bt, r'') := read_uleb128 dbg r' in
                 Ok (ODeref bt size false, r'')
  | xa7 => let* (size, r') := read_u8 r in
           let* (bt, r'') := read_uleb128 dbg r' in
           Ok (ODeref bt size true, r'')
  | xa8 | xf7 => let* (bt, r') := read_uleb128 dbg r in Ok (OConvert bt, r')
  | xa9 | xf9 => let* (bt, r') := read_uleb128 dbg r in Ok (OReinterpret bt, r')
  | xf0 => Ok (OUninitialized, r)
  | xed => parse_wasm dbg e r
  | _ => Err EInvalidExpression
  end.

Definition parse_op (dbg : bool) (e : enc) (bs : list byte) : res (operation * list byte) :=
  match bs with
  | [] => Err EUnexpectedEof
  | opc :: r => parse_opcode dbg e opc r
  end.

(* OperationIter::next: Ok(None) at the end, and `input.empty()` after an error *)
Fixpoint operations_fuel (fuel : nat) (dbg : bool) (e : enc) (bs : list byte)
  : list operation * option (res unit) :=
  match fuel with
  | O => ([], Some OutOfFuel)
  | S f =>
      match bs with
      | [] => ([], None)
      | _ =>
          match parse_op dbg e bs with
          | Ok (o, r) => let '(l, t) := operations_fuel f dbg e r in (o :: l, t)
          | Err x => ([], Some (Err x))
          | Panic => ([], Some Panic)
          | OutOfFuel => ([], Some OutOfFuel)
          end
      end
  end.
(* every successful parse consumes at least one byte: fuel = length suffices (theorem) *)
Definition operations (dbg : bool) (e : enc) (bs : list byte) := operations_fuel (S (length bs)) dbg e bs.
