(* Model/ConvertArith.v — the integer conversions of write::cfi::convert (FrameTable::from,
   CommonInformationEntry::from, CallFrameInstruction::from) after the `fix:` commit that replaced `as`
   casts by checked conversions. Stream: c12.arith (todo) / observed through c12.cfi. *)
From Coq Require Import NArith ZArith Bool.
Require Import GV.Base.Res GV.Base.Ints.
Local Open Scope Z_scope.

(* i32::try_from(offset: u64) *)
Definition convert_offset (o : N) : res Z :=
  if in_signed 32 (Z.of_N o) then Ok (Z.of_N o) else Err CUnsupportedCfiInstruction.

(* factored_offset.checked_mul(data_alignment_factor) then i32::try_from *)
Definition convert_factored_offset (f daf : Z) : res Z :=
  let p := f * daf in
  if in_signed 64 p then (if in_signed 32 p then Ok p else Err CUnsupportedCfiInstruction)
  else Err CUnsupportedCfiInstruction.

(* i64::try_from(factored_offset: u64) then the above *)
Definition convert_unsigned_factored_offset (f : N) (daf : Z) : res Z :=
  if in_signed 64 (Z.of_N f) then convert_factored_offset (Z.of_N f) daf
  else Err CUnsupportedCfiInstruction.

(* u8::try_from(code_alignment_factor), i8::try_from(data_alignment_factor) *)
Definition convert_factors (caf : N) (daf : Z) : res (N * Z) :=
  if (caf <? 256)%N then (if in_signed 8 daf then Ok (caf, daf) else Err CUnsupportedCfiInstruction)
  else Err CUnsupportedCfiInstruction.

(* offset (u32) += delta (u32) * (caf as u32), all checked *)
Definition convert_advance (offset delta caf : N) : res N :=
  if (caf <? 2 ^ 32)%N then
    let d := (delta * caf)%N in
    if (d <? 2 ^ 32)%N then
      let s := (offset + d)%N in
      if (s <? 2 ^ 32)%N then Ok s else Err CUnsupportedCfiInstruction
    else Err CUnsupportedCfiInstruction
  else Err CUnsupportedCfiInstruction.
