(* Model/CfiWr.v — mirrors /repo/src/write/cfi.rs
     FrameTable::{add_cie, add_fde, write_debug_frame, write_eh_frame, write},
     CommonInformationEntry::{has_augmentation, write}, FrameDescriptionEntry::{add_instruction, write},
     CallFrameInstruction::write, write_advance_loc, write_nop, factored_code_delta, factored_data_offset
   and /repo/src/write/writer.rs Writer::{write_address, write_eh_pointer, write_eh_pointer_data}
   (the other Writer primitives are in Prim.v / Leb.v).
   The writer `w` is an EndianVec: the model threads `pos` = w.len() and returns the bytes appended;
   `write_*_at` patches of a placeholder are modelled by computing the patched field after the body,
   in the same order of possible failures as the Rust code.
   Expressions are `Expression::raw(bytes)`: size = |bytes|, write = the bytes.
   usize arithmetic on section lengths (w.len() + ...) is not bounded: a section of 2^64 bytes cannot exist.
   No proofs here. Streams: c14.factor c14.advance c14.insn c14.entry c14.table c14.rows *)
From Coq Require Import List NArith ZArith Bool.
From Coq.Strings Require Import Byte.
Require Import GV.Base.Res GV.Base.Byt GV.Base.Ints GV.Model.Leb GV.Model.Prim GV.Spec.CfaEncSpec.
Import ListNotations.
Local Open Scope N_scope.

Definition len (bs : list byte) : N := N.of_nat (length bs).

(* ---------------- factoring ---------------- *)

(* fn factored_code_delta(prev_offset: u32, offset: u32, factor: u8) -> Result<u32> *)
Definition factored_code_delta (dbg : bool) (prev offset factor : N) : res N :=
  if offset <? prev then Err WInvalidFrameCodeOffset else
  let* delta := chk_sub 32 dbg offset prev in
  (* delta.checked_div(factor): None iff factor == 0 *)
  if factor =? 0 then Err WInvalidFrameCodeOffset else
  let factored := delta / factor in
  let* back := chk_mul 32 dbg factored factor in
  if negb (delta =? back) then Err WInvalidFrameCodeOffset else Ok factored.

(* fn factored_data_offset(offset: i32, factor: i8) -> Result<i32>; i32 `/` truncates toward zero;
   checked_div is None iff factor == 0 or (offset, factor) == (i32::MIN, -1) *)
Definition factored_data_offset (dbg : bool) (offset factor : Z) : res Z :=
  if (factor =? 0)%Z || ((offset =? -2147483648)%Z && (factor =? -1)%Z) then Err WInvalidFrameDataOffset else
  let factored := Z.quot offset factor in
  let* back := chk_s 32 dbg (factored * factor)%Z in
  if negb (offset =? back)%Z then Err WInvalidFrameDataOffset else Ok factored.

(* ---------------- instructions ---------------- *)

(* fn write_advance_loc(w, code_alignment_factor: u8, prev_offset: u32, offset: u32) *)
Definition write_advance_loc (dbg be : bool) (caf prev offset : N) : res (list byte) :=
  if offset =? prev then Ok [] else
  let* delta := factored_code_delta dbg prev offset caf in
  if delta <? 64 then Ok [n2b (N.lor 64 (wrap8 delta))]
  else if delta <? 256 then Ok [x02; n2b (wrap8 delta)]
  else if delta <? 65536 then Ok (x03 :: enc_un 2 be (wrap16 delta))
  else Ok (x04 :: enc_un 4 be delta).

(* uleb(expression.size()) ; expression.write() for a raw expression *)
Definition write_blob (e : list byte) : res (list byte) :=
  let* l := write_uleb128 (len e) in Ok (l ++ e).

(* `x as u64` of a non-negative i32 / of an i64 (sign extension then reinterpretation) *)
Definition z_as_u64 (z : Z) : N := of_signed 64 z.

(* CallFrameInstruction::write(w, encoding, cie): only cie.data_alignment_factor is used *)
Definition write_insn (dbg : bool) (daf : Z) (i : cfi) : res (list byte) :=
  match i with
  | Cfa r o =>
      if (o <? 0)%Z then
        let* f := factored_data_offset dbg o daf in
        let* rb := write_uleb128 r in let* ob := write_sleb128 f in Ok (x12 :: rb ++ ob)
      else
        let* rb := write_uleb128 r in let* ob := write_uleb128 (z_as_u64 o) in Ok (x0c :: rb ++ ob)
  | CfaRegister r => let* rb := write_uleb128 r in Ok (x0d :: rb)
  | CfaOffset o =>
      if (o <? 0)%Z then
        let* f := factored_data_offset dbg o daf in
        let* ob := write_sleb128 f in Ok (x13 :: ob)
      else let* ob := write_uleb128 (z_as_u64 o) in Ok (x0e :: ob)
  | CfaExpression e => let* eb := write_blob e in Ok (x0f :: eb)
  | Restore r =>
      if r <? 64 then Ok [n2b (N.lor 192 (wrap8 r))]
      else let* rb := write_uleb128 r in Ok (x06 :: rb)
  | Undefined r => let* rb := write_uleb128 r in Ok (x07 :: rb)
  | SameValue r => let* rb := write_uleb128 r in Ok (x08 :: rb)
  | Offset r o =>
      let* f := factored_data_offset dbg o daf in
      if (f <? 0)%Z then
        let* rb := write_uleb128 r in let* ob := write_sleb128 f in Ok (x11 :: rb ++ ob)
      else if r <? 64 then
        let* ob := write_uleb128 (z_as_u64 f) in Ok (n2b (N.lor 128 (wrap8 r)) :: ob)
      else
        let* rb := write_uleb128 r in let* ob := write_uleb128 (z_as_u64 f) in Ok (x05 :: rb ++ ob)
  | ValOffset r o =>
      let* f := factored_data_offset dbg o daf in
      if (f <? 0)%Z then
        let* rb := write_uleb128 r in let* ob := write_sleb128 f in Ok (x15 :: rb ++ ob)
      else
        let* rb := write_uleb128 r in let* ob := write_uleb128 (z_as_u64 f) in Ok (x14 :: rb ++ ob)
  | Register r1 r2 =>
      let* a := write_uleb128 r1 in let* b := write_uleb128 r2 in Ok (x09 :: a ++ b)
  | Expression r e =>
      let* rb := write_uleb128 r in let* eb := write_blob e in Ok (x10 :: rb ++ eb)
  | ValExpression r e =>
      let* rb := write_uleb128 r in let* eb := write_blob e in Ok (x16 :: rb ++ eb)
  | RememberState => Ok [x0a]
  | RestoreState => Ok [x0b]
  | ArgsSize n => let* nb := write_uleb128 n in Ok (x2e :: nb)
  | NegateRaState => Ok [x2d]
  end.

(* `for instruction in &self.instructions { instruction.write(..)? }` of a CIE *)
Fixpoint write_insns (dbg : bool) (daf : Z) (l : list cfi) : res (list byte) :=
  match l with
  | [] => Ok []
  | i :: r =>
      let* a := write_insn dbg daf i in
      let* b := write_insns dbg daf r in Ok (a ++ b)
  end.

(* the instruction loop of FrameDescriptionEntry::write *)
Fixpoint write_fde_insns (dbg be : bool) (caf : N) (daf : Z) (prev : N) (l : list (N * cfi)) : res (list byte) :=
  match l with
  | [] => Ok []
  | (off, i) :: r =>
      let* a := write_advance_loc dbg be caf prev off in
      let* b := write_insn dbg daf i in
      let* c := write_fde_insns dbg be caf daf off r in Ok (a ++ b ++ c)
  end.

(* fn write_nop(w, len: usize, align: u8)  (repo 768c9da):
     if !matches!(align, 1 | 2 | 4 | 8) { return Err(Error::UnsupportedWordSize(align)); }
     let tail_len = (!len + 1) & (align as usize - 1);
   `!len + 1` overflows only for len = 0, which the two call sites never pass. *)
Definition write_nop (dbg : bool) (length align : N) : res (list byte) :=
  if negb ((align =? 1) || (align =? 2) || (align =? 4) || (align =? 8)) then Err WUnsupportedWordSize else
  if dbg && (length =? 0) then Panic else
  let neg := wrap64 (two64 - wrap64 length) in
  let tail := N.land neg (align - 1) in
  Ok (repeat x00 (N.to_nat tail)).

(* ---------------- pointers ---------------- *)

Inductive addr : Type :=
| AConst (v : N)                       (* Address::Constant(u64) *)
| ASym (symbol : N) (addend : Z).      (* Address::Symbol { symbol, addend } *)

(* Writer::write_address (default implementation, EndianVec) *)
Definition write_address (be : bool) (a : addr) (size : N) : res (list byte) :=
  match a with
  | AConst v => write_udata be v size
  | ASym _ _ => Err WInvalidAddress
  end.

(* Writer::write_eh_pointer_data(val: u64, format: DwEhPe, size: u8); format = eh_pe & 0x0f *)
Definition write_eh_pointer_data (be : bool) (val fmt size : N) : res (list byte) :=
  if fmt =? 0 then write_udata be val size
  else if fmt =? 1 then write_uleb128 val
  else if fmt =? 2 then write_udata be val 2
  else if fmt =? 3 then write_udata be val 4
  else if fmt =? 4 then write_udata be val 8
  else if fmt =? 9 then write_sleb128 (to_i64 val)
  else if fmt =? 10 then write_sdata be (to_i64 val) 2
  else if fmt =? 11 then write_sdata be (to_i64 val) 4
  else if fmt =? 12 then write_sdata be (to_i64 val) 8
  else Err WUnsupportedPointerEncoding.

Definition pe_format (eh_pe : N) : N := N.land eh_pe 15.
Definition pe_application (eh_pe : N) : N := N.land eh_pe 112.

(* Writer::write_eh_pointer(address, eh_pe, size) at section offset pos = w.len() *)
Definition write_eh_pointer (be : bool) (pos : N) (a : addr) (eh_pe size : N) : res (list byte) :=
  match a with
  | AConst v =>
      let app := pe_application eh_pe in
      let* val :=
        if app =? 0 then Ok v
        else if app =? 16 then Ok (wrap64 (two64 + v - wrap64 pos))   (* val.wrapping_sub(offset) *)
        else Err WUnsupportedPointerEncoding in
      write_eh_pointer_data be val (pe_format eh_pe) size
  | ASym _ _ => Err WInvalidAddress
  end.

(* ---------------- entries ---------------- *)

Record cie : Type := mkCie {
  c_fmt64 : bool;                      (* encoding.format *)
  c_version : N;                       (* encoding.version : u16 *)
  c_asize : N;                         (* encoding.address_size : u8 *)
  c_caf : N;                           (* code_alignment_factor : u8 *)
  c_daf : Z;                           (* data_alignment_factor : i8 *)
  c_ra : N;                            (* return_address_register : Register(u16) *)
  c_pers : option (N * addr);          (* personality : Option<(DwEhPe, Address)> *)
  c_lsda_enc : option N;               (* lsda_encoding *)
  c_fde_enc : N;                       (* fde_address_encoding *)
  c_sig : bool;                        (* signal_trampoline *)
  c_insns : list cfi
}.

Record fde : Type := mkFde {
  f_addr : addr;
  f_len : N;                           (* u32 *)
  f_lsda : option addr;
  f_insns : list (N * cfi)             (* (offset : u32, instruction) *)
}.

Definition has_augmentation (c : cie) : bool :=
  match c_pers c with Some _ => true | None => false end
  || match c_lsda_enc c with Some _ => true | None => false end
  || c_sig c
  || negb (c_fde_enc c =? 0).

Definition is_some {A} (o : option A) : bool := match o with Some _ => true | None => false end.

(* the patched one-byte augmentation length in front of the augmentation data:
     debug_assert!(augmentation_length < 0x80); w.write_udata_at(off, augmentation_length, 1) *)
Definition with_aug_len (dbg be : bool) (data : list byte) : res (list byte) :=
  if dbg && (128 <=? len data) then Panic else
  let* lb := write_udata be (len data) 1 in Ok (lb ++ data).

(* size of the initial length field written by write_initial_length *)
Definition ilen_size (fmt64 : bool) : N := if fmt64 then 12 else 4.

(* write_nop + write_initial_length_at around a finished body *)
Definition close_entry (dbg be fmt64 : bool) (asize : N) (body : list byte) : res (list byte) :=
  let* pad := write_nop dbg (ilen_size fmt64 + len body) asize in   (* initial_length_size(), repo d2e46aa *)
  let body' := body ++ pad in
  let* il := write_initial_length fmt64 be (len body') in
  Ok (il ++ body').

(* CommonInformationEntry::write(w, eh_frame) at section offset pos; the returned offset is pos *)
Definition cie_write (dbg be eh : bool) (pos : N) (c : cie) : res (list byte) :=
  let fmt64 := c_fmt64 c in
  let base := pos + ilen_size fmt64 in                       (* length_base *)
  let id := if eh then enc_un 4 be 0
            else if fmt64 then enc_un 8 be (two64 - 1) else enc_un 4 be (two32 - 1) in
  let ver := c_version c in
  if (if eh then negb (ver =? 1) else negb ((ver =? 1) || (ver =? 3) || (ver =? 4)))
  then Err WUnsupportedVersion else
  let aug := has_augmentation c in
  let augstr :=
    (if aug then
       [x7a]
       ++ (if is_some (c_lsda_enc c) then [x4c] else [])
       ++ (if is_some (c_pers c) then [x50] else [])
       ++ (if negb (c_fde_enc c =? 0) then [x52] else [])
       ++ (if c_sig c then [x53] else [])
     else []) ++ [x00] in
  let v4 := if 4 <=? ver then [n2b (c_asize c); x00] else [] in
  let* cafb := write_uleb128 (c_caf c) in
  let* dafb := write_sleb128 (c_daf c) in
  let* rab :=
    if ver =? 1 then                      (* one byte for version 1 in both sections (repo 3c6e5b8) *)
      (if c_ra c <? 256 then Ok [n2b (c_ra c)] else Err WValueTooLarge)
    else write_uleb128 (c_ra c) in
  let pre := id ++ [n2b (wrap8 ver)] ++ augstr ++ v4 ++ cafb ++ dafb ++ rab in
  let* augdata :=
    if aug then
      let dpos := base + len pre + 1 in                     (* augmentation_length_base *)
      let l := match c_lsda_enc c with Some e => [n2b e] | None => [] end in
      let* p := match c_pers c with
                | Some (e, a) =>
                    let* pb := write_eh_pointer be (dpos + len l + 1) a e (c_asize c) in Ok (n2b e :: pb)
                | None => Ok []
                end in
      let r := if negb (c_fde_enc c =? 0) then [n2b (c_fde_enc c)] else [] in
      with_aug_len dbg be (l ++ p ++ r)
    else Ok [] in
  let* insns := write_insns dbg (c_daf c) (c_insns c) in
  close_entry dbg be fmt64 (c_asize c) (pre ++ augdata ++ insns).

(* FrameDescriptionEntry::write(w, eh_frame, cie_offset, cie) at section offset pos *)
Definition fde_write (dbg be eh : bool) (pos cie_off : N) (c : cie) (f : fde) : res (list byte) :=
  let fmt64 := c_fmt64 c in
  let asize := c_asize c in
  let base := pos + ilen_size fmt64 in
  let* ptr :=
    if eh then
      let* d := chk_sub 64 dbg base cie_off in write_udata be d 4
    else write_udata be cie_off (word_size fmt64) in
  let apos := base + len ptr in
  let* addrs :=
    if negb (c_fde_enc c =? 0) then
      let* a := write_eh_pointer be apos (f_addr f) (c_fde_enc c) asize in
      let* l := write_eh_pointer_data be (f_len f) (pe_format (c_fde_enc c)) asize in Ok (a ++ l)
    else
      let* a := write_address be (f_addr f) asize in
      let* l := write_udata be (f_len f) asize in Ok (a ++ l) in
  (* if self.lsda.is_some() != cie.lsda_encoding.is_some() { return Err(Error::InvalidAddress) }  (repo a8af08f) *)
  if negb (Bool.eqb (is_some (f_lsda f)) (is_some (c_lsda_enc c))) then Err WInvalidAddress else
  let* augdata :=
    if has_augmentation c then
      let* d := match f_lsda f, c_lsda_enc c with
                | Some a, Some e => write_eh_pointer be (apos + len addrs + 1) a e asize
                | _, _ => Ok []
                end in
      with_aug_len dbg be d
    else Ok [] in
  let* insns := write_fde_insns dbg be (c_caf c) (c_daf c) 0 (f_insns f) in
  close_entry dbg be fmt64 asize (ptr ++ addrs ++ augdata ++ insns).

(* ---------------- the table ---------------- *)

Definition bytes_eq (a b : list byte) : bool := bytes_eqb a b.

Definition cfi_eqb (a b : cfi) : bool :=
  match a, b with
  | Cfa r o, Cfa r' o' => (r =? r') && (o =? o')%Z
  | CfaRegister r, CfaRegister r' => r =? r'
  | CfaOffset o, CfaOffset o' => (o =? o')%Z
  | CfaExpression e, CfaExpression e' => bytes_eq e e'
  | Restore r, Restore r' => r =? r'
  | Undefined r, Undefined r' => r =? r'
  | SameValue r, SameValue r' => r =? r'
  | Offset r o, Offset r' o' => (r =? r') && (o =? o')%Z
  | ValOffset r o, ValOffset r' o' => (r =? r') && (o =? o')%Z
  | Register r s, Register r' s' => (r =? r') && (s =? s')
  | Expression r e, Expression r' e' => (r =? r') && bytes_eq e e'
  | ValExpression r e, ValExpression r' e' => (r =? r') && bytes_eq e e'
  | RememberState, RememberState => true
  | RestoreState, RestoreState => true
  | ArgsSize n, ArgsSize n' => n =? n'
  | NegateRaState, NegateRaState => true
  | _, _ => false
  end.

Fixpoint cfis_eqb (a b : list cfi) : bool :=
  match a, b with
  | [], [] => true
  | x :: r, y :: s => cfi_eqb x y && cfis_eqb r s
  | _, _ => false
  end.

Definition addr_eqb (a b : addr) : bool :=
  match a, b with
  | AConst v, AConst v' => v =? v'
  | ASym s d, ASym s' d' => (s =? s') && (d =? d')%Z
  | _, _ => false
  end.

Definition opt_eqb {A} (eqb : A -> A -> bool) (a b : option A) : bool :=
  match a, b with
  | None, None => true
  | Some x, Some y => eqb x y
  | _, _ => false
  end.

(* #[derive(PartialEq, Eq, Hash)] on CommonInformationEntry: structural equality of all fields *)
Definition cie_eqb (a b : cie) : bool :=
  Bool.eqb (c_fmt64 a) (c_fmt64 b) && (c_version a =? c_version b) && (c_asize a =? c_asize b)
  && (c_caf a =? c_caf b) && (c_daf a =? c_daf b)%Z && (c_ra a =? c_ra b)
  && opt_eqb (fun p q => (fst p =? fst q) && addr_eqb (snd p) (snd q)) (c_pers a) (c_pers b)
  && opt_eqb N.eqb (c_lsda_enc a) (c_lsda_enc b)
  && (c_fde_enc a =? c_fde_enc b) && Bool.eqb (c_sig a) (c_sig b)
  && cfis_eqb (c_insns a) (c_insns b).

Record ftable : Type := mkTable {
  t_cies : list cie;                   (* FnvIndexSet<CommonInformationEntry>, insertion order *)
  t_fdes : list (nat * fde)            (* Vec<(CieId, FrameDescriptionEntry)>; CieId = index (same base_id) *)
}.
Definition empty_table : ftable := mkTable [] [].

Fixpoint find_cie (c : cie) (l : list cie) (i : nat) : option nat :=
  match l with
  | [] => None
  | x :: r => if cie_eqb x c then Some i else find_cie c r (S i)
  end.

(* FrameTable::add_cie: IndexSet::insert_full — index of the equal element, or push *)
Definition add_cie (t : ftable) (c : cie) : ftable * nat :=
  match find_cie c (t_cies t) O with
  | Some i => (t, i)
  | None => (mkTable (t_cies t ++ [c]) (t_fdes t), length (t_cies t))
  end.

(* FrameTable::add_fde *)
Definition add_fde (t : ftable) (id : nat) (f : fde) : ftable :=
  mkTable (t_cies t) (t_fdes t ++ [(id, f)]).

(* FrameDescriptionEntry::add_instruction:
     debug_assert!(self.instructions.last().map(|x| x.0).unwrap_or(0) <= offset) *)
Definition fde_add_instruction (dbg : bool) (f : fde) (off : N) (i : cfi) : res fde :=
  let last_off := match rev (f_insns f) with (o, _) :: _ => o | [] => 0 end in
  if dbg && (off <? last_off) then Panic else
  Ok (mkFde (f_addr f) (f_len f) (f_lsda f) (f_insns f ++ [(off, i)])).

Fixpoint fde_add_instructions (dbg : bool) (f : fde) (l : list (N * cfi)) : res fde :=
  match l with
  | [] => Ok f
  | (o, i) :: r => let* f' := fde_add_instruction dbg f o i in fde_add_instructions dbg f' r
  end.

Fixpoint set_nth {A} (l : list A) (n : nat) (x : A) : list A :=
  match l, n with
  | [], _ => []
  | _ :: r, O => x :: r
  | y :: r, S k => y :: set_nth r k x
  end.

(* the loop of FrameTable::write; offs = cie_offsets *)
Fixpoint write_fdes (dbg be eh : bool) (cies : list cie) (offs : list (option N)) (pos : N)
         (fdes : list (nat * fde)) : res (list byte) :=
  match fdes with
  | [] => Ok []
  | (idx, f) :: rest =>
      let* c := unwrap (nth_error cies idx) in              (* get_index(cie_index).unwrap() *)
      let* slot := unwrap (nth_error offs idx) in           (* cie_offsets[cie_index] *)
      let* (cb, coff, offs') :=
        match slot with
        | Some off => Ok ([], off, offs)
        | None => let* bs := cie_write dbg be eh pos c in Ok (bs, pos, set_nth offs idx (Some pos))
        end in
      let pos1 := pos + len cb in
      let* fb := fde_write dbg be eh pos1 coff c f in
      let* r := write_fdes dbg be eh cies offs' (pos1 + len fb) rest in
      Ok (cb ++ fb ++ r)
  end.

(* FrameTable::write_debug_frame (eh = false) / write_eh_frame (eh = true) on a writer holding pos bytes *)
Definition write_table (dbg be eh : bool) (pos : N) (t : ftable) : res (list byte) :=
  write_fdes dbg be eh (t_cies t) (repeat None (length (t_cies t))) pos (t_fdes t).

(* ---------------- building a table through the public API ---------------- *)

Inductive bop : Type :=
| BAddCie (c : cie)                                  (* ids.push(table.add_cie(c)) *)
| BAddFde (k : nat) (f : fde).                       (* table.add_fde(ids[k], f) with f built by add_instruction calls *)

(* returns the table and the list of ids returned by the add_cie calls; a BAddFde whose k does not name an
   earlier add_cie call is a bug of the caller of this model, not of gimli: OutOfFuel keeps it out of every statement *)
Fixpoint build (dbg : bool) (t : ftable) (ids : list nat) (ops : list bop) : res (ftable * list nat) :=
  match ops with
  | [] => Ok (t, ids)
  | BAddCie c :: r => let '(t', id) := add_cie t c in build dbg t' (ids ++ [id]) r
  | BAddFde k f :: r =>
      match nth_error ids k with
      | None => OutOfFuel
      | Some id =>
          let* f' := fde_add_instructions dbg (mkFde (f_addr f) (f_len f) (f_lsda f) []) (f_insns f) in
          build dbg (add_fde t id f') ids r
      end
  end.

Definition build_and_write (dbg be eh : bool) (pos : N) (ops : list bop) : res (list byte * list nat * nat) :=
  let* (t, ids) := build dbg empty_table [] ops in
  let* bs := write_table dbg be eh pos t in
  Ok (bs, ids, length (t_cies t)).
