(* Model/OpVal.v — mirrors /repo/src/read/value.rs: sign_extend, mask_bit_size, ValueType::bit_size,
   Value::{value_type, parse, to_u64, from_u64, from_f32, from_f64, convert, reinterpret, abs, neg,
   add, sub, mul, div, rem, not, and, or, xor, shift_length, shl, shr, shra, eq, ge, gt, le, lt, ne}.
   Correspondence stream: c07.value.  No proofs here.

   Representation: a value is its ValueType plus the BIT PATTERN of the payload
   (Generic/I64/U64/F64: 64 bits, I32/U32/F32: 32, I16/U16: 16, I8/U8: 8).  `iN::wrapping_*` are
   therefore written as arithmetic modulo 2^N on patterns; signed division, comparison, shifts
   and `as` casts go through to_signed/of_signed explicitly.
   Floating point: negation (sign-bit flip), comparison and NaN tests are defined exactly on the
   bit patterns; + - * / and float<->integer / f32<->f64 conversions are the fields of the
   section record `fops` (DESIGN §5 C07). *)
From Coq Require Import List NArith ZArith Bool.
From Coq.Strings Require Import Byte.
Require Import GV.Base.Res GV.Base.Byt GV.Base.Ints GV.Model.Leb GV.Model.Prim.
Import ListNotations.
Local Open Scope N_scope.

(* Fixed-width reductions written with masks instead of `mod` (the extracted binary division costs
   microseconds per call).  Proofs/OpValProofs.v: w64 = wrap64, wN = wrapN, sgn = to_signed,
   usg = of_signed (w64_eq, wN_eq, sgn_eq, usg_eq). *)
Definition w64 (x : N) : N := N.land x 18446744073709551615.
Definition wN (bits x : N) : N := N.land x (N.ones bits).
Definition sgn (bits x : N) : Z :=
  let m := wN bits x in
  if N.testbit m (bits - 1) then (Z.of_N m - Z.of_N (N.shiftl 1 bits))%Z else Z.of_N m.
Definition usg (bits : N) (z : Z) : N := Z.to_N (Z.land z (Z.ones (Z.of_N bits))).

Inductive vtype : Type :=
| TGeneric | TI8 | TU8 | TI16 | TU16 | TI32 | TU32 | TI64 | TU64 | TF32 | TF64.

Definition vtype_eqb (a b : vtype) : bool :=
  match a, b with
  | TGeneric, TGeneric | TI8, TI8 | TU8, TU8 | TI16, TI16 | TU16, TU16 | TI32, TI32
  | TU32, TU32 | TI64, TI64 | TU64, TU64 | TF32, TF32 | TF64, TF64 => true
  | _, _ => false
  end.

Record value : Type := mkV { vty : vtype; vbits : N }.

(* storage width of the payload *)
Definition width (t : vtype) : N :=
  match t with
  | TI8 | TU8 => 8
  | TI16 | TU16 => 16
  | TI32 | TU32 | TF32 => 32
  | TGeneric | TI64 | TU64 | TF64 => 64
  end.

Inductive tclass := CGeneric | CSigned | CUnsigned | CFloat.
Definition tclass_of (t : vtype) : tclass :=
  match t with
  | TGeneric => CGeneric
  | TI8 | TI16 | TI32 | TI64 => CSigned
  | TU8 | TU16 | TU32 | TU64 => CUnsigned
  | TF32 | TF64 => CFloat
  end.
Definition is64 (t : vtype) : bool := match t with TF64 => true | _ => false end.

(* a Rust value of the type exists for the payload *)
Definition wf_value (v : value) : bool := vbits v <? 2 ^ width (vty v).

(* fn sign_extend(value: u64, mask: u64) -> i64 *)
Definition sign_extend (value mask : N) : Z :=
  let v := N.land value mask in                      (* (value & mask) as i64 *)
  let sign := w64 (N.shiftr mask 1 + 1) in        (* ((mask >> 1) + 1) as i64; no u64 overflow: mask>>1 < 2^63 *)
  sgn 64 (w64 (N.lxor v sign + two64 - sign)).    (* (value ^ sign).wrapping_sub(sign) *)

(* fn mask_bit_size(addr_mask) = 64 - leading_zeros *)
Definition mask_bit_size (mask : N) : N := N.size mask.

(* ValueType::bit_size *)
Definition bit_size (t : vtype) (mask : N) : N :=
  match t with
  | TGeneric => mask_bit_size mask
  | _ => width t
  end.

(* ---- exact IEEE-754 pieces on bit patterns (w = 32 or 64) ---- *)
Definition fsign_bit (w : N) : N := 2 ^ (w - 1).
Definition finf (w : N) : N := if w =? 32 then 2139095040 (* 0x7f800000 *) else 9218868437227405312 (* 0x7ff0000000000000 *).
Definition fmag (w bits : N) : N := bits mod fsign_bit w.
Definition fis_nan (w bits : N) : bool := finf w <? fmag w bits.
(* `-x`: LLVM fneg flips the sign bit, also of NaNs *)
Definition fneg (w bits : N) : N := N.lxor bits (fsign_bit w).
(* total order key of a non-NaN: -0 and +0 both map to 0 *)
Definition fkey (w bits : N) : Z :=
  if bits <? fsign_bit w then Z.of_N bits else (- Z.of_N (fmag w bits))%Z.
Definition fcmp (w a b : N) : option comparison :=
  if fis_nan w a || fis_nan w b then None else Some (Z.compare (fkey w a) (fkey w b)).
Definition feq w a b := match fcmp w a b with Some Eq => true | _ => false end.
Definition flt w a b := match fcmp w a b with Some Lt => true | _ => false end.
Definition fle w a b := match fcmp w a b with Some Lt | Some Eq => true | _ => false end.
Definition fgt w a b := match fcmp w a b with Some Gt => true | _ => false end.
Definition fge w a b := match fcmp w a b with Some Gt | Some Eq => true | _ => false end.
Definition fne w a b := negb (feq w a b).

(* hardware float arithmetic: bit patterns in, bit pattern out; first argument: operands are f64 *)
Record fops : Type := mkFops {
  f_add : bool -> N -> N -> N;
  f_sub : bool -> N -> N -> N;
  f_mul : bool -> N -> N -> N;
  f_div : bool -> N -> N -> N;
  f_of_u64 : bool -> N -> N;                 (* `x as f32` / `x as f64` for x : u64; flag: result is f64 *)
  f_to_int : bool -> bool -> N -> N -> N;    (* src is f64, target signed, target width, bits -> pattern (`as` cast: saturating, NaN -> 0) *)
  f_cvt : bool -> N -> N                     (* flag: source is f64.  f64 as f32 / f64::from(f32) *)
}.

Section WithFops.
Variable F : fops.

(* Value::parse(value_type, bytes): reads from the start of `bytes`, ignores the rest *)
Definition value_parse (be : bool) (t : vtype) (bs : list byte) : res value :=
  match t with
  | TGeneric => Err EUnsupportedTypeOperation
  | _ => let* (v, _) := read_un (N.to_nat (width t / 8)) be bs in Ok (mkV t v)
  end.

(* `x as u64` for x of the integer type t (sign extension for signed types) *)
Definition widen (t : vtype) (bits : N) : N :=
  match tclass_of t with
  | CSigned => usg 64 (sgn (width t) bits)
  | _ => bits
  end.

(* Value::to_u64 *)
Definition to_u64 (v : value) (mask : N) : res N :=
  match tclass_of (vty v) with
  | CGeneric => Ok (N.land (vbits v) mask)
  | CSigned | CUnsigned => Ok (widen (vty v) (vbits v))
  | CFloat => Err EIntegralTypeRequired
  end.

(* Value::from_u64 *)
Definition from_u64 (t : vtype) (x : N) : res value :=
  match tclass_of t with
  | CGeneric => Ok (mkV t x)
  | CSigned | CUnsigned => Ok (mkV t (wN (width t) x))      (* `value as iN/uN` *)
  | CFloat => Ok (mkV t (f_of_u64 F (is64 t) x))
  end.

(* Value::from_f32 / from_f64 (src64 = the source is an f64) *)
Definition from_float (src64 : bool) (t : vtype) (bits : N) : res value :=
  match tclass_of t with
  | CGeneric => Ok (mkV t (f_to_int F src64 false 64 bits))
  | CSigned => Ok (mkV t (f_to_int F src64 true (width t) bits))
  | CUnsigned => Ok (mkV t (f_to_int F src64 false (width t) bits))
  | CFloat => if Bool.eqb src64 (is64 t) then Ok (mkV t bits) else Ok (mkV t (f_cvt F src64 bits))
  end.

(* Value::convert *)
Definition convert (v : value) (t : vtype) (mask : N) : res value :=
  match vty v with
  | TF32 => from_float false t (vbits v)
  | TF64 => from_float true t (vbits v)
  | _ => let* x := to_u64 v mask in from_u64 t x
  end.

(* Value::reinterpret *)
Definition reinterpret (v : value) (t : vtype) (mask : N) : res value :=
  if negb (bit_size (vty v) mask =? bit_size t mask) then Err ETypeMismatch else
  let bits := widen (vty v) (vbits v) in       (* Generic/unsigned/float patterns are taken as they are *)
  match tclass_of t with
  | CGeneric => Ok (mkV t bits)
  | _ => Ok (mkV t (wN (width t) bits))
  end.

(* Value::abs *)
Definition vabs (v : value) (mask : N) : res value :=
  let t := vty v in
  match tclass_of t with
  | CGeneric => Ok (mkV t (usg 64 (Z.abs (sign_extend (vbits v) mask))))        (* wrapping_abs as u64 *)
  | CSigned => Ok (mkV t (usg (width t) (Z.abs (sgn (width t) (vbits v)))))
  | CFloat => Ok (mkV t (if flt (width t) (vbits v) 0 then fneg (width t) (vbits v) else vbits v))
  | CUnsigned => Ok v
  end.

(* Value::neg *)
Definition vneg (v : value) (mask : N) : res value :=
  let t := vty v in
  match tclass_of t with
  | CGeneric => Ok (mkV t (usg 64 (- sign_extend (vbits v) mask)))
  | CSigned => Ok (mkV t (usg (width t) (- sgn (width t) (vbits v))))
  | CFloat => Ok (mkV t (fneg (width t) (vbits v)))
  | CUnsigned => Err EUnsupportedTypeOperation
  end.

(* add / sub / mul share their shape: Generic wraps at 64 bits and is masked, integers wrap at their width *)
Definition arith (iop : N -> N -> N) (fop : bool -> N -> N -> N) (a b : value) (mask : N) : res value :=
  let t := vty a in
  if negb (vtype_eqb t (vty b)) then Err ETypeMismatch else
  match tclass_of t with
  | CGeneric => Ok (mkV t (N.land (w64 (iop (vbits a) (vbits b))) mask))
  | CSigned | CUnsigned => Ok (mkV t (wN (width t) (iop (vbits a) (vbits b))))
  | CFloat => Ok (mkV t (fop (is64 t) (vbits a) (vbits b)))
  end.
Definition vadd := arith N.add (f_add F).
(* wrapping_sub: a - b mod 2^64 resp. 2^w; both operands are below 2^64 *)
Definition vsub := arith (fun x y => x + two64 - y) (f_sub F).
Definition vmul := arith N.mul (f_mul F).

(* the `match rhs { .. => return Err(DivisionByZero) }` prefix of div *)
Definition div_zero_check (b : value) (mask : N) : bool :=
  match tclass_of (vty b) with
  | CGeneric => (sign_extend (vbits b) mask =? 0)%Z
  | CSigned | CUnsigned => vbits b =? 0
  | CFloat => false
  end.

(* Value::div *)
Definition vdiv (a b : value) (mask : N) : res value :=
  if div_zero_check b mask then Err EDivisionByZero else
  let t := vty a in
  if negb (vtype_eqb t (vty b)) then Err ETypeMismatch else
  match tclass_of t with
  | CGeneric => Ok (mkV t (usg 64 (Z.quot (sign_extend (vbits a) mask) (sign_extend (vbits b) mask))))
  | CSigned => let w := width t in
               Ok (mkV t (usg w (Z.quot (sgn w (vbits a)) (sgn w (vbits b)))))
  | CUnsigned => Ok (mkV t (vbits a / vbits b))
  | CFloat => Ok (mkV t (f_div F (is64 t) (vbits a) (vbits b)))
  end.

Definition rem_zero_check (b : value) (mask : N) : bool :=
  match tclass_of (vty b) with
  | CGeneric => N.land (vbits b) mask =? 0
  | CSigned | CUnsigned => vbits b =? 0
  | CFloat => false
  end.

(* Value::rem *)
Definition vrem (a b : value) (mask : N) : res value :=
  if rem_zero_check b mask then Err EDivisionByZero else
  let t := vty a in
  if negb (vtype_eqb t (vty b)) then Err ETypeMismatch else
  match tclass_of t with
  | CGeneric => Ok (mkV t (N.land (vbits a) mask mod N.land (vbits b) mask))
  | CSigned => let w := width t in
               Ok (mkV t (usg w (Z.rem (sgn w (vbits a)) (sgn w (vbits b)))))
  | CUnsigned => Ok (mkV t (vbits a mod vbits b))
  | CFloat => Err EIntegralTypeRequired
  end.

(* Value::not *)
Definition vnot (v : value) (mask : N) : res value :=
  let* x := to_u64 v mask in
  from_u64 (vty v) (two64 - 1 - x).

(* and / or / xor *)
Definition bitop (op : N -> N -> N) (a b : value) (mask : N) : res value :=
  let t := vty a in
  if negb (vtype_eqb t (vty b)) then Err ETypeMismatch else
  let* v1 := to_u64 a mask in
  let* v2 := to_u64 b mask in
  from_u64 t (op v1 v2).
Definition vand := bitop N.land.
Definition vor := bitop N.lor.
Definition vxor := bitop N.lxor.

(* Value::shift_length(self, addr_mask) — a generic count is reduced by the address mask *)
Definition shift_length (v : value) (mask : N) : res N :=
  match tclass_of (vty v) with
  | CGeneric => Ok (N.land (vbits v) mask)
  | CUnsigned => Ok (vbits v)
  | CSigned => if (0 <=? sgn (width (vty v)) (vbits v))%Z then Ok (vbits v) else Err EInvalidShiftExpression
  | CFloat => Err EInvalidShiftExpression
  end.

(* Value::shl *)
Definition vshl (a b : value) (mask : N) : res value :=
  let* v2 := shift_length b mask in
  let t := vty a in
  match tclass_of t with
  | CGeneric => Ok (mkV t (if mask_bit_size mask <=? v2 then 0
                           else w64 (N.shiftl (N.land (vbits a) mask) v2)))
  | CSigned | CUnsigned => Ok (mkV t (if width t <=? v2 then 0 else wN (width t) (N.shiftl (vbits a) v2)))
  | CFloat => Err EIntegralTypeRequired
  end.

(* Value::shr *)
Definition vshr (a b : value) (mask : N) : res value :=
  let* v2 := shift_length b mask in
  let t := vty a in
  match tclass_of t with
  | CGeneric => Ok (mkV t (if mask_bit_size mask <=? v2 then 0 else N.shiftr (N.land (vbits a) mask) v2))
  | CUnsigned => Ok (mkV t (if width t <=? v2 then 0 else N.shiftr (vbits a) v2))
  | CSigned => Err EUnsupportedTypeOperation
  | CFloat => Err EIntegralTypeRequired
  end.

(* Value::shra *)
Definition vshra (a b : value) (mask : N) : res value :=
  let* v2 := shift_length b mask in
  let t := vty a in
  match tclass_of t with
  | CGeneric =>
      let v1 := sign_extend (vbits a) mask in
      Ok (mkV t (if mask_bit_size mask <=? v2 then (if (v1 <? 0)%Z then two64 - 1 else 0)
                 else usg 64 (Z.shiftr v1 (Z.of_N v2))))
  | CSigned =>
      let w := width t in
      let v1 := sgn w (vbits a) in
      Ok (mkV t (if w <=? v2 then (if (v1 <? 0)%Z then 2 ^ w - 1 else 0)
                 else usg w (Z.shiftr v1 (Z.of_N v2))))
  | CUnsigned => Err EUnsupportedTypeOperation
  | CFloat => Err EIntegralTypeRequired
  end.

(* eq ge gt le lt ne: `zc` decides on signed integers, `fc` on floats *)
Definition compare_op (zc : Z -> Z -> bool) (fc : N -> N -> N -> bool) (a b : value) (mask : N) : res value :=
  let t := vty a in
  if negb (vtype_eqb t (vty b)) then Err ETypeMismatch else
  let r :=
    match tclass_of t with
    | CGeneric => zc (sign_extend (vbits a) mask) (sign_extend (vbits b) mask)
    | CSigned => zc (sgn (width t) (vbits a)) (sgn (width t) (vbits b))
    | CUnsigned => zc (Z.of_N (vbits a)) (Z.of_N (vbits b))
    | CFloat => fc (width t) (vbits a) (vbits b)
    end in
  Ok (mkV TGeneric (if r then 1 else 0)).
Definition veq := compare_op Z.eqb feq.
Definition vge := compare_op Z.geb fge.
Definition vgt := compare_op Z.gtb fgt.
Definition vle := compare_op Z.leb fle.
Definition vlt := compare_op Z.ltb flt.
Definition vne := compare_op (fun x y => negb (Z.eqb x y)) fne.

End WithFops.
