(* Model/AbbrevRd.v — mirrors /repo/src/read/abbrev.rs
     Abbreviations::{empty, insert, get, parse}, Abbreviation::{new, parse, parse_tag,
     parse_has_children, parse_attributes}, DebugAbbrev::abbreviations
   (AttributeSpecification::parse is Attr.parse_attr_spec) for usize = u64 and a slice reader.
   No proofs here. Streams: c02.abbrev c02.abbrevbytes *)
From Coq Require Import List NArith ZArith Bool.
From Coq.Strings Require Import Byte.
Require Import GV.Base.Res GV.Base.Byt GV.Base.Ints GV.Model.Leb GV.Model.Prim GV.Model.Attr
               GV.Spec.Forest.
Import ListNotations.
Local Open Scope N_scope.

(* struct Abbreviations { vec: Vec<Abbreviation>, map: BTreeMap<u64, Abbreviation> }.
   The map is an association list; only `contains_key`, `get` and vacant `insert` are used, so the
   order is irrelevant. *)
Record abbrevs : Type := mkTbl { t_vec : list abbrev; t_map : list (N * abbrev) }.

Definition tbl_empty : abbrevs := mkTbl [] [].

Definition map_get (m : list (N * abbrev)) (code : N) : option abbrev :=
  match find (fun p => fst p =? code) m with Some p => Some (snd p) | None => None end.

(* Abbreviations::insert: Ok(None) = Err(()), Ok(Some t) = Ok(()) with the updated table.
   `code as usize as u64 == code` always holds (usize = u64). `code_usize - 1` is unchecked
   arithmetic: code 0 panics in a checked build and wraps to usize::MAX otherwise (Abbreviation::new
   asserts code != 0, so parse never gets here with 0). *)
Definition tbl_insert (dbg : bool) (t : abbrevs) (a : abbrev) : res (option abbrevs) :=
  let code := ab_code a in
  let len := nlen (t_vec t) in
  let via_map :=
    match map_get (t_map t) code with
    | Some _ => Ok None
    | None => Ok (Some (mkTbl (t_vec t) ((code, a) :: t_map t)))
    end in
  let* idx := chk_sub 64 dbg code 1 in
  if idx <? len then Ok None
  else if idx =? len then
    (if negb (is_nil (t_map t)) && (match map_get (t_map t) code with Some _ => true | None => false end)
     then Ok None
     else Ok (Some (mkTbl (t_vec t ++ [a]) (t_map t))))
  else via_map.

(* Abbreviations::get: usize::try_from(code) always succeeds; checked_sub(1)? returns None for 0 *)
Definition tbl_get (t : abbrevs) (code : N) : option abbrev :=
  if code =? 0 then None
  else
    let index := code - 1 in
    if index <? nlen (t_vec t) then nth_error (t_vec t) (N.to_nat index)
    else map_get (t_map t) code.

(* Abbreviation::parse_tag *)
Definition parse_tag (bs : list byte) : res (N * list byte) :=
  let* (v, r) := read_uleb128_u16 bs in
  if v =? 0 then Err EAbbreviationTagZero else Ok (v, r).

(* Abbreviation::parse_has_children *)
Definition parse_has_children (bs : list byte) : res (bool * list byte) :=
  let* (v, r) := read_u8 bs in
  if v =? 0 then Ok (false, r) else if v =? 1 then Ok (true, r)
  else Err EInvalidAbbreviationChildren.

(* Abbreviation::parse_attributes: every iteration consumes at least two bytes *)
Fixpoint parse_attr_specs (fuel : nat) (dbg : bool) (bs : list byte) : res (list aspec * list byte) :=
  match fuel with
  | O => OutOfFuel
  | S k =>
      let* (o, r) := parse_attr_spec dbg bs in
      match o with
      | None => Ok ([], r)
      | Some s => let* (l, r') := parse_attr_specs k dbg r in Ok (s :: l, r')
      end
  end.

(* Abbreviation::parse: None for the null abbreviation or the end of the input *)
Definition parse_abbrev (dbg : bool) (bs : list byte) : res (option abbrev * list byte) :=
  if is_nil bs then Ok (None, bs) else
  let* (code, r1) := read_uleb128 dbg bs in
  if code =? 0 then Ok (None, r1) else
  let* (tag, r2) := parse_tag r1 in
  let* (hc, r3) := parse_has_children r2 in
  let* (specs, r4) := parse_attr_specs (S (length r3)) dbg r3 in
  (* Abbreviation::new: assert_ne!(code, 0) cannot fire here *)
  Ok (Some (mkAbbrev code tag hc specs), r4).

(* the `while let` of Abbreviations::parse: every declaration consumes at least one byte *)
Fixpoint parse_abbrevs_loop (fuel : nat) (dbg : bool) (t : abbrevs) (bs : list byte)
  : res (abbrevs * list byte) :=
  match fuel with
  | O => OutOfFuel
  | S k =>
      let* (o, r) := parse_abbrev dbg bs in
      match o with
      | None => Ok (t, r)
      | Some a =>
          let* ins := tbl_insert dbg t a in
          match ins with
          | None => Err EDuplicateAbbreviationCode
          | Some t' => parse_abbrevs_loop k dbg t' r
          end
      end
  end.

(* Abbreviations::parse: the table and the unread input *)
Definition parse_abbrevs (dbg : bool) (bs : list byte) : res (abbrevs * list byte) :=
  parse_abbrevs_loop (S (length bs)) dbg tbl_empty bs.

(* DebugAbbrev::abbreviations(offset): skip + parse *)
Definition abbreviations_at (dbg : bool) (section : list byte) (offset : N) : res abbrevs :=
  let* r := skip_n offset section in
  let* (t, _) := parse_abbrevs dbg r in Ok t.

(* all declarations of a table, for printing *)
Definition tbl_contents (t : abbrevs) : list abbrev := t_vec t ++ map snd (t_map t).
