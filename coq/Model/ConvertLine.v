(* Model/ConvertLine.v — mirrors /repo/src/write/line.rs `mod convert`:
     ConvertLineProgram::{new, convert_string, convert_file, read_row, convert_address_offset, convert_row,
                          read_sequence, set_address / generate_row / end_sequence / in_sequence passthroughs,
                          program, convert},
     Dwarf::attr_line_string / DebugStr::get_str / DebugLineStr::get_str (the string lookups `new` performs),
     LineProgramHeader::{directory, file, file_has_*}, LineString::new.
   The converter runs over the line READER model (Model/LineRd.v: header, parse_insn, execute, row_reset) and drives
   the line WRITER model (Model/LineWr.v: lp_new, add_directory, add_file, set_address, generate_row, end_sequence).
   `new` is modelled for the public entry point write::Dwarf::read_line_program(dwarf, program, None, None):
   from_comp_name = None, encoding and line encoding taken from the source header.
   Correspondence stream: c12.lineconv (ocaml/s_c12lc.ml, harness/src/c12_lineconv.rs).   NO proofs here. *)
From Coq Require Import List NArith ZArith Bool.
From Coq.Strings Require Import Byte.
Require Import GV.Base.Res GV.Base.Byt GV.Base.Ints GV.Model.Leb GV.Model.Prim GV.Spec.LineSpec GV.Model.LineRd
               GV.Model.LineWr.
Import ListNotations.
Local Open Scope N_scope.

(* ------------------------------------------------------------------ the source strings *)

(* the sections of read::Dwarf that attr_line_string consults *)
Record secs : Type := mk_secs {
  sx_str : list byte;                 (* .debug_str *)
  sx_line_str : list byte;            (* .debug_line_str *)
  sx_sup_str : option (list byte)     (* .debug_str of the supplementary file, if one is loaded *)
}.

(* DebugStr::get_str / DebugLineStr::get_str: `input.skip(offset)?; input.read_null_terminated_slice()` *)
Definition get_str (sec : list byte) (off : N) : res (list byte) :=
  let* r := skip_n off sec in
  let* (s, _) := read_cstr r in Ok s.

(* Dwarf::attr_line_string followed by to_slice *)
Definition attr_line_string (sx : secs) (v : form_val) : res (list byte) :=
  match v with
  | VString s => Ok s
  | VStrRef off => get_str (sx_str sx) off
  | VStrRefSup off =>
      match sx_sup_str sx with
      | Some s => get_str s off
      | None => Err EExpectedStringAttributeValue
      end
  | VLineStrRef off => get_str (sx_line_str sx) off
  | _ => Err EExpectedStringAttributeValue
  end.

(* LineString::new: the normal form for the encoding *)
Definition lstr_new (e : enc) (ls : strtab) (val : list byte) : res (lstr * strtab) :=
  if e_version e <=? 4 then Ok (LStr val, ls)
  else let* (ls', id) := tab_add ls val in Ok (LLineStrRef id, ls').

(* ConvertLineProgram::convert_string *)
Definition convert_string (sx : secs) (e : enc) (ls : strtab) (v : form_val) : res (lstr * strtab) :=
  let* s := attr_line_string sx v in lstr_new e ls s.

(* ConvertLineProgram::convert_file. `dirs` is the DirectoryId mapping built so far. *)
Definition convert_file (sx : secs) (e : enc) (dirs : list N) (ls : strtab) (f : file_entry)
  : res (lstr * N * option finfo * strtab) :=
  let* (name, ls) := convert_string sx e ls (fe_path f) in
  (* `LineProgram::add_file` requires a non-empty name for these versions *)
  if (e_version e <=? 4) && lstr_eqb name (LStr []) then Err CInvalidAttributeValue else
  if N.of_nat (length dirs) <=? fe_dir f then Err CInvalidDirectoryIndex else
  let* d := unwrap (nth_error dirs (N.to_nat (fe_dir f))) in             (* dirs[from_dir as usize] *)
  let* (src, ls) := match fe_source f with
                    | Some s => let* (x, ls) := convert_string sx e ls s in Ok (Some x, ls)
                    | None => Ok (None, ls)
                    end in
  Ok (name, d, Some (mkFinfo (fe_time f) (fe_size f) (fe_md5 f) src), ls).

(* ------------------------------------------------------------------ header accessors *)

(* the header as DebugLine::program(offset, address_size, comp_dir, comp_name) holds it *)
Record src_hdr : Type := mk_src { sh_h : header; sh_comp_dir : option (list byte); sh_comp_name : option (list byte) }.

(* `slice.get(n as usize)` for a u64 index (never builds a huge unary number) *)
Definition get_n {A} (l : list A) (n : N) : option A :=
  if N.of_nat (length l) <=? n then None else nth_error l (N.to_nat n).

(* LineProgramHeader::directory *)
Definition hdr_directory (s : src_hdr) (d : N) : option form_val :=
  let h := sh_h s in
  if h_version h <=? 4 then
    if d =? 0 then option_map VString (sh_comp_dir s)
    else get_n (h_dirs h) (d - 1)
  else get_n (h_dirs h) d.

(* LineProgramHeader::file (comp_file = FileEntry { path_name: comp_name, directory_index: 0, .. }) *)
Definition hdr_file (s : src_hdr) (f : N) : option file_entry :=
  let h := sh_h s in
  if h_version h <=? 4 then
    if f =? 0 then option_map (fun n => mk_file (VString n) 0 0 0 (repeat x00 16) None) (sh_comp_name s)
    else get_n (h_files h) (f - 1)
  else get_n (h_files h) f.

Definition fmt_has (h : header) (ct : N) : bool := existsb (fun e => ef_ct e =? ct) (h_file_fmt h).
Definition hdr_has_timestamp (h : header) : bool := (h_version h <=? 4) || fmt_has h LNCT_timestamp.
Definition hdr_has_size (h : header) : bool := (h_version h <=? 4) || fmt_has h LNCT_size.
Definition hdr_has_md5 (h : header) : bool := fmt_has h LNCT_MD5.
Definition hdr_has_source (h : header) : bool := fmt_has h LNCT_LLVM_source.

(* header.encoding() / header.line_encoding() *)
Definition hdr_enc (h : header) : enc := mkEnc (h_fmt64 h) (h_version h) (h_addr_size h).
Definition hdr_lenc (h : header) : lenc :=
  mkLenc (h_min_inst_len h) (h_max_ops h) (h_default_is_stmt h) (h_line_base h) (h_line_range h).

(* ------------------------------------------------------------------ the converter state *)

Inductive cstate : Type := CSReadRow | CSSetAddress | CSConvertRow.

(* ConvertLineProgram (from_dwarf / from_program are the fixed parameters sx / header) *)
Record cl : Type := mk_cl {
  cl_row : row;               (* from_row: the PRIVATE reader row; its address is an offset *)
  cl_inp : list byte;         (* from_instructions *)
  cl_files : list N;          (* files: Vec<FileId>, indexed by the source file index *)
  cl_dirs : list N;           (* dirs: Vec<DirectoryId> *)
  cl_prog : prog;             (* program *)
  cl_ls : strtab;             (* line_strings *)
  cl_addr : option N;         (* address *)
  cl_st : cstate              (* state *)
}.

Definition with_row r c := mk_cl r (cl_inp c) (cl_files c) (cl_dirs c) (cl_prog c) (cl_ls c) (cl_addr c) (cl_st c).
Definition with_inp i c := mk_cl (cl_row c) i (cl_files c) (cl_dirs c) (cl_prog c) (cl_ls c) (cl_addr c) (cl_st c).
Definition with_addr a c := mk_cl (cl_row c) (cl_inp c) (cl_files c) (cl_dirs c) (cl_prog c) (cl_ls c) a (cl_st c).
Definition with_st s c := mk_cl (cl_row c) (cl_inp c) (cl_files c) (cl_dirs c) (cl_prog c) (cl_ls c) (cl_addr c) s.
Definition with_prog p c := mk_cl (cl_row c) (cl_inp c) (cl_files c) (cl_dirs c) p (cl_ls c) (cl_addr c) (cl_st c).
Definition with_file (p : prog) (ls : strtab) (id : N) c :=
  mk_cl (cl_row c) (cl_inp c) (cl_files c ++ [id]) (cl_dirs c) p ls (cl_addr c) (cl_st c).

(* the `for from_attr in from_header.include_directories()` loop *)
Fixpoint new_dirs (sx : secs) (e : enc) (p : prog) (ls : strtab) (dirs : list N) (ds : list form_val)
  : res (prog * strtab * list N) :=
  match ds with
  | [] => Ok (p, ls, dirs)
  | d :: tl =>
      let* (x, ls) := convert_string sx e ls d in
      let* (p, id) := add_directory p x in
      new_dirs sx e p ls (dirs ++ [id]) tl
  end.

(* the `for from_file in from_header.file_names()` loop *)
Fixpoint new_files (sx : secs) (e : enc) (dirs : list N) (p : prog) (ls : strtab) (files : list N)
  (fs : list file_entry) : res (prog * strtab * list N) :=
  match fs with
  | [] => Ok (p, ls, files)
  | f :: tl =>
      let* (name, d, info, ls) := convert_file sx e dirs ls f in
      let* (p, id) := LineWr.add_file p name d info in
      new_files sx e dirs p ls (files ++ [id]) tl
  end.

(* ConvertLineProgram::new with from_comp_name = None, encoding = None, line_encoding = None;
   `ls` is the LineStringTable of the write::Dwarf (possibly non-empty) *)
Definition cl_new (dbg : bool) (sx : secs) (s : src_hdr) (ls : strtab) : res cl :=
  let h := sh_h s in
  let e := hdr_enc h in
  let l := hdr_lenc h in
  let* (working_dir, ls) :=
    match hdr_directory s 0 with
    | Some d => convert_string sx e ls d
    | None => if e_version e <=? 4 then Ok (LStr [], ls) else Err CMissingCompilationDirectory
    end in
  let* (source_dir, source_file, ls) :=
    match hdr_file s 0 with
    | Some f =>
        let dir_index := fe_dir f in
        let* (sd, ls) :=
          if negb (dir_index =? 0) then
            match hdr_directory s dir_index with
            | Some d => let* (x, ls) := convert_string sx e ls d in Ok (Some x, ls)
            | None => Err CInvalidDirectoryIndex
            end
          else Ok (None, ls) in
        let* (sf, ls) := convert_string sx e ls (fe_path f) in
        Ok (sd, sf, ls)
    | None => if e_version e <=? 4 then Ok (None, LStr [], ls) else Err CMissingCompilationName
    end in
  (* `LineProgram::new` requires a special opcode for a line advance of 0 *)
  if (0 <? le_line_base l)%Z || (le_line_base l + Z.of_N (le_line_range l) <=? 0)%Z then Err CInvalidLineBase else
  let* p := lp_new dbg e l working_dir source_dir source_file None in
  let dirs0 := if h_version h <=? 4 then [0] else [] in
  let files0 := if h_version h <=? 4 then [0] else [] in
  let* (p, ls, dirs) := new_dirs sx e p ls dirs0 (h_dirs h) in
  let p := set_flags (hdr_has_timestamp h) (hdr_has_size h) (hdr_has_md5 h) (hdr_has_source h) p in
  let* (p, ls, files) := new_files sx e dirs p ls files0 (h_files h) in
  Ok (mk_cl (row_new h) (h_program h) files dirs p ls None CSReadRow).

(* ------------------------------------------------------------------ read_row *)

(* write::ConvertLineRow *)
Inductive clrow : Type :=
| CRSetAddress (a : N)
| CRRow (r : wrow)
| CREndSequence (off : N).

(* convert_address_offset: the writer can only advance by multiples of minimum_instruction_length *)
Definition convert_address_offset (c : cl) : res N :=
  let address_offset := r_addr (cl_row c) in
  let min_len := le_min_len (p_lenc (cl_prog c)) in
  if (1 <? min_len) && negb (address_offset mod min_len =? 0) then Err CUnsupportedLineInstruction
  else Ok address_offset.

(* convert_row (struct fields are evaluated in order: address_offset, then file) *)
Definition convert_row (h : header) (c : cl) : res wrow :=
  let* ao := convert_address_offset c in
  let r := cl_row c in
  let file := r_file r in
  if N.of_nat (length (cl_files c)) <=? file then Err CInvalidFileIndex else
  if (file =? 0) && (h_version h <=? 4) then Err CInvalidFileIndex else
  let* f := unwrap (nth_error (cl_files c) (N.to_nat file)) in            (* self.files[file as usize] *)
  Ok (mkWrow ao (r_opi r) f (r_line r) (r_col r) (r_disc r) (r_stmt r) (r_bb r) (r_pe r) (r_eb r) (r_isa r)).

(* what a call returns, with the state it leaves behind (an Err leaves the state as mutated so far) *)
Definition rr_out : Type := (res (option clrow) * cl)%type.

Definition ret_row (h : header) (c : cl) : rr_out :=
  match convert_row h c with
  | Ok r => (Ok (Some (CRRow r)), c)
  | Err e => (Err e, c)
  | Panic => (Panic, c)
  | OutOfFuel => (OutOfFuel, c)
  end.

(* the `while let Some(instruction) = self.from_instructions.next_instruction(..)?` loop of read_row;
   `tomb` is the local `tombstone`. One iteration consumes one instruction: fuel = S (length input). *)
Fixpoint read_loop (fuel : nat) (dbg be : bool) (sx : secs) (h : header) (c : cl) (tomb : bool) : rr_out :=
  match fuel with
  | O => (OutOfFuel, c)
  | S f =>
      match cl_inp c with
      | [] => (Ok None, c)
      | _ =>
          match parse_insn dbg be h (cl_inp c) with
          | Err e => (Err e, with_inp [] c)                       (* next_instruction: self.input.empty() *)
          | Panic => (Panic, c)
          | OutOfFuel => (OutOfFuel, c)
          | Ok (i, rest) =>
              let c := with_inp rest c in
              match i with
              | LineSpec.ISetAddress val =>
                  (* Use address 0 so that all addresses are offsets. *)
                  match execute dbg h (cl_row c) (LineSpec.ISetAddress 0) with
                  | Ok (r', XErr e) => (Err e, with_row r' c)
                  | Ok (r', _) =>
                      let c := with_row r' c in
                      (* tombstone_address = !0 >> (64 - address_size * 8)  (u8 arithmetic) *)
                      match ones_sized dbg (h_addr_size h) with
                      | Ok ta =>
                          let tomb := val =? ta in
                          read_loop f dbg be sx h (if tomb then c else with_addr (Some val) c) tomb
                      | Err e => (Err e, c)
                      | Panic => (Panic, c)
                      | OutOfFuel => (OutOfFuel, c)
                      end
                  | Err e => (Err e, c)
                  | Panic => (Panic, c)
                  | OutOfFuel => (OutOfFuel, c)
                  end
              | LineSpec.IDefineFile fe =>
                  match convert_file sx (p_enc (cl_prog c)) (cl_dirs c) (cl_ls c) fe with
                  | Ok (name, d, info, ls) =>
                      match LineWr.add_file (cl_prog c) name d info with
                      | Ok (p, id) => read_loop f dbg be sx h (with_file p ls id c) tomb
                      | Err e => (Err e, c)
                      | Panic => (Panic, c)
                      | OutOfFuel => (OutOfFuel, c)
                      end
                  | Err e => (Err e, c)
                  | Panic => (Panic, c)
                  | OutOfFuel => (OutOfFuel, c)
                  end
              | _ =>
                  match execute dbg h (cl_row c) i with
                  | Err e => (Err e, c)
                  | Panic => (Panic, c)
                  | OutOfFuel => (OutOfFuel, c)
                  | Ok (r', XErr e) => (Err e, with_row r' c)
                  | Ok (r', XNoRow) => read_loop f dbg be sx h (with_row r' c) tomb
                  | Ok (r', XRow) =>
                      let c := with_row r' c in
                      if tomb then
                        (* the reset that the next read_row call would have done *)
                        let c1 := if r_end r' then with_addr None c else c in
                        read_loop f dbg be sx h (with_row (row_reset h r') c1) (if r_end r' then false else tomb)
                      else if r_end r' then
                        match convert_address_offset c with
                        | Ok ao => (Ok (Some (CREndSequence ao)), c)
                        | Err e => (Err e, c)
                        | Panic => (Panic, c)
                        | OutOfFuel => (OutOfFuel, c)
                        end
                      else
                        match cl_addr c with
                        | Some a => (Ok (Some (CRSetAddress a)), with_st CSConvertRow (with_addr None c))
                        | None => ret_row h (with_st CSReadRow c)
                        end
                  end
              end
          end
      end
  end.

(* ConvertLineProgram::read_row *)
Definition read_row (dbg be : bool) (sx : secs) (h : header) (c : cl) : rr_out :=
  match cl_st c with
  | CSReadRow =>
      let c := with_row (row_reset h (cl_row c)) (with_addr None c) in
      read_loop (S (length (cl_inp c))) dbg be sx h c false
  | CSSetAddress =>
      match cl_addr c with
      | Some a => (Ok (Some (CRSetAddress a)), with_st CSConvertRow (with_addr None c))
      | None => ret_row h (with_st CSReadRow c)
      end
  | CSConvertRow => ret_row h (with_st CSReadRow c)
  end.

(* ------------------------------------------------------------------ read_sequence *)

Inductive seq_end : Type := SELength (n : N) | SEAddress (a : N).
Record clseq : Type := mk_clseq { cs_start : option N; cs_end : seq_end; cs_rows : list wrow }.

Definition rs_out : Type := (res (option clseq) * cl)%type.

(* the `while let Some(row) = self.read_row()?` loop of read_sequence; every read_row call either consumes an
   instruction or leaves the SetAddress/ConvertRow states: fuel = 2 * length input + 3 *)
Fixpoint seq_loop (fuel : nat) (dbg be : bool) (sx : secs) (h : header) (c : cl) (start : option N)
  (rows : list wrow) : rs_out :=
  match fuel with
  | O => (OutOfFuel, c)
  | S f =>
      match read_row dbg be sx h c with
      | (Ok None, c') =>
          match rows with
          | [] => (Ok None, c')
          | _ => (Err CMissingLineEndSequence, c')
          end
      | (Ok (Some (CRSetAddress a)), c') =>
          match rows with
          | [] => seq_loop f dbg be sx h c' (Some a) rows
          | _ => (Ok (Some (mk_clseq start (SEAddress a) rows)), with_st CSSetAddress (with_addr (Some a) c'))
          end
      | (Ok (Some (CRRow r)), c') => seq_loop f dbg be sx h c' start (rows ++ [r])
      | (Ok (Some (CREndSequence n)), c') => (Ok (Some (mk_clseq start (SELength n) rows)), c')
      | (Err e, c') => (Err e, c')
      | (Panic, c') => (Panic, c')
      | (OutOfFuel, c') => (OutOfFuel, c')
      end
  end.

Definition seq_fuel (c : cl) : nat := 2 * length (cl_inp c) + 3.

(* ConvertLineProgram::read_sequence *)
Definition read_sequence (dbg be : bool) (sx : secs) (h : header) (c : cl) : rs_out :=
  match cl_st c with
  | CSReadRow => seq_loop (seq_fuel c) dbg be sx h c None []
  | _ =>
      (* start = self.address; rows.push(self.convert_row()?); self.state = ReadRow *)
      match convert_row h c with
      | Ok r => seq_loop (seq_fuel c) dbg be sx h (with_st CSReadRow c) (cl_addr c) [r]
      | Err e => (Err e, c)
      | Panic => (Panic, c)
      | OutOfFuel => (OutOfFuel, c)
      end
  end.

(* ------------------------------------------------------------------ whole-program drivers *)

(* `while let Some(row) = convert.read_row()? { .. }` without touching the program: the events and how the
   iteration ended (stops at the first Err) *)
Fixpoint events_loop (fuel : nat) (dbg be : bool) (sx : secs) (h : header) (c : cl) : list clrow * status * cl :=
  match fuel with
  | O => ([], SFuel, c)
  | S f =>
      match read_row dbg be sx h c with
      | (Ok None, c') => ([], SEnd, c')
      | (Ok (Some ev), c') => let '(evs, s, cf) := events_loop f dbg be sx h c' in (ev :: evs, s, cf)
      | (Err e, c') => ([], SErr e, c')
      | (Panic, c') => ([], SPanic, c')
      | (OutOfFuel, c') => ([], SFuel, c')
      end
  end.
Definition events (dbg be : bool) (sx : secs) (h : header) (c : cl) : list clrow * status * cl :=
  events_loop (seq_fuel c) dbg be sx h c.

(* `while let Some(seq) = convert.read_sequence()? { .. }` *)
Fixpoint seqs_loop (fuel : nat) (dbg be : bool) (sx : secs) (h : header) (c : cl) : list clseq * status * cl :=
  match fuel with
  | O => ([], SFuel, c)
  | S f =>
      match read_sequence dbg be sx h c with
      | (Ok None, c') => ([], SEnd, c')
      | (Ok (Some s), c') => let '(ss, st, cf) := seqs_loop f dbg be sx h c' in (s :: ss, st, cf)
      | (Err e, c') => ([], SErr e, c')
      | (Panic, c') => ([], SPanic, c')
      | (OutOfFuel, c') => ([], SFuel, c')
      end
  end.
Definition sequences_conv (dbg be : bool) (sx : secs) (h : header) (c : cl) : list clseq * status * cl :=
  seqs_loop (seq_fuel c) dbg be sx h c.

(* the passthroughs: set_address / generate_row (`*self.program.row() = row; generate_row()`) / end_sequence *)
Definition apply_event (dbg : bool) (caddr : N -> option waddr) (p : prog) (ev : clrow) : res prog :=
  match ev with
  | CRSetAddress a =>
      match caddr a with
      | Some wa => Ok (LineWr.set_address p wa)
      | None => Err CInvalidAddress                            (* convert_address(address).ok_or(..)? *)
      end
  | CRRow r => generate_row dbg (set_row r p)
  | CREndSequence n => end_sequence dbg p n
  end.

(* ConvertLineProgram::convert: (program, files) *)
Fixpoint convert_loop (fuel : nat) (dbg be : bool) (sx : secs) (h : header) (caddr : N -> option waddr) (c : cl)
  : res cl :=
  match fuel with
  | O => OutOfFuel
  | S f =>
      match read_row dbg be sx h c with
      | (Ok None, c') => if p_in_seq (cl_prog c') then Err CMissingLineEndSequence else Ok c'
      | (Ok (Some ev), c') =>
          let* p := apply_event dbg caddr (cl_prog c') ev in
          convert_loop f dbg be sx h caddr (with_prog p c')
      | (Err e, _) => Err e
      | (Panic, _) => Panic
      | (OutOfFuel, _) => OutOfFuel
      end
  end.
Definition convert (dbg be : bool) (sx : secs) (h : header) (caddr : N -> option waddr) (c : cl) : res cl :=
  convert_loop (seq_fuel c) dbg be sx h caddr c.

(* ------------------------------------------------------------------ the two known-finding classes *)

(* F10 class, exactly the class the oracle streams use (harness/src/c12.rs midseq_set_address): a
   DW_LNE_set_address that is not the first address-affecting instruction of its sequence *)
Fixpoint midseq_scan (is : list insn) (moved : bool) : bool :=
  match is with
  | [] => false
  | LineSpec.ISetAddress _ :: r => if moved then true else midseq_scan r true
  | LineSpec.IEndSequence :: r => midseq_scan r false
  | LineSpec.ICopy :: r | LineSpec.ISpecial _ :: r | LineSpec.IAdvancePc _ :: r | LineSpec.IConstAddPc :: r
  | LineSpec.IFixedAddPc _ :: r => midseq_scan r true
  | _ :: r => midseq_scan r moved
  end.
Definition known_midseq (dbg be : bool) (h : header) : bool := midseq_scan (fst (insns_model dbg be h)) false.

(* VLIW class: maximum_operations_per_instruction > 1 (write::LineProgram::op_advance underflows when the
   op_index goes down at an unchanged address) *)
Definition known_vliw (h : header) : bool := 1 <? h_max_ops h.
