(* Model/RelocPar.v — the real gimli parsers written in the reader monad `prog` of Model/Reloc.v, so that the
   generic transparency theorem applies to them, plus a STATIC description of the relocatable fields.

   Every parser says, field by field and in the order of the Rust source, WHICH Reader method is used:
     PAddr = read_address, POffset = read_offset, PSized = read_sized_offset      (relocatable)
     PU n = read_u8..read_u128/read_uint, PWord = read_length/read_word, PUleb, PSleb (plain)
   read_null_terminated_slice (find + split + skip 1) is written as a loop of read_u8 up to the NUL: the same
   bytes are examined, the same error (UnexpectedEof) results when there is no NUL.
   `input.split(len)` whose head is handed out unread (blocks, expressions) is PSkip: no byte is examined.

     src/read/line.rs      LineProgramHeader::parse, FileEntryFormat::parse, parse_directory_v5, parse_file_v5,
                           FileEntry::parse, parse_attribute (line variant), LineInstruction::parse,
                           LineInstructions::next_instruction (iterated)
     src/read/unit.rs      parse_attribute
     src/read/rnglists.rs  RawRngListEntry::parse (Rle) + RawRngListIter::next (iterated)
     src/read/loclists.rs  RawLocListEntry::parse (Bare and Lle), parse_data + RawLocListIter::next (iterated)
     src/read/aranges.rs   ArangeHeader::parse, ArangeEntry::parse + ArangeEntryIter::next_raw (iterated)
     src/read/lookup.rs    PubStuffParser::parse_header / parse_entry + LookupEntryIter::next (iterated)

   `run_plain_tr` is the plain interpreter instrumented with the ghost trace of what it read how; run on the
   section with the relocations already applied it gives the static field map (`field_sites`) of the parser
   for that input.  No proofs here.  Stream: c18.parsers *)
From Coq Require Import List NArith ZArith Bool.
From Coq.Strings Require Import Byte.
Require Import GV.Base.Res GV.Base.Byt GV.Base.Ints GV.Model.Leb GV.Model.Prim GV.Spec.FormSpec GV.Model.Attr.
Require Import GV.Model.Reloc.
Import ListNotations.
Local Open Scope N_scope.

(* ------------------------------------------------------------------------------------------------ *)
(*                          static field map: the plain interpreter with a trace                    *)
(* ------------------------------------------------------------------------------------------------ *)

(* a non-relocatable read of a plain reader whose section starts at address `base` *)
Definition pt_plain {A} (base : N) (f : list byte -> res (A * list byte)) (r : rd) : tres (A * rd) :=
  let pos := off r - base in
  match rd_lift f r with
  | Ok (a, r') => ([EvPlain pos (rd_len r - rd_len r')], Ok (a, r'))
  | Err e => ([EvPlain pos (rd_len r)], Err e)
  | Panic => ([EvPlain pos (rd_len r)], Panic)
  | OutOfFuel => ([EvPlain pos (rd_len r)], OutOfFuel)
  end.

(* a relocatable method on a plain reader: a field of width w at pos holding v *)
Definition pt_rel (base w : N) (f : list byte -> res (N * list byte)) (r : rd) : tres (N * rd) :=
  match rd_lift f r with
  | Ok (v, r') => ([EvRel (off r - base) w v], Ok (v, r'))
  | Err e => ([], Err e)
  | Panic => ([], Panic)
  | OutOfFuel => ([], OutOfFuel)
  end.

Fixpoint run_plain_tr {A : Type} (be dbg : bool) (base : N) (p : prog A) (r : rd) : tres (A * rd) :=
  match p with
  | PRet a => tret (Ok (a, r))
  | PFail e => tret (Err e)
  | PNoFuel => tret OutOfFuel
  | PU n k => tbind (pt_plain base (read_un n be) r) (fun '(v, r') => run_plain_tr be dbg base (k v) r')
  | PUleb k => tbind (pt_plain base (read_uleb128 dbg) r) (fun '(v, r') => run_plain_tr be dbg base (k v) r')
  | PSleb k => tbind (pt_plain base (read_sleb128 dbg) r) (fun '(v, r') => run_plain_tr be dbg base (k v) r')
  | PSkip n k => tbind (tret (rd_skip n r)) (fun r' => run_plain_tr be dbg base k r')
  | PLen k => run_plain_tr be dbg base (k (rd_len r)) r
  | PAddr size k =>
      tbind (pt_rel base size (read_address size be) r) (fun '(v, r') => run_plain_tr be dbg base (k v) r')
  | POffset f k =>
      tbind (pt_rel base (word_size f) (read_word f be) r) (fun '(v, r') => run_plain_tr be dbg base (k v) r')
  | PSized size k =>
      tbind (pt_rel base size (read_sized_offset size be) r) (fun '(v, r') => run_plain_tr be dbg base (k v) r')
  | PWord f k => tbind (pt_plain base (read_word f be) r) (fun '(v, r') => run_plain_tr be dbg base (k v) r')
  | PSplit len sub k =>
      tbind (tret (rd_split len r)) (fun '(h, r') =>
      tbind (run_plain_tr be dbg base sub h) (fun '(a, _) =>
      run_plain_tr be dbg base (k a) r'))
  end.

(* the field map of parser p on section P: every span it reads, tagged plain / relocatable(width) *)
Definition field_trace {A} (be dbg : bool) (base : N) (p : prog A) (P : list byte) : list ev :=
  fst (run_plain_tr be dbg base p (mkRd base P)).

(* (position, width) of the relocatable fields *)
Definition field_sites (t : list ev) : list (N * N) :=
  flat_map (fun e => match e with EvRel pos w _ => [(pos, w)] | EvPlain _ _ => [] end) t.

(* a relocation set respects a field map: no site touches a span read plainly; a site touching a relocatable
   field IS that field (same position, same width).  Purely positional. *)
Definition shape_okb (R : list rrel) (e : ev) : bool :=
  match e with
  | EvPlain pos n => forallb (fun r => site_disjointb r pos n) R
  | EvRel pos w _ => forallb (fun r => if rr_pos r =? pos then rr_w r =? w else site_disjointb r pos w) R
  end.

(* every relocated value fits its field (for an implicit addend: raw field value + addend) *)
Definition fitsb (be : bool) (R : list rrel) (bs : list byte) : bool :=
  forallb (fun r => rrel_value r (dec_un be (slice bs (N.to_nat (rr_pos r)) (N.to_nat (rr_w r))))
                    <? 2 ^ (8 * rr_w r)) R.

(* the whole static side condition, for the streams *)
Definition static_okb {A} (be dbg : bool) (base : N) (R : list rrel) (p : prog A) (bs : list byte) : bool :=
  sites_disjointb R && fitsb be R bs && forallb (shape_okb R) (field_trace be dbg base p (apply_rrels be R bs)).

(* "R's sites are among the relocatable fields" *)
Definition site_inb (s : list (N * N)) (r : rrel) : bool :=
  existsb (fun pw => (fst pw =? rr_pos r) && (snd pw =? rr_w r)) s.
Definition sites_subsetb (R : list rrel) (t : list ev) : bool := forallb (site_inb (field_sites t)) R.

(* ------------------------------------------------------------------------------------------------ *)
(*                                         small combinators                                        *)
(* ------------------------------------------------------------------------------------------------ *)

(* read_null_terminated_slice; n counts the bytes before the NUL (the value handed to k) *)
Fixpoint p_cstr {A} (fuel : nat) (n : N) (k : N -> prog A) : prog A :=
  match fuel with
  | O => PNoFuel
  | S f => PU 1 (fun b => if b =? 0 then k n else p_cstr f (n + 1) k)
  end.

(* leb128::read::u16 (three read_u8) *)
Definition p_uleb_u16 {A} (k : N -> prog A) : prog A :=
  PU 1 (fun b0 =>
    if negb (has_cont b0) then k b0 else
    PU 1 (fun b1 =>
      let result := N.lor (low7 b0) (wrap16 (N.shiftl (low7 b1) 7)) in
      if negb (has_cont b1) then k result else
      PU 1 (fun b2 =>
        if 3 <? b2 then PFail EBadUnsignedLeb128
        else k (result + wrap16 (N.shiftl b2 14))))).

(* n times read_uleb128, values dropped *)
Fixpoint p_ulebs {A} (n : nat) (k : prog A) : prog A :=
  match n with O => k | S m => PUleb (fun _ => p_ulebs m k) end.

(* ------------------------------------------------------------------------------------------------ *)
(*                                src/read/unit.rs  parse_attribute                                 *)
(* ------------------------------------------------------------------------------------------------ *)

(* flat printing of an AttributeValue: [variant tag; payload]; blocks and strings by their length *)
Definition T_Addr := 1. Definition T_Block := 2. Definition T_Data1 := 3. Definition T_Data2 := 4.
Definition T_Data4 := 5. Definition T_Data8 := 6. Definition T_Data16 := 7. Definition T_Sdata := 8.
Definition T_Udata := 9. Definition T_Exprloc := 10. Definition T_Flag := 11. Definition T_SecOffset := 12.
Definition T_UnitRef := 13. Definition T_DebugInfoRef := 14. Definition T_DebugInfoRefSup := 15.
Definition T_DebugTypesRef := 16. Definition T_String := 17. Definition T_DebugStrRef := 18.
Definition T_DebugStrRefSup := 19. Definition T_DebugLineStrRef := 20. Definition T_DebugStrOffsetsIndex := 21.
Definition T_DebugAddrIndex := 22. Definition T_DebugLocListsIndex := 23. Definition T_DebugRngListsIndex := 24.

Definition attr_flat (v : attr_value) : list N :=
  match v with
  | VAddr a => [T_Addr; a] | VBlock b => [T_Block; blen b]
  | VData1 n => [T_Data1; n] | VData2 n => [T_Data2; n] | VData4 n => [T_Data4; n] | VData8 n => [T_Data8; n]
  | VData16 n => [T_Data16; n] | VSdata z => [T_Sdata; of_i64 z] | VUdata n => [T_Udata; n]
  | VExprloc b => [T_Exprloc; blen b] | VFlag f => [T_Flag; b2N f] | VSecOffset o => [T_SecOffset; o]
  | VUnitRef o => [T_UnitRef; o] | VDebugInfoRef o => [T_DebugInfoRef; o]
  | VDebugInfoRefSup o => [T_DebugInfoRefSup; o] | VDebugTypesRef s => [T_DebugTypesRef; s]
  | VString s => [T_String; blen s] | VDebugStrRef o => [T_DebugStrRef; o]
  | VDebugStrRefSup o => [T_DebugStrRefSup; o] | VDebugLineStrRef o => [T_DebugLineStrRef; o]
  | VDebugStrOffsetsIndex i => [T_DebugStrOffsetsIndex; i] | VDebugAddrIndex i => [T_DebugAddrIndex; i]
  | VDebugLocListsIndex i => [T_DebugLocListsIndex; i] | VDebugRngListsIndex i => [T_DebugRngListsIndex; i]
  | _ => [0; 0]     (* the normalised variants of Attribute::value are never produced by parse_attribute *)
  end.

Section AttrP.
  Context {A : Type}.
  Variable k : list N -> prog A.

  Definition num (tag : N) : N -> prog A := fun v => k [tag; v].
  (* length prefix read by `rd`, then split(len): the block itself is not examined *)
  Definition blk (tag : N) : N -> prog A := fun len => PSkip len (k [tag; len]).

  (* one arm of the `match form` of unit.rs parse_attribute other than DW_FORM_indirect; `fuel` bounds strings *)
  Definition p_attr_direct (fuel : nat) (e : enc) (spec : aspec) (form : N) : prog A :=
    if form =? DW_FORM_addr then PAddr (address_size e) (num T_Addr)
    else if form =? DW_FORM_block1 then PU 1 (blk T_Block)
    else if form =? DW_FORM_block2 then PU 2 (blk T_Block)
    else if form =? DW_FORM_block4 then PU 4 (blk T_Block)
    else if form =? DW_FORM_block then PUleb (blk T_Block)
    else if form =? DW_FORM_data1 then PU 1 (num T_Data1)
    else if form =? DW_FORM_data2 then PU 2 (num T_Data2)
    else if form =? DW_FORM_data4 then
      (if negb (fmt64 e) && allow_section_offset (at_name spec) (version e)
       then POffset false (num T_SecOffset) else PU 4 (num T_Data4))
    else if form =? DW_FORM_data8 then
      (if fmt64 e && allow_section_offset (at_name spec) (version e)
       then POffset true (num T_SecOffset) else PU 8 (num T_Data8))
    else if form =? DW_FORM_data16 then PU 16 (num T_Data16)
    else if form =? DW_FORM_udata then PUleb (num T_Udata)
    else if form =? DW_FORM_sdata then PSleb (fun z => k [T_Sdata; of_i64 z])
    else if form =? DW_FORM_exprloc then PUleb (blk T_Exprloc)
    else if form =? DW_FORM_flag then PU 1 (fun v => k [T_Flag; b2N (negb (v =? 0))])
    else if form =? DW_FORM_flag_present then k [T_Flag; 1]
    else if form =? DW_FORM_sec_offset then POffset (fmt64 e) (num T_SecOffset)
    else if form =? DW_FORM_ref1 then PU 1 (num T_UnitRef)
    else if form =? DW_FORM_ref2 then PU 2 (num T_UnitRef)
    else if form =? DW_FORM_ref4 then PU 4 (num T_UnitRef)
    else if form =? DW_FORM_ref8 then PU 8 (num T_UnitRef)
    else if form =? DW_FORM_ref_udata then PUleb (num T_UnitRef)
    else if form =? DW_FORM_ref_addr then
      (if version e =? 2 then PSized (address_size e) (num T_DebugInfoRef)
       else POffset (fmt64 e) (num T_DebugInfoRef))
    else if form =? DW_FORM_ref_sig8 then PU 8 (num T_DebugTypesRef)
    else if form =? DW_FORM_ref_sup4 then PU 4 (num T_DebugInfoRefSup)
    else if form =? DW_FORM_ref_sup8 then PU 8 (num T_DebugInfoRefSup)
    else if form =? DW_FORM_GNU_ref_alt then POffset (fmt64 e) (num T_DebugInfoRefSup)
    else if form =? DW_FORM_string then p_cstr fuel 0 (num T_String)
    else if form =? DW_FORM_strp then POffset (fmt64 e) (num T_DebugStrRef)
    else if (form =? DW_FORM_strp_sup) || (form =? DW_FORM_GNU_strp_alt) then
      POffset (fmt64 e) (num T_DebugStrRefSup)
    else if form =? DW_FORM_line_strp then POffset (fmt64 e) (num T_DebugLineStrRef)
    else if form =? DW_FORM_implicit_const then
      (match implicit_const_value spec with
       | Some z => k [T_Sdata; of_i64 z]
       | None => PFail EInvalidImplicitConst
       end)
    else if (form =? DW_FORM_strx) || (form =? DW_FORM_GNU_str_index) then PUleb (num T_DebugStrOffsetsIndex)
    else if form =? DW_FORM_strx1 then PU 1 (num T_DebugStrOffsetsIndex)
    else if form =? DW_FORM_strx2 then PU 2 (num T_DebugStrOffsetsIndex)
    else if form =? DW_FORM_strx3 then PU 3 (num T_DebugStrOffsetsIndex)
    else if form =? DW_FORM_strx4 then PU 4 (num T_DebugStrOffsetsIndex)
    else if (form =? DW_FORM_addrx) || (form =? DW_FORM_GNU_addr_index) then PUleb (num T_DebugAddrIndex)
    else if form =? DW_FORM_addrx1 then PU 1 (num T_DebugAddrIndex)
    else if form =? DW_FORM_addrx2 then PU 2 (num T_DebugAddrIndex)
    else if form =? DW_FORM_addrx3 then PU 3 (num T_DebugAddrIndex)
    else if form =? DW_FORM_addrx4 then PU 4 (num T_DebugAddrIndex)
    else if form =? DW_FORM_loclistx then PUleb (num T_DebugLocListsIndex)
    else if form =? DW_FORM_rnglistx then PUleb (num T_DebugRngListsIndex)
    else PFail EUnknownForm.

  (* the `loop` of parse_attribute over DW_FORM_indirect; `sfuel` bounds strings *)
  Fixpoint p_attr_form (fuel sfuel : nat) (e : enc) (spec : aspec) (form : N) : prog A :=
    if form =? DW_FORM_indirect then
      match fuel with
      | O => PNoFuel
      | S f => p_uleb_u16 (fun dynamic_form => p_attr_form f sfuel e spec dynamic_form)
      end
    else p_attr_direct sfuel e spec form.

End AttrP.

Definition p_attr (fuel : nat) (e : enc) (spec : aspec) : prog (list N) :=
  p_attr_form (fun v => PRet v) fuel fuel e spec (at_form spec).

(* the line-table variant continues with the value: it sits inside loops over entry formats *)
Definition p_line_attr {A} (sfuel : nat) (fmt : bool) (md5 : bool) (form : N) (k : list N -> prog A) : prog A :=
  if form =? DW_FORM_block1 then PU 1 (fun len => if md5 && (len =? 16) then PU 16 (fun v => k [T_Block; len; v]) else PSkip len (k [T_Block; len]))
  else if form =? DW_FORM_block2 then PU 2 (fun len => if md5 && (len =? 16) then PU 16 (fun v => k [T_Block; len; v]) else PSkip len (k [T_Block; len]))
  else if form =? DW_FORM_block4 then PU 4 (fun len => if md5 && (len =? 16) then PU 16 (fun v => k [T_Block; len; v]) else PSkip len (k [T_Block; len]))
  else if form =? DW_FORM_block then PUleb (fun len => if md5 && (len =? 16) then PU 16 (fun v => k [T_Block; len; v]) else PSkip len (k [T_Block; len]))
  else if form =? DW_FORM_data1 then PU 1 (fun v => k [T_Data1; v])
  else if form =? DW_FORM_data2 then PU 2 (fun v => k [T_Data2; v])
  else if form =? DW_FORM_data4 then PU 4 (fun v => k [T_Data4; v])
  else if form =? DW_FORM_data8 then PU 8 (fun v => k [T_Data8; v])
  else if form =? DW_FORM_data16 then (if md5 then PU 16 (fun v => k [T_Block; 16; v]) else PSkip 16 (k [T_Block; 16]))
  else if form =? DW_FORM_udata then PUleb (fun v => k [T_Udata; v])
  else if form =? DW_FORM_sdata then PSleb (fun z => k [T_Sdata; of_i64 z])
  else if form =? DW_FORM_flag then PU 1 (fun v => k [T_Flag; b2N (negb (v =? 0))])
  else if form =? DW_FORM_sec_offset then POffset fmt (fun v => k [T_SecOffset; v])
  else if form =? DW_FORM_string then p_cstr sfuel 0 (fun n => k [T_String; n])
  else if form =? DW_FORM_strp then POffset fmt (fun v => k [T_DebugStrRef; v])
  else if (form =? DW_FORM_strp_sup) || (form =? DW_FORM_GNU_strp_alt) then POffset fmt (fun v => k [T_DebugStrRefSup; v])
  else if form =? DW_FORM_line_strp then POffset fmt (fun v => k [T_DebugLineStrRef; v])
  else if (form =? DW_FORM_strx) || (form =? DW_FORM_GNU_str_index) then PUleb (fun v => k [T_DebugStrOffsetsIndex; v])
  else if form =? DW_FORM_strx1 then PU 1 (fun v => k [T_DebugStrOffsetsIndex; v])
  else if form =? DW_FORM_strx2 then PU 2 (fun v => k [T_DebugStrOffsetsIndex; v])
  else if form =? DW_FORM_strx3 then PU 3 (fun v => k [T_DebugStrOffsetsIndex; v])
  else if form =? DW_FORM_strx4 then PU 4 (fun v => k [T_DebugStrOffsetsIndex; v])
  else PFail EUnknownForm.

(* ------------------------------------------------------------------------------------------------ *)
(*                                       src/read/line.rs                                           *)
(* ------------------------------------------------------------------------------------------------ *)

Definition DW_LNCT_path : N := 1.
Definition DW_LNCT_MD5 : N := 5.

(* FileEntryFormat::parse: format_count (u8), then (content_type uleb128 clamped to u16::MAX, form uleb128_u16);
   exactly one DW_LNCT_path.  Continues with the list of (content_type, form). *)
Fixpoint p_entry_formats {A} (n : nat) (paths : N) (acc : list (N * N)) (k : list (N * N) -> prog A) : prog A :=
  match n with
  | O => if paths =? 1 then k acc else PFail EMissingFileEntryFormatPath
  | S m =>
      PUleb (fun ct =>
        let ct := if 65535 <? ct then 65535 else ct in
        p_uleb_u16 (fun form =>
          p_entry_formats m (if ct =? DW_LNCT_path then paths + 1 else paths) (acc ++ [(ct, form)]) k))
  end.
Definition p_file_entry_format {A} (k : list (N * N) -> prog A) : prog A :=
  PU 1 (fun cnt => p_entry_formats (N.to_nat cnt) 0 [] k).

(* parse_directory_v5 / parse_file_v5: one parse_attribute per format component, folded into the entry the
   caller can observe: a directory is its DW_LNCT_path value; a file is
   path ++ [directory_index; timestamp; size; md5] ++ source ([0;0] when absent).
   The MD5 block is read (read_u8_array) only by parse_file_v5. *)
Definition DW_LNCT_directory_index : N := 2.
Definition DW_LNCT_timestamp : N := 3.
Definition DW_LNCT_size : N := 4.
Definition DW_LNCT_LLVM_source : N := 8193.

Record fent : Type := mkFent { fe_path : list N; fe_dir : N; fe_ts : N; fe_size : N; fe_md5 : N; fe_src : list N }.
Definition fent0 : fent := mkFent [0; 0] 0 0 0 0 [0; 0].

(* AttributeValue::udata_value on the flat form *)
Definition flat_udata (v : list N) : option N :=
  match v with
  | [t; n] =>
      if (t =? T_Data1) || (t =? T_Data2) || (t =? T_Data4) || (t =? T_Data8) || (t =? T_Udata) then Some n
      else if t =? T_Sdata then (if n <? two63 then Some n else None)
      else None
  | _ => None
  end.

Definition fent_update (file : bool) (ct : N) (v : list N) (e : fent) : fent :=
  if ct =? DW_LNCT_path then mkFent (firstn 2 v) (fe_dir e) (fe_ts e) (fe_size e) (fe_md5 e) (fe_src e)
  else if negb file then e
  else if ct =? DW_LNCT_directory_index then
    match flat_udata v with Some n => mkFent (fe_path e) n (fe_ts e) (fe_size e) (fe_md5 e) (fe_src e) | None => e end
  else if ct =? DW_LNCT_timestamp then
    match flat_udata v with Some n => mkFent (fe_path e) (fe_dir e) n (fe_size e) (fe_md5 e) (fe_src e) | None => e end
  else if ct =? DW_LNCT_size then
    match flat_udata v with Some n => mkFent (fe_path e) (fe_dir e) (fe_ts e) n (fe_md5 e) (fe_src e) | None => e end
  else if ct =? DW_LNCT_MD5 then
    match v with [_; _; m] => mkFent (fe_path e) (fe_dir e) (fe_ts e) (fe_size e) m (fe_src e) | _ => e end
  else if ct =? DW_LNCT_LLVM_source then
    mkFent (fe_path e) (fe_dir e) (fe_ts e) (fe_size e) (fe_md5 e) (firstn 2 v)
  else e.

Definition fent_flat (file : bool) (e : fent) : list N :=
  if file then fe_path e ++ [fe_dir e; fe_ts e; fe_size e; fe_md5 e] ++ fe_src e else fe_path e.

Fixpoint p_entry_v5 {A} (sfuel : nat) (fmt file : bool) (formats : list (N * N)) (e : fent)
    (k : fent -> prog A) : prog A :=
  match formats with
  | [] => k e
  | (ct, form) :: rest =>
      p_line_attr sfuel fmt (file && (ct =? DW_LNCT_MD5)) form
        (fun v => p_entry_v5 sfuel fmt file rest (fent_update file ct v e) k)
  end.

Fixpoint p_entries_v5 {A} (fuel sfuel : nat) (fmt file : bool) (formats : list (N * N)) (count : N)
    (acc : list N) (k : list N -> prog A) : prog A :=
  if count =? 0 then k acc else
  match fuel with
  | O => PNoFuel
  | S f => p_entry_v5 sfuel fmt file formats fent0
             (fun e => p_entries_v5 f sfuel fmt file formats (count - 1) (acc ++ fent_flat file e) k)
  end.

(* version <= 4 include_directories: NUL-terminated strings up to an empty one *)
Fixpoint p_dirs_v4 {A} (fuel sfuel : nat) (acc : list N) (k : list N -> prog A) : prog A :=
  match fuel with
  | O => PNoFuel
  | S f => p_cstr sfuel 0 (fun n => if n =? 0 then k acc else p_dirs_v4 f sfuel (acc ++ [T_String; n]) k)
  end.

(* version <= 4 file_names: string, then FileEntry::parse = three uleb128 *)
Fixpoint p_files_v4 {A} (fuel sfuel : nat) (acc : list N) (k : list N -> prog A) : prog A :=
  match fuel with
  | O => PNoFuel
  | S f => p_cstr sfuel 0 (fun n =>
             if n =? 0 then k acc
             else PUleb (fun d => PUleb (fun t => PUleb (fun s => p_files_v4 f sfuel (acc ++ [T_String; n; d; t; s; 0; 0; 0]) k))))
  end.

(* standard_opcode_lengths = rest.split(opcode_base - 1); LineInstruction::parse reads one of its bytes lazily
   for an unknown standard opcode.  The model reads them all here (more plain reads than gimli: conservative). *)
Fixpoint p_u8s {A} (n : nat) (acc : list N) (k : list N -> prog A) : prog A :=
  match n with O => k acc | S m => PU 1 (fun v => p_u8s m (acc ++ [v]) k) end.

(* LineInstruction::parse; result appended to acc:
   [opcode; …]: extended as [0; sub-opcode; operand…] *)
Definition p_line_instr (sfuel : nat) (ver asz opcode_base : N) (lens : list N) (acc : list N)
    (k : list N -> prog (list N)) : prog (list N) :=
  PU 1 (fun opcode =>
    if opcode =? 0 then
      PUleb (fun length =>
        PSplit length
          (PU 1 (fun sub =>
             if sub =? 1 then PRet (acc ++ [0; 1])
             else if sub =? 2 then PAddr asz (fun a => PRet (acc ++ [0; 2; a]))
             else if sub =? 3 then
               (if ver <=? 4 then
                  p_cstr sfuel 0 (fun n => PUleb (fun d => PUleb (fun t => PUleb (fun s =>
                    PRet (acc ++ [0; 3; n; d; t; s])))))
                else PLen (fun l => PRet (acc ++ [0; 3; l])))
             else if sub =? 4 then PUleb (fun d => PRet (acc ++ [0; 4; d]))
             else PLen (fun l => PRet (acc ++ [0; sub; l]))))
          k)
    else if opcode_base <=? opcode then k (acc ++ [opcode])
    else if (opcode =? 1) || (opcode =? 6) || (opcode =? 7) || (opcode =? 8) || (opcode =? 10) || (opcode =? 11)
      then k (acc ++ [opcode])
    else if (opcode =? 2) || (opcode =? 4) || (opcode =? 5) || (opcode =? 12)
      then PUleb (fun v => k (acc ++ [opcode; v]))
    else if opcode =? 3 then PSleb (fun z => k (acc ++ [opcode; of_i64 z]))
    else if opcode =? 9 then PU 2 (fun v => k (acc ++ [opcode; v]))
    else
      (* opcode_lengths.skip(opcode - 1)?; read_u8()? *)
      match nth_error lens (N.to_nat (opcode - 1)) with
      | None => PFail EUnexpectedEof
      | Some num_args =>
          if num_args =? 0 then k (acc ++ [opcode])
          else if num_args =? 1 then PUleb (fun v => k (acc ++ [opcode; v]))
          else PLen (fun l0 => p_ulebs (N.to_nat num_args) (PLen (fun l1 => k (acc ++ [opcode; l0 - l1]))))
      end).

(* LineInstructions::next_instruction iterated to the end of program_buf *)
Fixpoint p_line_program (fuel sfuel : nat) (ver asz opcode_base : N) (lens : list N) (acc : list N)
    : prog (list N) :=
  match fuel with
  | O => PNoFuel
  | S f =>
      PLen (fun l =>
        if l =? 0 then PRet acc
        else p_line_instr sfuel ver asz opcode_base lens acc
               (fun acc' => p_line_program f sfuel ver asz opcode_base lens acc'))
  end.

(* LineProgramHeader::parse followed by the instruction iteration.  asz0 = the address size of the caller
   (DebugLine::program argument), replaced by the header's in version 5.
   Result: [unit_length; fmt; version; address_size; header_length; min_inst; max_ops; default_is_stmt;
            line_base(u8); line_range; opcode_base; 111; dirs…; 222; files…; 333; instructions…] *)
Definition p_line_header_fields (fuel sfuel : nat) (fmt : bool) (ver : N) (hd : list N)
    (k : list N -> N -> list N -> prog (list N)) : prog (list N) :=
  PU 1 (fun min_inst =>
    if min_inst =? 0 then PFail EMinimumInstructionLengthZero else
    (fun kk => if 4 <=? ver then PU 1 kk else kk 1) (fun max_ops =>
    if max_ops =? 0 then PFail EMaximumOperationsPerInstructionZero else
    PU 1 (fun dis => PU 1 (fun line_base => PU 1 (fun line_range =>
    if line_range =? 0 then PFail ELineRangeZero else
    PU 1 (fun opcode_base =>
    if opcode_base =? 0 then PFail EOpcodeBaseZero else
    PSplit (opcode_base - 1) (p_u8s (N.to_nat (opcode_base - 1)) [] (fun lens => PRet lens)) (fun lens =>
    let hd := hd ++ [min_inst; max_ops; b2N (negb (dis =? 0)); line_base; line_range; opcode_base; 111] in
    if ver <=? 4 then
      p_dirs_v4 fuel sfuel hd (fun hd => p_files_v4 fuel sfuel (hd ++ [222]) (fun hd => k hd opcode_base lens))
    else
      p_file_entry_format (fun dfmt =>
      PUleb (fun dcount =>
      p_entries_v5 fuel sfuel fmt false dfmt dcount hd (fun hd =>
      p_file_entry_format (fun ffmt =>
      PUleb (fun fcount =>
      p_entries_v5 fuel sfuel fmt true ffmt fcount (hd ++ [222]) (fun hd => k hd opcode_base lens))))))))))))).

(* PSplit's head parser and continuation share one result type: the header hands (opcode_base, lens, fields) to
   the instruction loop packed in one list *)
Definition pack_hdr (hd : list N) (ob : N) (lens : list N) : list N := ob :: N.of_nat (length lens) :: lens ++ hd.

Definition p_line (fuel : nat) (asz0 : N) : prog (list N) :=
  p_initial_length (fun unit_length fmt =>
    PSplit unit_length
      (PU 2 (fun ver =>
         if (ver <? 2) || (5 <? ver) then PFail EUnknownVersion else
         (fun kk => if 5 <=? ver then
                      p_address_size (fun a => PU 1 (fun seg =>
                        if seg =? 0 then kk a else PFail EUnsupportedSegmentSize))
                    else kk asz0) (fun asz =>
         PWord fmt (fun header_length =>
           (* program_buf = rest.clone().skip(header_length); rest.truncate(header_length) *)
           PSplit header_length
             (p_line_header_fields fuel fuel fmt ver [unit_length; word_size fmt; ver; asz; header_length]
                (fun hd ob lens => PRet (pack_hdr hd ob lens)))
             (fun packed =>
                match packed with
                | ob :: n :: rest =>
                    p_line_program fuel fuel ver asz ob (firstn (N.to_nat n) rest)
                                   (skipn (N.to_nat n) rest ++ [333])
                | _ => PFail EUnexpectedEof      (* unreachable: pack_hdr has two leading elements *)
                end)))))
      (fun x => PRet x)).

(* ------------------------------------------------------------------------------------------------ *)
(*                            src/read/rnglists.rs, loclists.rs (DWARF 5 encodings)                 *)
(* ------------------------------------------------------------------------------------------------ *)

(* RawRngListEntry::parse, RangeListsFormat::Rle, iterated by RawRngListIter::next.
   Entries: [kind; operands…]; only DW_RLE_base_address (5), start_end (6), start_length (7) hold addresses. *)
Fixpoint p_rnglist (fuel : nat) (asz : N) (acc : list N) : prog (list N) :=
  match fuel with
  | O => PNoFuel
  | S f =>
      PLen (fun l =>
        if l =? 0 then PRet acc else
        PU 1 (fun kind =>
          let next vs := p_rnglist f asz (acc ++ kind :: vs) in
          if kind =? 0 then PRet acc
          else if kind =? 1 then PUleb (fun a => next [a])
          else if (kind =? 2) || (kind =? 3) || (kind =? 4) then PUleb (fun a => PUleb (fun b => next [a; b]))
          else if kind =? 5 then PAddr asz (fun a => next [a])
          else if kind =? 6 then PAddr asz (fun a => PAddr asz (fun b => next [a; b]))
          else if kind =? 7 then PAddr asz (fun a => PUleb (fun b => next [a; b]))
          else PFail EUnknownRangeListsEntry))
  end.

(* loclists.rs parse_data: the expression is split off unread *)
Definition p_loc_data {A} (ver : N) (k : N -> prog A) : prog A :=
  if 5 <=? ver then PUleb (fun len => PSkip len (k len)) else PU 2 (fun len => PSkip len (k len)).

(* RawLocListEntry::parse, LocListsFormat::Lle (ver >= 5: .debug_loclists; ver 4: GNU split-dwarf .debug_loc.dwo) *)
Fixpoint p_loclist (fuel : nat) (ver asz : N) (acc : list N) : prog (list N) :=
  match fuel with
  | O => PNoFuel
  | S f =>
      PLen (fun l =>
        if l =? 0 then PRet acc else
        PU 1 (fun kind =>
          let next vs := p_loclist f ver asz (acc ++ kind :: vs) in
          if kind =? 0 then PRet acc
          else if kind =? 1 then PUleb (fun a => next [a])
          else if kind =? 2 then PUleb (fun a => PUleb (fun b => p_loc_data ver (fun d => next [a; b; d])))
          else if kind =? 3 then
            PUleb (fun a => (if 5 <=? ver then PUleb else PU 4) (fun b => p_loc_data ver (fun d => next [a; b; d])))
          else if kind =? 4 then PUleb (fun a => PUleb (fun b => p_loc_data ver (fun d => next [a; b; d])))
          else if kind =? 5 then p_loc_data ver (fun d => next [d])
          else if kind =? 6 then PAddr asz (fun a => next [a])
          else if kind =? 7 then PAddr asz (fun a => PAddr asz (fun b => p_loc_data ver (fun d => next [a; b; d])))
          else if kind =? 8 then PAddr asz (fun a => PUleb (fun b => p_loc_data ver (fun d => next [a; b; d])))
          else PFail EUnknownLocListsEntry))
  end.

(* LocListsFormat::Bare (.debug_loc): RawRange::parse, then for a real pair a u16 length and the expression *)
Fixpoint p_loc_bare (fuel : nat) (asz : N) (acc : list N) : prog (list N) :=
  match fuel with
  | O => PNoFuel
  | S f =>
      PLen (fun l =>
        if l =? 0 then PRet acc
        else PAddr asz (fun b => PAddr asz (fun e =>
          if (b =? 0) && (e =? 0) then PRet acc
          else if b =? mask_of asz then p_loc_bare f asz (acc ++ [1; e])
          else PU 2 (fun len => PSkip len (p_loc_bare f asz (acc ++ [2; b; e; len]))))))
  end.

(* ------------------------------------------------------------------------------------------------ *)
(*                                  src/read/aranges.rs, lookup.rs                                  *)
(* ------------------------------------------------------------------------------------------------ *)

(* ArangeEntry::parse iterated by ArangeEntryIter::next_raw: (0,0) tuples are skipped, a short tail ends the set *)
Fixpoint p_arange_tuples (fuel : nat) (asz : N) (acc : list N) : prog (list N) :=
  match fuel with
  | O => PNoFuel
  | S f =>
      PLen (fun l =>
        if l <? 2 * asz then PRet acc
        else PAddr asz (fun b => PAddr asz (fun len =>
          if (b =? 0) && (len =? 0) then p_arange_tuples f asz acc
          else p_arange_tuples f asz (acc ++ [b; len]))))
  end.

(* ArangeHeader::parse (first set of the section) followed by its tuples.
   Result: [length; fmt; version; debug_info_offset; address_size; tuples…] *)
Definition p_aranges (fuel : nat) : prog (list N) :=
  p_initial_length (fun length fmt =>
    PSplit length
      (PU 2 (fun ver =>
         if negb ((ver =? 2) || (ver =? 3)) then PFail EUnknownVersion else
         POffset fmt (fun dio =>
         p_address_size (fun asz =>
         PU 1 (fun seg =>
           if negb (seg =? 0) then PFail EUnsupportedSegmentSize else
           let header_length := (if fmt then 12 else 4) + 2 + word_size fmt + 1 + 1 in
           let tuple_length := 2 * asz in     (* asz in {1,2,4,8}: no u8 overflow, never 0 *)
           let padding := if header_length mod tuple_length =? 0 then 0
                          else tuple_length - header_length mod tuple_length in
           PSkip padding (p_arange_tuples fuel asz [length; word_size fmt; ver; dio; asz]))))))
      (fun x => PRet x)).

(* PubStuffParser::parse_entry iterated within one set: [unit_offset; die offset; name length] until offset 0 / set end *)
Fixpoint p_pub_entries (fuel sfuel : nat) (fmt : bool) (uo : N) (acc : list N) : prog (list N) :=
  match fuel with
  | O => PNoFuel
  | S f =>
      PLen (fun l =>
        if l =? 0 then PRet acc
        else POffset fmt (fun o =>
          if o =? 0 then PRet acc
          else p_cstr sfuel 0 (fun n => p_pub_entries f sfuel fmt uo (acc ++ [uo; o; n]))))
  end.

(* LookupEntryIter::next over all sets of .debug_pubnames / .debug_pubtypes:
   the entries of all sets (what the public iterator yields); unit_length is read_length: plain *)
Fixpoint p_pubnames (fuel sfuel : nat) (acc : list N) : prog (list N) :=
  match fuel with
  | O => PNoFuel
  | S f =>
      PLen (fun l =>
        if l =? 0 then PRet acc else
        p_initial_length (fun length fmt =>
          PSplit length
            (PU 2 (fun ver =>
               if negb (ver =? 2) then PFail EUnknownVersion else
               POffset fmt (fun unit_offset =>
               PWord fmt (fun unit_length =>
               p_pub_entries sfuel sfuel fmt unit_offset acc))))
            (fun acc' => p_pubnames f sfuel acc')))
  end.
