(* Model/ConvertLists.v — mirrors `RangeList::from` (/repo/src/write/range.rs `mod convert`) and
   `LocationList::from` (/repo/src/write/loc.rs `mod convert`): raw list entries (Spec/ListSpec.v `lent`,
   as the raw iterators of C08 yield them; an iterator error ends the conversion with that error) to the
   writer's entries (Spec/ListWrSpec.v `wrange` / `wloc`, C16).
     have_base_address bookkeeping (starts as `from_unit.low_pc != 0`, set by every base entry),
     DWARF <= 4 "address or offset pair" disambiguation, .debug_addr look-ups, empty ranges filtered.
   `cvt` = convert_address, `uaddr` = from_unit.address(index), `xconv` = Expression::from + serialisation
   (Model/ConvertExpr.v; the writer model of C16 holds an expression as the bytes it emits).
   Stream: c12.listconv. No proofs here. *)
From Coq Require Import List NArith ZArith Bool.
From Coq.Strings Require Import Byte.
Require Import GV.Base.Res GV.Base.Byt GV.Base.Ints GV.Spec.ListSpec GV.Model.ListsRd.
Require GV.Spec.ListWrSpec.
Module W := GV.Spec.ListWrSpec.
Import ListNotations.
Local Open Scope N_scope.

Section Conv.
  Variable cvt : N -> option W.addr.            (* convert_address *)
  Variable uaddr : N -> res N.                  (* from_unit.address(index) *)
  Variable xconv : list byte -> res (list byte). (* convert_expression *)

  (* `convert_address(x).ok_or(ConvertError::InvalidAddress)` *)
  Definition cva (a : N) : res W.addr := of_option CInvalidAddress (cvt a).

  (* `let (Address::Constant(b), Address::Constant(e)) = (begin, end) else { return Err(..) }` *)
  Definition both_const (b e : W.addr) : res (N * N) :=
    match b, e with
    | W.AConst bo, W.AConst eo => Ok (bo, eo)
    | _, _ => Err CInvalidRangeRelativeAddress
    end.

  (* ---- RangeList::from: one raw entry; result = (have_base_address afterwards, range) ---- *)
  Definition conv_range1 (hb : bool) (e : lent) : res (bool * W.wrange) :=
    match e with
    | LPair b en =>
        let* b' := cva b in
        let* e' := cva en in
        if hb then let* (bo, eo) := both_const b' e' in Ok (hb, W.ROffsetPair bo eo)
        else Ok (hb, W.RStartEnd b' e')
    | LBase a => let* a' := cva a in Ok (true, W.RBase a')
    | LBasex i => let* v := uaddr i in let* a' := cva v in Ok (true, W.RBase a')
    | LStartxEndx i j =>
        let* b := uaddr i in let* b' := cva b in
        let* en := uaddr j in let* e' := cva en in
        Ok (hb, W.RStartEnd b' e')
    | LStartxLength i len => let* b := uaddr i in let* b' := cva b in Ok (hb, W.RStartLength b' len)
    | LOffsetPair b en => Ok (hb, W.ROffsetPair b en)
    | LStartEnd b en => let* b' := cva b in let* e' := cva en in Ok (hb, W.RStartEnd b' e')
    | LStartLength b len => let* b' := cva b in Ok (hb, W.RStartLength b' len)
    | LDefault => Err EOther      (* RawRngListEntry has no such variant *)
    end.

  (* "Filtering empty ranges out": `continue` for these *)
  Definition keep_range (r : W.wrange) : bool :=
    match r with
    | W.RStartLength _ len => negb (len =? 0)
    | W.RStartEnd b e => negb (W.addr_eqb b e)
    | W.ROffsetPair b e => negb (b =? e)
    | W.RBase _ => true
    end.

  Fixpoint conv_ranges (hb : bool) (es : list (ev lent)) : res (list W.wrange) :=
    match es with
    | [] => Ok []
    | EvErr er :: _ => Err er
    | EvItem e :: r =>
        let* (hb', x) := conv_range1 hb e in
        let* xs := conv_ranges hb' r in
        Ok (if keep_range x then x :: xs else xs)
    end.

  (* `let mut have_base_address = from_unit.low_pc != 0;` *)
  Definition conv_range_list (low_pc : N) (es : list (ev lent)) : res (list W.wrange) :=
    conv_ranges (negb (low_pc =? 0)) es.

  (* ---- LocationList::from ---- *)
  Definition conv_loc1 (hb : bool) (x : lloc) : res (bool * W.wloc) :=
    let (e, data) := x in
    match e with
    | LPair b en =>
        let* b' := cva b in
        let* e' := cva en in
        let* d := xconv data in
        if hb then let* (bo, eo) := both_const b' e' in Ok (hb, W.LOffsetPair bo eo d)
        else Ok (hb, W.LStartEnd b' e' d)
    | LBase a => let* a' := cva a in Ok (true, W.LBase a')
    | LBasex i => let* v := uaddr i in let* a' := cva v in Ok (true, W.LBase a')
    | LStartxEndx i j =>
        let* b := uaddr i in let* b' := cva b in
        let* en := uaddr j in let* e' := cva en in
        let* d := xconv data in
        Ok (hb, W.LStartEnd b' e' d)
    | LStartxLength i len =>
        let* b := uaddr i in let* b' := cva b in
        let* d := xconv data in
        Ok (hb, W.LStartLength b' len d)
    | LOffsetPair b en => let* d := xconv data in Ok (hb, W.LOffsetPair b en d)
    | LStartEnd b en =>
        let* b' := cva b in let* e' := cva en in
        let* d := xconv data in
        Ok (hb, W.LStartEnd b' e' d)
    | LStartLength b len =>
        let* b' := cva b in
        let* d := xconv data in
        Ok (hb, W.LStartLength b' len d)
    | LDefault => let* d := xconv data in Ok (hb, W.LDefault d)
    end.

  Definition keep_loc (l : W.wloc) : bool :=
    match l with
    | W.LStartLength _ len _ => negb (len =? 0)
    | W.LStartEnd b e _ => negb (W.addr_eqb b e)
    | W.LOffsetPair b e _ => negb (b =? e)
    | W.LBase _ | W.LDefault _ => true
    end.

  Fixpoint conv_locs (hb : bool) (xs : list (ev lloc)) : res (list W.wloc) :=
    match xs with
    | [] => Ok []
    | EvErr er :: _ => Err er
    | EvItem x :: r =>
        let* (hb', y) := conv_loc1 hb x in
        let* ys := conv_locs hb' r in
        Ok (if keep_loc y then y :: ys else ys)
    end.

  Definition conv_loc_list (low_pc : N) (xs : list (ev lloc)) : res (list W.wloc) :=
    conv_locs (negb (low_pc =? 0)) xs.
End Conv.

(* the successfully read entries of a raw list *)
Fixpoint items {A} (l : list (ev A)) : list A :=
  match l with
  | [] => []
  | EvItem a :: r => a :: items r
  | EvErr _ :: r => items r
  end.

(* .debug_addr as the conversion sees it *)
Definition tbl_of (uaddr : N -> res N) (i : N) : option N :=
  match uaddr i with Ok v => Some v | _ => None end.

(* the addresses of a raw entry fit the address size (they were read with read_address at that size) *)
Definition lent_fits (asz : N) (e : lent) : Prop :=
  match e with
  | LPair b en | LStartEnd b en => b < amod asz /\ en < amod asz
  | LBase a => a < amod asz
  | LStartLength b _ => b < amod asz
  | _ => True
  end.
