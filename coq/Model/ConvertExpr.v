(* Model/ConvertExpr.v — mirrors /repo/src/write/op.rs `mod convert`: `Expression::from`
   (read::Expression -> write::Expression).
     first loop   -> op_ends   : the operations of the source expression with the offset after each one
                                 (`offsets` = 0 :: those offsets = operation starts ++ [len])
     second loop  -> conv_ops  : one arm per read::Operation variant (conv_op); DW_OP_skip / DW_OP_bra targets are
                                 resolved to operation indices by `offsets.binary_search`; DW_OP_entry_value recurses
   Source operations are the reader's (Model/OpDec.v, C07), results the writer's (Model/OpWr.v, C15).
   `offsets` is strictly increasing (every operation consumes at least its opcode byte: C07 decode_consumes),
   so `binary_search(&x)` is `Ok(i)` exactly for the unique i with offsets[i] = x: modelled by index_of.
   Second half (no proofs): what a decoded written operation must be for a source operation (same_op).
   Stream: c12.exprconv. *)
From Coq Require Import List NArith ZArith Bool.
From Coq.Strings Require Import Byte.
Require Import GV.Base.Res GV.Base.Byt GV.Base.Ints GV.Model.Leb GV.Model.Prim.
Require Import GV.Spec.OpEncSpec GV.Model.OpWr GV.Model.OpDec.
Import ListNotations.
Local Open Scope N_scope.

(* DW_OP_* constants used by the `Operation::Simple` arms *)
Definition DW_OP_drop : N := 19.        Definition DW_OP_swap : N := 22.    Definition DW_OP_rot : N := 23.
Definition DW_OP_abs : N := 25.         Definition DW_OP_and : N := 26.     Definition DW_OP_div : N := 27.
Definition DW_OP_minus : N := 28.       Definition DW_OP_mod : N := 29.     Definition DW_OP_mul : N := 30.
Definition DW_OP_neg : N := 31.         Definition DW_OP_not : N := 32.     Definition DW_OP_or : N := 33.
Definition DW_OP_plus : N := 34.        Definition DW_OP_shl : N := 36.     Definition DW_OP_shr : N := 37.
Definition DW_OP_shra : N := 38.        Definition DW_OP_xor : N := 39.     Definition DW_OP_eq : N := 41.
Definition DW_OP_ge : N := 42.          Definition DW_OP_gt : N := 43.      Definition DW_OP_le : N := 44.
Definition DW_OP_lt : N := 45.          Definition DW_OP_ne : N := 46.      Definition DW_OP_nop : N := 150.
Definition DW_OP_push_object_address : N := 151.
Definition DW_OP_form_tls_address : N := 155.
Definition DW_OP_call_frame_cfa : N := 156.
Definition DW_OP_stack_value : N := 159.
Definition DW_OP_GNU_uninit : N := 240.

(* offsets.binary_search(&x) on a strictly increasing vector *)
Fixpoint index_of (x : N) (l : list N) (i : N) : option N :=
  match l with
  | [] => None
  | y :: r => if y =? x then Some i else index_of x r (i + 1)
  end.

Section Conv.
  Variable dbg : bool.
  Variable e : OpDec.enc.                        (* `encoding` + the reader's byte order *)
  Variable unit_addr : option (N -> res N).      (* `unit`: Some(|index| unit.address(index)) *)
  Variable cvt_addr : N -> option waddr.         (* convert_address *)
  Variable unit_ref : N -> res N.                (* refs.convert_unit_ref: UnitOffset -> UnitEntryId.index *)
  Variable info_ref : N -> res dref.             (* refs.convert_debug_info_ref *)

  (* `while let Some(op) = from_operations.next()?` with `from_operations.offset_from(&from_expression)` after
     each operation; a parse error ends the conversion with that error (ConvertError::Read flattened) *)
  Fixpoint op_ends (fuel : nat) (bs : list byte) (pos : N) : res (list (operation * N)) :=
    match bs with
    | [] => Ok []
    | _ :: _ =>
        match fuel with
        | O => OutOfFuel
        | S f =>
            let* (o, r) := parse_op dbg e bs in
            let pos' := pos + (blen bs - blen r) in
            let* l := op_ends f r pos' in
            Ok ((o, pos') :: l)
        end
    end.

  Definition convert_address (a : N) : res waddr := of_option CInvalidAddress (cvt_addr a).

  (* `from_operations.offset_from(..).wrapping_add(i64::from(target) as usize)` then binary_search *)
  Definition branch_index (offsets : list N) (end_ : N) (target : Z) : res N :=
    of_option CInvalidBranchTarget (index_of (wrap64 (end_ + of_i64 target)) offsets 0).

  (* one arm of the `match from_operation`; `end_` = offset just after the operation;
     `nested` = Expression::from on the block of DW_OP_entry_value *)
  Definition conv_op (nested : list byte -> res wexpr) (offsets : list N) (o : operation) (end_ : N) : res wop :=
    match o with
    | ODeref base_type size space =>
        if negb (base_type =? 0) then let* b := unit_ref base_type in Ok (WoDerefType space size b)
        else if negb (size =? e_asz e) then Ok (WoDerefSize space size)
        else Ok (WoDeref space)
    | ODrop => Ok (WoSimple DW_OP_drop)
    | OPick index => Ok (WoPick index)
    | OSwap => Ok (WoSimple DW_OP_swap)
    | ORot => Ok (WoSimple DW_OP_rot)
    | OAbs => Ok (WoSimple DW_OP_abs)
    | OAnd => Ok (WoSimple DW_OP_and)
    | ODiv => Ok (WoSimple DW_OP_div)
    | OMinus => Ok (WoSimple DW_OP_minus)
    | OMod => Ok (WoSimple DW_OP_mod)
    | OMul => Ok (WoSimple DW_OP_mul)
    | ONeg => Ok (WoSimple DW_OP_neg)
    | ONot => Ok (WoSimple DW_OP_not)
    | OOr => Ok (WoSimple DW_OP_or)
    | OPlus => Ok (WoSimple DW_OP_plus)
    | OPlusConstant value => Ok (WoPlusConst value)
    | OShl => Ok (WoSimple DW_OP_shl)
    | OShr => Ok (WoSimple DW_OP_shr)
    | OShra => Ok (WoSimple DW_OP_shra)
    | OXor => Ok (WoSimple DW_OP_xor)
    | OEq => Ok (WoSimple DW_OP_eq)
    | OGe => Ok (WoSimple DW_OP_ge)
    | OGt => Ok (WoSimple DW_OP_gt)
    | OLe => Ok (WoSimple DW_OP_le)
    | OLt => Ok (WoSimple DW_OP_lt)
    | ONe => Ok (WoSimple DW_OP_ne)
    | OBra target => let* i := branch_index offsets end_ target in Ok (WoBranch i)
    | OSkip target => let* i := branch_index offsets end_ target in Ok (WoSkip i)
    | OUnsignedConstant value => Ok (WoUConst value)
    | OSignedConstant value => Ok (WoSConst value)
    | ORegister register => Ok (WoRegister register)
    | ORegisterOffset register offset base_type =>
        if negb (base_type =? 0) then let* b := unit_ref base_type in Ok (WoRegType register b)
        else Ok (WoRegOffset register offset)
    | OFrameOffset offset => Ok (WoFrameOffset offset)
    | ONop => Ok (WoSimple DW_OP_nop)
    | OPushObjectAddress => Ok (WoSimple DW_OP_push_object_address)
    | OCall (UnitRef offset) => let* en := unit_ref offset in Ok (WoCall en)
    | OCall (DebugInfoRef offset) => let* r := info_ref offset in Ok (WoCallRef r)
    | OVariableValue offset => let* r := info_ref offset in Ok (WoVarValue r)
    | OTLS => Ok (WoSimple DW_OP_form_tls_address)
    | OCallFrameCFA => Ok (WoSimple DW_OP_call_frame_cfa)
    | OPiece size_in_bits None => Ok (WoPiece (size_in_bits / 8))
    | OPiece size_in_bits (Some bit_offset) => Ok (WoBitPiece size_in_bits bit_offset)
    | OImplicitValue data => Ok (WoImplicitValue data)
    | OStackValue => Ok (WoSimple DW_OP_stack_value)
    | OImplicitPointer value byte_offset => let* r := info_ref value in Ok (WoImplicitPointer r byte_offset)
    | OEntryValue expression => let* x := nested expression in Ok (WoEntryValue x)
    | OParameterRef offset => let* en := unit_ref offset in Ok (WoParameterRef en)
    | OAddress address => let* a := convert_address address in Ok (WoAddress a)
    | OAddressIndex index =>
        let* ua := of_option CUnsupportedOperation unit_addr in
        let* val := ua index in
        let* a := convert_address val in Ok (WoAddress a)
    | OConstantIndex index =>
        let* ua := of_option CUnsupportedOperation unit_addr in
        let* val := ua index in Ok (WoUConst val)
    | OTypedLiteral base_type value => let* en := unit_ref base_type in Ok (WoConstType en value)
    | OConvert base_type =>
        if base_type =? 0 then Ok (WoConvert None) else let* en := unit_ref base_type in Ok (WoConvert (Some en))
    | OReinterpret base_type =>
        if base_type =? 0 then Ok (WoReinterpret None) else let* en := unit_ref base_type in Ok (WoReinterpret (Some en))
    | OUninitialized => Ok (WoSimple DW_OP_GNU_uninit)
    | OWasmLocal index => Ok (WoWasmLocal index)
    | OWasmGlobal index => Ok (WoWasmGlobal index)
    | OWasmStack index => Ok (WoWasmStack index)
    end.

  (* the second loop *)
  Fixpoint conv_ops (nested : list byte -> res wexpr) (offsets : list N) (l : list (operation * N)) : res wexpr :=
    match l with
    | [] => Ok []
    | (o, end_) :: r =>
        let* w := conv_op nested offsets o end_ in
        let* ws := conv_ops nested offsets r in
        Ok (w :: ws)
    end.

  Definition offsets_of (l : list (operation * N)) : list N := 0 :: map snd l.

  (* Expression::from; the recursion through DW_OP_entry_value blocks is bounded by the nesting depth, which
     is below the length of the expression: fuel = S (length bs) suffices *)
  Fixpoint conv_expr_fuel (fuel : nat) (bs : list byte) : res wexpr :=
    match fuel with
    | O => OutOfFuel
    | S f =>
        let* l := op_ends (S (length bs)) bs 0 in
        conv_ops (conv_expr_fuel f) (offsets_of l) l
    end.
  Definition conv_expr (bs : list byte) : res wexpr := conv_expr_fuel (S (length bs)) bs.
End Conv.

(* ------------------------------------------------------------------ what the written result must decode to *)

Section Same.
  Variable e : OpDec.enc.
  Variable unit_addr : option (N -> res N).
  Variable cvt_addr : N -> option waddr.
  Variable unit_ref : N -> res N.
  Variable info_ref : N -> res dref.
  (* the unit offset the writer assigned to an entry (OpWr.entry_offset dbg uo) *)
  Variable entry_off : N -> res N.
  (* `nested_written x wb`: the block wb is what the writer emitted for the conversion of the block x *)
  Variable nested_written : list byte -> list byte -> Prop.

  Definition typed_as (src : N) (k : N -> dop) (d : dop) : Prop :=
    exists en off, unit_ref src = Ok en /\ entry_off en = Ok off /\ d = k off.
  Definition entry_ref (src : N) : Prop := exists u en, info_ref src = Ok (REntry u en).

  (* soffs / woffs: operation start offsets (+ total length) of the source and of the written expression;
     end_ = offset after the source operation; wpos = offset of the written operation *)
  Definition same_op (soffs woffs : list N) (wpos : N) (o : operation) (end_ : N) (d : dop) : Prop :=
    let branch (target : Z) (k : Z -> dop) :=
      exists idx tv disp,
        index_of (wrap64 (end_ + of_i64 target)) soffs 0 = Some idx /\
        nth_N woffs idx = Some tv /\ (Z.of_N wpos + 3 + disp = Z.of_N tv)%Z /\ d = k disp in
    match o with
    | ODeref bt size space =>
        if bt =? 0 then d = DoDeref 0 size space else typed_as bt (fun off => DoDeref off size space) d
    | ODrop => d = DoSimple 19
    | OPick i => d = DoPick i
    | OSwap => d = DoSimple 22 | ORot => d = DoSimple 23 | OAbs => d = DoSimple 25 | OAnd => d = DoSimple 26
    | ODiv => d = DoSimple 27 | OMinus => d = DoSimple 28 | OMod => d = DoSimple 29 | OMul => d = DoSimple 30
    | ONeg => d = DoSimple 31 | ONot => d = DoSimple 32 | OOr => d = DoSimple 33 | OPlus => d = DoSimple 34
    | OPlusConstant v => d = DoPlusConst v
    | OShl => d = DoSimple 36 | OShr => d = DoSimple 37 | OShra => d = DoSimple 38 | OXor => d = DoSimple 39
    | OBra t => branch t DoBra
    | OEq => d = DoSimple 41 | OGe => d = DoSimple 42 | OGt => d = DoSimple 43 | OLe => d = DoSimple 44
    | OLt => d = DoSimple 45 | ONe => d = DoSimple 46
    | OSkip t => branch t DoSkip
    | OUnsignedConstant v => d = DoUConst v
    | OSignedConstant v => d = DoSConst v
    | ORegister r => d = DoRegister r
    | ORegisterOffset r off bt =>
        if bt =? 0 then d = DoRegOffset r off 0 else typed_as bt (fun b => DoRegOffset r 0 b) d
    | OFrameOffset off => d = DoFrameOffset off
    | ONop => d = DoSimple 150
    | OPushObjectAddress => d = DoSimple 151
    | OCall (UnitRef off) => typed_as off DoCallUnit d
    (* .debug_info references are written as a placeholder + fix-up (C15 ref_fixup / fixup_resolved) *)
    | OCall (DebugInfoRef off) => entry_ref off /\ d = DoCallRef 0
    | OVariableValue off => entry_ref off /\ d = DoVarValue 0
    | OTLS => d = DoSimple 155
    | OCallFrameCFA => d = DoSimple 156
    | OPiece bits None => d = DoPiece (bits / 8 * 8) None
    | OPiece bits (Some off) => d = DoPiece bits (Some off)
    | OImplicitValue data => d = DoImplicitValue data
    | OStackValue => d = DoSimple 159
    | OImplicitPointer v off => entry_ref v /\ d = DoImplicitPointer 0 off
    | OEntryValue x => exists wb, nested_written x wb /\ d = DoEntryValue wb
    | OParameterRef off => typed_as off DoParameterRef d
    | OAddress a => exists v, cvt_addr a = Some (AConst v) /\ d = DoAddress v
    | OAddressIndex i =>
        exists ua val v, unit_addr = Some ua /\ ua i = Ok val /\ cvt_addr val = Some (AConst v) /\ d = DoAddress v
    | OConstantIndex i => exists ua val, unit_addr = Some ua /\ ua i = Ok val /\ d = DoUConst val
    | OTypedLiteral bt value => typed_as bt (fun off => DoTypedLiteral off value) d
    | OConvert bt => if bt =? 0 then d = DoConvert 0 else typed_as bt DoConvert d
    | OReinterpret bt => if bt =? 0 then d = DoReinterpret 0 else typed_as bt DoReinterpret d
    | OUninitialized => d = DoSimple 240
    | OWasmLocal i => d = DoWasmLocal i
    | OWasmGlobal i => d = DoWasmGlobal i
    | OWasmStack i => d = DoWasmStack i
    end.
End Same.
