(* Model/ListsRd.v — mirrors, function by function,
     src/read/rnglists.rs : RangeLists::{raw_ranges, ranges, get_offset}, RawRange::{parse,is_end,is_base_address},
                            RawRngListEntry::parse, RawRngListIter::next, RngListIter::{next,convert_raw},
                            Range::add_base_address, DebugRngListsBase::default_for_encoding_and_file
     src/read/loclists.rs : LocationLists::{raw_locations, raw_locations_dwo, locations, locations_dwo, get_offset},
                            parse_data, RawLocListEntry::parse, RawLocListIter::next, LocListIter::{next,convert_raw}
     src/read/addr.rs     : DebugAddr::get_address
     src/read/str.rs      : DebugStrOffsets::get_str_offset
     src/read/dwarf.rs    : Dwarf::{address, attr_address, ranges_offset_from_raw, ranges_offset, attr_ranges_offset,
                            attr_ranges, die_ranges, locations_offset, attr_locations_offset}, RangeIter::next
     src/read/reader.rs   : ReaderAddress::{ones_sized (Base/Ints.v), wrapping_add_sized, min_tombstone} for
                            address sizes that were NOT validated by a preceding read_address.
   usize = u64 (R::Offset::from_u64 never fails).
   Streams: c08.rng c08.loc c08.rraw c08.lraw c08.bytes c08.tbl c08.die (see ocaml/s_c08.ml).  No proofs here. *)
From Coq Require Import List NArith ZArith Bool.
From Coq.Strings Require Import Byte.
Require Import GV.Base.Res GV.Base.Byt GV.Base.Ints GV.Model.Leb GV.Model.Prim GV.Spec.ListSpec.
Import ListNotations.
Local Open Scope N_scope.

(* ------------------------------------------------------------------ reader ops *)

(* Reader::skip(len) on a slice reader *)
Definition skip (n : N) (bs : list byte) : res (list byte) :=
  if N.of_nat (length bs) <? n then Err EUnexpectedEof else Ok (skipn (N.to_nat n) bs).

(* Reader::split(len) = read_slice(len) *)
Definition split (n : N) (bs : list byte) : res (list byte * list byte) :=
  if N.of_nat (length bs) <? n then Err EUnexpectedEof
  else Ok (firstn (N.to_nat n) bs, skipn (N.to_nat n) bs).

(* u64::checked_mul *)
Definition checked_mul64 (a b : N) : option N := if a * b <? two64 then Some (a * b) else None.

(* ReaderAddress for u64 with a size that nobody validated:
   ones_sized = `!0 >> (64 - size * 8)` in u8 arithmetic (Base/Ints.ones_sized keeps the panics) *)
Definition wrapping_add_sized_raw (dbg : bool) (a len size : N) : res N :=
  let* mask := ones_sized dbg size in
  Ok (N.land (wrap64 (a + len)) mask).
Definition min_tombstone_raw (dbg : bool) (size : N) : res N :=
  wrapping_add_sized_raw dbg 0 (two64 - 2) size.

(* ------------------------------------------------------------------ indexed tables *)

(* DebugAddr::get_address(address_size, base, index) *)
Definition get_address (be : bool) (debug_addr : list byte) (asize base index : N) : res N :=
  let* r1 := skip base debug_addr in
  match checked_mul64 index asize with
  | None => Err EUnexpectedEof
  | Some io =>
      let* r2 := skip io r1 in
      let* (a, _) := read_address asize be r2 in
      Ok a
  end.

(* RangeLists::get_offset / LocationLists::get_offset (identical code on different sections) *)
Definition get_offset (be fmt64 : bool) (sect : list byte) (base index : N) : res N :=
  let* r1 := skip base sect in
  match checked_mul64 index (word_size fmt64) with
  | None => Err EUnexpectedEof
  | Some io =>
      let* r2 := skip io r1 in
      let* (off, _) := read_word fmt64 be r2 in
      if base + off <? two64 then Ok (base + off) else Err EUnsupportedOffset
  end.

(* DebugStrOffsets::get_str_offset *)
Definition get_str_offset (be fmt64 : bool) (sect : list byte) (base index : N) : res N :=
  let* r1 := skip base sect in
  match checked_mul64 index (word_size fmt64) with
  | None => Err EUnexpectedEof
  | Some io =>
      let* r2 := skip io r1 in
      let* (off, _) := read_word fmt64 be r2 in
      Ok off
  end.

(* Debug{Rng,Loc}ListsBase::default_for_encoding_and_file: ListsHeader::size_for_encoding in a v5 .dwo *)
Definition default_lists_base (version : N) (fmt64 dwo : bool) : N :=
  if (5 <=? version) && dwo then (if fmt64 then 12 else 4) + 2 + 1 + 1 + 4 else 0.

(* ------------------------------------------------------------------ raw entries *)

(* RawRange::parse + is_end + is_base_address (shared by .debug_ranges and .debug_loc).
   Result: None = end of list, Some (inl a) = base address selection, Some (inr (b,e)) = pair *)
Definition parse_raw_range (dbg : bool) (c : lcfg) (inp : list byte)
  : res (option (N + N * N) * list byte) :=
  let* (b, r1) := read_address (c_asize c) (c_be c) inp in
  let* (e, r2) := read_address (c_asize c) (c_be c) r1 in
  if (b =? 0) && (e =? 0) then Ok (None, r2)
  else
    let* ones := ones_sized dbg (c_asize c) in
    if b =? ones then Ok (Some (inl e), r2) else Ok (Some (inr (b, e)), r2).

(* RawRngListEntry::parse; bare = RangeListsFormat::Bare *)
Definition rng_parse (dbg : bool) (c : lcfg) (bare : bool) (inp : list byte)
  : res (option lent * list byte) :=
  if bare then
    let* (o, r) := parse_raw_range dbg c inp in
    match o with
    | None => Ok (None, r)
    | Some (inl a) => Ok (Some (LBase a), r)
    | Some (inr (b, e)) => Ok (Some (LPair b e), r)
    end
  else
    let* (op, r0) := read_u8 inp in
    if op =? 0 then Ok (None, r0)
    else if op =? 1 then
      let* (i, r1) := read_uleb128 dbg r0 in Ok (Some (LBasex i), r1)
    else if op =? 2 then
      let* (i, r1) := read_uleb128 dbg r0 in
      let* (j, r2) := read_uleb128 dbg r1 in Ok (Some (LStartxEndx i j), r2)
    else if op =? 3 then
      let* (i, r1) := read_uleb128 dbg r0 in
      let* (l, r2) := read_uleb128 dbg r1 in Ok (Some (LStartxLength i l), r2)
    else if op =? 4 then
      let* (b, r1) := read_uleb128 dbg r0 in
      let* (e, r2) := read_uleb128 dbg r1 in Ok (Some (LOffsetPair b e), r2)
    else if op =? 5 then
      let* (a, r1) := read_address (c_asize c) (c_be c) r0 in Ok (Some (LBase a), r1)
    else if op =? 6 then
      let* (b, r1) := read_address (c_asize c) (c_be c) r0 in
      let* (e, r2) := read_address (c_asize c) (c_be c) r1 in Ok (Some (LStartEnd b e), r2)
    else if op =? 7 then
      let* (b, r1) := read_address (c_asize c) (c_be c) r0 in
      let* (l, r2) := read_uleb128 dbg r1 in Ok (Some (LStartLength b l), r2)
    else Err EUnknownRangeListsEntry.

(* loclists.rs parse_data *)
Definition parse_data (dbg : bool) (c : lcfg) (inp : list byte) : res (list byte * list byte) :=
  if 5 <=? c_version c then
    let* (len, r) := read_uleb128 dbg inp in split len r
  else
    let* (len, r) := read_u16 (c_be c) inp in split len r.

(* RawLocListEntry::parse; bare = LocListsFormat::Bare *)
Definition loc_parse (dbg : bool) (c : lcfg) (bare : bool) (inp : list byte)
  : res (option lloc * list byte) :=
  if bare then
    let* (o, r) := parse_raw_range dbg c inp in
    match o with
    | None => Ok (None, r)
    | Some (inl a) => Ok (Some (LBase a, []), r)
    | Some (inr (b, e)) =>
        let* (len, r1) := read_u16 (c_be c) r in
        let* (d, r2) := split len r1 in
        Ok (Some (LPair b e, d), r2)
    end
  else
    let* (op, r0) := read_u8 inp in
    if op =? 0 then Ok (None, r0)
    else if op =? 1 then
      let* (i, r1) := read_uleb128 dbg r0 in Ok (Some (LBasex i, []), r1)
    else if op =? 2 then
      let* (i, r1) := read_uleb128 dbg r0 in
      let* (j, r2) := read_uleb128 dbg r1 in
      let* (d, r3) := parse_data dbg c r2 in Ok (Some (LStartxEndx i j, d), r3)
    else if op =? 3 then
      let* (i, r1) := read_uleb128 dbg r0 in
      let* (l, r2) := (if 5 <=? c_version c then read_uleb128 dbg r1 else read_u32 (c_be c) r1) in
      let* (d, r3) := parse_data dbg c r2 in Ok (Some (LStartxLength i l, d), r3)
    else if op =? 4 then
      let* (b, r1) := read_uleb128 dbg r0 in
      let* (e, r2) := read_uleb128 dbg r1 in
      let* (d, r3) := parse_data dbg c r2 in Ok (Some (LOffsetPair b e, d), r3)
    else if op =? 5 then
      let* (d, r1) := parse_data dbg c r0 in Ok (Some (LDefault, d), r1)
    else if op =? 6 then
      let* (a, r1) := read_address (c_asize c) (c_be c) r0 in Ok (Some (LBase a, []), r1)
    else if op =? 7 then
      let* (b, r1) := read_address (c_asize c) (c_be c) r0 in
      let* (e, r2) := read_address (c_asize c) (c_be c) r1 in
      let* (d, r3) := parse_data dbg c r2 in Ok (Some (LStartEnd b e, d), r3)
    else if op =? 8 then
      let* (b, r1) := read_address (c_asize c) (c_be c) r0 in
      let* (l, r2) := read_uleb128 dbg r1 in
      let* (d, r3) := parse_data dbg c r2 in Ok (Some (LStartLength b l, d), r3)
    else Err EUnknownLocListsEntry.

(* Raw{Rng,Loc}ListIter::next — generic in the parser: returns the result and the iterator's new input.
   `input.empty()` both at the end-of-list entry and on any error. *)
Definition raw_next {A : Type} (parse : list byte -> res (option A * list byte)) (inp : list byte)
  : res (option A) * list byte :=
  match inp with
  | [] => (Ok None, [])
  | _ :: _ =>
      match parse inp with
      | Ok (Some e, rest) => (Ok (Some e), rest)
      | Ok (None, _) => (Ok None, [])
      | Err e => (Err e, [])
      | Panic => (Panic, [])
      | OutOfFuel => (OutOfFuel, [])
      end
  end.

Definition rng_raw_next dbg c bare := raw_next (rng_parse dbg c bare).
Definition loc_raw_next dbg c bare := raw_next (loc_parse dbg c bare).

(* ------------------------------------------------------------------ resolution *)

(* what RngListIter / LocListIter hold besides the raw iterator *)
Record lctx : Type := { x_addr : list byte;   (* .debug_addr *)
                        x_addr_base : N }.

Definition ctx_address (c : lcfg) (x : lctx) (i : N) : res N :=
  get_address (c_be c) (x_addr x) (c_asize c) (x_addr_base x) i.

(* {Rng,Loc}ListIter::convert_raw: the two Rust functions have the same body up to the expression payload
   (and the DefaultLocation arm, which only the location parser produces).
   Result: (optional range, new base address). *)
Definition convert_raw (dbg : bool) (c : lcfg) (x : lctx) (base : N) (e : lent)
  : res (option (N * N) * N) :=
  let sz := c_asize c in
  let finish (r : N * N) : res (option (N * N) * N) :=
    let* tomb := min_tombstone_raw dbg sz in
    if (tomb <=? fst r) || (snd r <=? fst r) then Ok (None, base) else Ok (Some r, base) in
  match e with
  | LBase a => Ok (None, a)
  | LBasex i => let* a := ctx_address c x i in Ok (None, a)
  | LStartxEndx i j =>
      let* b := ctx_address c x i in
      let* e := ctx_address c x j in
      finish (b, e)
  | LStartxLength i l =>
      let* b := ctx_address c x i in
      let* e := wrapping_add_sized_raw dbg b l sz in
      finish (b, e)
  | LDefault => finish (0, two64 - 1)
  | LPair b e | LOffsetPair b e =>
      let* tomb := min_tombstone_raw dbg sz in
      if tomb <=? base then Ok (None, base)
      else
        let* b' := wrapping_add_sized_raw dbg base b sz in
        let* e' := wrapping_add_sized_raw dbg base e sz in
        finish (b', e')
  | LStartEnd b e => finish (b, e)
  | LStartLength b l =>
      let* e := wrapping_add_sized_raw dbg b l sz in
      finish (b, e)
  end.

(* iterator state: remaining input of the raw iterator + running base address *)
Record lstate : Type := { s_inp : list byte; s_base : N }.

(* RngListIter::next and LocListIter::next are the same loop around their own raw iterator and their own
   convert_raw; `list_next` is that loop, generic in the raw parser, in the projection of a raw entry to its
   address part, and in the constructor of the yielded item (Range / LocationListEntry{range, data}).
   The `loop` consumes input on every turn; fuel = |input| + 1 always suffices (Proofs: list_next_fuel).
   A convert_raw error is returned WITHOUT emptying the raw input (only raw.next() errors empty it). *)
Fixpoint list_next {A B : Type} (parse : list byte -> res (option A * list byte))
         (ent : A -> lent) (mk : N * N -> A -> B)
         (fuel : nat) (dbg : bool) (c : lcfg) (x : lctx) (s : lstate)
  : res (option B) * lstate :=
  match fuel with
  | O => (OutOfFuel, s)
  | S f =>
      let (r, inp') := raw_next parse (s_inp s) in
      match r with
      | Ok None => (Ok None, {| s_inp := inp'; s_base := s_base s |})
      | Ok (Some a) =>
          match convert_raw dbg c x (s_base s) (ent a) with
          | Ok (Some rg, base') => (Ok (Some (mk rg a)), {| s_inp := inp'; s_base := base' |})
          | Ok (None, base') => list_next parse ent mk f dbg c x {| s_inp := inp'; s_base := base' |}
          | Err er => (Err er, {| s_inp := inp'; s_base := s_base s |})
          | Panic => (Panic, {| s_inp := inp'; s_base := s_base s |})
          | OutOfFuel => (OutOfFuel, s)
          end
      | Err er => (Err er, {| s_inp := inp'; s_base := s_base s |})
      | Panic => (Panic, {| s_inp := inp'; s_base := s_base s |})
      | OutOfFuel => (OutOfFuel, s)
      end
  end.

(* RngListIter::next *)
Definition rng_next (fuel : nat) (dbg : bool) (c : lcfg) (bare : bool) (x : lctx) (s : lstate)
  : res (option (N * N)) * lstate :=
  list_next (rng_parse dbg c bare) (fun e => e) (fun rg _ => rg) fuel dbg c x s.

(* LocListIter::next *)
Definition loc_next (fuel : nat) (dbg : bool) (c : lcfg) (bare : bool) (x : lctx) (s : lstate)
  : res (option ((N * N) * list byte)) * lstate :=
  list_next (loc_parse dbg c bare) fst (fun rg a => (rg, snd a)) fuel dbg c x s.

Definition next_fuel (s : lstate) : nat := S (length (s_inp s)).

(* ------------------------------------------------------------------ entry points *)

(* RangeLists::raw_ranges: (input after the offset, bare?) *)
Definition raw_ranges (c : lcfg) (debug_ranges debug_rnglists : list byte) (offset : N)
  : res (list byte * bool) :=
  if c_version c <=? 4 then let* r := skip offset debug_ranges in Ok (r, true)
  else let* r := skip offset debug_rnglists in Ok (r, false).

(* LocationLists::raw_locations / raw_locations_dwo *)
Definition raw_locations (c : lcfg) (dwo : bool) (debug_loc debug_loclists : list byte) (offset : N)
  : res (list byte * bool) :=
  if c_version c <=? 4 then let* r := skip offset debug_loc in Ok (r, negb dwo)
  else let* r := skip offset debug_loclists in Ok (r, false).

(* ------------------------------------------------------------------ draining (what a caller of the
   iterators observes): every call of next until Ok(None); an Err is recorded and iteration goes on;
   a panic ends everything. fuel = number of calls allowed; |input| + 2 always suffices. *)
Inductive ev (A : Type) : Type := EvItem (a : A) | EvErr (e : error).
Arguments EvItem {A} a.
Arguments EvErr {A} e.

Fixpoint drain {A St : Type} (next : St -> res (option A) * St) (calls : nat) (s : St) : res (list (ev A)) :=
  match calls with
  | O => OutOfFuel
  | S k =>
      let (r, s') := next s in
      match r with
      | Ok None => Ok []
      | Ok (Some a) => let* l := drain next k s' in Ok (EvItem a :: l)
      | Err e => let* l := drain next k s' in Ok (EvErr e :: l)
      | Panic => Panic
      | OutOfFuel => OutOfFuel
      end
  end.

Definition rng_raw_drain dbg c bare (inp : list byte) : res (list (ev lent)) :=
  drain (rng_raw_next dbg c bare) (length inp + 2) inp.
Definition loc_raw_drain dbg c bare (inp : list byte) : res (list (ev lloc)) :=
  drain (loc_raw_next dbg c bare) (length inp + 2) inp.
Definition rng_drain dbg c bare x (s : lstate) : res (list (ev (N * N))) :=
  drain (fun s => rng_next (next_fuel s) dbg c bare x s) (length (s_inp s) + 2) s.
Definition loc_drain dbg c bare x (s : lstate) : res (list (ev ((N * N) * list byte))) :=
  drain (fun s => loc_next (next_fuel s) dbg c bare x s) (length (s_inp s) + 2) s.

(* RangeLists::ranges(offset, encoding, base_address, debug_addr, addr_base) drained *)
Definition ranges_all dbg c x (debug_ranges debug_rnglists : list byte) (offset base : N)
  : res (list (ev (N * N))) :=
  let* (inp, bare) := raw_ranges c debug_ranges debug_rnglists offset in
  rng_drain dbg c bare x {| s_inp := inp; s_base := base |}.
Definition raw_ranges_all dbg c (debug_ranges debug_rnglists : list byte) (offset : N)
  : res (list (ev lent)) :=
  let* (inp, bare) := raw_ranges c debug_ranges debug_rnglists offset in
  rng_raw_drain dbg c bare inp.
Definition locations_all dbg c dwo x (debug_loc debug_loclists : list byte) (offset base : N)
  : res (list (ev ((N * N) * list byte))) :=
  let* (inp, bare) := raw_locations c dwo debug_loc debug_loclists offset in
  loc_drain dbg c bare x {| s_inp := inp; s_base := base |}.
Definition raw_locations_all dbg c dwo (debug_loc debug_loclists : list byte) (offset : N)
  : res (list (ev lloc)) :=
  let* (inp, bare) := raw_locations c dwo debug_loc debug_loclists offset in
  loc_raw_drain dbg c bare inp.

(* ------------------------------------------------------------------ Dwarf-level helpers *)

(* the fields of Dwarf + Unit that the helpers read *)
Record uctx : Type := {
  u_cfg : lcfg; u_fmt64 : bool; u_dwo : bool;
  u_low_pc : N; u_addr_base : N; u_rnglists_base : N; u_loclists_base : N;
  u_debug_addr : list byte; u_debug_ranges : list byte; u_debug_rnglists : list byte;
  u_debug_loclists : list byte }.

Definition u_lctx (u : uctx) : lctx := {| x_addr := u_debug_addr u; x_addr_base := u_addr_base u |}.

(* attribute values after Attribute::value() normalisation, as far as these helpers distinguish them *)
Inductive aval : Type :=
| AvAddr (a : N) | AvAddrx (i : N) | AvUdata (n : N)
| AvRangesRef (o : N) | AvRnglistx (i : N)
| AvLocRef (o : N) | AvLoclistx (i : N)
| AvOther.
Inductive aname : Type := AtLowPc | AtHighPc | AtRanges | AtOther.

(* Dwarf::address / attr_address *)
Definition attr_address (u : uctx) (v : aval) : res (option N) :=
  match v with
  | AvAddr a => Ok (Some a)
  | AvAddrx i => let* a := ctx_address (u_cfg u) (u_lctx u) i in Ok (Some a)
  | _ => Ok None
  end.

(* Dwarf::ranges_offset_from_raw *)
Definition ranges_offset_from_raw (u : uctx) (off : N) : N :=
  if u_dwo u && (c_version (u_cfg u) <? 5) then wrap64 (off + u_rnglists_base u) else off.

(* Dwarf::attr_ranges_offset *)
Definition attr_ranges_offset (u : uctx) (v : aval) : res (option N) :=
  match v with
  | AvRangesRef o => Ok (Some (ranges_offset_from_raw u o))
  | AvRnglistx i =>
      let* o := get_offset (c_be (u_cfg u)) (u_fmt64 u) (u_debug_rnglists u) (u_rnglists_base u) i in
      Ok (Some o)
  | _ => Ok None
  end.

(* Dwarf::attr_locations_offset *)
Definition attr_locations_offset (u : uctx) (v : aval) : res (option N) :=
  match v with
  | AvLocRef o => Ok (Some o)
  | AvLoclistx i =>
      let* o := get_offset (c_be (u_cfg u)) (u_fmt64 u) (u_debug_loclists u) (u_loclists_base u) i in
      Ok (Some o)
  | _ => Ok None
  end.

(* RangeIterInner *)
Inductive range_iter : Type :=
| RiSingle (o : option (N * N))
| RiList (bare : bool) (s : lstate).

(* Dwarf::attr_ranges = attr_ranges_offset + Dwarf::ranges(unit, offset) *)
Definition attr_ranges (u : uctx) (v : aval) : res (option range_iter) :=
  let* oo := attr_ranges_offset u v in
  match oo with
  | None => Ok None
  | Some off =>
      let* (inp, bare) := raw_ranges (u_cfg u) (u_debug_ranges u) (u_debug_rnglists u) off in
      Ok (Some (RiList bare {| s_inp := inp; s_base := u_low_pc u |}))
  end.

(* Dwarf::die_ranges: the `for attr in entry.attrs()` loop, state (low_pc, high_pc, size);
   `begin.checked_add(size).ok_or(Error::AddressOverflow)?` since /repo 3fe3498 *)
Fixpoint die_ranges_loop (u : uctx) (attrs : list (aname * aval))
         (low high size : option N) : res range_iter :=
  match attrs with
  | [] =>
      match low with
      | None => Ok (RiSingle None)
      | Some b =>
          match size with
          | Some n => if b + n <? two64 then Ok (RiSingle (Some (b, b + n))) else Err EAddressOverflow
          | None => match high with
                    | Some e => Ok (RiSingle (Some (b, e)))
                    | None => Ok (RiSingle None)
                    end
          end
      end
  | (AtLowPc, v) :: rest =>
      let* o := attr_address u v in
      match o with
      | Some a => die_ranges_loop u rest (Some a) high size
      | None => Err EUnsupportedAttributeForm
      end
  | (AtHighPc, AvUdata n) :: rest => die_ranges_loop u rest low high (Some n)
  | (AtHighPc, v) :: rest =>
      let* o := attr_address u v in
      match o with
      | Some a => die_ranges_loop u rest low (Some a) size
      | None => Err EUnsupportedAttributeForm
      end
  | (AtRanges, v) :: rest =>
      let* o := attr_ranges u v in
      match o with
      | Some it => Ok it
      | None => die_ranges_loop u rest low high size
      end
  | (AtOther, _) :: rest => die_ranges_loop u rest low high size
  end.

Definition die_ranges (u : uctx) (attrs : list (aname * aval)) : res range_iter :=
  die_ranges_loop u attrs None None None.

(* RangeIter::next drained *)
Definition range_iter_drain (dbg : bool) (u : uctx) (it : range_iter) : res (list (ev (N * N))) :=
  match it with
  | RiSingle None => Ok []
  | RiSingle (Some r) => Ok [EvItem r]
  | RiList bare s => rng_drain dbg (u_cfg u) bare (u_lctx u) s
  end.

Definition die_ranges_all (dbg : bool) (u : uctx) (attrs : list (aname * aval)) : res (list (ev (N * N))) :=
  let* it := die_ranges u attrs in range_iter_drain dbg u it.
