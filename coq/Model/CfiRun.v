(* Model/CfiRun.v — mirrors, function by function, /repo/src/read/cfi.rs:
     CallFrameInstruction::parse, CallFrameInstructionIter::next,
     RegisterRuleMap::{get,set,clear,eq}, UnwindTableRow, UnwindContext::{new_in,reset,
     initialize,save_initial_rules,get_initial_rule,push_row,pop_row,...},
     UnwindTable::{new,new_for_cie,new_for_fde,next_row,evaluate},
     FrameDescriptionEntry::{end_address, rows, unwind_info_for_address}
   and the capacity behaviour of /repo/src/read/util.rs ArrayVec::{try_push,try_insert,
   pop,swap_remove,clear} (capacities are parameters: Some n = [T; n], None = Vec<T>).
   A CIE/FDE is taken as already parsed (Model/CfiRd.v, property C05, parses them):
   code/data alignment factors, address size, initial address, address range, the two
   instruction byte strings with their section offsets, byte order, vendor.
   Only `.debug_frame` without augmentation is modelled here: DW_CFA_set_loc reads a plain
   address (`address_encoding = None`); encoded pointers belong to C05.
   Correspondence streams: c06.insn c06.seq c06.rand c06.raw c06.at  c20.hist
   NO proofs in this file. *)
From Coq Require Import List NArith ZArith Bool.
From Coq.Strings Require Import Byte.
Require Import GV.Base.Res GV.Base.Byt GV.Base.Ints GV.Model.Leb GV.Model.Prim GV.Spec.CfaSpec.
Import ListNotations.
Local Open Scope N_scope.

(* ------------------------------------------------------------ decoding *)

(* Register::from_u64 (read/mod.rs): `let y = x as u16; if u64::from(y) == x` *)
Definition reg_from_u64 (x : N) : res reg :=
  let y := wrap16 x in
  if y =? x then Ok y else Err EUnsupportedRegister.

(* read_uleb128().and_then(Register::from_u64) *)
Definition rd_reg (dbg : bool) (bs : list byte) : res (reg * list byte) :=
  let* (v, r) := read_uleb128 dbg bs in
  let* g := reg_from_u64 v in
  Ok (g, r).

(* bytes consumed between a reader state and a later one *)
Definition consumed (bs rest : list byte) : N := N.of_nat (length bs - length rest).

(* Reader::skip on a slice: no allocation, so the length is compared before converting *)
Definition skip_n (len : N) (bs : list byte) : res (list byte) :=
  if N.of_nat (length bs) <? len then Err EUnexpectedEof
  else Ok (skipn (N.to_nat len) bs).

(* `length = read_uleb128().and_then(Offset::from_u64)?; offset = input.offset_from(section);
   input.skip(length)?` — Offset = usize = u64, from_u64 cannot fail.
   [off]/[all]: section offset and contents of the reader when the instruction started. *)
Definition rd_expr (dbg : bool) (off : N) (all bs : list byte) : res (uexpr * list byte) :=
  let* (len, r) := read_uleb128 dbg bs in
  let o := off + consumed all r in
  let* r2 := skip_n len r in
  Ok ({| ue_off := o; ue_len := len |}, r2).

(* CallFrameInstruction::parse with address_encoding = None.
   [aarch64] = (vendor == Vendor::AArch64). *)
Definition parse_insn (dbg be : bool) (asize : N) (aarch64 : bool) (off : N) (bs : list byte)
  : res (insn * list byte) :=
  let* (op, r) := read_u8 bs in
  let high := N.land op 192 in
  let low := N.land op 63 in
  if high =? 64 then Ok (IAdvanceLoc low, r)
  else if high =? 128 then
    let* (o, r1) := read_uleb128 dbg r in Ok (IOffset low o, r1)
  else if high =? 192 then Ok (IRestore low, r)
  else (* debug_assert_eq!(high_bits, 0): the three other values were handled *)
  if op =? 0 then Ok (INop, r)
  else if op =? 1 then
    let* (a, r1) := read_address asize be r in Ok (ISetLoc a, r1)
  else if op =? 2 then
    let* (d, r1) := read_u8 r in Ok (IAdvanceLoc d, r1)
  else if op =? 3 then
    let* (d, r1) := read_u16 be r in Ok (IAdvanceLoc d, r1)
  else if op =? 4 then
    let* (d, r1) := read_u32 be r in Ok (IAdvanceLoc d, r1)
  else if op =? 5 then
    let* (g, r1) := rd_reg dbg r in
    let* (o, r2) := read_uleb128 dbg r1 in Ok (IOffset g o, r2)
  else if op =? 6 then
    let* (g, r1) := rd_reg dbg r in Ok (IRestore g, r1)
  else if op =? 7 then
    let* (g, r1) := rd_reg dbg r in Ok (IUndefined g, r1)
  else if op =? 8 then
    let* (g, r1) := rd_reg dbg r in Ok (ISameValue g, r1)
  else if op =? 9 then
    let* (d, r1) := rd_reg dbg r in
    let* (s, r2) := rd_reg dbg r1 in Ok (IRegister d s, r2)
  else if op =? 10 then Ok (IRememberState, r)
  else if op =? 11 then Ok (IRestoreState, r)
  else if op =? 12 then
    let* (g, r1) := rd_reg dbg r in
    let* (o, r2) := read_uleb128 dbg r1 in Ok (IDefCfa g o, r2)
  else if op =? 13 then
    let* (g, r1) := rd_reg dbg r in Ok (IDefCfaRegister g, r1)
  else if op =? 14 then
    let* (o, r1) := read_uleb128 dbg r in Ok (IDefCfaOffset o, r1)
  else if op =? 15 then
    let* (e, r1) := rd_expr dbg off bs r in Ok (IDefCfaExpression e, r1)
  else if op =? 16 then
    let* (g, r1) := rd_reg dbg r in
    let* (e, r2) := rd_expr dbg off bs r1 in Ok (IExpression g e, r2)
  else if op =? 17 then
    let* (g, r1) := rd_reg dbg r in
    let* (o, r2) := read_sleb128 dbg r1 in Ok (IOffsetExtendedSf g o, r2)
  else if op =? 18 then
    let* (g, r1) := rd_reg dbg r in
    let* (o, r2) := read_sleb128 dbg r1 in Ok (IDefCfaSf g o, r2)
  else if op =? 19 then
    let* (o, r1) := read_sleb128 dbg r in Ok (IDefCfaOffsetSf o, r1)
  else if op =? 20 then
    let* (g, r1) := rd_reg dbg r in
    let* (o, r2) := read_uleb128 dbg r1 in Ok (IValOffset g o, r2)
  else if op =? 21 then
    let* (g, r1) := rd_reg dbg r in
    let* (o, r2) := read_sleb128 dbg r1 in Ok (IValOffsetSf g o, r2)
  else if op =? 22 then
    let* (g, r1) := rd_reg dbg r in
    let* (e, r2) := rd_expr dbg off bs r1 in Ok (IValExpression g e, r2)
  else if op =? 46 then
    let* (n, r1) := read_uleb128 dbg r in Ok (IArgsSize n, r1)
  else if (op =? 45) && aarch64 then Ok (INegateRaState, r)
  else Err EUnknownCallFrameInstruction.

(* CallFrameInstructionIter { input, .. }: the remaining bytes and their section offset *)
Record cfi_iter := { it_off : N; it_bytes : list byte }.

(* decoding parameters fixed by the section / CIE *)
Record dparams := { d_be : bool; d_asize : N; d_aarch64 : bool }.

(* CallFrameInstructionIter::next: on error the input is emptied *)
Definition iter_next (dbg : bool) (d : dparams) (it : cfi_iter) : res (option insn) * cfi_iter :=
  match it_bytes it with
  | [] => (Ok None, it)
  | _ :: _ =>
      match parse_insn dbg (d_be d) (d_asize d) (d_aarch64 d) (it_off it) (it_bytes it) with
      | Ok (i, rest) =>
          (Ok (Some i), {| it_off := it_off it + consumed (it_bytes it) rest; it_bytes := rest |})
      | Err e =>
          (* `self.input.empty()`: the reader keeps the position it had reached inside the failed
             instruction (not observable: the iterator yields None from now on) and has no bytes left *)
          (Err e, {| it_off := it_off it; it_bytes := [] |})
      | Panic => (Panic, it)
      | OutOfFuel => (OutOfFuel, it)
      end
  end.

(* the whole stream, decoded the way the iterator does it: stops at the first error *)
Fixpoint decode_fuel (fuel : nat) (dbg : bool) (d : dparams) (it : cfi_iter) : list item :=
  match fuel with
  | O => [BadFuel]
  | S f =>
      match iter_next dbg d it with
      | (Ok None, _) => []
      | (Ok (Some i), it') => It i :: decode_fuel f dbg d it'
      | (Err e, _) => [Bad e]
      | (Panic, _) => [BadPanic]
      | (OutOfFuel, _) => [BadFuel]
      end
  end.
Definition decode (dbg : bool) (d : dparams) (off : N) (bs : list byte) : list item :=
  decode_fuel (S (length bs)) dbg d {| it_off := off; it_bytes := bs |}.

(* -------------------------------------------------------- RegisterRuleMap *)

(* ArrayVec::try_push / try_insert refuse when len >= capacity (Vec grows instead) *)
Definition cap_full (cap : option nat) (len : nat) : bool :=
  match cap with Some c => Nat.leb c len | None => false end.

(* RegisterRuleMap::get: first entry with that register *)
Definition rm_get (r : reg) (m : rmap) : option rule := lookup r m.

(* the in-place overwrite of RegisterRuleMap::set; None if the register is absent *)
Fixpoint rm_replace (r : reg) (x : rule) (m : rmap) : option rmap :=
  match m with
  | [] => None
  | (r', y) :: t =>
      if r' =? r then Some ((r', x) :: t)
      else match rm_replace r x t with
           | Some t' => Some ((r', y) :: t')
           | None => None
           end
  end.

Definition rm_set (cap : option nat) (r : reg) (x : rule) (m : rmap) : res rmap :=
  match rm_replace r x m with
  | Some m' => Ok m'
  | None =>
      if cap_full cap (length m) then Err ETooManyRegisterRules
      else Ok (m ++ [(r, x)])
  end.

(* RegisterRuleMap::clear: swap_remove(idx) of the first match — the last element takes
   the removed slot. (`rev t = y :: rt` says y is the last element of t.) *)
Fixpoint rm_clear (r : reg) (m : rmap) : rmap :=
  match m with
  | [] => []
  | (r', y) :: t =>
      if r' =? r then
        match rev t with
        | [] => []
        | z :: rt => z :: rev rt
        end
      else (r', y) :: rm_clear r t
  end.

Definition uexpr_eqb (a b : uexpr) : bool := (ue_off a =? ue_off b) && (ue_len a =? ue_len b).
Definition rule_eqb (a b : rule) : bool :=
  match a, b with
  | RUndefined, RUndefined | RSameValue, RSameValue | RArchitectural, RArchitectural => true
  | ROffset x, ROffset y | RValOffset x, RValOffset y => (x =? y)%Z
  | RRegister x, RRegister y | RConstant x, RConstant y => x =? y
  | RExpression x, RExpression y | RValExpression x, RValExpression y => uexpr_eqb x y
  | _, _ => false
  end.
Definition orule_eqb (a b : option rule) : bool :=
  match a, b with
  | Some x, Some y => rule_eqb x y
  | None, None => true
  | _, _ => false
  end.
(* impl PartialEq for RegisterRuleMap: order-insensitive *)
Definition rm_eq (a b : rmap) : bool :=
  forallb (fun p => orule_eqb (Some (snd p)) (rm_get (fst p) b)) a &&
  forallb (fun p => orule_eqb (Some (snd p)) (rm_get (fst p) a)) b.

(* ---------------------------------------------------------- UnwindContext *)

Record row := {
  r_start : N; r_end : N; r_args : N;
  r_cfa : cfa_rule;
  r_regs : rmap
}.
Definition default_row : row :=
  {| r_start := 0; r_end := 0; r_args := 0; r_cfa := CfaRegOff 0 0; r_regs := [] |}.

(* The stack is kept TOP FIRST: head = `stack.last()`, last element = `stack[0]`;
   `try_push` is cons, `try_insert(0, x)` appends at the end, `pop` drops the head. *)
Record ctx := {
  c_stack : list row;
  c_initial_rule : option (option (reg * rule));
  c_init : bool
}.

(* UnwindContext::reset: clear, then try_push(default).unwrap() *)
Definition reset (c : caps) (_ : ctx) : res ctx :=
  if cap_full (max_stack c) 0 then Panic
  else Ok {| c_stack := [default_row]; c_initial_rule := None; c_init := false |}.

(* UnwindContext::new_in *)
Definition new_ctx (c : caps) : res ctx :=
  reset c {| c_stack := []; c_initial_rule := None; c_init := false |}.

(* row() / row_mut(): stack.last().unwrap() *)
Definition top (x : ctx) : res row :=
  match c_stack x with [] => Panic | r :: _ => Ok r end.
Definition with_top (f : row -> row) (x : ctx) : res ctx :=
  match c_stack x with
  | [] => Panic
  | r :: t => Ok {| c_stack := f r :: t; c_initial_rule := c_initial_rule x; c_init := c_init x |}
  end.

Definition set_start (a : N) (r : row) : row :=
  {| r_start := a; r_end := r_end r; r_args := r_args r; r_cfa := r_cfa r; r_regs := r_regs r |}.
Definition set_end (a : N) (r : row) : row :=
  {| r_start := r_start r; r_end := a; r_args := r_args r; r_cfa := r_cfa r; r_regs := r_regs r |}.
Definition set_args (n : N) (r : row) : row :=
  {| r_start := r_start r; r_end := r_end r; r_args := n; r_cfa := r_cfa r; r_regs := r_regs r |}.
Definition set_cfa (c : cfa_rule) (r : row) : row :=
  {| r_start := r_start r; r_end := r_end r; r_args := r_args r; r_cfa := c; r_regs := r_regs r |}.
Definition set_regs (m : rmap) (r : row) : row :=
  {| r_start := r_start r; r_end := r_end r; r_args := r_args r; r_cfa := r_cfa r; r_regs := m |}.

Definition with_stack (st : list row) (x : ctx) : ctx :=
  {| c_stack := st; c_initial_rule := c_initial_rule x; c_init := c_init x |}.

(* set_register_rule / clear_register_rule *)
Definition set_register_rule (c : caps) (r : reg) (x : rule) (cx : ctx) : res ctx :=
  let* t := top cx in
  let* m := rm_set (max_rules c) r x (r_regs t) in
  with_top (set_regs m) cx.
Definition clear_register_rule (r : reg) (cx : ctx) : res ctx :=
  let* t := top cx in
  with_top (set_regs (rm_clear r (r_regs t))) cx.

Fixpoint last_opt {A} (l : list A) : option A :=
  match l with
  | [] => None
  | [a] => Some a
  | _ :: t => last_opt t
  end.

(* save_initial_rules *)
Definition save_initial_rules (dbg : bool) (c : caps) (cx : ctx) : res ctx :=
  if dbg && c_init cx then Panic (* debug_assert!(!self.is_initialized) *) else
  match c_stack cx with
  | [] => Panic
  | t :: _ =>
      match r_regs t with
      | [] => Ok {| c_stack := c_stack cx; c_initial_rule := Some None; c_init := true |}
      | [rl] => Ok {| c_stack := c_stack cx; c_initial_rule := Some (Some rl); c_init := true |}
      | _ =>
          if cap_full (max_stack c) (length (c_stack cx)) then Err EStackFull
          else Ok {| c_stack := c_stack cx ++ [t]; c_initial_rule := None; c_init := true |}
      end
  end.

(* get_initial_rule: None = "not initialised"; Some None = default rule *)
Definition get_initial_rule (cx : ctx) (r : reg) : res (option (option rule)) :=
  if negb (c_init cx) then Ok None else
  match c_initial_rule cx with
  | None =>
      match last_opt (c_stack cx) with
      | None => Panic                       (* self.stack[0] *)
      | Some r0 => Ok (Some (rm_get r (r_regs r0)))
      end
  | Some (Some (r', x)) => if r' =? r then Ok (Some (Some x)) else Ok (Some None)
  | Some None => Ok (Some None)
  end.

Definition push_row (c : caps) (cx : ctx) : res ctx :=
  let* t := top cx in
  if cap_full (max_stack c) (length (c_stack cx)) then Err EStackFull
  else Ok (with_stack (t :: c_stack cx) cx).

Definition pop_row (cx : ctx) : res ctx :=
  let min_size :=
    if c_init cx && (match c_initial_rule cx with None => true | Some _ => false end)
    then 2%nat else 1%nat in
  if Nat.leb (length (c_stack cx)) min_size then Err EPopWithEmptyStack
  else match c_stack cx with
       | [] => Panic                         (* pop().unwrap() *)
       | _ :: t => Ok (with_stack t cx)
       end.

(* ------------------------------------------------------------ UnwindTable *)

Record tbl := {
  t_caf : N;                (* Wrapping<u64> *)
  t_daf : Z;                (* Wrapping<i64> *)
  t_asize : N;
  t_next_start : N;
  t_last_end : N;
  t_returned_last : bool;
  t_cur_valid : bool;
  t_ctx : ctx
}.

Definition with_ctx (cx : ctx) (t : tbl) : tbl :=
  {| t_caf := t_caf t; t_daf := t_daf t; t_asize := t_asize t; t_next_start := t_next_start t;
     t_last_end := t_last_end t; t_returned_last := t_returned_last t; t_cur_valid := t_cur_valid t;
     t_ctx := cx |}.
Definition with_next_start (a : N) (t : tbl) : tbl :=
  {| t_caf := t_caf t; t_daf := t_daf t; t_asize := t_asize t; t_next_start := a;
     t_last_end := t_last_end t; t_returned_last := t_returned_last t; t_cur_valid := t_cur_valid t;
     t_ctx := t_ctx t |}.
Definition with_flags (ret valid : bool) (t : tbl) : tbl :=
  {| t_caf := t_caf t; t_daf := t_daf t; t_asize := t_asize t; t_next_start := t_next_start t;
     t_last_end := t_last_end t; t_returned_last := ret; t_cur_valid := valid;
     t_ctx := t_ctx t |}.

(* (Wrapping(a) * Wrapping(b)).0 on i64 *)
Definition wmul_i64 (a b : Z) : Z := wrap_signed 64 (a * b).

(* `self.ctx.row_mut().registers.set(..)` etc. lifted to the table *)
Definition t_set_rule (c : caps) (r : reg) (x : rule) (t : tbl) : res (bool * tbl) :=
  let* cx := set_register_rule c r x (t_ctx t) in Ok (false, with_ctx cx t).
Definition t_upd_top (f : row -> row) (t : tbl) : res (bool * tbl) :=
  let* cx := with_top f (t_ctx t) in Ok (false, with_ctx cx t).

(* UnwindTable::evaluate. Address sizes are 1,2,4,8 here (fde_rows checks, as
   FrameDescriptionEntry::parse_addresses does), so Prim.add_sized applies. *)
Definition evaluate (c : caps) (t : tbl) (i : insn) : res (bool * tbl) :=
  match i with
  | ISetLoc a =>
      let* tp := top (t_ctx t) in
      if a <? r_start tp then Err EInvalidCfiSetLoc else
      let t1 := with_next_start a t in
      let* cx := with_top (set_end a) (t_ctx t1) in
      Ok (true, with_ctx cx t1)
  | IAdvanceLoc d =>
      let delta := wrap64 (d * t_caf t) in
      let* tp := top (t_ctx t) in
      let* a := add_sized (r_start tp) delta (t_asize t) in
      let t1 := with_next_start a t in
      let* cx := with_top (set_end a) (t_ctx t1) in
      Ok (true, with_ctx cx t1)
  | IDefCfa r off => t_upd_top (set_cfa (CfaRegOff r (to_i64 off))) t
  | IDefCfaSf r fo => t_upd_top (set_cfa (CfaRegOff r (wmul_i64 fo (t_daf t)))) t
  | IDefCfaRegister r =>
      let* tp := top (t_ctx t) in
      match r_cfa tp with
      | CfaRegOff _ o => t_upd_top (set_cfa (CfaRegOff r o)) t
      | CfaExpr _ => Err ECfiInstructionInInvalidContext
      end
  | IDefCfaOffset off =>
      let* tp := top (t_ctx t) in
      match r_cfa tp with
      | CfaRegOff r _ => t_upd_top (set_cfa (CfaRegOff r (to_i64 off))) t
      | CfaExpr _ => Err ECfiInstructionInInvalidContext
      end
  | IDefCfaOffsetSf fo =>
      let* tp := top (t_ctx t) in
      match r_cfa tp with
      | CfaRegOff r _ => t_upd_top (set_cfa (CfaRegOff r (wmul_i64 fo (t_daf t)))) t
      | CfaExpr _ => Err ECfiInstructionInInvalidContext
      end
  | IDefCfaExpression e => t_upd_top (set_cfa (CfaExpr e)) t
  | IUndefined r => t_set_rule c r RUndefined t
  | ISameValue r => t_set_rule c r RSameValue t
  | IOffset r fo => t_set_rule c r (ROffset (wmul_i64 (to_i64 fo) (t_daf t))) t
  | IOffsetExtendedSf r fo => t_set_rule c r (ROffset (wmul_i64 fo (t_daf t))) t
  | IValOffset r fo => t_set_rule c r (RValOffset (wmul_i64 (to_i64 fo) (t_daf t))) t
  | IValOffsetSf r fo => t_set_rule c r (RValOffset (wmul_i64 fo (t_daf t))) t
  | IRegister d s => t_set_rule c d (RRegister s) t
  | IExpression r e => t_set_rule c r (RExpression e) t
  | IValExpression r e => t_set_rule c r (RValExpression e) t
  | IRestore r =>
      let* ir := get_initial_rule (t_ctx t) r in
      match ir with
      | None => Err ECfiInstructionInInvalidContext
      | Some None =>
          let* cx := clear_register_rule r (t_ctx t) in Ok (false, with_ctx cx t)
      | Some (Some x) => t_set_rule c r x t
      end
  | IRememberState =>
      let* cx := push_row c (t_ctx t) in Ok (false, with_ctx cx t)
  | IRestoreState =>
      let* tp := top (t_ctx t) in
      let start := r_start tp in
      let* cx := pop_row (t_ctx t) in
      let* cx2 := with_top (set_start start) cx in
      Ok (false, with_ctx cx2 t)
  | IArgsSize n => t_upd_top (set_args n) t
  | INegateRaState =>
      let* tp := top (t_ctx t) in
      match rm_get RA_SIGN_STATE (r_regs tp) with
      | None => t_set_rule c RA_SIGN_STATE (RConstant (N.lxor 0 1)) t
      | Some (RConstant v) => t_set_rule c RA_SIGN_STATE (RConstant (N.lxor v 1)) t
      | Some _ => Err ECfiInstructionInInvalidContext
      end
  | INop => Ok (false, t)
  end.

(* `Ok(Some(self.ctx.row()))` *)
Definition some_row (cx : ctx) : res (option row) :=
  match top cx with Ok r => Ok (Some r) | Err e => Err e | Panic => Panic | OutOfFuel => OutOfFuel end.

(* the `loop` of UnwindTable::next_row. Every iteration consumes at least one byte of
   the instruction stream or returns, so fuel = S (remaining bytes) suffices (theorem). *)
Fixpoint next_row_loop (fuel : nat) (dbg : bool) (c : caps) (d : dparams) (t : tbl) (it : cfi_iter)
  : res (option row) * (tbl * cfi_iter) :=
  match fuel with
  | O => (OutOfFuel, (t, it))
  | S f =>
      match iter_next dbg d it with
      | (Err e, it') => (Err e, (t, it'))
      | (Panic, it') => (Panic, (t, it'))
      | (OutOfFuel, it') => (OutOfFuel, (t, it'))
      | (Ok None, it') =>
          if t_returned_last t then (Ok None, (t, it')) else
          match with_top (set_end (t_last_end t)) (t_ctx t) with
          | Ok cx =>
              let t1 := with_flags true true (with_ctx cx t) in
              (some_row cx, (t1, it'))
          | Err e => (Err e, (t, it'))
          | Panic => (Panic, (t, it'))
          | OutOfFuel => (OutOfFuel, (t, it'))
          end
      | (Ok (Some i), it') =>
          match evaluate c t i with
          | Ok (true, t1) =>
              let t2 := with_flags (t_returned_last t1) true t1 in
              (some_row (t_ctx t2), (t2, it'))
          | Ok (false, t1) => next_row_loop f dbg c d t1 it'
          | Err e => (Err e, (t, it'))
          | Panic => (Panic, (t, it'))
          | OutOfFuel => (OutOfFuel, (t, it'))
          end
      end
  end.

(* UnwindTable::next_row *)
Definition next_row (dbg : bool) (c : caps) (d : dparams) (t : tbl) (it : cfi_iter)
  : res (option row) * (tbl * cfi_iter) :=
  match c_stack (t_ctx t) with
  | [] => (Panic, (t, it))                       (* assert!(!self.ctx.stack.is_empty()) *)
  | _ :: _ =>
      match with_top (set_start (t_next_start t)) (t_ctx t) with
      | Ok cx =>
          let t0 := with_flags (t_returned_last t) false (with_ctx cx t) in
          next_row_loop (S (length (it_bytes it))) dbg c d t0 it
      | _ => (Panic, (t, it))
      end
  end.

(* the already-parsed CIE + FDE *)
Record fde_in := {
  f_caf : N; f_daf : Z; f_asize : N; f_be : bool; f_aarch64 : bool;
  f_init : N; f_range : N;
  f_cie_off : N; f_cie : list byte;          (* initial instructions and their section offset *)
  f_fde_off : N; f_fde : list byte
}.
Definition f_dparams (f : fde_in) : dparams :=
  {| d_be := f_be f; d_asize := f_asize f; d_aarch64 := f_aarch64 f |}.

(* `while table.next_row()?.is_some() {}` of UnwindContext::initialize: every call returns a
   row only after consuming input or once at the end, so fuel = remaining bytes + 2 suffices *)
Fixpoint drain (fuel : nat) (dbg : bool) (c : caps) (d : dparams) (t : tbl) (it : cfi_iter) : res tbl :=
  match fuel with
  | O => OutOfFuel
  | S f =>
      match next_row dbg c d t it with
      | (Ok None, (t', _)) => Ok t'
      | (Ok (Some _), (t', it')) => drain f dbg c d t' it'
      | (Err e, _) => Err e
      | (Panic, _) => Panic
      | (OutOfFuel, _) => OutOfFuel
      end
  end.

(* UnwindTable::new_for_cie / new_for_fde: assert!(!ctx.stack.is_empty()) *)
Definition new_table (caf : N) (daf : Z) (asize start last_end : N) (cx : ctx) : res tbl :=
  match c_stack cx with
  | [] => Panic
  | _ :: _ =>
      Ok {| t_caf := caf; t_daf := daf; t_asize := asize; t_next_start := start; t_last_end := last_end;
            t_returned_last := false; t_cur_valid := false; t_ctx := cx |}
  end.

(* UnwindContext::initialize *)
Definition initialize (dbg : bool) (c : caps) (f : fde_in) (cx : ctx) : res ctx :=
  let* cx0 := reset c cx in
  let* t := new_table (f_caf f) (f_daf f) (f_asize f) 0 0 cx0 in
  let* t' := drain (length (f_cie f) + 2) dbg c (f_dparams f) t
                   {| it_off := f_cie_off f; it_bytes := f_cie f |} in
  save_initial_rules dbg c (t_ctx t').

(* FrameDescriptionEntry::end_address (validated address size) *)
Definition end_address (f : fde_in) : N := wrapping_add_sized (f_init f) (f_range f) (f_asize f).

Definition valid_asize (a : N) : bool := (a =? 1) || (a =? 2) || (a =? 4) || (a =? 8).

(* UnwindTable::new = fde.rows(..) *)
Definition table_new (dbg : bool) (c : caps) (f : fde_in) (cx : ctx) : res tbl :=
  let* cx1 := initialize dbg c f cx in
  new_table (f_caf f) (f_daf f) (f_asize f) (f_init f) (end_address f) cx1.

(* `while let Some(row) = table.next_row()? { .. }`, optionally stopping after [limit]
   rows; collects clones of the rows. Returns the context as it is left behind. *)
Fixpoint collect (fuel : nat) (limit : option nat) (dbg : bool) (c : caps) (d : dparams)
         (t : tbl) (it : cfi_iter) {struct fuel} : (list row * outcome) * ctx :=
  match limit with
  | Some O => (([], Done), t_ctx t)
  | _ =>
    match fuel with
    | O => (([], Fuel), t_ctx t)
    | S f =>
        match next_row dbg c d t it with
        | (Ok None, (t', _)) => (([], Done), t_ctx t')
        | (Ok (Some r), (t', it')) =>
            let lim' := match limit with Some (S k) => Some k | _ => None end in
            let '((rows, o), cx) := collect f lim' dbg c d t' it' in
            ((r :: rows, o), cx)
        | (Err e, (t', _)) => (([], Fail e), t_ctx t')
        | (Panic, (t', _)) => (([], Crash), t_ctx t')
        | (OutOfFuel, (t', _)) => (([], Fuel), t_ctx t')
        end
    end
  end.

(* Everything a user of `fde.rows(section, bases, ctx)` + `next_row` loop observes, for a
   CIE/FDE that parsed: FrameDescriptionEntry::parse_addresses has already rejected address
   sizes other than 1,2,4,8 (read_address), which is the first check here. *)
Definition fde_rows_lim (limit : option nat) (dbg : bool) (c : caps) (f : fde_in) (cx : ctx)
  : (list row * outcome) * ctx :=
  if negb (valid_asize (f_asize f)) then (([], Fail EUnsupportedAddressSize), cx) else
  match table_new dbg c f cx with
  | Ok t => collect (length (f_fde f) + 2) limit dbg c (f_dparams f) t
                    {| it_off := f_fde_off f; it_bytes := f_fde f |}
  | Err e => (([], Fail e), cx)
  | Panic => (([], Crash), cx)
  | OutOfFuel => (([], Fuel), cx)
  end.
Definition fde_rows := fde_rows_lim None.

(* FrameDescriptionEntry::unwind_info_for_address: first row containing the address *)
Definition row_contains (r : row) (a : N) : bool := (r_start r <=? a) && (a <? r_end r).
Fixpoint find_row (fuel : nat) (dbg : bool) (c : caps) (d : dparams) (a : N)
         (t : tbl) (it : cfi_iter) : res row * ctx :=
  match fuel with
  | O => (OutOfFuel, t_ctx t)
  | S f =>
      match next_row dbg c d t it with
      | (Ok None, (t', _)) => (Err ENoUnwindInfoForAddress, t_ctx t')
      | (Ok (Some r), (t', it')) =>
          if row_contains r a then (Ok r, t_ctx t') else find_row f dbg c d a t' it'
      | (Err e, (t', _)) => (Err e, t_ctx t')
      | (Panic, (t', _)) => (Panic, t_ctx t')
      | (OutOfFuel, (t', _)) => (OutOfFuel, t_ctx t')
      end
  end.
Definition unwind_info_for_address (dbg : bool) (c : caps) (f : fde_in) (cx : ctx) (a : N)
  : res row * ctx :=
  if negb (valid_asize (f_asize f)) then (Err EUnsupportedAddressSize, cx) else
  match table_new dbg c f cx with
  | Ok t => find_row (length (f_fde f) + 2) dbg c (f_dparams f) a t
                     {| it_off := f_fde_off f; it_bytes := f_fde f |}
  | Err e => (Err e, cx)
  | Panic => (Panic, cx)
  | OutOfFuel => (OutOfFuel, cx)
  end.

(* ------------------------------------------------- reuse of one context (C20) *)

(* one use of a context: iterate all rows of an FDE, abandon the table after k rows, or
   look one address up (which abandons the table at the row found) *)
Inductive how : Type :=
| Rows (limit : option nat)
| At (a : N).
Definition use := (fde_in * how)%type.

Definition use_ctx (dbg : bool) (c : caps) (u : use) (cx : ctx) : (list row * outcome) * ctx :=
  match snd u with
  | Rows lim => fde_rows_lim lim dbg c (fst u) cx
  | At a =>
      let '(r, cx') := unwind_info_for_address dbg c (fst u) cx a in
      (match r with
       | Ok rw => ([rw], Done)
       | Err e => ([], Fail e)
       | Panic => ([], Crash)
       | OutOfFuel => ([], Fuel)
       end, cx')
  end.

Fixpoint run_history (dbg : bool) (c : caps) (h : list use) (cx : ctx)
  : list (list row * outcome) :=
  match h with
  | [] => []
  | u :: rest =>
      let '(res, cx') := use_ctx dbg c u cx in
      res :: run_history dbg c rest cx'
  end.

(* the same uses, each on a context fresh from UnwindContext::new_in *)
Definition run_fresh (dbg : bool) (c : caps) (h : list use) : list (list row * outcome) :=
  map (fun u : use =>
         match new_ctx c with
         | Ok cx => fst (use_ctx dbg c u cx)
         | Err e => ([], Fail e)
         | Panic => ([], Crash)
         | OutOfFuel => ([], Fuel)
         end) h.
