(* Model/NamesRd.v — mirrors /repo/src/read/names.rs: NameIndexHeader::parse, NameIndexHeaderIter,
   NameIndex::{new, compile_unit, local_type_unit, foreign_type_unit, type_unit_count, type_unit,
   find_by_bucket, find_by_hash, name_string_offset, name_entries, name_entry}, NameBucketIter,
   NameHashIter, NameEntryIter, NameEntry::{parse, compile_unit, type_unit, die_offset, parent,
   type_hash}, read_debug_names_form_value, NameAbbreviations::{parse, get};
   and /repo/src/case_fold.rs case_folding_djb_hash on ASCII input.
   Correspondence streams: c17.names c17.nabbrev c17.djb *)
From Coq Require Import List NArith ZArith Bool.
From Coq.Strings Require Import Byte.
Require Import GV.Base.Res GV.Base.Byt GV.Base.Ints GV.Model.Leb GV.Model.Prim GV.Model.IndexRd.
Import ListNotations.
Local Open Scope N_scope.

(* Reader::read_word / read_offset / read_length *)
Definition rd_word (fmt64 be : bool) (bs : list byte) : res (N * list byte) := read_word fmt64 be bs.

(* ------------------------------------------------------------------ header *)

Record name_header := {
  nh_offset : N;           (* section offset of the header *)
  nh_length : N;
  nh_fmt64 : bool;
  nh_version : N;
  nh_cu_count : N; nh_ltu_count : N; nh_ftu_count : N;
  nh_bucket_count : N; nh_name_count : N; nh_abbrev_size : N;
  nh_aug : option (list byte);
  nh_content : list byte }.

(* NameIndexHeader::parse (names.rs:248-290); returns the header and the rest of the section *)
Definition name_header_parse (dbg be : bool) (offset : N) (bs : list byte)
  : res (name_header * list byte) :=
  let* ((len, f64), r) := read_initial_length be bs in
  let* (inp, rest) := rd_split len r in
  let* (version, inp) := read_un 2 be inp in
  if negb (version =? 5) then Err EUnknownVersion else
  let* inp := rd_skip 2 inp in
  let* (cu_count, inp) := read_un 4 be inp in
  let* (ltu_count, inp) := read_un 4 be inp in
  let* (ftu_count, inp) := read_un 4 be inp in
  let* (bucket_count, inp) := read_un 4 be inp in
  let* (name_count, inp) := read_un 4 be inp in
  let* (abbrev_size, inp) := read_un 4 be inp in
  let* (aug_size, inp) := read_un 4 be inp in
  let* (aug, inp) :=
    (if 0 <? aug_size then
       let* (v, inp) := rd_split aug_size inp in
       (* (4 - (augmentation_string_size & 3)) & 3 *)
       let* d := chk_sub 32 dbg 4 (N.land aug_size 3) in
       let* inp := rd_skip (N.land d 3) inp in
       Ok (Some v, inp)
     else Ok (None, inp)) in
  Ok ({| nh_offset := offset; nh_length := len; nh_fmt64 := f64; nh_version := version;
         nh_cu_count := cu_count; nh_ltu_count := ltu_count; nh_ftu_count := ftu_count;
         nh_bucket_count := bucket_count; nh_name_count := name_count; nh_abbrev_size := abbrev_size;
         nh_aug := aug; nh_content := inp |}, rest).

(* NameIndexHeaderIter drained (names.rs:125-136): stops after the first error *)
Fixpoint name_headers_loop (dbg be : bool) (fuel : nat) (total : N) (bs : list byte) : run name_header :=
  match fuel with
  | O => ([], SFuel)
  | S f =>
      match bs with
      | [] => ([], SDone)
      | _ =>
          (* end_offset - input.len() *)
          match chk_sub 64 dbg total (blen bs) with
          | Ok off =>
              match name_header_parse dbg be off bs with
              | Ok (h, rest) => run_cons h (name_headers_loop dbg be f total rest)
              | r => ([], stop_of_res r)
              end
          | r => ([], stop_of_res r)
          end
      end
  end.
Definition name_headers (dbg be : bool) (bs : list byte) : run name_header :=
  name_headers_loop dbg be (S (length bs)) (blen bs) bs.

(* ------------------------------------------------------------------ abbreviations *)

Record nabbrev := { na_code : N; na_tag : N; na_attrs : list (N * N) (* (DW_IDX, DW_FORM) *) }.

(* the inner `loop` of NameAbbreviations::parse *)
Fixpoint nattrs_parse (fuel : nat) (bs : list byte) : res (list (N * N) * list byte) :=
  match fuel with
  | O => OutOfFuel
  | S f =>
      let* (name, r) := read_uleb128_u16 bs in
      let* (form, r) := read_uleb128_u16 r in
      if (name =? 0) && (form =? 0) then Ok ([], r)
      else if name =? 0 then Err EAttributeNameZero
      else if form =? 0 then Err EAttributeFormZero
      else let* (l, r') := nattrs_parse f r in Ok ((name, form) :: l, r')
  end.

(* NameAbbreviations::parse (names.rs:1080-1120): `while !reader.is_empty()`; a zero code ends the table *)
Fixpoint nabbrevs_parse (dbg : bool) (fuel : nat) (bs : list byte) : res (list nabbrev) :=
  match fuel with
  | O => OutOfFuel
  | S f =>
      match bs with
      | [] => Ok []
      | _ =>
          let* (code, r) := read_uleb128 dbg bs in
          if code =? 0 then Ok [] else
          let* (tag, r) := read_uleb128_u16 r in
          if tag =? 0 then Err EAbbreviationTagZero else
          let* (attrs, r) := nattrs_parse (S (length r)) r in
          let* rest := nabbrevs_parse dbg f r in
          Ok ({| na_code := code; na_tag := tag; na_attrs := attrs |} :: rest)
      end
  end.
Definition name_abbrevs (dbg : bool) (bs : list byte) : res (list nabbrev) :=
  nabbrevs_parse dbg (S (length bs)) bs.

(* NameAbbreviations::get: first abbreviation with that code *)
Fixpoint nabbrev_get (code : N) (l : list nabbrev) : option nabbrev :=
  match l with
  | [] => None
  | a :: r => if na_code a =? code then Some a else nabbrev_get code r
  end.

(* ------------------------------------------------------------------ NameIndex *)

Record name_index := {
  ni_fmt64 : bool;
  ni_cu_count : N; ni_ltu_count : N; ni_ftu_count : N; ni_bucket_count : N; ni_name_count : N;
  ni_cu_list : list byte; ni_ltu_list : list byte; ni_ftu_list : list byte;
  ni_buckets : list byte; ni_hashes : list byte; ni_names : list byte; ni_entry_offsets : list byte;
  ni_pool : list byte;
  ni_abbrevs : list nabbrev }.

(* NameIndex::new (names.rs:344-394) *)
Definition name_index_new (dbg : bool) (h : name_header) : res name_index :=
  let osz := word_size (nh_fmt64 h) in
  let* cu_sz := chk_mul 64 dbg (nh_cu_count h) osz in
  let* ltu_sz := chk_mul 64 dbg (nh_ltu_count h) osz in
  let* ftu_sz := chk_mul 64 dbg (nh_ftu_count h) 8 in
  let* b_sz := chk_mul 64 dbg (nh_bucket_count h) 4 in
  let* h_sz := (if nh_bucket_count h =? 0 then Ok 0 else chk_mul 64 dbg (nh_name_count h) 4) in
  let* n_sz := chk_mul 64 dbg (nh_name_count h) osz in
  let a_sz := nh_abbrev_size h in
  let* (cu_list, r) := rd_split cu_sz (nh_content h) in
  let* (ltu_list, r) := rd_split ltu_sz r in
  let* (ftu_list, r) := rd_split ftu_sz r in
  let* (buckets, r) := rd_split b_sz r in
  let* (hashes, r) := rd_split h_sz r in
  let* (names, r) := rd_split n_sz r in
  let* (eoffs, r) := rd_split n_sz r in
  let* (abbr, r) := rd_split a_sz r in
  let* abbrevs := name_abbrevs dbg abbr in
  Ok {| ni_fmt64 := nh_fmt64 h; ni_cu_count := nh_cu_count h; ni_ltu_count := nh_ltu_count h;
        ni_ftu_count := nh_ftu_count h; ni_bucket_count := nh_bucket_count h;
        ni_name_count := nh_name_count h;
        ni_cu_list := cu_list; ni_ltu_list := ltu_list; ni_ftu_list := ftu_list;
        ni_buckets := buckets; ni_hashes := hashes; ni_names := names; ni_entry_offsets := eoffs;
        ni_pool := r; ni_abbrevs := abbrevs |}.

(* the shared shape of compile_unit / local_type_unit / name_string_offset:
   skip(index * word_size) then read_offset *)
Definition word_at (dbg be fmt64 : bool) (tbl : list byte) (index : N) : res N :=
  let* off := chk_mul 64 dbg index (word_size fmt64) in
  let* r := rd_skip off tbl in
  let* (v, _) := rd_word fmt64 be r in Ok v.

Definition ni_compile_unit (dbg be : bool) (ix : name_index) (i : N) : res N :=
  word_at dbg be (ni_fmt64 ix) (ni_cu_list ix) i.
Definition ni_default_compile_unit (dbg be : bool) (ix : name_index) : res (option N) :=
  if ni_cu_count ix =? 1 then let* v := ni_compile_unit dbg be ix 0 in Ok (Some v) else Ok None.
Definition ni_local_type_unit (dbg be : bool) (ix : name_index) (i : N) : res N :=
  word_at dbg be (ni_fmt64 ix) (ni_ltu_list ix) i.
Definition ni_foreign_type_unit (dbg be : bool) (ix : name_index) (i : N) : res N :=
  let* off := chk_mul 64 dbg i 8 in
  let* r := rd_skip off (ni_ftu_list ix) in
  let* (v, _) := read_un 8 be r in Ok v.
(* self.local_type_unit_count + self.foreign_type_unit_count : u32 + u32 (DESIGN §8 S3) *)
Definition ni_type_unit_count (dbg : bool) (ix : name_index) : res N :=
  chk_add 32 dbg (ni_ltu_count ix) (ni_ftu_count ix).
(* NameTypeUnit: inl = Local(offset), inr = Foreign(signature) *)
Definition ni_type_unit (dbg be : bool) (ix : name_index) (i : N) : res (N + N) :=
  if ni_ltu_count ix <=? i then
    let* v := ni_foreign_type_unit dbg be ix (i - ni_ltu_count ix) in Ok (inr v)
  else let* v := ni_local_type_unit dbg be ix i in Ok (inl v).
Definition ni_name_string_offset (dbg be : bool) (ix : name_index) (i : N) : res N :=
  word_at dbg be (ni_fmt64 ix) (ni_names ix) i.

(* ------------------------------------------------------------------ bucket / hash iteration *)

(* NameBucketIter::new (names.rs:609-628): None = empty bucket, Some (reader, first name index) *)
Definition bucket_iter_new (dbg be : bool) (ix : name_index) (bucket : N)
  : res (option (list byte * N)) :=
  let* off := chk_mul 64 dbg bucket 4 in
  let* r := rd_skip off (ni_buckets ix) in
  let* (start, _) := read_un 4 be r in
  if start =? 0 then Ok None else
  let* idx := chk_sub 32 dbg start 1 in
  let* hoff := chk_mul 64 dbg idx 4 in
  let* reader := rd_skip hoff (ni_hashes ix) in
  Ok (Some (reader, idx)).

(* NameBucketIter::next (names.rs:631-642) called until it returns None or an error.
   `hash % self.bucket_count` divides by zero when bucket_count = 0. *)
Fixpoint bucket_loop (dbg be : bool) (fuel : nat) (reader : list byte)
         (idx name_count bucket bucket_count : N) : run (N * N) :=
  match fuel with
  | O => ([], SFuel)
  | S f =>
      if name_count <=? idx then ([], SDone) else
      match read_un 4 be reader with
      | Ok (hash, reader') =>
          match chk_add 32 dbg idx 1 with
          | Ok idx' =>
              if bucket_count =? 0 then ([], SPanic)
              else if negb (hash mod bucket_count =? bucket) then ([], SDone)
              else run_cons (idx, hash)
                     (bucket_loop dbg be f reader' idx' name_count bucket bucket_count)
          | r => ([], stop_of_res r)
          end
      | r => ([], stop_of_res r)
      end
  end.

(* NameIndex::find_by_bucket followed by draining the iterator *)
Definition ni_find_by_bucket (dbg be : bool) (ix : name_index) (bucket : N)
  : res (option (run (N * N))) :=
  let* o := bucket_iter_new dbg be ix bucket in
  match o with
  | None => Ok None
  | Some (reader, idx) =>
      Ok (Some (bucket_loop dbg be (S (length reader)) reader idx (ni_name_count ix) bucket
                            (ni_bucket_count ix)))
  end.

(* NameHashIter::new + next until None/error (names.rs:672-694): the bucket items whose hash is equal *)
Definition ni_find_by_hash (dbg be : bool) (ix : name_index) (hash : N) : res (run N) :=
  let bucket := if ni_bucket_count ix =? 0 then 0 else hash mod ni_bucket_count ix in
  let* o := ni_find_by_bucket dbg be ix bucket in
  match o with
  | None => Ok ([], SDone)
  | Some (items, st) => Ok (map fst (filter (fun p => snd p =? hash) items), st)
  end.

(* ------------------------------------------------------------------ entry pool *)

Inductive nval : Type := NVUnsigned (v : N) | NVOffset (v : N) | NVFlag (b : bool).

(* read_debug_names_form_value (names.rs:1007-1059) *)
Definition read_nform (dbg be : bool) (form : N) (bs : list byte) : res (nval * list byte) :=
  if form =? 12 (* DW_FORM_flag *) then let* (v, r) := read_u8 bs in Ok (NVFlag (negb (v =? 0)), r)
  else if form =? 25 (* DW_FORM_flag_present *) then Ok (NVFlag true, bs)
  else if form =? 11 (* data1 *) then let* (v, r) := read_u8 bs in Ok (NVUnsigned v, r)
  else if form =? 5 (* data2 *) then let* (v, r) := read_un 2 be bs in Ok (NVUnsigned v, r)
  else if form =? 6 (* data4 *) then let* (v, r) := read_un 4 be bs in Ok (NVUnsigned v, r)
  else if form =? 7 (* data8 *) then let* (v, r) := read_un 8 be bs in Ok (NVUnsigned v, r)
  else if form =? 15 (* udata *) then let* (v, r) := read_uleb128 dbg bs in Ok (NVUnsigned v, r)
  else if form =? 17 (* ref1 *) then let* (v, r) := read_u8 bs in Ok (NVOffset v, r)
  else if form =? 18 (* ref2 *) then let* (v, r) := read_un 2 be bs in Ok (NVOffset v, r)
  else if form =? 19 (* ref4 *) then let* (v, r) := read_un 4 be bs in Ok (NVOffset v, r)
  else if form =? 20 (* ref8 *) then let* (v, r) := read_un 8 be bs in Ok (NVOffset v, r)
  else if form =? 21 (* ref_udata *) then let* (v, r) := read_uleb128 dbg bs in Ok (NVOffset v, r)
  else Err EUnknownForm.

Record nattr := { at_name : N; at_form : N; at_value : nval }.
Record nentry := { ne_offset : N; ne_code : N; ne_tag : N; ne_attrs : list nattr }.

Fixpoint read_nattrs (dbg be : bool) (specs : list (N * N)) (bs : list byte)
  : res (list nattr * list byte) :=
  match specs with
  | [] => Ok ([], bs)
  | (name, form) :: r =>
      let* (v, bs') := read_nform dbg be form bs in
      let* (l, bs'') := read_nattrs dbg be r bs' in
      Ok ({| at_name := name; at_form := form; at_value := v |} :: l, bs'')
  end.

(* NameEntry::parse (names.rs:873-901) *)
Definition nentry_parse (dbg be : bool) (abbrevs : list nabbrev) (offset : N) (bs : list byte)
  : res (option nentry * list byte) :=
  let* (code, r) := read_uleb128 dbg bs in
  if code =? 0 then Ok (None, r) else
  match nabbrev_get code abbrevs with
  | None => Err EInvalidAbbreviationCode
  | Some a =>
      let* (attrs, r') := read_nattrs dbg be (na_attrs a) r in
      Ok (Some {| ne_offset := offset; ne_code := code; ne_tag := na_tag a; ne_attrs := attrs |}, r')
  end.

(* NameEntryIter::next drained (names.rs:747-766) *)
Fixpoint nentries_loop (dbg be : bool) (fuel : nat) (abbrevs : list nabbrev) (end_offset : N)
         (bs : list byte) : run nentry :=
  match fuel with
  | O => ([], SFuel)
  | S f =>
      match bs with
      | [] => ([], SDone)
      | _ =>
          match chk_sub 64 dbg end_offset (blen bs) with
          | Ok off =>
              match nentry_parse dbg be abbrevs off bs with
              | Ok (Some e, r) => run_cons e (nentries_loop dbg be f abbrevs end_offset r)
              | Ok (None, _) => ([], SDone)
              | r => ([], stop_of_res r)
              end
          | r => ([], stop_of_res r)
          end
      end
  end.

(* NameIndex::name_entries (NameEntryIter::new, names.rs:727-744) + drain *)
Definition ni_name_entries (dbg be : bool) (ix : name_index) (i : N) : res (run nentry) :=
  let* off := word_at dbg be (ni_fmt64 ix) (ni_entry_offsets ix) i in
  let* entries := rd_skip off (ni_pool ix) in
  Ok (nentries_loop dbg be (S (length entries)) (ni_abbrevs ix) (blen (ni_pool ix)) entries).

(* NameIndex::name_entry (names.rs:556-561) *)
Definition ni_name_entry (dbg be : bool) (ix : name_index) (off : N) : res nentry :=
  let* entries := rd_skip off (ni_pool ix) in
  let* (o, _) := nentry_parse dbg be (ni_abbrevs ix) off entries in
  match o with Some e => Ok e | None => Err ENoEntryAtGivenOffset end.

(* attribute accessors of NameEntry / NameAttribute (names.rs:816-980) *)
Fixpoint find_attr (name : N) (l : list nattr) : option nattr :=
  match l with
  | [] => None
  | a :: r => if at_name a =? name then Some a else find_attr name r
  end.
Definition attr_index (a : nattr) : res N :=
  match at_value a with
  | NVUnsigned v => if v <? two32 then Ok v else Err EInvalidNameAttributeIndex
  | _ => Err EUnsupportedAttributeForm
  end.
Definition ne_compile_unit (dbg be : bool) (ix : name_index) (e : nentry) : res (option N) :=
  match find_attr 1 (ne_attrs e) with
  | None => Ok None
  | Some a => let* i := attr_index a in let* v := ni_compile_unit dbg be ix i in Ok (Some v)
  end.
Definition ne_type_unit (dbg be : bool) (ix : name_index) (e : nentry) : res (option (N + N)) :=
  match find_attr 2 (ne_attrs e) with
  | None => Ok None
  | Some a => let* i := attr_index a in let* v := ni_type_unit dbg be ix i in Ok (Some v)
  end.
Definition ne_die_offset (e : nentry) : res (option N) :=
  match find_attr 3 (ne_attrs e) with
  | None => Ok None
  | Some a => match at_value a with NVOffset v => Ok (Some v) | _ => Err EUnsupportedAttributeForm end
  end.
Definition ne_parent (e : nentry) : res (option (option N)) :=
  match find_attr 4 (ne_attrs e) with
  | None => Ok None
  | Some a => match at_value a with
              | NVOffset v => Ok (Some (Some v))
              | NVFlag true => Ok (Some None)
              | _ => Err EUnsupportedAttributeForm
              end
  end.
Definition ne_type_hash (e : nentry) : res (option N) :=
  match find_attr 5 (ne_attrs e) with
  | None => Ok None
  | Some a => match at_value a with NVUnsigned v => Ok (Some v) | _ => Err EUnsupportedAttributeForm end
  end.

(* ------------------------------------------------------------------ case_folding_djb_hash *)

(* u8::to_ascii_lowercase *)
Definition to_ascii_lowercase (b : N) : N := if (65 <=? b) && (b <=? 90) then N.lor b 32 else b.
(* djb_hash_byte: hash.wrapping_mul(33).wrapping_add(u32::from(byte)) *)
Definition djb_hash_byte (hash byte : N) : N := wrap32 (wrap32 (hash * 33) + byte).
(* case_folding_djb_hash on a string all of whose chars are ASCII (each char is one byte) *)
Definition djb_hash_ascii (s : list byte) : N :=
  fold_left (fun h b => djb_hash_byte h (to_ascii_lowercase (b2n b))) s 5381.
