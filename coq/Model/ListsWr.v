(* Model/ListsWr.v — mirrors /repo/src/write/range.rs (RangeListTable::{add, write, write_ranges, write_rnglists}),
   /repo/src/write/loc.rs (LocationListTable::{add, write, write_loc, write_loclists}, write_expression for
   Expression::raw) and the part of /repo/src/write/unit.rs Unit::write that feeds them (version check,
   have_base_address from the root DIE, ranges before locations, root address attributes written afterwards).

   range.rs and loc.rs are line-for-line the same code except that loc.rs writes the expression after each
   non-base entry and has the extra DefaultLocation arm; the model therefore has ONE function per writer with a
   flag `loc`, and a range list is written as `map loc_of_range l` with loc = false (a `wrange` has no
   DefaultLocation constructor, so the LDefault arm is never reached with loc = false).

   Writer = EndianVec: Address::Symbol is Err(InvalidAddress) (Writer::write_address default).
   The code is modelled as repaired by /repo commits 85ffc95 and e67c31b: no unchecked arithmetic is left in these
   functions, so the writers take no `dbg` argument (debug and release builds behave alike).
   Streams: c16.rng c16.loc c16.unit c16.add c16.f8 c16.nopanic.  NO proofs in this file. *)
From Coq Require Import List NArith ZArith Bool.
From Coq.Strings Require Import Byte.
Require Import GV.Base.Res GV.Base.Byt GV.Base.Ints GV.Model.Leb GV.Model.Prim GV.Spec.ListWrSpec.
Import ListNotations.
Local Open Scope N_scope.

(* Writer::write_address (default implementation, used by EndianVec) *)
Definition write_address (be : bool) (a : addr) (size : N) : res (list byte) :=
  match a with
  | AConst v => write_udata be v size
  | ASym _ _ => Err WInvalidAddress
  end.

(* loc.rs write_expression, for Expression::raw(d): size() = d.len(), write() = the bytes *)
Definition write_expression (be : bool) (version : N) (d : list byte) : res (list byte) :=
  let size := N.of_nat (length d) in
  let* h := if version <=? 4 then write_udata be size 2 else write_uleb128 size in
  Ok (h ++ d).

Definition opt_expression (loc be : bool) (version : N) (d : list byte) : res (list byte) :=
  if loc then write_expression be version d else Ok [].

(* the `end` of a StartLength entry in write_ranges / write_loc (after fix e67c31b):
     Address::Constant(begin) => Address::Constant(begin.checked_add(length).ok_or(Error::ValueTooLarge)?)
     Address::Symbol{symbol, addend} => Address::Symbol{symbol,
        addend: i64::try_from(length).ok().and_then(|length| addend.checked_add(length)).ok_or(Error::ValueTooLarge)?} *)
Definition start_length_end (b : addr) (len : N) : res addr :=
  match b with
  | AConst v => if v + len <? 2 ^ 64 then Ok (AConst (v + len)) else Err WValueTooLarge
  | ASym s a =>
      if len <? 2 ^ 63 then
        (if in_i64 (a + Z.of_N len) then Ok (ASym s (a + Z.of_N len)) else Err WValueTooLarge)
      else Err WValueTooLarge
  end.

(* ---------------------------------------------------------------- DWARF 2-4: .debug_ranges / .debug_loc *)

(* `let marker = match address_size { 1..=8 => !0u64 >> (64 - u32::from(address_size) * 8), _ => return
   Err(Error::UnsupportedWordSize(address_size)) }` (after fix 85ffc95): u32 arithmetic, shift 0..56, no overflow *)
Definition marker_of (asz : N) : res N :=
  if (1 <=? asz) && (asz <=? 8) then Ok (N.shiftr (two64 - 1) (64 - asz * 8)) else Err WUnsupportedWordSize.

(* the body of `for range in &range_list.0 { match *range … }` followed by the (0,0) terminator.
   hb = have_base_address (reset per list to the unit's flag by the caller); mk = marker. *)
Fixpoint write_list_v4 (loc be : bool) (version asz mk : N) (hb : bool) (l : list wloc) : res (list byte) :=
  match l with
  | [] =>
      let* z1 := write_udata be 0 asz in
      let* z2 := write_udata be 0 asz in
      Ok (z1 ++ z2)
  | LBase a :: r =>
      let* b1 := write_udata be mk asz in
      let* b2 := write_address be a asz in
      let* rest := write_list_v4 loc be version asz mk true r in
      Ok (b1 ++ b2 ++ rest)
  | LOffsetPair b e d :: r =>
      if b =? e then Err WInvalidRange else
      if negb hb then Err WMissingBaseAddress else
      if b =? mk then Err WInvalidRange else
      let* b1 := write_udata be b asz in
      let* b2 := write_udata be e asz in
      let* x := opt_expression loc be version d in
      let* rest := write_list_v4 loc be version asz mk hb r in
      Ok (b1 ++ b2 ++ x ++ rest)
  | LStartEnd b e d :: r =>
      if addr_eqb b e then Err WInvalidRange else
      if hb then Err WUnexpectedBaseAddress else
      if addr_eqb b (AConst mk) then Err WInvalidRange else
      let* b1 := write_address be b asz in
      let* b2 := write_address be e asz in
      let* x := opt_expression loc be version d in
      let* rest := write_list_v4 loc be version asz mk hb r in
      Ok (b1 ++ b2 ++ x ++ rest)
  | LStartLength b len d :: r =>
      let* e := start_length_end b len in
      if addr_eqb b e then Err WInvalidRange else
      if hb then Err WUnexpectedBaseAddress else
      if addr_eqb b (AConst mk) then Err WInvalidRange else
      let* b1 := write_address be b asz in
      let* b2 := write_address be e asz in
      let* x := opt_expression loc be version d in
      let* rest := write_list_v4 loc be version asz mk hb r in
      Ok (b1 ++ b2 ++ x ++ rest)
  | LDefault _ :: _ => Err WInvalidRange
  end.

(* `for range_list in self.ranges.iter() { offsets.push(w.offset()); … }`; pos = w.len() *)
Fixpoint write_lists_v4 (loc be : bool) (version asz mk : N) (hb : bool) (pos : N) (tbl : list (list wloc))
  : res (list byte * list N) :=
  match tbl with
  | [] => Ok ([], [])
  | l :: r =>
      let* bs := write_list_v4 loc be version asz mk hb l in
      let* (rest, offs) := write_lists_v4 loc be version asz mk hb (pos + N.of_nat (length bs)) r in
      Ok (bs ++ rest, pos :: offs)
  end.

(* write_ranges / write_loc: the marker (and with it the address-size check) comes before the first list *)
Definition write_tbl_v4 (loc be : bool) (version asz : N) (hb : bool) (pos : N) (tbl : list (list wloc))
  : res (list byte * list N) :=
  let* mk := marker_of asz in
  write_lists_v4 loc be version asz mk hb pos tbl.

(* ---------------------------------------------------------------- DWARF 5: .debug_rnglists / .debug_loclists *)

Definition kind_offset_pair : N := 4.
Definition kind_base (loc : bool) : N := if loc then 6 else 5.
Definition kind_start_end (loc : bool) : N := if loc then 7 else 6.
Definition kind_start_length (loc : bool) : N := if loc then 8 else 7.
Definition kind_default : N := 5.      (* DW_LLE_default_location *)

Definition write_entry_v5 (loc be : bool) (version asz : N) (x : wloc) : res (list byte) :=
  match x with
  | LBase a =>
      let* b := write_address be a asz in
      Ok (n2b (kind_base loc) :: b)
  | LOffsetPair b e d =>
      let* b1 := write_uleb128 b in
      let* b2 := write_uleb128 e in
      let* x := opt_expression loc be version d in
      Ok (n2b kind_offset_pair :: b1 ++ b2 ++ x)
  | LStartEnd b e d =>
      let* b1 := write_address be b asz in
      let* b2 := write_address be e asz in
      let* x := opt_expression loc be version d in
      Ok (n2b (kind_start_end loc) :: b1 ++ b2 ++ x)
  | LStartLength b len d =>
      let* b1 := write_address be b asz in
      let* b2 := write_uleb128 len in
      let* x := opt_expression loc be version d in
      Ok (n2b (kind_start_length loc) :: b1 ++ b2 ++ x)
  | LDefault d =>
      let* x := opt_expression loc be version d in
      Ok (n2b kind_default :: x)
  end.

Fixpoint write_list_v5 (loc be : bool) (version asz : N) (l : list wloc) : res (list byte) :=
  match l with
  | [] => Ok [n2b 0]                                        (* DW_RLE_end_of_list / DW_LLE_end_of_list *)
  | x :: r =>
      let* b := write_entry_v5 loc be version asz x in
      let* rest := write_list_v5 loc be version asz r in
      Ok (b ++ rest)
  end.

Fixpoint write_lists_v5 (loc be : bool) (version asz : N) (pos : N) (tbl : list (list wloc))
  : res (list byte * list N) :=
  match tbl with
  | [] => Ok ([], [])
  | l :: r =>
      let* bs := write_list_v5 loc be version asz l in
      let* (rest, offs) := write_lists_v5 loc be version asz (pos + N.of_nat (length bs)) r in
      Ok (bs ++ rest, pos :: offs)
  end.

(* header after the initial length: version u16, address_size u8, segment_selector_size u8 = 0,
   offset_entry_count u32 = 0 *)
Definition header_v5 (be : bool) (version asz : N) : list byte :=
  enc_un 2 be version ++ enc_un 1 be asz ++ enc_un 1 be 0 ++ enc_un 4 be 0.

Definition initial_length_size (fmt64 : bool) : N := if fmt64 then 12 else 4.

(* write_rnglists / write_loclists; start = w.len() on entry (the section may hold earlier units) *)
Definition write_tbl_v5 (loc be fmt64 : bool) (version asz : N) (start : N) (tbl : list (list wloc))
  : res (list byte * list N) :=
  if negb (version =? 5) then Err WNeedVersion else
  let hdr := header_v5 be version asz in
  let* (body, offs) := write_lists_v5 loc be version asz (start + initial_length_size fmt64 + 8) tbl in
  (* let length = (w.len() - length_base) as u64; w.write_initial_length_at(length_offset, length, format)? *)
  let* il := write_initial_length fmt64 be (8 + N.of_nat (length body)) in
  Ok (il ++ hdr ++ body, offs).

(* RangeListTable::write / LocationListTable::write: returns the bytes appended to the section and the offsets *)
Definition table_write (loc be fmt64 : bool) (version asz : N) (hb : bool) (start : N)
  (tbl : list (list wloc)) : res (list byte * list N) :=
  match tbl with
  | [] => Ok ([], [])                                       (* RangeListOffsets::none() *)
  | _ =>
      if (2 <=? version) && (version <=? 4) then write_tbl_v4 loc be version asz hb start tbl
      else if version =? 5 then write_tbl_v5 loc be fmt64 version asz start tbl
      else Err WUnsupportedVersion
  end.

(* ---------------------------------------------------------------- tables: add (FnvIndexSet::insert_full) *)

Fixpoint index_of {A} (eqb : A -> A -> bool) (x : A) (l : list A) : option nat :=
  match l with
  | [] => None
  | y :: r => if eqb x y then Some O else
              match index_of eqb x r with Some i => Some (S i) | None => None end
  end.

(* returns the table and the index the id carries *)
Definition tbl_add {A} (eqb : A -> A -> bool) (tbl : list A) (x : A) : list A * nat :=
  match index_of eqb x tbl with
  | Some i => (tbl, i)
  | None => (tbl ++ [x], length tbl)
  end.

Fixpoint tbl_add_all {A} (eqb : A -> A -> bool) (tbl : list A) (xs : list A) : list A * list nat :=
  match xs with
  | [] => (tbl, [])
  | x :: r =>
      let (t1, i) := tbl_add eqb tbl x in
      let (t2, ids) := tbl_add_all eqb t1 r in
      (t2, i :: ids)
  end.

(* #[derive(PartialEq, Eq)] on Range / Location / RangeList / LocationList (Expression::raw: byte equality) *)
Fixpoint bytes_eqb' (a b : list byte) : bool :=
  match a, b with
  | [], [] => true
  | x :: r, y :: s => (b2n x =? b2n y) && bytes_eqb' r s
  | _, _ => false
  end.

Definition wloc_eqb (x y : wloc) : bool :=
  match x, y with
  | LBase a, LBase b => addr_eqb a b
  | LOffsetPair b e d, LOffsetPair b' e' d' => (b =? b') && (e =? e') && bytes_eqb' d d'
  | LStartEnd b e d, LStartEnd b' e' d' => addr_eqb b b' && addr_eqb e e' && bytes_eqb' d d'
  | LStartLength b n d, LStartLength b' n' d' => addr_eqb b b' && (n =? n') && bytes_eqb' d d'
  | LDefault d, LDefault d' => bytes_eqb' d d'
  | _, _ => false
  end.

Definition wrange_eqb (x y : wrange) : bool :=
  match x, y with
  | RBase a, RBase b => addr_eqb a b
  | ROffsetPair b e, ROffsetPair b' e' => (b =? b') && (e =? e')
  | RStartEnd b e, RStartEnd b' e' => addr_eqb b b' && addr_eqb e e'
  | RStartLength b n, RStartLength b' n' => addr_eqb b b' && (n =? n')
  | _, _ => false
  end.

Fixpoint list_eqb {A} (eqb : A -> A -> bool) (a b : list A) : bool :=
  match a, b with
  | [], [] => true
  | x :: r, y :: s => eqb x y && list_eqb eqb r s
  | _, _ => false
  end.

Definition rng_add := tbl_add (list_eqb wrange_eqb).
Definition loc_add := tbl_add (list_eqb wloc_eqb).
Definition rng_add_all := tbl_add_all (list_eqb wrange_eqb).
Definition loc_add_all := tbl_add_all (list_eqb wloc_eqb).

(* RangeListOffsets::get(id) = self.offsets[id.index] (index panic when out of range) *)
Definition offsets_get (offs : list N) (id : nat) : res N := unwrap (nth_error offs id).

(* ---------------------------------------------------------------- Unit::write, the part around the lists *)

(* `attrs.iter().any(|attr| attr.name == DW_AT_low_pc && attr.value != AttributeValue::Address(Address::Constant(0)))` *)
Definition is_address_const0 (v : attrval) : bool :=
  match v with VAddress (AConst 0) => true | _ => false end.
Definition have_base_address (attrs : list (N * attrval)) : bool :=
  existsb (fun p => (fst p =? DW_AT_low_pc) && negb (is_address_const0 (snd p))) attrs.

(* writing the root DIE's attributes after the lists: only AttributeValue::Address can fail here *)
Fixpoint root_attrs_write (be : bool) (asz : N) (attrs : list (N * attrval)) : res unit :=
  match attrs with
  | [] => Ok tt
  | (_, VAddress a) :: r => let* _ := write_address be a asz in root_attrs_write be asz r
  | _ :: r => root_attrs_write be asz r
  end.

(* Unit::write: version check (UnsupportedVersion before anything else), have_base_address, range lists, then
   location lists, then the DIEs. rstart/lstart = current length of the section the table goes to. *)
Definition unit_write_lists (be fmt64 : bool) (version asz : N) (attrs : list (N * attrval))
  (rstart lstart : N) (rtbl : list (list wrange)) (ltbl : list (list wloc))
  : res ((list byte * list N) * (list byte * list N)) :=
  if negb ((2 <=? version) && (version <=? 5)) then Err WUnsupportedVersion else
  let hb := have_base_address attrs in
  let* r := table_write false be fmt64 version asz hb rstart (map (map loc_of_range) rtbl) in
  let* l := table_write true be fmt64 version asz hb lstart ltbl in
  let* _ := root_attrs_write be asz attrs in
  Ok (r, l).
