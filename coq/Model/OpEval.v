(* Model/OpEval.v — mirrors /repo/src/read/op.rs: compute_pc, Evaluation::{new_in, set_initial_value,
   set_object_address, set_max_iterations, pop, push, evaluate_one_operation, evaluate, resume_with_*,
   end_of_expression, evaluate_internal, value_result, as_result} and the ArrayVec capacity rule of
   /repo/src/read/util.rs (try_push on a fixed array fails when full, Vec storage grows).
   The suspension protocol is a request/answer trace: `run fuel dbg cfg program answers`.
   Correspondence stream: c07.eval.  No proofs here. *)
From Coq Require Import List NArith ZArith Bool.
From Coq.Strings Require Import Byte.
Require Import GV.Base.Res GV.Base.Byt GV.Base.Ints GV.Model.Leb GV.Model.Prim GV.Model.OpDec GV.Model.OpVal.
Import ListNotations.
Local Open Scope N_scope.

Inductive location : Type :=
| LEmpty
| LRegister (register : N)
| LAddress (address : N)
| LValue (v : value)
| LBytes (bs : list byte)
| LImplicitPointer (v : N) (byte_offset : Z).

Record piece : Type := mkPiece { p_size : option N; p_bit_offset : option N; p_loc : location }.

(* EvaluationResult::Requires* *)
Inductive request : Type :=
| RMemory (address size : N) (space : option N) (base_type : N)
| RRegister (register base_type : N)
| RWasmLocal (i : N) | RWasmGlobal (i : N) | RWasmStack (i : N)
| RFrameBase
| RTls (index : N)
| RCfa
| RAtLocation (d : dieref)
| REntryValue (expr : list byte)
| RParameterRef (o : N)
| RRelocatedAddress (a : N)
| RIndexedAddress (i : N) (relocate : bool)
| RBaseType (o : N).

(* EvaluationWaiting *)
Inductive waiting : Type :=
| WMemory | WRegister (offset : Z) | WFrameBase (offset : Z) | WTls | WCfa | WAtLocation
| WEntryValue | WParameterRef | WRelocatedAddress | WIndexedAddress
| WTypedLiteral (v : list byte) | WConvert | WReinterpret | WWasmValue.

(* what the consumer hands to resume_with_*: every component is present, the waiting state selects
   the one its resume function takes (Value / u64 / expression bytes / ValueType) *)
Record answer : Type := mkAns { a_val : value; a_u64 : N; a_bytes : list byte; a_ty : vtype }.

(* Evaluation configuration: encoding, set_object_address, set_max_iterations, set_initial_value, and
   the EvaluationStorage capacities (None = StoreOnHeap's Vec) *)
Record cfg : Type := mkCfg {
  c_enc : enc;
  c_obj : option N;
  c_max : option N;
  c_init : option N;
  c_cap_stack : option nat;
  c_cap_expr : option nat;
  c_cap_res : option nat;
  (* None: the faithful model of gimli.  Some bits: the NORMALISED machine — identical, except that every
     generic value is reduced modulo 2^bits when it is pushed, so the stack only ever holds canonical values
     (the DWARF stack machine over Z/2^bits; used as the specification oracle of stream c07.spec). *)
  c_canon : option N
}.

Record st : Type := mkSt {
  s_bytecode : list byte;
  s_pc : list byte;                          (* always a suffix of s_bytecode (theorem pc_in_bounds) *)
  s_stack : list value;                      (* head = top *)
  s_estack : list (list byte * list byte);   (* (pc, bytecode) of the callers, head = innermost *)
  s_result : list piece;                     (* reversed: head = last pushed *)
  s_iter : N;                                (* iteration : u32 *)
  s_vres : option value;
  s_nops : N;                                (* ghost: calls of evaluate_one_operation *)
  s_nparse : N                               (* ghost: calls of Operation::parse *)
}.

Definition set_stack st x := mkSt (s_bytecode st) (s_pc st) x (s_estack st) (s_result st) (s_iter st) (s_vres st) (s_nops st) (s_nparse st).
Definition set_pc st x := mkSt (s_bytecode st) x (s_stack st) (s_estack st) (s_result st) (s_iter st) (s_vres st) (s_nops st) (s_nparse st).
Definition set_result st x := mkSt (s_bytecode st) (s_pc st) (s_stack st) (s_estack st) x (s_iter st) (s_vres st) (s_nops st) (s_nparse st).
Definition set_iter st x := mkSt (s_bytecode st) (s_pc st) (s_stack st) (s_estack st) (s_result st) x (s_vres st) (s_nops st) (s_nparse st).
Definition set_vres st x := mkSt (s_bytecode st) (s_pc st) (s_stack st) (s_estack st) (s_result st) (s_iter st) x (s_nops st) (s_nparse st).
Definition set_code st bc pc es := mkSt bc pc (s_stack st) es (s_result st) (s_iter st) (s_vres st) (s_nops st) (s_nparse st).
Definition count_op st := mkSt (s_bytecode st) (s_pc st) (s_stack st) (s_estack st) (s_result st) (s_iter st) (s_vres st) (s_nops st + 1) (s_nparse st).
Definition count_parse st := mkSt (s_bytecode st) (s_pc st) (s_stack st) (s_estack st) (s_result st) (s_iter st) (s_vres st) (s_nops st) (s_nparse st + 1).

(* addr_mask of Evaluation::new_in: `if address_size == 8 { !0 } else { (1 << (8 * u64::from(address_size))) - 1 }`.
   A shift amount >= 64 is an overflow panic in debug builds and is reduced mod 64 in release builds. *)
Definition new_mask (dbg : bool) (asz : N) : res N :=
  if asz =? 8 then Ok (two64 - 1) else
  let sh := 8 * asz in
  if 64 <=? sh then (if dbg then Panic else Ok (wrap64 (N.shiftl 1 (sh mod 64)) - 1))
  else Ok (N.shiftl 1 sh - 1).

(* ArrayVec::try_push *)
Definition full {A} (cap : option nat) (l : list A) : bool :=
  match cap with None => false | Some c => Nat.leb c (length l) end.

(* normalisation of a value entering the stack (identity in the faithful model) *)
Definition norm (c : cfg) (v : value) : value :=
  match c_canon c, vty v with
  | Some bits, TGeneric => mkV TGeneric (N.land (vbits v) (N.ones bits))
  | _, _ => v
  end.

(* Evaluation::push / pop *)
Definition push (c : cfg) (s : st) (v : value) : res st :=
  if full (c_cap_stack c) (s_stack s) then Err EStackFull else Ok (set_stack s (norm c v :: s_stack s)).
Definition pop (s : st) : res (value * st) :=
  match s_stack s with
  | [] => Err ENotEnoughStackItems
  | v :: r => Ok (v, set_stack s r)
  end.
Definition push_piece (c : cfg) (s : st) (p : piece) : res st :=
  if full (c_cap_res c) (s_result s) then Err EStackFull else Ok (set_result s (p :: s_result s)).

(* fn compute_pc(pc, bytecode, offset: i16) *)
Definition compute_pc (s : st) (target : Z) : res (list byte) :=
  let lb := N.of_nat (length (s_bytecode s)) in
  let lp := N.of_nat (length (s_pc s)) in
  if lb <? lp then Panic          (* pc.offset_from(bytecode) with pc outside bytecode: unreachable (pc_in_bounds) *)
  else
    let pc_offset := lb - lp in
    let new_pc_offset := w64 (pc_offset + usg 64 target) in   (* wrapping_add(from_i16(offset)) on usize *)
    if lb <? new_pc_offset then Err EBadBranchTarget
    else Ok (skipn (N.to_nat new_pc_offset) (s_bytecode s)).

Inductive opres : Type :=
| RPiece
| RIncomplete
| RComplete (l : location)
| RWaiting (w : waiting) (r : request).

Section WithFops.
Variable F : fops.

(* the shape `let rhs = pop; let lhs = pop; push(lhs.op(rhs, mask)?)` *)
Definition binop (c : cfg) (mask : N) (s : st) (f : value -> value -> N -> res value) : res (opres * st) :=
  let* (rhs, s1) := pop s in
  let* (lhs, s2) := pop s1 in
  let* r := f lhs rhs mask in
  let* s3 := push c s2 r in
  Ok (RIncomplete, s3).
Definition unop (c : cfg) (mask : N) (s : st) (f : value -> N -> res value) : res (opres * st) :=
  let* (v, s1) := pop s in
  let* r := f v mask in
  let* s2 := push c s1 r in
  Ok (RIncomplete, s2).

(* Evaluation::evaluate_one_operation *)
Definition evaluate_one_operation (dbg : bool) (c : cfg) (mask : N) (s0 : st) : res (opres * st) :=
  let s0 := count_op (count_parse s0) in
  let* (operation, pc') := parse_op dbg (c_enc c) (s_pc s0) in
  let s := set_pc s0 pc' in
  match operation with
  | ODeref base_type size space =>
      if e_asz (c_enc c) <? size then Err EInvalidDerefSize else
      let* (entry, s1) := pop s in
      let* addr := to_u64 entry mask in
      if space then
        let* (entry2, s2) := pop s1 in
        let* sp := to_u64 entry2 mask in
        Ok (RWaiting WMemory (RMemory addr size (Some sp) base_type), s2)
      else Ok (RWaiting WMemory (RMemory addr size None base_type), s1)
  | ODrop => let* (_, s1) := pop s in Ok (RIncomplete, s1)
  | OPick index =>
      let len := N.of_nat (length (s_stack s)) in
      if len <=? index then Err ENotEnoughStackItems else
      match nth_error (s_stack s) (N.to_nat index) with      (* self.stack[len - index - 1] *)
      | Some v => let* s1 := push c s v in Ok (RIncomplete, s1)
      | None => Panic
      end
  | OSwap =>
      let* (top, s1) := pop s in
      let* (next, s2) := pop s1 in
      let* s3 := push c s2 top in
      let* s4 := push c s3 next in
      Ok (RIncomplete, s4)
  | ORot =>
      let* (one, s1) := pop s in
      let* (two, s2) := pop s1 in
      let* (three, s3) := pop s2 in
      let* s4 := push c s3 one in
      let* s5 := push c s4 three in
      let* s6 := push c s5 two in
      Ok (RIncomplete, s6)
  | OAbs => unop c mask s vabs
  | OAnd => binop c mask s (vand F)
  | ODiv => binop c mask s (vdiv F)
  | OMinus => binop c mask s (vsub F)
  | OMod => binop c mask s vrem
  | OMul => binop c mask s (vmul F)
  | ONeg => unop c mask s vneg
  | ONot => unop c mask s (vnot F)
  | OOr => binop c mask s (vor F)
  | OPlus => binop c mask s (vadd F)
  | OPlusConstant value =>
      let* (lhs, s1) := pop s in
      let* rhs := from_u64 F (vty lhs) value in
      let* r := vadd F lhs rhs mask in
      let* s2 := push c s1 r in
      Ok (RIncomplete, s2)
  | OShl => binop c mask s vshl
  | OShr => binop c mask s vshr
  | OShra => binop c mask s vshra
  | OXor => binop c mask s (vxor F)
  | OBra target =>
      let* (entry, s1) := pop s in
      let* v := to_u64 entry mask in
      if negb (v =? 0) then
        let* pc2 := compute_pc s1 target in Ok (RIncomplete, set_pc s1 pc2)
      else Ok (RIncomplete, s1)
  | OEq => binop c mask s veq
  | OGe => binop c mask s vge
  | OGt => binop c mask s vgt
  | OLe => binop c mask s vle
  | OLt => binop c mask s vlt
  | ONe => binop c mask s vne
  | OSkip target => let* pc2 := compute_pc s target in Ok (RIncomplete, set_pc s pc2)
  | OUnsignedConstant value => let* s1 := push c s (mkV TGeneric value) in Ok (RIncomplete, s1)
  | OSignedConstant value => let* s1 := push c s (mkV TGeneric (usg 64 value)) in Ok (RIncomplete, s1)
  | ORegisterOffset register offset base_type =>
      Ok (RWaiting (WRegister offset) (RRegister register base_type), s)
  | OFrameOffset offset => Ok (RWaiting (WFrameBase offset) RFrameBase, s)
  | ONop => Ok (RIncomplete, s)
  | OPushObjectAddress =>
      match c_obj c with
      | Some v => let* s1 := push c s (mkV TGeneric v) in Ok (RIncomplete, s1)
      | None => Err EInvalidPushObjectAddress
      end
  | OCall offset => Ok (RWaiting WAtLocation (RAtLocation offset), s)
  | OTLS =>
      let* (entry, s1) := pop s in
      let* index := to_u64 entry mask in
      Ok (RWaiting WTls (RTls index), s1)
  | OCallFrameCFA => Ok (RWaiting WCfa RCfa, s)
  | ORegister register => Ok (RComplete (LRegister register), s)
  | OImplicitValue data => Ok (RComplete (LBytes data), s)
  | OStackValue => let* (v, s1) := pop s in Ok (RComplete (LValue v), s1)
  | OImplicitPointer value byte_offset => Ok (RComplete (LImplicitPointer value byte_offset), s)
  | OEntryValue expression => Ok (RWaiting WEntryValue (REntryValue expression), s)
  | OParameterRef offset => Ok (RWaiting WParameterRef (RParameterRef offset), s)
  | OAddress address => Ok (RWaiting WRelocatedAddress (RRelocatedAddress address), s)
  | OAddressIndex index => Ok (RWaiting WIndexedAddress (RIndexedAddress index true), s)
  | OConstantIndex index => Ok (RWaiting WIndexedAddress (RIndexedAddress index false), s)
  | OPiece size_in_bits bit_offset =>
      let* (loc, s1) :=
        match s_stack s with
        | [] => Ok (LEmpty, s)
        | _ => let* (entry, s1) := pop s in
               let* address := to_u64 entry mask in
               Ok (LAddress address, s1)
        end in
      let* s2 := push_piece c s1 (mkPiece (Some size_in_bits) bit_offset loc) in
      Ok (RPiece, s2)
  | OTypedLiteral base_type value => Ok (RWaiting (WTypedLiteral value) (RBaseType base_type), s)
  | OConvert base_type => Ok (RWaiting WConvert (RBaseType base_type), s)
  | OReinterpret base_type => Ok (RWaiting WReinterpret (RBaseType base_type), s)
  | OWasmLocal index => Ok (RWaiting WWasmValue (RWasmLocal index), s)
  | OWasmGlobal index => Ok (RWaiting WWasmValue (RWasmGlobal index), s)
  | OWasmStack index => Ok (RWaiting WWasmValue (RWasmStack index), s)
  | OVariableValue _ | OUninitialized => Err EUnsupportedEvaluation
  end.

(* Evaluation::end_of_expression: `while pc.is_empty() { pop the expression stack or return true }` *)
Fixpoint eoe_loop (pc bc : list byte) (es : list (list byte * list byte))
  : bool * (list byte * list byte * list (list byte * list byte)) :=
  match pc with
  | _ :: _ => (false, (pc, bc, es))
  | [] =>
      match es with
      | [] => (true, (pc, bc, es))
      | (newpc, newbytes) :: es' => eoe_loop newpc newbytes es'
      end
  end.
Definition end_of_expression (s : st) : bool * st :=
  let '(b, (pc, bc, es)) := eoe_loop (s_pc s) (s_bytecode s) (s_estack s) in
  (b, set_code s bc pc es).

Inductive outcome : Type :=
| Done                                   (* EvaluationResult::Complete, state = Complete *)
| Need (w : waiting) (r : request).      (* EvaluationResult::Requires*, state = Waiting(w) *)

(* the tail of evaluate_internal after the loop *)
Definition finish (c : cfg) (mask : N) (s : st) : res (outcome * st) :=
  match s_result s with
  | [] =>
      let* (entry, s1) := pop s in
      let s2 := set_vres s1 (Some entry) in
      let* addr := to_u64 entry mask in
      let* s3 := push_piece c s2 (mkPiece None None (LAddress addr)) in
      Ok (Done, s3)
  | _ => Ok (Done, s)
  end.

(* the head of the loop body of evaluate_internal:
     if let Some(max) = self.max_iterations { if self.iteration >= max { return Err(TooManyIterations) } self.iteration += 1; }
   the counter is compared before it is incremented and is not touched when no limit is set *)
Definition count_iteration (dbg : bool) (c : cfg) (s : st) : res st :=
  match c_max c with
  | Some m =>
      if m <=? s_iter s then Err ETooManyIterations
      else let* it := chk_add 32 dbg (s_iter s) 1 in Ok (set_iter s it)
  | None => Ok s
  end.

(* Evaluation::evaluate_internal; one unit of fuel per loop iteration *)
Fixpoint evaluate_internal (fuel : nat) (dbg : bool) (c : cfg) (mask : N) (s : st) : res (outcome * st) :=
  match fuel with
  | O => OutOfFuel
  | S fuel' =>
      let '(e, s) := end_of_expression s in
      if e then finish c mask s else
      let* s := count_iteration dbg c s in
      let* (r, s) := evaluate_one_operation dbg c mask s in
      match r with
      | RPiece => evaluate_internal fuel' dbg c mask s
      | RIncomplete =>
          let '(e, s) := end_of_expression s in
          if e && negb (match s_result s with [] => true | _ => false end) then Err EInvalidPiece
          else evaluate_internal fuel' dbg c mask s
      | RComplete loc =>
          let '(e, s) := end_of_expression s in
          if e then
            match s_result s with
            | [] => let* s := push_piece c s (mkPiece None None loc) in
                    evaluate_internal fuel' dbg c mask s
            | _ => Err EInvalidPiece
            end
          else
            let s := count_parse s in
            let* (o, pc') := parse_op dbg (c_enc c) (s_pc s) in
            let s := set_pc s pc' in
            match o with
            | OPiece size_in_bits bit_offset =>
                let* s := push_piece c s (mkPiece (Some size_in_bits) bit_offset loc) in
                evaluate_internal fuel' dbg c mask s
            | _ =>
                (* bytecode.len() - pc.len() - 1 on u64: an underflow would panic in debug builds *)
                let lb := N.of_nat (length (s_bytecode s)) in
                let lp := N.of_nat (length (s_pc s)) in
                let* d := chk_sub 64 dbg lb lp in
                let* _ := chk_sub 64 dbg d 1 in
                Err EInvalidExpressionTerminator
            end
      | RWaiting w rq => Ok (Need w rq, s)
      end
  end.

(* Evaluation::evaluate from the Start state *)
Definition initial_state (bytecode : list byte) : st :=
  mkSt bytecode bytecode [] [] [] 0 None 0 0.

Definition evaluate (fuel : nat) (dbg : bool) (c : cfg) (mask : N) (bytecode : list byte) : res (outcome * st) :=
  let s := initial_state bytecode in
  let* s := match c_init c with
            | Some v => push c s (mkV TGeneric v)
            | None => Ok s
            end in
  evaluate_internal fuel dbg c mask s.

(* the state change of resume_with_* selected by the waiting state, before evaluate_internal *)
Definition resume_apply (c : cfg) (mask : N) (w : waiting) (a : answer) (s : st) : res st :=
  match w with
  | WMemory | WWasmValue | WEntryValue => push c s (a_val a)
  | WRegister offset =>
      let value := a_val a in
      let* off := from_u64 F (vty value) (usg 64 offset) in
      let* v := vadd F value off mask in
      push c s v
  | WFrameBase offset => push c s (mkV TGeneric (w64 (a_u64 a + usg 64 offset)))
  | WTls | WCfa | WParameterRef | WRelocatedAddress | WIndexedAddress => push c s (mkV TGeneric (a_u64 a))
  | WAtLocation =>
      match a_bytes a with
      | [] => Ok s
      | bytes =>
          (* swap pc/bytecode with the new expression, then expression_stack.try_push((old pc, old bytecode)) *)
          if full (c_cap_expr c) (s_estack s) then Err EStackFull
          else Ok (set_code s bytes bytes ((s_pc s, s_bytecode s) :: s_estack s))
      end
  | WTypedLiteral v =>
      let* x := value_parse (e_be (c_enc c)) (a_ty a) v in
      push c s x
  | WConvert =>
      let* (entry, s1) := pop s in
      let* x := convert F entry (a_ty a) mask in
      push c s1 x
  | WReinterpret =>
      let* (entry, s1) := pop s in
      let* x := reinterpret entry (a_ty a) mask in
      push c s1 x
  end.

Definition resume (fuel : nat) (dbg : bool) (c : cfg) (mask : N) (w : waiting) (a : answer) (s : st)
  : res (outcome * st) :=
  let* s := resume_apply c mask w a s in
  evaluate_internal fuel dbg c mask s.

(* ---- the whole conversation with a consumer ---- *)
Inductive final : Type :=
| FComplete (pieces : list piece) (vres : option value) (nops nparse : N)
| FErr (e : error)
| FPanic
| FOutOfFuel
| FStuck.                      (* the answer list ran out while the evaluation was waiting *)

Definition trace : Type := (list request * final)%type.

Fixpoint drive (fuel : nat) (dbg : bool) (c : cfg) (mask : N) (r : res (outcome * st)) (answers : list answer) : trace :=
  match r with
  | Ok (Done, s) => ([], FComplete (rev (s_result s)) (s_vres s) (s_nops s) (s_nparse s))
  | Ok (Need w rq, s) =>
      match answers with
      | [] => ([rq], FStuck)
      | a :: rest =>
          let '(rqs, f) := drive fuel dbg c mask (resume fuel dbg c mask w a s) rest in
          (rq :: rqs, f)
      end
  | Err e => ([], FErr e)
  | Panic => ([], FPanic)
  | OutOfFuel => ([], FOutOfFuel)
  end.

Definition run (fuel : nat) (dbg : bool) (c : cfg) (program : list byte) (answers : list answer) : trace :=
  match new_mask dbg (e_asz (c_enc c)) with
  | Ok mask => drive fuel dbg c mask (evaluate fuel dbg c mask program) answers
  | Err e => ([], FErr e)
  | Panic => ([], FPanic)
  | OutOfFuel => ([], FOutOfFuel)
  end.

End WithFops.
