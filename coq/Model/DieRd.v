(* Model/DieRd.v — mirrors /repo/src/read/unit.rs
     parse_unit_header, DebugInfoUnitHeadersIter::next / DebugTypesUnitHeadersIter::next,
     DebugInfo::header_from_offset,
     UnitHeader::{length_including_self, header_size, is_in_bounds, range_from, entry, entries,
                  entries_at_offset, entries_tree, entries_raw},
     DebuggingInformationEntry::{null, is_null, set_null, attr, attr_value, sibling},
     EntriesRaw::{new, empty, is_empty, seek_forward, next_offset, next_depth, read_entry,
                  read_abbreviation, read_attributes},
     EntriesCursor::{new, current, next_entry, next_dfs, next_sibling},
     EntriesTree::{new, root, next}, EntriesTreeIter::next
   for usize = u64 (isize = i64) and a slice reader. No proofs here.
   Streams: c02.header c02.forest c02.nav c02.bytes *)
From Coq Require Import List NArith ZArith Bool.
From Coq.Strings Require Import Byte.
Require Import GV.Base.Res GV.Base.Byt GV.Base.Ints GV.Model.Leb GV.Model.Prim GV.Spec.FormSpec
               GV.Model.Attr GV.Spec.Forest GV.Model.AbbrevRd.
Import ListNotations.
Local Open Scope N_scope.

(* ------------------------------------------------------------------ *)
(** * Unit headers *)

(* struct UnitHeader; `u_types` = (section == SectionId::DebugTypes); the reader's byte order is kept
   in u_enc (gimli::Encoding has version, format, address_size) *)
Record unit_header : Type :=
  mkUnit { u_enc : enc; u_length : N; u_type : utype; u_abbrev : N; u_types : bool; u_offset : N;
           u_entries : list byte }.

(* the `match unit_type` of parse_unit_header *)
Definition parse_unit_type (bigend fmt64 : bool) (code : N) (bs : list byte) : res (utype * list byte) :=
  if code =? 1 then Ok (UCompile, bs)
  else if code =? 2 then
    (let* (s, r1) := read_u64 bigend bs in let* (o, r2) := read_word fmt64 bigend r1 in Ok (UType s o, r2))
  else if code =? 3 then Ok (UPartial, bs)
  else if code =? 4 then (let* (i, r1) := read_u64 bigend bs in Ok (USkeleton i, r1))
  else if code =? 5 then (let* (i, r1) := read_u64 bigend bs in Ok (USplitCompile i, r1))
  else if code =? 6 then
    (let* (s, r1) := read_u64 bigend bs in let* (o, r2) := read_word fmt64 bigend r1 in Ok (USplitType s o, r2))
  else Err EUnknownUnitType.

(* parse_unit_header(input, section, unit_offset): the header and the input after the unit *)
Definition parse_unit_header (bigend types : bool) (unit_offset : N) (bs : list byte)
  : res (unit_header * list byte) :=
  let* ((unit_length, fmt64), r0) := read_initial_length bigend bs in
  let* (rest, after) := split_n unit_length r0 in
  let* (version, r1) := read_u16 bigend rest in
  let* (ut, asz, aoff, r2) :=
    (if (2 <=? version) && (version <=? 4) then
       (let* (aoff, ra) := read_word fmt64 bigend r1 in
        let* (asz, rb) := read_address_size ra in
        Ok (if types then 2 else 1, asz, aoff, rb))
     else if version =? 5 then
       (let* (ut, ra) := read_u8 r1 in
        let* (asz, rb) := read_address_size ra in
        let* (aoff, rc) := read_word fmt64 bigend rb in
        Ok (ut, asz, aoff, rc))
     else Err EUnknownVersion) in
  let* (utype, r3) := parse_unit_type bigend fmt64 ut r2 in
  Ok (mkUnit (mkEnc version fmt64 asz bigend) unit_length utype aoff types unit_offset r3, after).

(* Debug{Info,Types}UnitHeadersIter::next, iterated by the caller until Ok(None) or the first Err
   (after an Err the iterator's input is emptied, so the next call returns Ok(None)).
   `self.offset.0 += len - self.input.len()` is unchecked arithmetic on usize. *)
Fixpoint units_loop (fuel : nat) (dbg bigend types : bool) (offset : N) (bs : list byte)
  : res (list unit_header * option error) :=
  match fuel with
  | O => OutOfFuel
  | S k =>
      if is_nil bs then Ok ([], None) else
      match parse_unit_header bigend types offset bs with
      | Ok (h, after) =>
          let* consumed := chk_sub 64 dbg (nlen bs) (nlen after) in
          let* offset' := chk_add 64 dbg offset consumed in
          let* (l, e) := units_loop k dbg bigend types offset' after in
          Ok (h :: l, e)
      | Err e => Ok ([], Some e)
      | Panic => Panic
      | OutOfFuel => OutOfFuel
      end
  end.
Definition units (dbg bigend types : bool) (section : list byte) : res (list unit_header * option error) :=
  units_loop (S (length section)) dbg bigend types 0 section.

(* DebugInfo::header_from_offset *)
Definition header_from_offset (bigend : bool) (section : list byte) (offset : N) : res unit_header :=
  let* r := skip_n offset section in
  let* (h, _) := parse_unit_header bigend false offset r in Ok h.

Definition initial_length_size (fmt64 : bool) : N := if fmt64 then 12 else 4.

(* UnitHeader::length_including_self — unchecked `+` *)
Definition length_including_self (dbg : bool) (h : unit_header) : res N :=
  chk_add 64 dbg (initial_length_size (fmt64 (u_enc h))) (u_length h).

(* UnitHeader::header_size — unchecked `-` *)
Definition header_size (dbg : bool) (h : unit_header) : res N :=
  let* l := length_including_self dbg h in
  chk_sub 64 dbg l (nlen (u_entries h)).

(* UnitHeader::is_in_bounds *)
Definition is_in_bounds (dbg : bool) (h : unit_header) (offset : N) : res bool :=
  let* size_of_header := header_size dbg h in
  if offset <? size_of_header then Ok false
  else Ok (offset - size_of_header <? nlen (u_entries h)).

(* UnitHeader::range_from(offset..) *)
Definition range_from (dbg : bool) (h : unit_header) (offset : N) : res (list byte) :=
  let* inb := is_in_bounds dbg h offset in
  if negb inb then Err EOffsetOutOfBounds else
  let* hs := header_size dbg h in
  let* start := chk_sub 64 dbg offset hs in
  skip_n start (u_entries h).

(* ------------------------------------------------------------------ *)
(** * EntriesRaw *)

(* fields input / end_offset / depth; encoding and abbreviations are passed alongside *)
Record raw_st : Type := mkRaw { r_in : list byte; r_end : N; r_depth : Z }.

(* EntriesRaw::new — `offset.0 + input.len()` is unchecked *)
Definition raw_new (dbg : bool) (input : list byte) (offset : N) : res raw_st :=
  let* e := chk_add 64 dbg offset (nlen input) in Ok (mkRaw input e 0).

Definition raw_empty (r : raw_st) : raw_st := mkRaw [] (r_end r) (r_depth r).
Definition raw_is_empty (r : raw_st) : bool := is_nil (r_in r).

(* EntriesRaw::next_offset — unchecked `-` *)
Definition next_offset (dbg : bool) (r : raw_st) : res N := chk_sub 64 dbg (r_end r) (nlen (r_in r)).

(* DebuggingInformationEntry::null / is_null / set_null *)
Definition null_die : die := mkDie 0 0 0 false [].
Definition is_null (d : die) : bool := d_tag d =? 0.
Definition set_null (d : die) : die := mkDie (d_offset d) (d_depth d) 0 false [].

(* EntriesRaw::read_abbreviation; depth is an isize *)
Definition read_abbreviation (dbg : bool) (tbl : abbrevs) (r : raw_st) : res (option abbrev * raw_st) :=
  let* (code, rest) := read_uleb128 dbg (r_in r) in
  if code =? 0 then
    (let* d := chk_s 64 dbg (r_depth r - 1) in Ok (None, mkRaw rest (r_end r) d))
  else
    match tbl_get tbl code with
    | None => Err EInvalidAbbreviationCode
    | Some a =>
        let* d := (if ab_children a then chk_s 64 dbg (r_depth r + 1) else Ok (r_depth r)) in
        Ok (Some a, mkRaw rest (r_end r) d)
    end.

(* EntriesRaw::read_attributes: Attribute { name, form, value } is kept as (spec, value) *)
Definition read_attrs (dbg : bool) (e : enc) (specs : list aspec) (bs : list byte)
  : res (list (aspec * attr_value) * list byte) :=
  let* (vs, r) := read_attributes dbg e specs bs in Ok (combine specs vs, r).

(* EntriesRaw::read_entry: the bool result, the filled entry, the advanced reader.
   (On Err the Rust has modified both; callers that continue after an error are modelled where the
   code says what they do: EntriesCursor::next_entry, EntriesTree::next.) *)
Definition read_entry (dbg : bool) (e : enc) (tbl : abbrevs) (r : raw_st) : res (bool * die * raw_st) :=
  let depth := r_depth r in
  let* offset := next_offset dbg r in
  let* (oa, r1) := read_abbreviation dbg tbl r in
  match oa with
  | None => Ok (false, mkDie offset depth 0 false [], r1)
  | Some a =>
      let* (attrs, rest) := read_attrs dbg e (ab_specs a) (r_in r1) in
      Ok (true, mkDie offset depth (ab_tag a) (ab_children a) attrs, mkRaw rest (r_end r1) (r_depth r1))
  end.

(* EntriesRaw::seek_forward *)
Definition seek_forward (dbg : bool) (r : raw_st) (offset : N) (depth : Z) : res (bool * raw_st) :=
  let* no := next_offset dbg r in
  if offset <? no then Ok (false, r) else      (* checked_sub = None *)
  match skip_n (offset - no) (r_in r) with
  | Ok rest => Ok (true, mkRaw rest (r_end r) depth)
  | Err _ => Ok (false, r)
  | Panic => Panic
  | OutOfFuel => OutOfFuel
  end.

(* DebuggingInformationEntry::attr_value(name): first attribute with that name, normalised *)
Definition die_attr_value (d : die) (name : N) : option attr_value :=
  match find (fun p => at_name (fst p) =? name) (d_attrs d) with
  | Some (s, v) => Some (attr_normalise (at_name s) v)
  | None => None
  end.

(* DebuggingInformationEntry::sibling *)
Definition die_sibling (d : die) : option N :=
  match die_attr_value d DW_AT_sibling with
  | Some (VUnitRef o) => if d_offset d <? o then Some o else None
  | _ => None
  end.

(* the `while !entries.is_empty() { entries.read_entry(..) }` loop of a caller of EntriesRaw: every
   entry read (null ones included) until the input is exhausted or the first error *)
Fixpoint raw_loop (fuel : nat) (dbg : bool) (e : enc) (tbl : abbrevs) (r : raw_st)
  : res (list die * option error) :=
  match fuel with
  | O => OutOfFuel
  | S k =>
      if raw_is_empty r then Ok ([], None) else
      match read_entry dbg e tbl r with
      | Ok (_, d, r') => let* (l, err) := raw_loop k dbg e tbl r' in Ok (d :: l, err)
      | Err x => Ok ([], Some x)
      | Panic => Panic
      | OutOfFuel => OutOfFuel
      end
  end.

(* UnitHeader::entries_raw(abbrevs, offset) *)
Definition entries_raw (dbg : bool) (h : unit_header) (offset : option N) : res raw_st :=
  let* off := (match offset with Some o => Ok o | None => header_size dbg h end) in
  let* input := range_from dbg h off in
  raw_new dbg input off.

(* read every raw entry of a unit from an offset (None = root) *)
Definition read_all_raw (dbg : bool) (h : unit_header) (tbl : abbrevs) (offset : option N)
  : res (list die * option error) :=
  let* r := entries_raw dbg h offset in
  raw_loop (S (length (r_in r))) dbg (u_enc h) tbl r.

(* UnitHeader::entry *)
Definition entry_at (dbg : bool) (h : unit_header) (tbl : abbrevs) (offset : N) : res die :=
  let* r := entries_raw dbg h (Some offset) in
  let* (_, d, _) := read_entry dbg (u_enc h) tbl r in
  if is_null d then Err ENoEntryAtGivenOffset else Ok d.

(* ------------------------------------------------------------------ *)
(** * EntriesCursor *)

Record cursor : Type := mkCur { c_raw : raw_st; c_cur : die }.

Definition cursor_new (dbg : bool) (input : list byte) (offset : N) : res cursor :=
  let* r := raw_new dbg input offset in Ok (mkCur r null_die).

(* UnitHeader::entries / entries_at_offset *)
Definition entries (dbg : bool) (h : unit_header) : res cursor :=
  let* off := header_size dbg h in cursor_new dbg (u_entries h) off.
Definition entries_at_offset (dbg : bool) (h : unit_header) (offset : N) : res cursor :=
  let* input := range_from dbg h offset in cursor_new dbg input offset.

(* EntriesCursor::current *)
Definition current (c : cursor) : option die := if is_null (c_cur c) then None else Some (c_cur c).

(* A step of the cursor that can return Err leaves a defined state behind: `step` carries it. *)
Inductive step (A : Type) : Type := SOk (a : A) (c : cursor) | SErr (e : error) (c : cursor).
Arguments SOk {A} a c.
Arguments SErr {A} e c.

(* EntriesCursor::next_entry *)
Definition next_entry (dbg : bool) (e : enc) (tbl : abbrevs) (c : cursor) : res (step bool) :=
  if raw_is_empty (c_raw c) then Ok (SOk false (mkCur (c_raw c) (set_null (c_cur c)))) else
  match read_entry dbg e tbl (c_raw c) with
  | Ok (_, d, r') => Ok (SOk true (mkCur r' d))
  | Err x =>
      (* read_entry has already stored depth and offset in cached_current; input.empty(); set_null().
         The depth left in the emptied reader (the old one, or one more when the failure came after
         the abbreviation of an entry with children) is not modelled: the old value is kept, and no
         stream observes next_depth() after an error. *)
      let* off := next_offset dbg (c_raw c) in
      Ok (SErr x (mkCur (mkRaw [] (r_end (c_raw c)) (r_depth (c_raw c)))
                        (mkDie off (r_depth (c_raw c)) 0 false [])))
  | Panic => Panic
  | OutOfFuel => OutOfFuel
  end.

(* EntriesCursor::next_dfs: every iteration that continues has consumed at least one byte *)
Fixpoint next_dfs (fuel : nat) (dbg : bool) (e : enc) (tbl : abbrevs) (c : cursor)
  : res (step (option die)) :=
  match fuel with
  | O => OutOfFuel
  | S k =>
      let* s := next_entry dbg e tbl c in
      match s with
      | SErr x c' => Ok (SErr x c')
      | SOk false c' => Ok (SOk None c')
      | SOk true c' => if negb (is_null (c_cur c')) then Ok (SOk (Some (c_cur c')) c')
                       else next_dfs k dbg e tbl c'
      end
  end.

(* the fast path at the top of the loops of next_sibling / EntriesTree::next *)
Definition sibling_jump (dbg : bool) (r : raw_st) (cur : die) : res raw_st :=
  if d_children cur then
    match die_sibling cur with
    | Some o => let* (_, r') := seek_forward dbg r o (d_depth cur) in Ok r'
    | None => Ok r
    end
  else Ok r.

(* the `loop` of EntriesCursor::next_sibling *)
Fixpoint sibling_loop (fuel : nat) (dbg : bool) (e : enc) (tbl : abbrevs) (current_depth : Z) (c : cursor)
  : res (step (option die)) :=
  match fuel with
  | O => OutOfFuel
  | S k =>
      let* r1 := (match current c with
                  | Some cur => sibling_jump dbg (c_raw c) cur
                  | None => Ok (c_raw c)
                  end) in
      let* s := next_entry dbg e tbl (mkCur r1 (c_cur c)) in
      match s with
      | SErr x c' => Ok (SErr x c')
      | SOk false c' => Ok (SOk None c')
      | SOk true c' =>
          if (d_depth (c_cur c') =? current_depth)%Z then Ok (SOk (current c') c')
          else sibling_loop k dbg e tbl current_depth c'
      end
  end.

(* EntriesCursor::next_sibling *)
Definition next_sibling (fuel : nat) (dbg : bool) (e : enc) (tbl : abbrevs) (c : cursor)
  : res (step (option die)) :=
  match current c with
  | None => Ok (SOk None c)
  | Some cur => sibling_loop fuel dbg e tbl (d_depth cur) c
  end.

Definition cursor_fuel (c : cursor) : nat := S (length (r_in (c_raw c))).

(* callers' loops: `while let Some(d) = cursor.next_dfs()? { .. }` and
   `while let Some(d) = cursor.next_sibling()? { .. }`, collecting the entries returned *)
Fixpoint dfs_all (fuel : nat) (dbg : bool) (e : enc) (tbl : abbrevs) (c : cursor)
  : res (list die * option error) :=
  match fuel with
  | O => OutOfFuel
  | S k =>
      let* s := next_dfs (cursor_fuel c) dbg e tbl c in
      match s with
      | SErr x _ => Ok ([], Some x)
      | SOk None _ => Ok ([], None)
      | SOk (Some d) c' => let* (l, err) := dfs_all k dbg e tbl c' in Ok (d :: l, err)
      end
  end.

Fixpoint siblings_all (fuel : nat) (dbg : bool) (e : enc) (tbl : abbrevs) (c : cursor)
  : res (list die * option error) :=
  match fuel with
  | O => OutOfFuel
  | S k =>
      let* s := next_sibling (cursor_fuel c) dbg e tbl c in
      match s with
      | SErr x _ => Ok ([], Some x)
      | SOk None _ => Ok ([], None)
      | SOk (Some d) c' => let* (l, err) := siblings_all k dbg e tbl c' in Ok (d :: l, err)
      end
  end.

(* `while cursor.next_entry()? { .. }`: every entry the cursor stops at, null ones included *)
Fixpoint entries_all (fuel : nat) (dbg : bool) (e : enc) (tbl : abbrevs) (c : cursor)
  : res (list die * option error) :=
  match fuel with
  | O => OutOfFuel
  | S k =>
      let* s := next_entry dbg e tbl c in
      match s with
      | SErr x _ => Ok ([], Some x)
      | SOk false _ => Ok ([], None)
      | SOk true c' => let* (l, err) := entries_all k dbg e tbl c' in Ok (c_cur c' :: l, err)
      end
  end.

(* ------------------------------------------------------------------ *)
(** * EntriesTree *)

Record tree_st : Type := mkTree { tr_root : list byte; tr_raw : raw_st; tr_entry : die }.

(* UnitHeader::entries_tree(abbrevs, offset) *)
Definition entries_tree (dbg : bool) (h : unit_header) (offset : option N) : res tree_st :=
  let* off := (match offset with Some o => Ok o | None => header_size dbg h end) in
  let* input := range_from dbg h off in
  let* r := raw_new dbg input off in
  Ok (mkTree input r null_die).

(* EntriesTree::root: the node's entry; children of the node are requested with depth 1.
   (On Err of read_entry the tree is left half-updated; callers stop.) *)
Definition tree_root (dbg : bool) (e : enc) (tbl : abbrevs) (t : tree_st) : res tree_st :=
  let r0 := mkRaw (tr_root t) (r_end (tr_raw t)) 0 in
  let* (ok, d, r1) := read_entry dbg e tbl r0 in
  if negb ok then Err ENoEntryAtGivenOffset else Ok (mkTree (tr_root t) r1 d).

Inductive tstep : Type := TOk (found : bool) (t : tree_st) | TErr (e : error) (t : tree_st).

(* the Err arms of EntriesTree::next: input.empty(); entry.set_null() after read_entry stored
   depth and offset *)
Definition tree_fail (dbg : bool) (t : tree_st) (x : error) : res tstep :=
  let* off := next_offset dbg (tr_raw t) in
  Ok (TErr x (mkTree (tr_root t) (mkRaw [] (r_end (tr_raw t)) (r_depth (tr_raw t)))
                     (mkDie off (r_depth (tr_raw t)) 0 false []))).

(* the `loop` of EntriesTree::next *)
Fixpoint tree_next_loop (fuel : nat) (dbg : bool) (e : enc) (tbl : abbrevs) (depth : Z) (t : tree_st)
  : res tstep :=
  match fuel with
  | O => OutOfFuel
  | S k =>
      let* r1 := sibling_jump dbg (tr_raw t) (tr_entry t) in
      if raw_is_empty r1 then Ok (TOk false (mkTree (tr_root t) r1 (set_null (tr_entry t)))) else
      match read_entry dbg e tbl r1 with
      | Ok (ok, d, r2) =>
          if (d_depth d =? depth)%Z then Ok (TOk ok (mkTree (tr_root t) r2 d))
          else tree_next_loop k dbg e tbl depth (mkTree (tr_root t) r2 d)
      | Err x => tree_fail dbg (mkTree (tr_root t) r1 (tr_entry t)) x
      | Panic => Panic
      | OutOfFuel => OutOfFuel
      end
  end.

(* EntriesTree::next(depth); debug_assert_eq!(self.entry.depth + 1, depth) is a panic in checked
   builds (debug assertions on) when it fails *)
Definition tree_next (fuel : nat) (dbg : bool) (e : enc) (tbl : abbrevs) (depth : Z) (t : tree_st)
  : res tstep :=
  if (d_depth (tr_entry t) <? depth)%Z then
    if dbg && negb (d_depth (tr_entry t) + 1 =? depth)%Z then Panic else
    if negb (d_children (tr_entry t)) then Ok (TOk false t) else
    if raw_is_empty (tr_raw t) then Ok (TOk false (mkTree (tr_root t) (tr_raw t) (set_null (tr_entry t)))) else
    match read_entry dbg e tbl (tr_raw t) with
    | Ok (ok, d, r2) => Ok (TOk ok (mkTree (tr_root t) r2 d))
    | Err x => tree_fail dbg t x
    | Panic => Panic
    | OutOfFuel => OutOfFuel
    end
  else tree_next_loop fuel dbg e tbl depth t.

Definition tree_fuel (t : tree_st) : nat := S (length (r_in (tr_raw t))).

(* the documented recursion over EntriesTreeNode::children():
     fn walk(node) { visit(node.entry()); let mut ch = node.children();
                     while let Some(child) = ch.next()? { walk(child)? } }
   `walk_children depth` is the `while` loop of a node whose children have depth `depth`
   (EntriesTreeIter::next calls tree.next(depth); a child node is created with depth + 1;
   once next returns false the iterator is `empty`). Result: the children as trees of entries. *)
Fixpoint walk_children (fuel : nat) (dbg : bool) (e : enc) (tbl : abbrevs) (depth : Z) (t : tree_st)
  : res (list dtree * option error * tree_st) :=
  match fuel with
  | O => OutOfFuel
  | S k =>
      let* s := tree_next (tree_fuel t) dbg e tbl depth t in
      match s with
      | TErr x t' => Ok ([], Some x, t')
      | TOk false t' => Ok ([], None, t')
      | TOk true t' =>
          let d := tr_entry t' in
          let* (grand, err, t2) := walk_children k dbg e tbl (depth + 1) t' in
          match err with
          | Some x => Ok ([DNode d grand], Some x, t2)
          | None =>
              let* (rest, err', t3) := walk_children k dbg e tbl depth t2 in
              Ok (DNode d grand :: rest, err', t3)
          end
      end
  end.

Definition walk_tree (dbg : bool) (e : enc) (tbl : abbrevs) (t : tree_st)
  : res (option dtree * option error) :=
  match tree_root dbg e tbl t with
  | Ok t1 =>
      let* (kids, err, _) := walk_children (S (S (length (tr_root t)))) dbg e tbl 1 t1 in
      Ok (Some (DNode (tr_entry t1) kids), err)
  | Err x => Ok (None, Some x)
  | Panic => Panic
  | OutOfFuel => OutOfFuel
  end.

(* the same recursion when the caller does not descend into every node: `sel` decides whether the
   children of an entry are iterated; the next call of EntriesTreeIter::next on the parent's iterator
   then has to skip the subtree itself (slow path, or DW_AT_sibling fast path of EntriesTree::next).
   Result: the entries visited, in order. Correspondence only (streams c02.forest / c02.nav, token
   `skip`). *)
Fixpoint walk_sel (fuel : nat) (dbg : bool) (e : enc) (tbl : abbrevs) (sel : die -> bool) (depth : Z) (t : tree_st)
  : res (list die * option error * tree_st) :=
  match fuel with
  | O => OutOfFuel
  | S k =>
      let* s := tree_next (tree_fuel t) dbg e tbl depth t in
      match s with
      | TErr x t' => Ok ([], Some x, t')
      | TOk false t' => Ok ([], None, t')
      | TOk true t' =>
          let d := tr_entry t' in
          let* (sub, err, t2) :=
            (if sel d then walk_sel k dbg e tbl sel (depth + 1) t' else Ok ([], None, t')) in
          match err with
          | Some x => Ok (d :: sub, Some x, t2)
          | None =>
              let* (rest, err', t3) := walk_sel k dbg e tbl sel depth t2 in
              Ok (d :: sub ++ rest, err', t3)
          end
      end
  end.

Definition walk_tree_sel (dbg : bool) (e : enc) (tbl : abbrevs) (sel : die -> bool) (t : tree_st)
  : res (list die * option error) :=
  match tree_root dbg e tbl t with
  | Ok t1 =>
      let* (l, err, _) :=
        (if sel (tr_entry t1) then walk_sel (S (S (length (tr_root t)))) dbg e tbl sel 1 t1
         else Ok ([], None, t1)) in
      Ok (tr_entry t1 :: l, err)
  | Err x => Ok ([], Some x)
  | Panic => Panic
  | OutOfFuel => OutOfFuel
  end.

(* the selection used by the streams: descend unless the entry's offset is a multiple of 3 *)
Definition sel_mod3 (d : die) : bool := negb (d_offset d mod 3 =? 0).
