(* Model/CfiRd.v — mirrors the CIE/FDE *decoding and lookup* half of /repo/src/read/cfi.rs and
   DwEhPe::{format,application,is_absent,is_indirect,is_valid_encoding} of /repo/src/constants.rs.
   (CFI *instructions* and the unwind table are modelled elsewhere — Model/CfiRun.v, property C06;
   here instruction bytes are an opaque window.)

   Rust function                                   model                         stream
   DwEhPe::format/application/...                  pe_format ... pe_is_valid     c05.pe
   parse_pointer_encoding                          parse_pointer_encoding        c05.pe
   parse_encoded_value / parse_encoded_pointer     parse_encoded_value/_pointer  c05.ptr
   parse_cfi_entry_prefix                          parse_prefix                  c05.ent c05.raw
   Augmentation::parse                             aug_loop                      c05.ent c05.raw
   CommonInformationEntry::{parse,from_prefix}     cie_from_prefix, cie_parse    c05.ent c05.raw
   PartialFrameDescriptionEntry::{parse_partial,from_prefix}  pfde_*             c05.ent c05.raw
   FrameDescriptionEntry::{parse_rest,parse_addresses,contains,end_address}      c05.ent c05.look
   AugmentationData::parse                         fde_aug_data                  c05.ent
   UnwindSection::{cie_from_offset,partial_fde_from_offset,fde_from_offset}      c05.ent c05.hdr
   CfiEntriesIter::next                            iter_next / entries_all       c05.ent c05.raw
   UnwindSection::fde_for_address                  fde_for_address               c05.look
   EhFrameHdr::parse, ParsedEhFrameHdr::table      hdr_parse, hdr_table          c05.hdr c05.hraw
   EhHdrTableIter::{next,nth}                      tbl_next, tbl_all, tbl_nth    c05.hdr c05.hraw
   EhHdrTable::{lookup,pointer_to_offset,fde_for_address}                        c05.hdr c05.hraw

   Offsets are usize = u64 (R::Offset::from_u64 is the identity; 32-bit hosts are not modelled).
   get_cie is fixed to Section::cie_from_offset, the function every caller in the harness passes. *)
From Coq Require Import List NArith ZArith Bool.
From Coq.Strings Require Import Byte.
Require Import GV.Base.Res GV.Base.Byt GV.Base.Ints GV.Model.Leb GV.Model.Prim.
Import ListNotations.
Local Open Scope N_scope.

(* ------------------------------------------------------------------ reader *)
(* A reader is a window into its section: `off` = offset of the window start from the start of
   the section (Reader::offset_from(section)), `win` = the bytes still in the window. *)
Record rd := mkrd { off : N; win : list byte }.

Definition nlen (bs : list byte) : N := N.of_nat (length bs).

(* run a list-level reader on the window; the offset advances by what was consumed *)
Definition lift {A} (f : list byte -> res (A * list byte)) (r : rd) : res (A * rd) :=
  let* (a, rest) := f (win r) in
  Ok (a, mkrd (off r + (nlen (win r) - nlen rest)) rest).

(* Reader::split(len): Err UnexpectedEof if fewer than len bytes remain *)
Definition rd_split (n : N) (r : rd) : res (rd * rd) :=
  if nlen (win r) <? n then Err EUnexpectedEof
  else let k := N.to_nat n in
       Ok (mkrd (off r) (firstn k (win r)), mkrd (off r + n) (skipn k (win r))).

(* Reader::skip(len) *)
Definition rd_skip (n : N) (r : rd) : res rd :=
  if nlen (win r) <? n then Err EUnexpectedEof
  else Ok (mkrd (off r + n) (skipn (N.to_nat n) (win r))).

Definition rd_is_empty (r : rd) : bool := match win r with [] => true | _ => false end.
(* Reader::empty(): the window becomes `&[]`; its offset is never observed afterwards *)
Definition rd_empty (r : rd) : rd := mkrd (off r) [].

Definition rd_u8 (r : rd) : res (N * rd) := lift read_u8 r.

(* ------------------------------------------------------------------ DwEhPe (constants.rs) *)
Definition DW_EH_PE_omit : N := 255.
Definition pe_format (e : N) : N := N.land e 15.          (* & 0b0000_1111 *)
Definition pe_application (e : N) : N := N.land e 112.    (* & 0b0111_0000 *)
Definition pe_is_absent (e : N) : bool := e =? DW_EH_PE_omit.
Definition pe_is_indirect (e : N) : bool := negb (N.land e 128 =? 0).

Definition pe_format_known (f : N) : bool :=
  (f =? 0) || (f =? 1) || (f =? 2) || (f =? 3) || (f =? 4) || (f =? 9) || (f =? 10) || (f =? 11) || (f =? 12).
Definition pe_application_known (a : N) : bool :=
  (a =? 0) || (a =? 16) || (a =? 32) || (a =? 48) || (a =? 64) || (a =? 80).

Definition pe_is_valid (e : N) : bool :=
  if pe_is_absent e then true
  else if negb (pe_format_known (pe_format e)) then false
  else if negb (pe_application_known (pe_application e)) then false
  else true.

(* parse_pointer_encoding *)
Definition parse_pointer_encoding (r : rd) : res (N * rd) :=
  let* (e, r1) := rd_u8 r in
  if pe_is_valid e then Ok (e, r1) else Err EUnknownPointerEncoding.

(* ------------------------------------------------------------------ pointers *)
Inductive pointer := Direct (a : N) | Indirect (a : N).

Definition pointer_new (enc a : N) : pointer := if pe_is_indirect enc then Indirect a else Direct a.
Definition pointer_direct (p : pointer) : res N :=
  match p with Direct a => Ok a | Indirect _ => Err EUnsupportedIndirectPointer end.
Definition pointer_value (p : pointer) : N := match p with Direct a | Indirect a => a end.

(* SectionBaseAddresses / PointerEncodingParameters (the `section` field is implicit: every
   reader handed to the pointer parsers is a window of that very section, so
   input.offset_from(parameters.section) = off input) *)
Record sbases := mksb { sb_section : option N; sb_text : option N; sb_data : option N }.
Record pparams := mkpp { pp_bases : sbases; pp_func : option N; pp_asz : N }.

(* u64::wrapping_add_sized with the raw u8 shift arithmetic of ones_sized: sizes 0 and >= 9
   panic in checked builds (Base.Ints.ones_sized) *)
Definition wadd_sized (dbg : bool) (a len size : N) : res N :=
  let* mask := ones_sized dbg size in
  Ok (N.land (wrap64 (a + len)) mask).

(* parse_encoded_value *)
Definition parse_encoded_value (dbg be : bool) (enc : N) (pp : pparams) (r : rd) : res (N * rd) :=
  let f := pe_format enc in
  if f =? 0 then lift (read_address (pp_asz pp) be) r
  else if f =? 1 then lift (read_uleb128 dbg) r
  else if f =? 2 then lift (read_un 2 be) r
  else if f =? 3 then lift (read_un 4 be) r
  else if f =? 4 then lift (read_un 8 be) r
  else if f =? 9 then let* (z, r1) := lift (read_sleb128 dbg) r in Ok (of_i64 z, r1)
  else if f =? 10 then let* (z, r1) := lift (read_in 2 be) r in Ok (of_i64 z, r1)
  else if f =? 11 then let* (z, r1) := lift (read_in 4 be) r in Ok (of_i64 z, r1)
  else if f =? 12 then let* (z, r1) := lift (read_in 8 be) r in Ok (of_i64 z, r1)
  else Panic.   (* unreachable!() *)

(* parse_encoded_pointer *)
Definition parse_encoded_pointer (dbg be : bool) (enc : N) (pp : pparams) (r : rd) : res (pointer * rd) :=
  if negb (pe_is_valid enc) then Err EUnknownPointerEncoding
  else if enc =? DW_EH_PE_omit then Err ECannotParseOmitPointerEncoding
  else
    let app := pe_application enc in
    let* base :=
      if app =? 0 then Ok 0
      else if app =? 16 then
        match sb_section (pp_bases pp) with
        | Some sb => wadd_sized dbg sb (off r) (pp_asz pp)
        | None => Err EPcRelativePointerButSectionBaseIsUndefined
        end
      else if app =? 32 then
        match sb_text (pp_bases pp) with
        | Some t => Ok t | None => Err ETextRelativePointerButTextBaseIsUndefined end
      else if app =? 48 then
        match sb_data (pp_bases pp) with
        | Some d => Ok d | None => Err EDataRelativePointerButDataBaseIsUndefined end
      else if app =? 64 then
        match pp_func pp with
        | Some f => Ok f | None => Err EFuncRelativePointerInBadContext end
      else if app =? 80 then Err EUnsupportedPointerEncoding
      else Panic in   (* unreachable!() *)
    let* (offset, r1) := parse_encoded_value dbg be enc pp r in
    let* a := wadd_sized dbg base offset (pp_asz pp) in
    Ok (pointer_new enc a, r1).

(* ------------------------------------------------------------------ sections *)
(* sc_eh: true = EhFrame, false = DebugFrame; sc_asz = the section's address_size field
   (set_address_size); sc_bases = bases.eh_frame (used for both section kinds) *)
Record scfg := mkcfg { sc_eh : bool; sc_be : bool; sc_asz : N; sc_bases : sbases }.

Definition is_cie (eh fmt64 : bool) (id : N) : bool :=
  if eh then id =? 0
  else if fmt64 then id =? 18446744073709551615 else id =? 4294967295.

(* cie_offset_encoding: U64 only for 64-bit .debug_frame *)
Definition cie_id_is_u64 (eh fmt64 : bool) : bool := negb eh && fmt64.

(* resolve_cie_offset *)
Definition resolve_cie_offset (eh : bool) (base offset : N) : option N :=
  if eh then (if offset <=? base then Some (base - offset) else None) else Some offset.

Definition has_addr_seg_sizes (eh : bool) (version : N) : bool := negb eh && (version =? 4).

Record prefix := mkprefix {
  px_off : N; px_len : N; px_fmt64 : bool; px_base : N; px_id : N; px_rest : rd }.

(* parse_cfi_entry_prefix: returns the advanced input as second component *)
Definition parse_prefix (c : scfg) (input : rd) : res (option prefix * rd) :=
  let offset := off input in
  let* (lf, in1) := lift (read_initial_length (sc_be c)) input in
  let '(length, fmt64) := lf in
  if length =? 0 then Ok (None, in1)
  else
    let* (rest, in2) := rd_split length in1 in
    let base := off rest in
    let* (id, rest1) := (if cie_id_is_u64 (sc_eh c) fmt64 then lift (read_un 8 (sc_be c)) rest
                         else lift (read_un 4 (sc_be c)) rest) in
    Ok (Some (mkprefix offset length fmt64 base id rest1), in2).

(* ------------------------------------------------------------------ CIE *)
Record augm := mkaug {
  a_lsda : option N; a_pers : option (N * pointer); a_fde_enc : option N; a_sig : bool }.
Definition aug_default : augm := mkaug None None None false.

Record cie := mkcie {
  ci_off : N; ci_len : N; ci_fmt64 : bool; ci_ver : N; ci_aug : option augm; ci_asz : N;
  ci_caf : N; ci_daf : Z; ci_rar : N; ci_instr : rd }.

(* Augmentation::parse — the `while !augmentation_str.is_empty()` loop, structural on the string.
   `first` = parsed_first, `data` = the augmentation data window once 'z' was seen. *)
Fixpoint aug_loop (dbg : bool) (c : scfg) (asz : N) (s : list byte) (first : bool) (a : augm)
         (data : option rd) (input : rd) : res (augm * rd) :=
  match s with
  | [] => Ok (a, input)
  | chb :: s' =>
      let ch := b2n chb in
      if ch =? 122 then                                                     (* b'z' *)
        if first then Err EUnknownAugmentation else
        let* (alen, in1) := lift (read_uleb128 dbg) input in
        let* (d, in2) := rd_split alen in1 in
        aug_loop dbg c asz s' true a (Some d) in2
      else if ch =? 76 then                                                 (* b'L' *)
        match data with
        | None => Err EUnknownAugmentation
        | Some d =>
            let* (e, d1) := parse_pointer_encoding d in
            aug_loop dbg c asz s' true (mkaug (Some e) (a_pers a) (a_fde_enc a) (a_sig a)) (Some d1) input
        end
      else if ch =? 80 then                                                 (* b'P' *)
        match data with
        | None => Err EUnknownAugmentation
        | Some d =>
            let* (e, d1) := parse_pointer_encoding d in
            let* (p, d2) := parse_encoded_pointer dbg (sc_be c) e (mkpp (sc_bases c) None asz) d1 in
            aug_loop dbg c asz s' true (mkaug (a_lsda a) (Some (e, p)) (a_fde_enc a) (a_sig a)) (Some d2) input
        end
      else if ch =? 82 then                                                 (* b'R' *)
        match data with
        | None => Err EUnknownAugmentation
        | Some d =>
            let* (e, d1) := parse_pointer_encoding d in
            aug_loop dbg c asz s' true (mkaug (a_lsda a) (a_pers a) (Some e) (a_sig a)) (Some d1) input
        end
      else if ch =? 83 then                                                 (* b'S' *)
        aug_loop dbg c asz s' true (mkaug (a_lsda a) (a_pers a) (a_fde_enc a) true) data input
      else Err EUnknownAugmentation
  end.

(* CommonInformationEntry::from_prefix *)
Definition cie_from_prefix (dbg : bool) (c : scfg) (px : prefix) : res cie :=
  let be := sc_be c in
  let* (version, r1) := rd_u8 (px_rest px) in
  if negb ((version =? 1) || (version =? 3) || (version =? 4)) then Err EUnknownVersion else
  let* (augstr, r2) := lift read_cstr r1 in
  let* (asz, r3) :=
    (if has_addr_seg_sizes (sc_eh c) version then
       let* (a, q1) := lift read_address_size r2 in
       let* (seg, q2) := rd_u8 q1 in
       if negb (seg =? 0) then Err EUnsupportedSegmentSize else Ok (a, q2)
     else Ok (sc_asz c, r2)) in
  let* (caf, r4) := lift (read_uleb128 dbg) r3 in
  let* (daf, r5) := lift (read_sleb128 dbg) r4 in
  let* (rar, r6) :=
    (if version =? 1 then rd_u8 r5
     else let* (x, q) := lift (read_uleb128 dbg) r5 in
          if x <? two16 then Ok (x, q) else Err EUnsupportedRegister) in   (* Register::from_u64 *)
  let* (aug, r7) :=
    (match augstr with
     | [] => Ok (None, r6)
     | _ => let* (a, q) := aug_loop dbg c asz augstr false aug_default None r6 in Ok (Some a, q)
     end) in
  Ok (mkcie (px_off px) (px_len px) (px_fmt64 px) version aug asz caf daf rar r7).

(* UnwindSection::cie_from_offset + CommonInformationEntry::parse; `sec` = the whole section *)
Definition cie_from_offset (dbg : bool) (c : scfg) (sec : list byte) (offset : N) : res cie :=
  let* input := rd_skip offset (mkrd 0 sec) in
  let* (opx, _) := parse_prefix c input in
  match opx with
  | None => Err ENoEntryAtGivenOffset
  | Some px =>
      if negb (is_cie (sc_eh c) (px_fmt64 px) (px_id px)) then Err ENotCieId
      else cie_from_prefix dbg c px
  end.

(* ------------------------------------------------------------------ FDE *)
Record pfde := mkpfde { pf_off : N; pf_len : N; pf_fmt64 : bool; pf_cie_off : N; pf_rest : rd }.

Record fde := mkfde {
  fd_off : N; fd_len : N; fd_fmt64 : bool; fd_cie : cie; fd_init : N; fd_range : N;
  fd_aug : option (option pointer); fd_instr : rd }.

(* PartialFrameDescriptionEntry::from_prefix *)
Definition pfde_from_prefix (c : scfg) (px : prefix) : res pfde :=
  match resolve_cie_offset (sc_eh c) (px_base px) (px_id px) with
  | None => Err EOffsetOutOfBounds
  | Some co => Ok (mkpfde (px_off px) (px_len px) (px_fmt64 px) co (px_rest px))
  end.

(* FrameDescriptionEntry::parse_addresses *)
Definition fde_addresses (dbg : bool) (c : scfg) (ci : cie) (pp : pparams) (r : rd) : res ((N * N) * rd) :=
  match (match ci_aug ci with Some a => a_fde_enc a | None => None end) with
  | Some enc =>
      let* (p, r1) := parse_encoded_pointer dbg (sc_be c) enc pp r in
      let* (range, r2) := parse_encoded_value dbg (sc_be c) enc pp r1 in
      Ok ((pointer_value p, range), r2)
  | None =>
      let* (ia, r1) := lift (read_address (ci_asz ci) (sc_be c)) r in
      let* (range, r2) := lift (read_address (ci_asz ci) (sc_be c)) r1 in
      Ok ((ia, range), r2)
  end.

(* AugmentationData::parse *)
Definition fde_aug_data (dbg : bool) (c : scfg) (a : augm) (pp : pparams) (r : rd) : res (option pointer * rd) :=
  let* (alen, r1) := lift (read_uleb128 dbg) r in
  let* (d, r2) := rd_split alen r1 in
  match a_lsda a with
  | Some enc => let* (p, _) := parse_encoded_pointer dbg (sc_be c) enc pp d in Ok (Some p, r2)
  | None => Ok (None, r2)
  end.

(* PartialFrameDescriptionEntry::parse(cie_from_offset) = FrameDescriptionEntry::parse_rest *)
Definition fde_parse (dbg : bool) (c : scfg) (sec : list byte) (p : pfde) : res fde :=
  let* ci := cie_from_offset dbg c sec (pf_cie_off p) in
  let pp0 := mkpp (sc_bases c) None (ci_asz ci) in
  let* (ar, r1) := fde_addresses dbg c ci pp0 (pf_rest p) in
  let '(ia, range) := ar in
  let pp1 := mkpp (sc_bases c) (Some ia) (ci_asz ci) in
  let* (ad, r2) :=
    (match ci_aug ci with
     | Some a => let* (l, q) := fde_aug_data dbg c a pp1 r1 in Ok (Some l, q)
     | None => Ok (None, r1)
     end) in
  Ok (mkfde (pf_off p) (pf_len p) (pf_fmt64 p) ci ia range ad r2).

(* FrameDescriptionEntry::end_address / contains *)
Definition fde_end (dbg : bool) (f : fde) : res N :=
  wadd_sized dbg (fd_init f) (fd_range f) (ci_asz (fd_cie f)).
(* `a <= address && address < end_address()`: && short-circuits, so end_address is only
   evaluated when the first conjunct holds *)
Definition fde_contains (dbg : bool) (f : fde) (a : N) : res bool :=
  if fd_init f <=? a then (let* e := fde_end dbg f in Ok (a <? e)) else Ok false.

(* ------------------------------------------------------------------ iteration *)
Inductive item := ICie (ci : cie) | IFde (p : pfde).

(* parse_cfi_entry *)
Definition parse_cfi_entry (dbg : bool) (c : scfg) (input : rd) : res (option item * rd) :=
  let* (opx, in1) := parse_prefix c input in
  match opx with
  | None => Ok (None, in1)
  | Some px =>
      if is_cie (sc_eh c) (px_fmt64 px) (px_id px) then
        let* ci := cie_from_prefix dbg c px in Ok (Some (ICie ci), in1)
      else
        let* p := pfde_from_prefix c px in Ok (Some (IFde p), in1)
  end.

(* CfiEntriesIter::next. The iterator result is a value (Ok(None) | Ok(Some) | Err) together
   with the new iterator state; only Panic/OutOfFuel are failures of the model step itself. *)
Inductive step A := SNone | SSome (x : A) | SErr (e : error).
Arguments SNone {A}. Arguments SSome {A} x. Arguments SErr {A} e.

Fixpoint iter_next (fuel : nat) (dbg : bool) (c : scfg) (input : rd) : res (step item * rd) :=
  match fuel with
  | O => OutOfFuel
  | S f =>
      if rd_is_empty input then Ok (SNone, input)
      else match parse_cfi_entry dbg c input with
           | Ok (Some it, in1) => Ok (SSome it, in1)
           | Err e => Ok (SErr e, rd_empty input)
           | Ok (None, in1) =>
               if sc_eh c then Ok (SNone, rd_empty in1)
               else iter_next f dbg c in1            (* .debug_frame: skip a zero length *)
           | Panic => Panic
           | OutOfFuel => OutOfFuel
           end
  end.

(* fuel that always suffices for one `next` and for a whole traversal (theorems in CfiRdProofs) *)
Definition iter_fuel (input : rd) : nat := S (length (win input)).

(* `while let Some(e) = entries.next()?`: all items, then how the traversal ended *)
Fixpoint entries_loop (fuel : nat) (dbg : bool) (c : scfg) (input : rd) : res (list item * option error) :=
  match fuel with
  | O => OutOfFuel
  | S f =>
      let* (st, in1) := iter_next (iter_fuel input) dbg c input in
      match st with
      | SNone => Ok ([], None)
      | SErr e => Ok ([], Some e)
      | SSome it => let* (l, e) := entries_loop f dbg c in1 in Ok (it :: l, e)
      end
  end.

Definition entries_all (dbg : bool) (c : scfg) (sec : list byte) : res (list item * option error) :=
  entries_loop (S (length sec)) dbg c (mkrd 0 sec).

(* UnwindSection::fde_for_address(bases, address, cie_from_offset) *)
Fixpoint fde_for_address_loop (fuel : nat) (dbg : bool) (c : scfg) (sec : list byte) (address : N)
         (input : rd) : res fde :=
  match fuel with
  | O => OutOfFuel
  | S f =>
      let* (st, in1) := iter_next (iter_fuel input) dbg c input in
      match st with
      | SNone => Err ENoUnwindInfoForAddress
      | SErr e => Err e
      | SSome (ICie _) => fde_for_address_loop f dbg c sec address in1
      | SSome (IFde p) =>
          let* fd := fde_parse dbg c sec p in
          let* b := fde_contains dbg fd address in
          if b then Ok fd else fde_for_address_loop f dbg c sec address in1
      end
  end.

Definition fde_for_address (dbg : bool) (c : scfg) (sec : list byte) (address : N) : res fde :=
  fde_for_address_loop (S (length sec)) dbg c sec address (mkrd 0 sec).

(* UnwindSection::partial_fde_from_offset / fde_from_offset *)
Definition pfde_from_offset (c : scfg) (sec : list byte) (offset : N) : res pfde :=
  let* input := rd_skip offset (mkrd 0 sec) in
  let* (opx, _) := parse_prefix c input in
  match opx with
  | None => Err ENoEntryAtGivenOffset
  | Some px =>
      if is_cie (sc_eh c) (px_fmt64 px) (px_id px) then Err ENotCiePointer
      else pfde_from_prefix c px
  end.

Definition fde_from_offset (dbg : bool) (c : scfg) (sec : list byte) (offset : N) : res fde :=
  let* p := pfde_from_offset c sec offset in
  fde_parse dbg c sec p.

(* ------------------------------------------------------------------ .eh_frame_hdr *)
Record hdr := mkhdr {
  h_asz : N; h_be : bool; h_ptr : pointer; h_count : N; h_enc : N; h_table : rd }.

(* EhFrameHdr::parse(bases, address_size); hb = bases.eh_frame_hdr *)
Definition hdr_parse (dbg be : bool) (hb : sbases) (asz : N) (sec : list byte) : res hdr :=
  let r0 := mkrd 0 sec in
  let* (version, r1) := rd_u8 r0 in
  if negb (version =? 1) then Err EUnknownVersion else
  let* (ptr_enc, r2) := parse_pointer_encoding r1 in
  let* (cnt_enc, r3) := parse_pointer_encoding r2 in
  let* (tbl_enc, r4) := parse_pointer_encoding r3 in
  let pp := mkpp hb None asz in
  if ptr_enc =? DW_EH_PE_omit then Err ECannotParseOmitPointerEncoding else
  let* (p, r5) := parse_encoded_pointer dbg be ptr_enc pp r4 in
  let* (count, r6) :=
    (if (cnt_enc =? DW_EH_PE_omit) || (tbl_enc =? DW_EH_PE_omit) then Ok (0, r5)
     else if negb (cnt_enc =? pe_format cnt_enc) then Err EUnsupportedPointerEncoding
     else parse_encoded_value dbg be cnt_enc pp r5) in
  Ok (mkhdr asz be p count tbl_enc r6).

(* ParsedEhFrameHdr::table *)
Definition hdr_table (h : hdr) : option hdr := if h_count h =? 0 then None else Some h.

Definition hdr_pp (hb : sbases) (h : hdr) : pparams := mkpp hb None (h_asz h).

(* EhHdrTableIter as a state machine: state = (table reader, remain); operations next, nth k,
   size_hint. Every operation returns a value (None | Some row | Err) together with the new state.
   After a row that fails to parse `remain` is 0 and the reader stands after the pointers that did
   parse (a failed fixed-size read consumes nothing; after a failed LEB128 read the position is
   unobservable, because nth refuses variable-size encodings before touching the reader). *)
Definition tbl_next (dbg : bool) (hb : sbases) (h : hdr) (st : rd * N)
  : res (step (pointer * pointer) * (rd * N)) :=
  let '(t, remain) := st in
  if remain =? 0 then Ok (SNone, st) else
  (* self.remain -= 1; then the closure parse_row; remain = 0 if it failed *)
  match parse_encoded_pointer dbg (h_be h) (h_enc h) (hdr_pp hb h) t with
  | Ok (from, t1) =>
      match parse_encoded_pointer dbg (h_be h) (h_enc h) (hdr_pp hb h) t1 with
      | Ok (to, t2) => Ok (SSome (from, to), (t2, remain - 1))
      | Err e => Ok (SErr e, (t1, 0))
      | Panic => Panic
      | OutOfFuel => OutOfFuel
      end
  | Err e => Ok (SErr e, (t, 0))
  | Panic => Panic
  | OutOfFuel => OutOfFuel
  end.

(* EhHdrTable::iter(bases) *)
Definition tbl_iter (h : hdr) : rd * N := (h_table h, h_count h).

(* size of one field for the fixed-size table encodings; None = UnsupportedPointerEncoding *)
Definition tbl_field_size (enc : N) : option N :=
  let f := pe_format enc in
  if (f =? 10) || (f =? 2) then Some 2
  else if (f =? 11) || (f =? 3) then Some 4
  else if (f =? 12) || (f =? 4) then Some 8
  else None.

(* `while let Some(row) = it.next()?`: rows and the terminating error if any; each row consumes
   at least two bytes, so fuel = table length + 1 suffices (theorem) *)
Fixpoint tbl_all_loop (fuel : nat) (dbg : bool) (hb : sbases) (h : hdr) (st : rd * N)
  : res (list (pointer * pointer) * option error) :=
  match fuel with
  | O => OutOfFuel
  | S f =>
      let* (s, st1) := tbl_next dbg hb h st in
      match s with
      | SNone => Ok ([], None)
      | SSome row => let* (l, e) := tbl_all_loop f dbg hb h st1 in Ok (row :: l, e)
      | SErr e => Ok ([], Some e)
      end
  end.
Definition tbl_all (dbg : bool) (hb : sbases) (h : hdr) : res (list (pointer * pointer) * option error) :=
  tbl_all_loop (S (length (win (h_table h)))) dbg hb h (tbl_iter h).

(* EhHdrTableIter::nth(n), n : usize (= u64: try_from cannot fail):
   size check, remain = remain.saturating_sub(n), n.checked_mul(row_size), table.skip, next() *)
Definition tbl_nth_st (dbg : bool) (hb : sbases) (h : hdr) (st : rd * N) (n : N)
  : res (step (pointer * pointer) * (rd * N)) :=
  let '(t, remain) := st in
  match tbl_field_size (h_enc h) with
  | None => Ok (SErr EUnsupportedPointerEncoding, st)
  | Some size =>
      let row_size := size * 2 in
      let remain' := (if n <=? remain then remain - n else 0) in
      if two64 <=? n * row_size then Ok (SErr EUnsupportedOffset, (t, remain')) else
      match rd_skip (n * row_size) t with
      | Ok t' => tbl_next dbg hb h (t', remain')
      | Err e => Ok (SErr e, (t, remain'))
      | Panic => Panic
      | OutOfFuel => OutOfFuel
      end
  end.

(* Iterator::size_hint / FallibleIterator::size_hint: (remain, Some(remain)) — usize = u64 *)
Definition tbl_size_hint (st : rd * N) : N * option N := (snd st, Some (snd st)).

(* histories of operations on one iterator *)
Inductive iop := ONext | ONth (k : N) | OHint.
Inductive iobs := BItem (o : option (pointer * pointer)) | BErr (e : error) | BHint (lo : N) (hi : option N)
                | BPanic | BFuel.

Definition obs_of_step (s : step (pointer * pointer)) : iobs :=
  match s with SNone => BItem None | SSome r => BItem (Some r) | SErr e => BErr e end.

Fixpoint tbl_run (dbg : bool) (hb : sbases) (h : hdr) (st : rd * N) (ops : list iop) : list iobs :=
  match ops with
  | [] => []
  | OHint :: r => BHint (fst (tbl_size_hint st)) (snd (tbl_size_hint st)) :: tbl_run dbg hb h st r
  | ONext :: r =>
      match tbl_next dbg hb h st with
      | Ok (s, st') => obs_of_step s :: tbl_run dbg hb h st' r
      | Err e => [BErr e] | Panic => [BPanic] | OutOfFuel => [BFuel]
      end
  | ONth k :: r =>
      match tbl_nth_st dbg hb h st k with
      | Ok (s, st') => obs_of_step s :: tbl_run dbg hb h st' r
      | Err e => [BErr e] | Panic => [BPanic] | OutOfFuel => [BFuel]
      end
  end.

(* nth on a fresh iterator *)
Definition tbl_nth (dbg : bool) (hb : sbases) (h : hdr) (n : N) : res (option (pointer * pointer)) :=
  let* (s, _) := tbl_nth_st dbg hb h (tbl_iter h) n in
  match s with SNone => Ok None | SSome row => Ok (Some row) | SErr e => Err e end.

(* the `while len > 1` loop of EhHdrTable::lookup; returns the reader positioned at the chosen row *)
Fixpoint lookup_loop (fuel : nat) (dbg : bool) (hb : sbases) (h : hdr) (row_size address : N)
         (len : N) (reader : rd) : res rd :=
  match fuel with
  | O => OutOfFuel
  | S f =>
      if len <=? 1 then Ok reader else
      (* (len / 2).checked_mul(row_size).ok_or(UnexpectedEof) *)
      let* k := (if two64 <=? len / 2 * row_size then Err EUnexpectedEof else Ok (len / 2 * row_size)) in
      let* (head, tail) := rd_split k reader in
      let* (p, _) := parse_encoded_pointer dbg (h_be h) (h_enc h) (hdr_pp hb h) tail in
      let* pivot := pointer_direct p in
      if pivot =? address then Ok tail
      else if pivot <? address then lookup_loop f dbg hb h row_size address (len - len / 2) tail
      else lookup_loop f dbg hb h row_size address (len / 2) head
  end.

(* number of halvings: len <= 2^(size_nat len) *)
Definition lookup_fuel (len : N) : nat := S (N.size_nat len).

(* EhHdrTable::lookup *)
Definition hdr_lookup (dbg : bool) (hb : sbases) (h : hdr) (address : N) : res pointer :=
  match tbl_field_size (h_enc h) with
  | None => Err EUnsupportedPointerEncoding
  | Some size =>
      let* reader := lookup_loop (lookup_fuel (h_count h)) dbg hb h (size * 2) address (h_count h) (h_table h) in
      let* r1 := rd_skip size reader in
      let* (p, _) := parse_encoded_pointer dbg (h_be h) (h_enc h) (hdr_pp hb h) r1 in
      Ok p
  end.

(* EhHdrTable::pointer_to_offset: ptr.checked_sub(eh_frame_ptr).ok_or(OffsetOutOfBounds) *)
Definition pointer_to_offset (dbg : bool) (h : hdr) (p : pointer) : res N :=
  let* a := pointer_direct p in
  let* e := pointer_direct (h_ptr h) in
  if e <=? a then Ok (a - e) else Err EOffsetOutOfBounds.

(* EhHdrTable::fde_for_address(frame, bases, address, EhFrame::cie_from_offset) *)
Definition hdr_fde_for_address (dbg : bool) (hb : sbases) (h : hdr) (c : scfg) (sec : list byte)
           (address : N) : res fde :=
  let* p := hdr_lookup dbg hb h address in
  let* o := pointer_to_offset dbg h p in
  let* fd := fde_from_offset dbg c sec o in
  let* b := fde_contains dbg fd address in
  if b then Ok fd else Err ENoUnwindInfoForAddress.
