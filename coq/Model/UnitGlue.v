(* Model/UnitGlue.v — the glue of /repo/src/read/dwarf.rs between the section parsers, function by function:
     Unit::{new, new_with_abbreviations, copy_relocated_attributes, dwo_name},
     Dwarf::{abbreviations (empty cache), string_offset, string, line_string, sup_string, attr_string,
             attr_line_string, address, attr_address, unit_ranges, lookup_offset_id, make_dwo},
     src/read/str.rs : DebugStr::get_str, DebugLineStr::get_str, DebugStrOffsetsBase::default_for_encoding_and_file,
     src/read/line.rs : DebugLine::program (skip + LineProgramHeader::parse = LineRd.parse_header)
   over the existing models: AbbrevRd (abbreviation table), DieRd (unit header, cursor, next_dfs/next_entry,
   attr_value), Attr (Attribute::value normalisation), ListsRd (get_str_offset, get_address, default lists base,
   die_ranges and the range iterator), LineRd (line program header).
   usize = u64. No proofs here. Stream: c17.unitglue (ocaml/s_c17g.ml, harness/src/c17_glue.rs). *)
From Coq Require Import List NArith ZArith Bool.
From Coq.Strings Require Import Byte.
Require Import GV.Base.Res GV.Base.Byt GV.Base.Ints GV.Model.Leb GV.Model.Prim GV.Spec.FormSpec
               GV.Model.Attr GV.Spec.Forest GV.Model.AbbrevRd GV.Model.DieRd GV.Spec.ListSpec GV.Spec.UnitGlueSpec.
Require GV.Model.ListsRd GV.Spec.LineSpec GV.Model.LineRd.
Import ListNotations.
Local Open Scope N_scope.

(* constants.rs: the DW_AT_* names used here are defined once, in Spec/UnitGlueSpec.v *)

(* ------------------------------------------------------------------ struct Dwarf<R>
   every section field; `dw_dwo` = (file_type == DwarfFileType::Dwo); `dw_be` = the readers' byte order;
   `dw_sup` = the supplementary file as far as Dwarf's own methods read it: its .debug_str
   (that make_dwo / load_sup / borrow carry the whole supplementary Dwarf is decided by c17.wiring). *)
Record dwarf : Type := mkDwarf {
  dw_be : bool;
  dw_abbrev : list byte; dw_addr : list byte; dw_aranges : list byte; dw_info : list byte;
  dw_line : list byte; dw_line_str : list byte; dw_macinfo : list byte; dw_macro : list byte;
  dw_names : list byte; dw_str : list byte; dw_str_offsets : list byte; dw_types : list byte;
  dw_loc : list byte; dw_loclists : list byte; dw_ranges : list byte; dw_rnglists : list byte;
  dw_dwo : bool;
  dw_sup : option (list byte) }.

(* IncompleteLineProgram as far as Unit::new determines it: the offset and address size it was parsed with
   (inside the header), and the comp_dir / comp_name handed to LineProgramHeader::parse *)
Record line_prog : Type := mkLP {
  lp_offset : N; lp_header : LineSpec.header;
  lp_comp_dir : option (list byte); lp_comp_name : option (list byte) }.

(* struct Unit<R> *)
Record unit_t : Type := mkU {
  un_header : unit_header; un_abbrevs : abbrevs;
  un_name : option (list byte); un_comp_dir : option (list byte);
  un_low_pc : N; un_str_offsets_base : N; un_addr_base : N; un_loclists_base : N; un_rnglists_base : N;
  un_line_program : option line_prog; un_dwo_id : option N }.

(* ------------------------------------------------------------------ str.rs *)

(* DebugStrOffsetsBase::default_for_encoding_and_file:
   `encoding.format.initial_length_size() + 2 + 2` in u8 arithmetic (4 or 12, no overflow) *)
Definition default_str_offsets_base (version : N) (fmt64 dwo : bool) : N :=
  if (5 <=? version) && dwo then initial_length_size fmt64 + 2 + 2 else 0.

(* DebugStr::get_str / DebugLineStr::get_str: skip(offset) + read_null_terminated_slice *)
Definition get_str (sect : list byte) (offset : N) : res (list byte) :=
  let* r := ListsRd.skip offset sect in
  let* (s, _) := read_cstr r in Ok s.

(* ------------------------------------------------------------------ Dwarf: strings and addresses *)

(* Dwarf::string_offset *)
Definition string_offset (d : dwarf) (u : unit_t) (index : N) : res N :=
  ListsRd.get_str_offset (dw_be d) (fmt64 (u_enc (un_header u))) (dw_str_offsets d) (un_str_offsets_base u) index.

(* Dwarf::string / line_string / sup_string *)
Definition dw_string (d : dwarf) (offset : N) : res (list byte) := get_str (dw_str d) offset.
Definition dw_line_string (d : dwarf) (offset : N) : res (list byte) := get_str (dw_line_str d) offset.
Definition dw_sup_string (d : dwarf) (offset : N) : res (list byte) :=
  match dw_sup d with
  | Some s => get_str s offset
  | None => Err EExpectedStringAttributeValue
  end.

(* Dwarf::attr_string *)
Definition attr_string (d : dwarf) (u : unit_t) (v : attr_value) : res (list byte) :=
  match v with
  | VString s => Ok s
  | VDebugStrRef o => dw_string d o
  | VDebugStrRefSup o => dw_sup_string d o
  | VDebugLineStrRef o => dw_line_string d o
  | VDebugStrOffsetsIndex i => let* o := string_offset d u i in dw_string d o
  | _ => Err EExpectedStringAttributeValue
  end.

(* Dwarf::attr_line_string *)
Definition attr_line_string (d : dwarf) (v : attr_value) : res (list byte) :=
  match v with
  | VString s => Ok s
  | VDebugStrRef o => dw_string d o
  | VDebugStrRefSup o => dw_sup_string d o
  | VDebugLineStrRef o => dw_line_string d o
  | _ => Err EExpectedStringAttributeValue
  end.

(* Dwarf::address *)
Definition address (d : dwarf) (u : unit_t) (index : N) : res N :=
  ListsRd.get_address (dw_be d) (dw_addr d) (address_size (u_enc (un_header u))) (un_addr_base u) index.

(* Dwarf::attr_address *)
Definition attr_address (d : dwarf) (u : unit_t) (v : attr_value) : res (option N) :=
  match v with
  | VAddr a => Ok (Some a)
  | VDebugAddrIndex i => let* a := address d u i in Ok (Some a)
  | _ => Ok None
  end.

(* ------------------------------------------------------------------ Unit::new_with_abbreviations *)

(* the locals and the fields assigned by the `for attr in root.attrs()` loop *)
Record scan : Type := mkScan {
  sc_name : option attr_value; sc_comp_dir : option attr_value; sc_low_pc : option attr_value;
  sc_stmt : option N;
  sc_sob : N; sc_ab : N; sc_llb : N; sc_rlb : N;
  sc_dwo_id : option N }.

(* one iteration: `match attr.name()` on `attr.value()` (= Attr.attr_normalise of the raw value) *)
Definition scan_step (s : scan) (p : aspec * attr_value) : scan :=
  let n := at_name (fst p) in
  let v := attr_normalise n (snd p) in
  if n =? DW_AT_name then
    mkScan (Some v) (sc_comp_dir s) (sc_low_pc s) (sc_stmt s) (sc_sob s) (sc_ab s) (sc_llb s) (sc_rlb s) (sc_dwo_id s)
  else if n =? DW_AT_comp_dir then
    mkScan (sc_name s) (Some v) (sc_low_pc s) (sc_stmt s) (sc_sob s) (sc_ab s) (sc_llb s) (sc_rlb s) (sc_dwo_id s)
  else if n =? DW_AT_low_pc then
    mkScan (sc_name s) (sc_comp_dir s) (Some v) (sc_stmt s) (sc_sob s) (sc_ab s) (sc_llb s) (sc_rlb s) (sc_dwo_id s)
  else if n =? DW_AT_stmt_list then
    match v with
    | VDebugLineRef o =>
        mkScan (sc_name s) (sc_comp_dir s) (sc_low_pc s) (Some o) (sc_sob s) (sc_ab s) (sc_llb s) (sc_rlb s) (sc_dwo_id s)
    | _ => s
    end
  else if n =? DW_AT_str_offsets_base then
    match v with
    | VDebugStrOffsetsBase b =>
        mkScan (sc_name s) (sc_comp_dir s) (sc_low_pc s) (sc_stmt s) b (sc_ab s) (sc_llb s) (sc_rlb s) (sc_dwo_id s)
    | _ => s
    end
  else if (n =? DW_AT_addr_base) || (n =? DW_AT_GNU_addr_base) then
    match v with
    | VDebugAddrBase b =>
        mkScan (sc_name s) (sc_comp_dir s) (sc_low_pc s) (sc_stmt s) (sc_sob s) b (sc_llb s) (sc_rlb s) (sc_dwo_id s)
    | _ => s
    end
  else if n =? DW_AT_loclists_base then
    match v with
    | VDebugLocListsBase b =>
        mkScan (sc_name s) (sc_comp_dir s) (sc_low_pc s) (sc_stmt s) (sc_sob s) (sc_ab s) b (sc_rlb s) (sc_dwo_id s)
    | _ => s
    end
  else if (n =? DW_AT_rnglists_base) || (n =? DW_AT_GNU_ranges_base) then
    match v with
    | VDebugRngListsBase b =>
        mkScan (sc_name s) (sc_comp_dir s) (sc_low_pc s) (sc_stmt s) (sc_sob s) (sc_ab s) (sc_llb s) b (sc_dwo_id s)
    | _ => s
    end
  else if n =? DW_AT_GNU_dwo_id then
    match sc_dwo_id s, v with
    | None, VDwoId i =>
        mkScan (sc_name s) (sc_comp_dir s) (sc_low_pc s) (sc_stmt s) (sc_sob s) (sc_ab s) (sc_llb s) (sc_rlb s) (Some i)
    | _, _ => s
    end
  else s.

(* `match header.type_() { Skeleton(id) | SplitCompilation(id) => Some(id), _ => None }` *)
Definition header_dwo_id (t : utype) : option N :=
  match t with USkeleton i | USplitCompile i => Some i | _ => None end.

(* the struct literal at the top of new_with_abbreviations + the locals *)
Definition scan_init (d : dwarf) (h : unit_header) : scan :=
  let e := u_enc h in
  mkScan None None None None
         (default_str_offsets_base (version e) (fmt64 e) (dw_dwo d))
         0
         (ListsRd.default_lists_base (version e) (fmt64 e) (dw_dwo d))
         (ListsRd.default_lists_base (version e) (fmt64 e) (dw_dwo d))
         (header_dwo_id (u_type h)).

(* Result::ok() *)
Definition res_ok {A} (r : res A) : res (option A) :=
  match r with Ok a => Ok (Some a) | Err _ => Ok None | Panic => Panic | OutOfFuel => OutOfFuel end.

(* DebugLine::program(offset, address_size, comp_dir, comp_name) *)
Definition line_program (dbg : bool) (d : dwarf) (offset asize : N) (comp_dir comp_name : option (list byte))
  : res line_prog :=
  let* r := ListsRd.skip offset (dw_line d) in
  let* hd := LineRd.parse_header dbg (dw_be d) asize r in
  Ok (mkLP offset hd comp_dir comp_name).

(* everything after `let root = ...`: the loop, then name, comp_dir, line_program, low_pc in this order.
   All of them see the bases as they are AFTER the whole loop. *)
Definition unit_of_root (dbg : bool) (d : dwarf) (h : unit_header) (tbl : abbrevs) (root : die) : res unit_t :=
  let sc := fold_left scan_step (d_attrs root) (scan_init d h) in
  let u0 := mkU h tbl None None 0 (sc_sob sc) (sc_ab sc) (sc_llb sc) (sc_rlb sc) None (sc_dwo_id sc) in
  let* name := (match sc_name sc with Some v => res_ok (attr_string d u0 v) | None => Ok None end) in
  let* comp_dir := (match sc_comp_dir sc with Some v => res_ok (attr_string d u0 v) | None => Ok None end) in
  let* lp := (match sc_stmt sc with
              | Some off =>
                  let* p := line_program dbg d off (address_size (u_enc h)) comp_dir name in Ok (Some p)
              | None => Ok None
              end) in
  let* low := (match sc_low_pc sc with
               | Some v =>
                   let* o := attr_address d u0 v in
                   Ok (match o with Some a => a | None => 0 end)
               | None => Ok 0
               end) in
  Ok (mkU h tbl name comp_dir low (sc_sob sc) (sc_ab sc) (sc_llb sc) (sc_rlb sc) lp (sc_dwo_id sc)).

(* `cursor.next_dfs()?; cursor.current().ok_or(Error::MissingUnitDie)?` on a fresh cursor *)
Definition root_dfs (dbg : bool) (h : unit_header) (tbl : abbrevs) : res die :=
  let* c := entries dbg h in
  let* s := next_dfs (cursor_fuel c) dbg (u_enc h) tbl c in
  match s with
  | SErr x _ => Err x
  | SOk None _ => Err EMissingUnitDie
  | SOk (Some root) _ => Ok root
  end.

(* Unit::new_with_abbreviations *)
Definition unit_new_with_abbreviations (dbg : bool) (d : dwarf) (h : unit_header) (tbl : abbrevs) : res unit_t :=
  let* root := root_dfs dbg h tbl in
  unit_of_root dbg d h tbl root.

(* Unit::new: Dwarf::abbreviations with an unpopulated cache = DebugAbbrev::abbreviations *)
Definition unit_new (dbg : bool) (d : dwarf) (h : unit_header) : res unit_t :=
  let* tbl := abbreviations_at dbg (dw_abbrev d) (u_abbrev h) in
  unit_new_with_abbreviations dbg d h tbl.

(* Unit::copy_relocated_attributes *)
Definition copy_relocated_attributes (self other : unit_t) : unit_t :=
  mkU (un_header self) (un_abbrevs self) (un_name self) (un_comp_dir self)
      (un_low_pc other) (un_str_offsets_base self) (un_addr_base other) (un_loclists_base self)
      (if version (u_enc (un_header self)) <? 5 then un_rnglists_base other else un_rnglists_base self)
      (un_line_program self) (un_dwo_id self).

(* Unit::dwo_name: `entries.next_entry()?; entries.current().ok_or(MissingUnitDie)?` — unlike Unit::new this
   does NOT skip leading null entries *)
Definition dwo_name (dbg : bool) (u : unit_t) : res (option attr_value) :=
  let h := un_header u in
  let* c := entries dbg h in
  let* s := next_entry dbg (u_enc h) (un_abbrevs u) c in
  match s with
  | SErr x _ => Err x
  | SOk _ c' =>
      match current c' with
      | None => Err EMissingUnitDie
      | Some e =>
          Ok (die_attr_value e (if version (u_enc h) <? 5 then DW_AT_GNU_dwo_name else DW_AT_dwo_name))
      end
  end.

(* Dwarf::make_dwo *)
Definition make_dwo (self parent : dwarf) : dwarf :=
  mkDwarf (dw_be self) (dw_abbrev self) (dw_addr parent) (dw_aranges self) (dw_info self)
          (dw_line self) (dw_line_str self) (dw_macinfo self) (dw_macro self) (dw_names self)
          (dw_str self) (dw_str_offsets self) (dw_types self) (dw_loc self) (dw_loclists self)
          (dw_ranges parent) (dw_rnglists self) true (dw_sup parent).

(* ------------------------------------------------------------------ Dwarf::unit_ranges
   die_ranges is ListsRd.die_ranges; here: what it is called with *)
Definition uctx_of (d : dwarf) (u : unit_t) : ListsRd.uctx :=
  let e := u_enc (un_header u) in
  {| ListsRd.u_cfg := {| c_be := dw_be d; c_asize := address_size e; c_version := version e |};
     ListsRd.u_fmt64 := fmt64 e; ListsRd.u_dwo := dw_dwo d;
     ListsRd.u_low_pc := un_low_pc u; ListsRd.u_addr_base := un_addr_base u;
     ListsRd.u_rnglists_base := un_rnglists_base u; ListsRd.u_loclists_base := un_loclists_base u;
     ListsRd.u_debug_addr := dw_addr d; ListsRd.u_debug_ranges := dw_ranges d;
     ListsRd.u_debug_rnglists := dw_rnglists d; ListsRd.u_debug_loclists := dw_loclists d |}.

Definition to_aname (n : N) : ListsRd.aname :=
  if n =? DW_AT_low_pc then ListsRd.AtLowPc
  else if n =? DW_AT_high_pc then ListsRd.AtHighPc
  else if n =? DW_AT_ranges then ListsRd.AtRanges
  else ListsRd.AtOther.

Definition to_aval (v : attr_value) : ListsRd.aval :=
  match v with
  | VAddr a => ListsRd.AvAddr a
  | VDebugAddrIndex i => ListsRd.AvAddrx i
  | VUdata n => ListsRd.AvUdata n
  | VRangeListsRef o => ListsRd.AvRangesRef o
  | VDebugRngListsIndex i => ListsRd.AvRnglistx i
  | VLocationListsRef o => ListsRd.AvLocRef o
  | VDebugLocListsIndex i => ListsRd.AvLoclistx i
  | _ => ListsRd.AvOther
  end.

Definition die_attr_view (p : aspec * attr_value) : ListsRd.aname * ListsRd.aval :=
  (to_aname (at_name (fst p)), to_aval (attr_normalise (at_name (fst p)) (snd p))).

(* Dwarf::unit_ranges, drained by RangeIter::next *)
Definition unit_ranges (dbg : bool) (d : dwarf) (u : unit_t) : res ListsRd.range_iter :=
  let* root := root_dfs dbg (un_header u) (un_abbrevs u) in
  ListsRd.die_ranges (uctx_of d u) (map die_attr_view (d_attrs root)).

Definition unit_ranges_all (dbg : bool) (d : dwarf) (u : unit_t) : res (list (ListsRd.ev (N * N))) :=
  let* it := unit_ranges dbg d u in ListsRd.range_iter_drain dbg (uctx_of d u) it.

(* ------------------------------------------------------------------ the usual sequences of calls *)

(* `dwarf.units().next()` / `dwarf.type_units().next()`: None at the end of the section *)
Definition first_header (d : dwarf) (types : bool) : res (option unit_header) :=
  let sect := if types then dw_types d else dw_info d in
  if is_nil sect then Ok None else
  let* (h, _) := parse_unit_header (dw_be d) types 0 sect in Ok (Some h).

(* split DWARF: `dwo.make_dwo(&parent); let u = dwo.unit(header)?; u.copy_relocated_attributes(&skeleton)` *)
Definition load_dwo_unit (dbg : bool) (dwo parent : dwarf) (skeleton : unit_t) (h : unit_header)
  : res (dwarf * unit_t) :=
  let d := make_dwo dwo parent in
  let* u := unit_new dbg d h in
  Ok (d, copy_relocated_attributes u skeleton).

(* ------------------------------------------------------------------ Dwarf::lookup_offset_id
   (src/read/endian_slice.rs Reader::lookup_offset_id, Section::lookup_offset_id,
    LocationLists::lookup_offset_id, RangeLists::lookup_offset_id).
   A ReaderOffsetId of a slice reader is an address. What the function reads of each section is only where it
   lies: place s = (start address, length). Stream: c17.lookup *)
Inductive sid : Type :=
| SAbbrev | SAddr | SAranges | SInfo | SLine | SLineStr | SMacinfo | SMacro | SNames | SStr | SStrOffsets
| STypes | SLoc | SLocLists | SRanges | SRngLists.

(* EndianSlice::lookup_offset_id: `id >= self_id && id <= self_id + self_len` (unchecked `+` on u64) *)
Definition slice_lookup (dbg : bool) (place : N * N) (id : N) : res (option N) :=
  let* e := chk_add 64 dbg (fst place) (snd place) in
  if (fst place <=? id) && (id <=? e) then Ok (Some (id - fst place)) else Ok None.

(* the `.or_else` chain of Dwarf::lookup_offset_id; `self.locations` is debug_loc then debug_loclists,
   `self.ranges` is debug_ranges then debug_rnglists *)
Definition lookup_order : list sid :=
  [SAbbrev; SAddr; SAranges; SInfo; SLine; SLineStr; SStr; SStrOffsets; STypes; SLoc; SLocLists; SRanges; SRngLists].

Fixpoint lookup_first (dbg : bool) (place : sid -> N * N) (l : list sid) (id : N) : res (option (sid * N)) :=
  match l with
  | [] => Ok None
  | s :: t =>
      let* o := slice_lookup dbg (place s) id in
      match o with
      | Some off => Ok (Some (s, off))
      | None => lookup_first dbg place t id
      end
  end.

(* Dwarf::lookup_offset_id for a Dwarf whose supplementary file (if any) has no supplementary file itself *)
Definition lookup_offset_id (dbg : bool) (place : sid -> N * N) (sup : option (sid -> N * N)) (id : N)
  : res (option (bool * sid * N)) :=
  let* o := lookup_first dbg place lookup_order id in
  match o with
  | Some (s, off) => Ok (Some (false, s, off))
  | None =>
      match sup with
      | None => Ok None
      | Some sp =>
          let* o' := lookup_first dbg sp lookup_order id in
          match o' with
          | Some (s, off) => Ok (Some (true, s, off))
          | None => Ok None
          end
      end
  end.
