(* Model/Filter.v — the `convert` module of /repo/src/write/unit.rs as far as C19 needs it:
     FilterDependencies::{add_entry, add_edge, require_entry, get_reachable}          (l. 1617-1666)
     FilterUnit::{read_entry, add_attribute_refs, add_location_refs, add_expression_refs,
                  require_entry}, FilterUnitEntry::has_die_back_edge                   (l. 1838-2108)
     ConvertUnitSection::{new_with_filter, reserve_unit}                               (l. 2161-2211)
     ConvertUnit::{read_entry, add_entry, convert, convert_unit_ref,
                   convert_debug_info_ref} + the reference-resolving arms of
     write::op::Expression::from and write::loc::LocationList::from                   (l. 2607-3015)
   What is abstracted: a DIE is seen after parsing, as the record `entry` (unit offset, tag,
   presence of DW_AT_declaration, and its *reference sites*: one per reference-carrying attribute
   value / operation, with where it sits and the raw operand).  Everything else (attribute payloads,
   strings, line programs) does not influence which entries are kept.
   Offsets are `usize`; every sum below adds a unit's section offset to an offset that was checked to
   be inside that unit (or is the offset of a parsed DIE), hence is smaller than the section length
   and cannot wrap: the unchecked `+` of UnitOffset::to_unit_section_offset is modelled by N.add.
   Modelled at /repo 8f64179 (filter repaired). Correspondence streams: c19.closure, c19.sites, c19.tags, c19.big (ocaml/s_c19.ml).
   NO proofs in this file. *)
From Coq Require Import List NArith ZArith Bool.
Require Import GV.Base.Res.
Import ListNotations.
Local Open Scope N_scope.

(* ------------------------------------------------------------------------------------------ *)
(* FnvHashMap<UnitSectionOffset, Vec<UnitSectionOffset>> : association list, first match wins,
   `remove` deletes every binding of the key, `insert` replaces.                                *)
Definition emap := list (N * list N).

Fixpoint em_get (k : N) (m : emap) : option (list N) :=
  match m with
  | [] => None
  | (k', v) :: m' => if k =? k' then Some v else em_get k m'
  end.

Fixpoint em_remove (k : N) (m : emap) : emap :=
  match m with
  | [] => []
  | (k', v) :: m' => if k =? k' then em_remove k m' else (k', v) :: em_remove k m'
  end.

Definition em_insert (k : N) (v : list N) (m : emap) : emap := (k, v) :: em_remove k m.

(* edges.get_mut(&k).map(|v| v.push(y)) *)
Fixpoint em_push (k y : N) (m : emap) : option emap :=
  match m with
  | [] => None
  | (k', v) :: m' =>
      if k =? k' then Some ((k', v ++ [y]) :: m')
      else match em_push k y m' with Some m'' => Some ((k', v) :: m'') | None => None end
  end.

Definition em_keys (m : emap) : list N := map fst m.

(* ------------------------------------------------------------------------------------------ *)
(* struct FilterDependencies { edges, required }                                                *)
Record deps := { d_edges : emap; d_required : list N }.
Definition deps_empty : deps := {| d_edges := []; d_required := [] |}.

(* add_entry: debug_assert!(!contains_key) ; edges.insert(entry, deps) *)
Definition add_entry (dbg : bool) (entry : N) (ds : list N) (d : deps) : res deps :=
  match em_get entry (d_edges d) with
  | Some _ => if dbg then Panic
              else Ok {| d_edges := em_insert entry ds (d_edges d); d_required := d_required d |}
  | None => Ok {| d_edges := em_insert entry ds (d_edges d); d_required := d_required d |}
  end.

(* add_edge: edges.get_mut(&from).unwrap().push(to) *)
Definition add_edge (from to : N) (d : deps) : res deps :=
  match em_push from to (d_edges d) with
  | Some m => Ok {| d_edges := m; d_required := d_required d |}
  | None => Panic
  end.

Definition require_entry (entry : N) (d : deps) : deps :=
  {| d_edges := d_edges d; d_required := d_required d ++ [entry] |}.

(* reachable.sort_unstable(): the result has no duplicates, so any sort gives the same list *)
Fixpoint ins_sorted (x : N) (l : list N) : list N :=
  match l with
  | [] => [x]
  | y :: l' => if x <=? y then x :: l else y :: ins_sorted x l'
  end.
Fixpoint sort_n (l : list N) : list N :=
  match l with [] => [] | x :: l' => ins_sorted x (sort_n l') end.

(* `for entry in entries { if let Some(deps) = edges.remove(&entry) { reachable.push(entry);
   queue.push(deps) } }` — q is the stack (head = last pushed), acc is `reachable` reversed *)
Fixpoint gr_visit (entries : list N) (m : emap) (q : list (list N)) (acc : list N)
  : emap * list (list N) * list N :=
  match entries with
  | [] => (m, q, acc)
  | e :: es =>
      match em_get e m with
      | Some ds => gr_visit es (em_remove e m) (ds :: q) (e :: acc)
      | None => gr_visit es m q acc
      end
  end.

(* `while let Some(entries) = queue.pop()` *)
Fixpoint gr_loop (fuel : nat) (m : emap) (q : list (list N)) (acc : list N) : res (list N) :=
  match fuel with
  | O => OutOfFuel
  | S f =>
      match q with
      | [] => Ok acc
      | entries :: q' =>
          let '(m', q'', acc') := gr_visit entries m q' acc in
          gr_loop f m' q'' acc'
      end
  end.

(* #nodes + #edges (+2 for the initial vector and the final empty test) *)
Definition gr_fuel (d : deps) : nat :=
  S (S (length (d_edges d) + length (concat (map snd (d_edges d))))).

Definition get_reachable (d : deps) : res (list N) :=
  let* acc := gr_loop (gr_fuel d) (d_edges d) [d_required d] [] in
  Ok (sort_n (rev acc)).

(* ------------------------------------------------------------------------------------------ *)
(* DIEs as seen by the filter and by the converter                                              *)

(* operations carrying a DIE reference (read::Operation after parsing) *)
Inductive refop : Type :=
| OpDerefType        (* Deref { base_type }           DW_OP_deref_type / GNU_deref_type / xderef_type *)
| OpRegvalType       (* RegisterOffset { base_type }  DW_OP_regval_type / GNU_regval_type *)
| OpConstType        (* TypedLiteral { base_type }    DW_OP_const_type / GNU_const_type *)
| OpConvert          (* Convert { base_type }         DW_OP_convert / GNU_convert *)
| OpReinterpret      (* Reinterpret { base_type }     DW_OP_reinterpret / GNU_reinterpret *)
| OpParameterRef     (* ParameterRef { offset }       DW_OP_GNU_parameter_ref *)
| OpCall             (* Call { UnitRef }              DW_OP_call2 / call4 *)
| OpCallRef          (* Call { DebugInfoRef }         DW_OP_call_ref *)
| OpImplicitPointer  (* ImplicitPointer { value }     DW_OP_implicit_pointer / GNU_implicit_pointer *)
| OpVariableValue.   (* VariableValue { offset }      DW_OP_GNU_variable_value *)

(* operand is a .debug_info offset (true) or a unit offset (false) *)
Definition op_is_info (op : refop) : bool :=
  match op with OpCallRef | OpImplicitPointer | OpVariableValue => true | _ => false end.

(* a raw location-list entry as LocListIter sees it *)
Inductive lockind : Type :=
| LocLive        (* begin < end, below the tombstone: yielded by LocListIter *)
| LocEmpty       (* begin = end: skipped by LocListIter; converted then dropped by LocationList::from *)
| LocInverted    (* begin > end: skipped by LocListIter; converted and kept *)
| LocTombstone.  (* begin >= min_tombstone: skipped by LocListIter; converted and kept *)

Inductive carrier : Type :=
| CAttrUnit                                   (* AttributeValue::UnitRef *)
| CAttrInfo                                   (* AttributeValue::DebugInfoRef *)
| CExpr (nest : nat) (op : refop)             (* op of an Exprloc, inside `nest` DW_OP_entry_value *)
| CLoc (k : lockind) (nest : nat) (op : refop). (* op of the expression of a location-list entry *)

Record site := { s_car : carrier; s_val : N }.

Record entry := { e_off : N;           (* UnitOffset of the DIE *)
                  e_tag : N;           (* DW_TAG value *)
                  e_decl : bool;       (* has_attr(DW_AT_declaration) *)
                  e_sites : list site  (* in attribute order *) }.

Inductive tree : Type := Node : entry -> list tree -> tree.

(* one unit: header offset in .debug_info, header size, length of entries_buf, children of the root *)
Record unitd := { u_off : N; u_hdr : N; u_len : N; u_kids : list tree }.

(* what EntriesRaw::read_entry reports: depth and has_children *)
Record rawent := { r_ent : entry; r_depth : Z; r_kids : bool }.

Definition is_nil {A} (l : list A) : bool := match l with [] => true | _ => false end.

Fixpoint flatten_tree (d : Z) (t : tree) : list rawent :=
  match t with
  | Node e ks =>
      {| r_ent := e; r_depth := d; r_kids := negb (is_nil ks) |} ::
      (fix go (l : list tree) : list rawent :=
         match l with [] => [] | k :: l' => flatten_tree (d + 1) k ++ go l' end) ks
  end.
Fixpoint flatten_list (d : Z) (l : list tree) : list rawent :=
  match l with [] => [] | k :: l' => flatten_tree d k ++ flatten_list d l' end.

(* UnitHeader::is_in_bounds *)
Definition in_bounds (u : unitd) (o : N) : bool :=
  if o <? u_hdr u then false else (o - u_hdr u <? u_len u).
(* UnitOffset::to_unit_section_offset *)
Definition sec (u : unitd) (o : N) : N := u_off u + o.
Definition root_off (u : unitd) : N := sec u (u_hdr u).
(* UnitSectionOffset::to_unit_offset *)
Definition to_unit_offset (u : unitd) (x : N) : option N :=
  if x <? u_off u then None
  else if in_bounds u (x - u_off u) then Some (x - u_off u) else None.

(* ------------------------------------------------------------------------------------------ *)
(* has_die_back_edge, every tag transcribed (value of the DW_TAG constant in constants.rs)      *)
Definition DW_TAG_namespace : N := 57.   (* 0x39 *)
Definition DW_TAG_subprogram : N := 46.  (* 0x2e *)

(* the tags of the `=> false` arm *)
Definition no_back_edge_tags : list N :=
  [ 1   (* 0x01 DW_TAG_array_type *)
  ; 71  (* 0x47 DW_TAG_atomic_type *)
  ; 36  (* 0x24 DW_TAG_base_type *)
  ; 2   (* 0x02 DW_TAG_class_type *)
  ; 38  (* 0x26 DW_TAG_const_type *)
  ; 54  (* 0x36 DW_TAG_dwarf_procedure *)
  ; 3   (* 0x03 DW_TAG_entry_point *)
  ; 4   (* 0x04 DW_TAG_enumeration_type *)
  ; 15  (* 0x0f DW_TAG_pointer_type *)
  ; 31  (* 0x1f DW_TAG_ptr_to_member_type *)
  ; 16  (* 0x10 DW_TAG_reference_type *)
  ; 55  (* 0x37 DW_TAG_restrict_type *)
  ; 66  (* 0x42 DW_TAG_rvalue_reference_type *)
  ; 18  (* 0x12 DW_TAG_string_type *)
  ; 19  (* 0x13 DW_TAG_structure_type *)
  ; 22  (* 0x16 DW_TAG_typedef *)
  ; 23  (* 0x17 DW_TAG_union_type *)
  ; 59  (* 0x3b DW_TAG_unspecified_type *)
  ; 53  (* 0x35 DW_TAG_volatile_type *)
  ; 68  (* 0x44 DW_TAG_coarray_type *)
  ; 26  (* 0x1a DW_TAG_common_block *)
  ; 70  (* 0x46 DW_TAG_dynamic_type *)
  ; 41  (* 0x29 DW_TAG_file_type *)
  ; 75  (* 0x4b DW_TAG_immutable_type *)
  ; 56  (* 0x38 DW_TAG_interface_type *)
  ; 32  (* 0x20 DW_TAG_set_type *)
  ; 64  (* 0x40 DW_TAG_shared_type *)
  ; 21  (* 0x15 DW_TAG_subroutine_type *)
  ; 45  (* 0x2d DW_TAG_packed_type *)
  ; 67  (* 0x43 DW_TAG_template_alias *)
  ; 43  (* 0x2b DW_TAG_namelist *)
  ; 57  (* 0x39 DW_TAG_namespace *)
  ; 61  (* 0x3d DW_TAG_imported_unit *)
  ; 8   (* 0x08 DW_TAG_imported_declaration *)
  ; 58  (* 0x3a DW_TAG_imported_module *)
  ; 30  (* 0x1e DW_TAG_module *) ].

Definition has_die_back_edge (tag : N) (decl : bool) : bool :=
  if existsb (N.eqb tag) no_back_edge_tags then false
  else if tag =? DW_TAG_subprogram then decl   (* self.has_attr(DW_AT_declaration) *)
  else true.

(* ------------------------------------------------------------------------------------------ *)
(* FilterUnit: which targets get an edge (add_attribute_refs / add_location_refs /
   add_expression_refs).  The root DIE is never a node: FilterUnit::new skips it.              *)

Definition unit_target (u : unitd) (v : N) : list N :=
  if in_bounds u v then [sec u v] else [].

(* add_expression_refs (as repaired by /repo 8f64179): every operation of the expression is looked at,
   DW_OP_entry_value bodies recursively, so the nesting depth does not matter; unit-relative operands
   are kept when in bounds (also a zero base type: UnitOffset(0) is never in bounds since the header
   is not empty), .debug_info operands (call_ref, implicit_pointer, variable_value) always *)
Definition filter_op_refs (u : unitd) (op : refop) (v : N) : list N :=
  match op with
  | OpCallRef | OpImplicitPointer | OpVariableValue => [v]
  | _ => unit_target u v
  end.

(* add_attribute_refs; add_location_refs walks raw_locations(..): every raw entry that carries an
   expression, whatever its range *)
Definition filter_refs (u : unitd) (s : site) : list N :=
  match s_car s with
  | CAttrUnit => unit_target u (s_val s)
  | CAttrInfo => [s_val s]
  | CExpr _ op => filter_op_refs u op (s_val s)
  | CLoc _ _ op => filter_op_refs u op (s_val s)
  end.

(* ConvertUnit / Expression::from / LocationList::from: which targets are looked up in entry_ids.
   Every raw location-list entry is converted, entry_value bodies recursively; typed operations
   with base_type 0 (generic type) carry no reference except DW_OP_const_type. *)
Definition conv_op_refs (u : unitd) (op : refop) (v : N) : list N :=
  match op with
  | OpDerefType | OpRegvalType | OpConvert | OpReinterpret => if v =? 0 then [] else unit_target u v
  | OpConstType | OpParameterRef | OpCall => unit_target u v
  | OpCallRef | OpImplicitPointer | OpVariableValue => [v]
  end.

Definition conv_refs (u : unitd) (s : site) : list N :=
  match s_car s with
  | CAttrUnit => unit_target u (s_val s)
  | CAttrInfo => [s_val s]
  | CExpr _ op => conv_op_refs u op (s_val s)
  | CLoc _ _ op => conv_op_refs u op (s_val s)
  end.

(* struct FilterParent *)
Record fparent := { fp_depth : Z; fp_off : N; fp_tag : N }.

(* while let Some(parent) = parents.last() { if parent.depth < entry.depth { break } pop } *)
Fixpoint pop_ge (d : Z) (ps : list fparent) : list fparent :=
  match ps with
  | [] => []
  | p :: ps' => if (d <=? fp_depth p)%Z then pop_ge d ps' else ps
  end.

Definition fu_parent (ps : list fparent) (r : rawent) : list fparent * option fparent :=
  let ps1 := pop_ge (r_depth r) ps in
  ((if r_kids r
    then {| fp_depth := r_depth r; fp_off := e_off (r_ent r); fp_tag := e_tag (r_ent r) |} :: ps1
    else ps1),
   hd_error ps1).

(* the dependency part of FilterUnit::read_entry; `rf` = which targets a site contributes
   (filter_refs for the code) *)
Definition fu_deps (rf : unitd -> site -> list N) (dbg : bool) (u : unitd) (e : entry)
           (parent : option fparent) (d : deps) : res deps :=
  let eo := sec u (e_off e) in
  let ds := flat_map (rf u) (e_sites e) in
  match parent with
  | None => add_entry dbg eo ds d
  | Some p =>
      let po := sec u (fp_off p) in
      let* d1 := (if negb (fp_tag p =? DW_TAG_namespace) && has_die_back_edge (e_tag e) (e_decl e)
                  then add_edge po eo d else Ok d) in
      add_entry dbg eo (ds ++ [po]) d1
  end.

(* FilterUnit::read_entry followed by the user's `if need_entry(&entry) { unit.require_entry(..) }` *)
Definition fu_read_entry rf (dbg : bool) (req : N -> bool) (u : unitd)
           (st : list fparent * deps) (r : rawent) : res (list fparent * deps) :=
  let '(ps, d) := st in
  let '(ps', parent) := fu_parent ps r in
  let* d' := fu_deps rf dbg u (r_ent r) parent d in
  let eo := sec u (e_off (r_ent r)) in
  Ok (ps', if req eo then require_entry eo d' else d').

Fixpoint fu_entries rf dbg req u (st : list fparent * deps) (rs : list rawent)
  : res (list fparent * deps) :=
  match rs with
  | [] => Ok st
  | r :: rs' => let* st' := fu_read_entry rf dbg req u st r in fu_entries rf dbg req u st' rs'
  end.

(* FilterUnitSection: `while let Some(unit) = filter.read_unit()? { while unit.read_entry(..)? {..} }` *)
Fixpoint filter_section rf dbg req (units : list unitd) (d : deps) : res deps :=
  match units with
  | [] => Ok d
  | u :: us =>
      let* st := fu_entries rf dbg req u ([], d) (flatten_list 1 (u_kids u)) in
      filter_section rf dbg req us (snd st)
  end.

(* ------------------------------------------------------------------------------------------ *)
(* ConvertUnitSection::new_with_filter: slice the sorted offsets per unit                       *)
Fixpoint take_unit (u : unitd) (offs : list N) : list N * list N :=
  match offs with
  | [] => ([], [])
  | x :: rest =>
      match to_unit_offset u x with
      | None => ([], offs)
      | Some _ => let '(a, b) := take_unit u rest in (x :: a, b)
      end
  end.

Fixpoint slices (dbg : bool) (units : list unitd) (offs : list N) : res (list (list N)) :=
  match units with
  | [] => if dbg && negb (is_nil offs) then Panic (* debug_assert_eq!(end, offsets.len()) *) else Ok []
  | u :: us =>
      let '(mine, rest) := take_unit u offs in
      let* r := slices dbg us rest in
      Ok (mine :: r)
  end.

(* reserve_unit: entry_ids gets the root and the slice (only the key set matters here) *)
Fixpoint reserve_all (units : list unitd) (sl : list (list N)) : list N :=
  match units, sl with
  | u :: us, s :: sl' => root_off u :: s ++ reserve_all us sl'
  | _, _ => []
  end.

Definition mem_n (x : N) (l : list N) : bool := existsb (N.eqb x) l.

(* ConvertUnit::convert_unit_ref / convert_debug_info_ref *)
Definition convert_unit_ref (u : unitd) (ids : list N) (v : N) : res unit :=
  if negb (in_bounds u v) then Err CInvalidUnitRef
  else if mem_n (sec u v) ids then Ok tt else Err CInvalidUnitRef.
Definition convert_debug_info_ref (ids : list N) (v : N) : res unit :=
  if mem_n v ids then Ok tt else Err CInvalidDebugInfoRef.

Definition conv_op (u : unitd) (ids : list N) (op : refop) (v : N) : res unit :=
  match op with
  | OpDerefType | OpRegvalType | OpConvert | OpReinterpret =>
      if v =? 0 then Ok tt else convert_unit_ref u ids v
  | OpConstType | OpParameterRef | OpCall => convert_unit_ref u ids v
  | OpCallRef | OpImplicitPointer | OpVariableValue => convert_debug_info_ref ids v
  end.

Definition conv_site (u : unitd) (ids : list N) (s : site) : res unit :=
  match s_car s with
  | CAttrUnit => convert_unit_ref u ids (s_val s)
  | CAttrInfo => convert_debug_info_ref ids (s_val s)
  | CExpr _ op => conv_op u ids op (s_val s)
  | CLoc _ _ op => conv_op u ids op (s_val s)
  end.

Fixpoint conv_sites (u : unitd) (ids : list N) (ss : list site) : res unit :=
  match ss with
  | [] => Ok tt
  | s :: ss' => let* _ := conv_site u ids s in conv_sites u ids ss'
  end.

(* while let Some((parent_depth, parent_id)) = parents.last() { if parent_depth < entry.depth
   { entry.parent = Some(parent_id); break } pop } *)
Fixpoint pop_ge_c (d : Z) (ps : list (Z * N)) : list (Z * N) :=
  match ps with
  | [] => []
  | (pd, pid) :: ps' => if (d <=? pd)%Z then pop_ge_c d ps' else ps
  end.

(* ConvertUnit::read_entry + add_entry + convert_attributes for one DIE below the root;
   output: (section offset of the DIE, section offset of the parent it is attached to) *)
Definition cu_entry (u : unitd) (ids : list N) (st : list (Z * N) * list (N * N)) (r : rawent)
  : res (list (Z * N) * list (N * N)) :=
  let '(ps, out) := st in
  let eo := sec u (e_off (r_ent r)) in
  let ps1 := pop_ge_c (r_depth r) ps in
  if mem_n eo ids then
    let parent := match ps1 with (_, pid) :: _ => pid | [] => root_off u end in
    let ps2 := if r_kids r then (r_depth r, eo) :: ps1 else ps1 in
    let* _ := conv_sites u ids (e_sites (r_ent r)) in
    Ok (ps2, out ++ [(eo, parent)])
  else Ok (ps1, out).

Fixpoint cu_entries (u : unitd) (ids : list N) (st : list (Z * N) * list (N * N))
         (rs : list rawent) : res (list (Z * N) * list (N * N)) :=
  match rs with
  | [] => Ok st
  | r :: rs' => let* st' := cu_entry u ids st r in cu_entries u ids st' rs'
  end.

(* ConvertUnitSection::read_unit (the root is read first and pushed if it has children) and
   ConvertUnit::convert for every unit *)
Fixpoint convert_units (ids : list N) (units : list unitd) (out : list (N * N)) : res (list (N * N)) :=
  match units with
  | [] => Ok out
  | u :: us =>
      let ps0 := if is_nil (u_kids u) then [] else [(0%Z, root_off u)] in
      let* st := cu_entries u ids (ps0, out) (flatten_list 1 (u_kids u)) in
      convert_units ids us (snd st)
  end.

(* offsets reserved by Dwarf::convert_with_filter for the filter built from `req` *)
Definition reserved rf (dbg : bool) (req : N -> bool) (units : list unitd) : res (list N) :=
  let* d := filter_section rf dbg req units deps_empty in
  get_reachable d.

(* the filtered conversion: which DIEs come out, attached to which parent *)
Definition convert_filtered rf (dbg : bool) (req : N -> bool) (units : list unitd)
  : res (list (N * N)) :=
  let* offs := reserved rf dbg req units in
  let* sl := slices dbg units offs in
  convert_units (reserve_all units sl) units [].

(* Dwarf::from (ConvertUnitSection::new): every DIE is reserved *)
Definition all_offsets (u : unitd) : list N :=
  map (fun r => sec u (e_off (r_ent r))) (flatten_list 1 (u_kids u)).
Definition convert_all (units : list unitd) : res (list (N * N)) :=
  convert_units (flat_map (fun u => root_off u :: all_offsets u) units) units [].

(* The error-tolerant loop documented on ConvertUnit (read_entry / add_entry / convert_attribute_value per
   attribute, as crates/examples `convert` does): an attribute whose conversion fails is skipped instead of
   aborting the conversion, so every reserved DIE is emitted whatever its reference sites hold. *)
Definition strip_raw (r : rawent) : rawent :=
  {| r_ent := {| e_off := e_off (r_ent r); e_tag := e_tag (r_ent r); e_decl := e_decl (r_ent r);
                 e_sites := [] |};
     r_depth := r_depth r; r_kids := r_kids r |}.

Fixpoint convert_units_tol (ids : list N) (units : list unitd) (out : list (N * N)) : res (list (N * N)) :=
  match units with
  | [] => Ok out
  | u :: us =>
      let ps0 := if is_nil (u_kids u) then [] else [(0%Z, root_off u)] in
      let* st := cu_entries u ids (ps0, out) (map strip_raw (flatten_list 1 (u_kids u))) in
      convert_units_tol ids us (snd st)
  end.

Definition convert_filtered_tol rf (dbg : bool) (req : N -> bool) (units : list unitd)
  : res (list (N * N)) :=
  let* offs := reserved rf dbg req units in
  let* sl := slices dbg units offs in
  convert_units_tol (reserve_all units sl) units [].

(* ------------------------------------------------------------------------------------------ *)
(* The graph denoted by a FilterDependencies value (used by the statements in Properties/C19.v):
   nodes = keys on which add_entry was called, edges = the stored vectors, roots = `required`.   *)
Definition dep_valid (d : deps) (x : N) : Prop := exists l, em_get x (d_edges d) = Some l.
Definition dep_edge (d : deps) (x y : N) : Prop := exists l, em_get x (d_edges d) = Some l /\ In y l.
Definition dep_required (d : deps) (x : N) : Prop := In x (d_required d).
