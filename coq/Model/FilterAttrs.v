(* Model/FilterAttrs.v — attribute level of the filtered conversion, on top of Model/Filter.v (C19).
   /repo/src/write/unit.rs, module `convert`:
     FilterUnit::filter_attributes                  which attributes the filter never looks at     (l. 1896)
     ConvertUnitEntry::filter_attributes            which attributes the converter never converts  (l. 3125)
     FilterUnit::add_attribute_refs / add_expression_refs, the unit-relative arms exactly as coded:
       `if val.is_in_bounds(unit) { deps.push(val.to_unit_section_offset(unit)) }`       (l. 1923, 2004)
       with UnitHeader::is_in_bounds (read/unit.rs l. 527) and the UNCHECKED usize addition of
       UnitOffset::to_unit_section_offset (read/unit.rs l. 138)
     ConvertUnitSection::{new, new_with_filter, reserve_unit}: the map entry_ids
       UnitSectionOffset -> (UnitId, UnitEntryId)                                         (l. 2161-2242)
     ConvertUnit::{read_entry, add_entry, convert, convert_attributes, convert_attribute_value (reference
       arms), convert_unit_ref, convert_debug_info_ref}                                   (l. 2638-3050)
     ConvertSplitUnitSection::{new_with_filter, new_with_offsets}                         (l. 2315-2363)
   An attribute is seen as: its name, an opaque body (everything of the value that is not a DIE reference;
   it is copied), and its reference sites in order of occurrence (Filter.site).  A DIE of this file is an
   `aentry`; `entry_of` is the view FilterUnit::read_entry has of it (the `entry` of Model/Filter.v).
   Abstractions: UnitId / UnitEntryId are the indices gimli::write assigns (units 0.., root 0, reserved 1..
   in reservation order); a converted unit-relative reference keeps the whole pair found in entry_ids
   (gimli keeps the UnitEntryId; the unit is the one being written).  Attribute names are assumed distinct
   inside one DIE (DebuggingInformationEntry::set replaces an existing name).
   Correspondence streams: c19.attrs, c19.bounds, c19.split (ocaml/s_c19a.ml).  NO proofs in this file. *)
From Coq Require Import List NArith ZArith Bool.
Require Import GV.Base.Res GV.Base.Ints GV.Model.Filter.
Import ListNotations.
Local Open Scope N_scope.

(* ------------------------------------------------------------------------------------------ *)
(* 1. The bounds rule as coded                                                                  *)

(* UnitOffset::to_unit_section_offset: `UnitSectionOffset(unit.offset().0 + self.0)` on usize *)
Definition to_unit_section_offset (dbg : bool) (u : unitd) (o : N) : res N := chk_add 64 dbg (u_off u) o.

(* `if val.is_in_bounds(&self.read_unit) { deps.push(val.to_unit_section_offset(&self.read_unit)) }` *)
Definition push_unit_ref (dbg : bool) (u : unitd) (v : N) (deps : list N) : res (list N) :=
  if in_bounds u v then let* x := to_unit_section_offset dbg u v in Ok (deps ++ [x]) else Ok deps.

(* DebugInfoOffset::to_unit_section_offset is Some for a unit of .debug_info *)
Definition push_info_ref (v : N) (deps : list N) : res (list N) := Ok (deps ++ [v]).

Definition push_op_ref (dbg : bool) (u : unitd) (op : refop) (v : N) (deps : list N) : res (list N) :=
  if op_is_info op then push_info_ref v deps else push_unit_ref dbg u v deps.

Definition push_site_refs (dbg : bool) (u : unitd) (s : site) (deps : list N) : res (list N) :=
  match s_car s with
  | CAttrUnit => push_unit_ref dbg u (s_val s) deps
  | CAttrInfo => push_info_ref (s_val s) deps
  | CExpr _ op => push_op_ref dbg u op (s_val s) deps
  | CLoc _ _ op => push_op_ref dbg u op (s_val s) deps
  end.

(* `for attr in &entry.attrs { self.add_attribute_refs(&mut deps, attr.value())? }` *)
Fixpoint push_sites_refs (dbg : bool) (u : unitd) (ss : list site) (deps : list N) : res (list N) :=
  match ss with
  | [] => Ok deps
  | s :: ss' => let* d := push_site_refs dbg u s deps in push_sites_refs dbg u ss' d
  end.

(* what the three conversions of the public API answer for one unit (stream c19.bounds):
   UnitOffset::is_in_bounds, UnitOffset::to_unit_section_offset, UnitSectionOffset::to_unit_offset *)
Definition bounds_probe (dbg : bool) (u : unitd) (o x : N) : bool * res N * option N :=
  (in_bounds u o, to_unit_section_offset dbg u o, to_unit_offset u x).

(* a unit-relative site (the operand is a UnitOffset) *)
Definition site_unit_relative (s : site) : bool :=
  match s_car s with
  | CAttrUnit => true
  | CAttrInfo => false
  | CExpr _ op => negb (op_is_info op)
  | CLoc _ _ op => negb (op_is_info op)
  end.

(* the reading of a unit-relative reference that knows nothing about byte ranges: it names the DIE of ITS OWN
   unit that starts at that unit offset, if there is one *)
Fixpoint tree_offs (t : tree) : list N :=
  match t with
  | Node e ks => e_off e :: (fix go (l : list tree) : list N :=
                               match l with [] => [] | k :: l' => tree_offs k ++ go l' end) ks
  end.
Fixpoint forest_offs (l : list tree) : list N :=
  match l with [] => [] | k :: l' => tree_offs k ++ forest_offs l' end.
Definition own_die (u : unitd) (v : N) : bool := mem_n v (forest_offs (u_kids u)).

Definition own_refs (u : unitd) (s : site) : list N :=
  if site_unit_relative s
  then (if own_die u (s_val s) then [sec u (s_val s)] else [])
  else [s_val s].

(* ------------------------------------------------------------------------------------------ *)
(* 2. Attributes                                                                                *)

Record attr := { at_name : N; at_body : N; at_sites : list site }.
Record aentry := { ae_off : N; ae_tag : N; ae_attrs : list attr }.
Inductive atree : Type := ANode : aentry -> list atree -> atree.
Record aunit := { au_off : N; au_hdr : N; au_len : N; au_kids : list atree }.

Definition DW_AT_sibling : N := 1.          (* 0x01 *)
Definition DW_AT_declaration : N := 60.     (* 0x3c *)
Definition DW_AT_GNU_locviews : N := 8503.  (* 0x2137 *)

(* the `=> false` names shared by both filter_attributes ("DWARF metadata attributes") *)
Definition meta_attr_names : list N :=
  [ 114    (* 0x72 DW_AT_str_offsets_base *)
  ; 115    (* 0x73 DW_AT_addr_base *)
  ; 116    (* 0x74 DW_AT_rnglists_base *)
  ; 140    (* 0x8c DW_AT_loclists_base *)
  ; 118    (* 0x76 DW_AT_dwo_name *)
  ; 8499   (* 0x2133 DW_AT_GNU_addr_base *)
  ; 8498   (* 0x2132 DW_AT_GNU_ranges_base *)
  ; 8496   (* 0x2130 DW_AT_GNU_dwo_name *)
  ; 8497   (* 0x2131 DW_AT_GNU_dwo_id *) ].

Definition attr_kept (a : attr) : bool :=
  negb ((at_name a =? DW_AT_sibling) || mem_n (at_name a) meta_attr_names).

(* FilterUnit::filter_attributes: attrs.retain(..) *)
Definition fu_filter_attributes (l : list attr) : list attr := filter attr_kept l.

(* ConvertUnitEntry::filter_attributes: the same retain, and `sibling` records whether DW_AT_sibling was seen *)
Definition cu_filter_attributes (l : list attr) : bool * list attr :=
  (existsb (fun a => at_name a =? DW_AT_sibling) l, filter attr_kept l).

(* DebuggingInformationEntry::has_attr *)
Definition has_attr (name : N) (l : list attr) : bool := existsb (fun a => at_name a =? name) l.

(* what FilterUnit::read_entry sees of a DIE after filter_attributes *)
Definition entry_of (e : aentry) : entry :=
  let l := fu_filter_attributes (ae_attrs e) in
  {| e_off := ae_off e; e_tag := ae_tag e;
     e_decl := has_attr DW_AT_declaration l;
     e_sites := flat_map at_sites l |}.

Fixpoint tree_of (t : atree) : tree :=
  match t with ANode e ks => Node (entry_of e) (map tree_of ks) end.
Definition unit_of (au : aunit) : unitd :=
  {| u_off := au_off au; u_hdr := au_hdr au; u_len := au_len au; u_kids := map tree_of (au_kids au) |}.

(* preorder list of the DIEs of a unit *)
Fixpoint atree_entries (t : atree) : list aentry :=
  match t with
  | ANode e ks => e :: (fix go (l : list atree) : list aentry :=
                          match l with [] => [] | k :: l' => atree_entries k ++ go l' end) ks
  end.
Fixpoint aforest_entries (l : list atree) : list aentry :=
  match l with [] => [] | k :: l' => atree_entries k ++ aforest_entries l' end.
Definition aunit_entries (au : aunit) : list aentry := aforest_entries (au_kids au).

(* ------------------------------------------------------------------------------------------ *)
(* 3. entry_ids                                                                                 *)

Definition eid := (N * N)%type.                 (* (UnitId index, UnitEntryId index) *)
Definition idmap := list (N * eid).             (* in insertion order *)

(* HashMap::get after the inserts of the list in order: the LAST binding of the key wins *)
Fixpoint im_get (k : N) (m : idmap) : option eid :=
  match m with
  | [] => None
  | (k', v) :: m' =>
      match im_get k m' with
      | Some v' => Some v'
      | None => if k =? k' then Some v else None
      end
  end.

(* reserve_unit for the unit with UnitId j: the root gets unit.root() = 0, every offset of the slice the next
   unit.reserve() = 1, 2, .. *)
Definition unit_ids (j : N) (u : unitd) (s : list N) : idmap :=
  (root_off u, (j, 0)) :: combine s (map (fun i => (j, N.of_nat i)) (seq 1 (length s))).

Fixpoint section_ids (j : N) (units : list unitd) (sl : list (list N)) : idmap :=
  match units, sl with
  | u :: us, s :: sl' => unit_ids j u s ++ section_ids (j + 1) us sl'
  | _, _ => []
  end.

(* ConvertUnitSection::new_with_filter / ConvertUnitSection::new on a fresh write::Dwarf *)
Definition ids_filtered (dbg : bool) (req : N -> bool) (units : list unitd) : res idmap :=
  let* offs := reserved filter_refs dbg req units in
  let* sl := slices dbg units offs in
  Ok (section_ids 0 units sl).
Definition ids_all (units : list unitd) : idmap := section_ids 0 units (map all_offsets units).

(* which source DIE an id of the output stands for (specification device: the inverse of entry_ids) *)
Fixpoint im_src (id : eid) (m : idmap) : option N :=
  match m with
  | [] => None
  | (k, (a, b)) :: m' => if (a =? fst id) && (b =? snd id) then Some k else im_src id m'
  end.

(* ------------------------------------------------------------------------------------------ *)
(* 4. Conversion of the attributes of one DIE                                                   *)

Definition cv_unit_ref (u : unitd) (m : idmap) (v : N) : res eid :=
  if negb (in_bounds u v) then Err CInvalidUnitRef
  else match im_get (sec u v) m with Some id => Ok id | None => Err CInvalidUnitRef end.
Definition cv_info_ref (m : idmap) (v : N) : res eid :=
  match im_get v m with Some id => Ok id | None => Err CInvalidDebugInfoRef end.

Definition one {A} (r : res A) : res (list A) := let* x := r in Ok [x].

(* the reference-resolving arms of write::op::Expression::from *)
Definition cv_op (u : unitd) (m : idmap) (op : refop) (v : N) : res (list eid) :=
  match op with
  | OpDerefType | OpRegvalType | OpConvert | OpReinterpret =>
      if v =? 0 then Ok [] else one (cv_unit_ref u m v)
  | OpConstType | OpParameterRef | OpCall => one (cv_unit_ref u m v)
  | OpCallRef | OpImplicitPointer | OpVariableValue => one (cv_info_ref m v)
  end.

(* one reference site; write::loc::LocationList::from converts the expression of an entry with begin = end
   and then drops the entry *)
Definition cv_site (u : unitd) (m : idmap) (s : site) : res (list eid) :=
  match s_car s with
  | CAttrUnit => one (cv_unit_ref u m (s_val s))
  | CAttrInfo => one (cv_info_ref m (s_val s))
  | CExpr _ op => cv_op u m op (s_val s)
  | CLoc k _ op => let* l := cv_op u m op (s_val s) in
                   Ok (match k with LocEmpty => [] | _ => l end)
  end.

Fixpoint cv_sites (u : unitd) (m : idmap) (ss : list site) : res (list eid) :=
  match ss with
  | [] => Ok []
  | s :: ss' => let* a := cv_site u m s in let* b := cv_sites u m ss' in Ok (a ++ b)
  end.

Record cattr := { ca_name : N; ca_body : N; ca_refs : list eid }.

(* ConvertUnit::convert_attributes: DW_AT_GNU_locviews is neither converted nor set *)
Fixpoint cv_attributes (u : unitd) (m : idmap) (l : list attr) : res (list cattr) :=
  match l with
  | [] => Ok []
  | a :: l' =>
      if at_name a =? DW_AT_GNU_locviews then cv_attributes u m l'
      else
        let* ids := cv_sites u m (at_sites a) in
        let* r := cv_attributes u m l' in
        Ok ({| ca_name := at_name a; ca_body := at_body a; ca_refs := ids |} :: r)
  end.

(* the attribute-by-attribute loop documented on ConvertUnit (convert_attribute_value per attribute; an
   attribute whose conversion fails is skipped) *)
Fixpoint cv_attributes_tol (u : unitd) (m : idmap) (l : list attr) : list cattr :=
  match l with
  | [] => []
  | a :: l' =>
      if at_name a =? DW_AT_GNU_locviews then cv_attributes_tol u m l'
      else match cv_sites u m (at_sites a) with
           | Ok ids => {| ca_name := at_name a; ca_body := at_body a; ca_refs := ids |} :: cv_attributes_tol u m l'
           | _ => cv_attributes_tol u m l'
           end
  end.

(* read_entry's filter_attributes followed by convert_attributes *)
Definition cv_entry_attrs (u : unitd) (m : idmap) (e : aentry) : res (list cattr) :=
  cv_attributes u m (snd (cu_filter_attributes (ae_attrs e))).

(* an attribute list with every id replaced by the source DIE it stands for *)
Record dattr := { da_name : N; da_body : N; da_refs : list (option N) }.
Definition decode_attr (m : idmap) (a : cattr) : dattr :=
  {| da_name := ca_name a; da_body := ca_body a; da_refs := map (fun id => im_src id m) (ca_refs a) |}.
Definition decode_attrs (m : idmap) (r : res (list cattr)) : res (list dattr) :=
  let* l := r in Ok (map (decode_attr m) l).

(* ------------------------------------------------------------------------------------------ *)
(* 5. The whole conversion with attributes: ConvertUnit::convert for every unit.                *)

Record arawent := { ar_ent : aentry; ar_depth : Z; ar_kids : bool }.

Fixpoint aflatten_tree (d : Z) (t : atree) : list arawent :=
  match t with
  | ANode e ks =>
      {| ar_ent := e; ar_depth := d; ar_kids := negb (is_nil ks) |} ::
      (fix go (l : list atree) : list arawent :=
         match l with [] => [] | k :: l' => aflatten_tree (d + 1) k ++ go l' end) ks
  end.
Fixpoint aflatten_list (d : Z) (l : list atree) : list arawent :=
  match l with [] => [] | k :: l' => aflatten_tree d k ++ aflatten_list d l' end.

(* one emitted DIE: section offset of its source, of the source of its parent, the id it was given,
   whether add_entry calls set_sibling(true), its converted attributes *)
Record cdie := { cd_off : N; cd_parent : N; cd_id : eid; cd_sibling : bool; cd_attrs : list cattr }.

(* ConvertUnit::read_entry + add_entry + convert_attributes for one DIE below the root (compare Filter.cu_entry) *)
Definition cua_entry (tol : bool) (u : unitd) (m : idmap) (st : list (Z * N) * list cdie) (r : arawent)
  : res (list (Z * N) * list cdie) :=
  let '(ps, out) := st in
  let eo := sec u (ae_off (ar_ent r)) in
  let ps1 := pop_ge_c (ar_depth r) ps in
  match im_get eo m with
  | Some id =>
      let parent := match ps1 with (_, pid) :: _ => pid | [] => root_off u end in
      let ps2 := if ar_kids r then (ar_depth r, eo) :: ps1 else ps1 in
      let '(sib, l) := cu_filter_attributes (ae_attrs (ar_ent r)) in
      let* ca := (if tol then Ok (cv_attributes_tol u m l) else cv_attributes u m l) in
      Ok (ps2, out ++ [{| cd_off := eo; cd_parent := parent; cd_id := id; cd_sibling := sib; cd_attrs := ca |}])
  | None => Ok (ps1, out)
  end.

Fixpoint cua_entries (tol : bool) (u : unitd) (m : idmap) (st : list (Z * N) * list cdie) (rs : list arawent)
  : res (list (Z * N) * list cdie) :=
  match rs with
  | [] => Ok st
  | r :: rs' => let* st' := cua_entry tol u m st r in cua_entries tol u m st' rs'
  end.

Fixpoint convert_units_attrs (tol : bool) (m : idmap) (aunits : list aunit) (out : list cdie) : res (list cdie) :=
  match aunits with
  | [] => Ok out
  | au :: us =>
      let u := unit_of au in
      let ps0 := if is_nil (au_kids au) then [] else [(0%Z, root_off u)] in
      let* st := cua_entries tol u m (ps0, out) (aflatten_list 1 (au_kids au)) in
      convert_units_attrs tol m us (snd st)
  end.

(* Dwarf::convert_with_filter + ConvertUnit::convert (tol = false) or the tolerant loop (tol = true), and Dwarf::from *)
Definition convert_filtered_attrs (tol : bool) (dbg : bool) (req : N -> bool) (aunits : list aunit) : res (idmap * list cdie) :=
  let* m := ids_filtered dbg req (map unit_of aunits) in
  let* out := convert_units_attrs tol m aunits [] in
  Ok (m, out).
Definition convert_all_attrs (aunits : list aunit) : res (idmap * list cdie) :=
  let m := ids_all (map unit_of aunits) in
  let* out := convert_units_attrs false m aunits [] in
  Ok (m, out).

(* ------------------------------------------------------------------------------------------ *)
(* 6. Split DWARF: FilterUnitSection::new_split reads every unit of the .dwo section into one dependency
   map exactly like FilterUnitSection::new; ConvertSplitUnitSection::new_with_filter converts the FIRST unit
   and (as repaired, 7a2e6de) hands new_with_offsets the reachable offsets that lie in that unit:
   `offsets.retain(|offset| offset.to_unit_offset(&split_unit).is_some())`.                        *)
Definition own_offsets (u : unitd) (offs : list N) : list N :=
  filter (fun x => match to_unit_offset u x with Some _ => true | None => false end) offs.

Definition convert_split_filtered rf (dbg : bool) (req : N -> bool) (units : list unitd)
  : res (list (N * N)) :=
  match units with
  | [] => Err EMissingSplitUnit
  | u :: _ =>
      let* offs := reserved rf dbg req units in
      convert_units (root_off u :: own_offsets u offs) [u] []
  end.

(* the same with the attribute-by-attribute tolerant loop (no attribute aborts the conversion) *)
Definition convert_split_filtered_tol rf (dbg : bool) (req : N -> bool) (units : list unitd)
  : res (list (N * N)) :=
  match units with
  | [] => Err EMissingSplitUnit
  | u :: _ =>
      let* offs := reserved rf dbg req units in
      convert_units_tol (root_off u :: own_offsets u offs) [u] []
  end.

(* a reachable DIE of ANOTHER unit of the .dwo section: not reserved by the split path *)
Definition split_foreign (u0 : unitd) (offs : list N) (y : N) : bool :=
  mem_n y offs && negb (match to_unit_offset u0 y with Some _ => true | None => false end).
