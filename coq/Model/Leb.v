(* Model/Leb.v — mirrors /repo/src/leb128.rs (read::{skip,unsigned,u16,signed},
   write::{Leb128::unsigned, Leb128::signed, uleb128_size, sleb128_size}).
   Correspondence streams: c09.uleb c09.sleb c09.uleb16 c09.skip c09.wuleb c09.wsleb *)
From Coq Require Import List NArith ZArith Bool.
From Coq.Strings Require Import Byte.
Require Import GV.Base.Res GV.Base.Byt GV.Base.Ints.
Import ListNotations.
Local Open Scope N_scope.

Definition CONT : N := 128.
Definition has_cont (byte : N) : bool := negb (N.land byte CONT =? 0).
Definition low7 (byte : N) : N := N.land byte 127.

(* Reader::read_u8 on a slice reader *)
Definition read_u8 (bs : list byte) : res (N * list byte) :=
  match bs with
  | [] => Err EUnexpectedEof
  | b :: r => Ok (b2n b, r)
  end.

(* leb128::read::skip *)
Fixpoint skip_leb (bs : list byte) : res (unit * list byte) :=
  match bs with
  | [] => Err EUnexpectedEof
  | b :: r => if has_cont (b2n b) then skip_leb r else Ok (tt, r)
  end.

(* `x << shift` on u64: shift >= 64 is an overflow panic in debug builds and a
   masked shift in release; bits shifted out are dropped silently. *)
Definition shl64 (dbg : bool) (x shift : N) : res N :=
  if 64 <=? shift then (if dbg then Panic else Ok (wrap64 (N.shiftl x (shift mod 64))))
  else Ok (wrap64 (N.shiftl x shift)).

(* the `loop` of leb128::read::unsigned; structural on the input *)
Fixpoint uleb_loop (dbg : bool) (result shift : N) (bs : list byte) : res (N * list byte) :=
  match bs with
  | [] => Err EUnexpectedEof
  | b :: r =>
      let byte := b2n b in
      if (shift =? 63) && negb (byte =? 0) && negb (byte =? 1) then Err EBadUnsignedLeb128
      else
        let* sh := shl64 dbg (low7 byte) shift in
        let result := N.lor result sh in
        if has_cont byte then uleb_loop dbg result (shift + 7) r
        else Ok (result, r)
  end.

(* leb128::read::unsigned (first iteration unpeeled as in the source) *)
Definition read_uleb128 (dbg : bool) (bs : list byte) : res (N * list byte) :=
  match bs with
  | [] => Err EUnexpectedEof
  | b :: r =>
      let byte := b2n b in
      if has_cont byte then uleb_loop dbg (low7 byte) 7 r
      else Ok (byte, r)
  end.

(* leb128::read::u16 *)
Definition read_uleb128_u16 (bs : list byte) : res (N * list byte) :=
  let* (b0, r0) := read_u8 bs in
  if negb (has_cont b0) then Ok (b0, r0) else
  let result := low7 b0 in
  let* (b1, r1) := read_u8 r0 in
  let result := N.lor result (wrap16 (N.shiftl (low7 b1) 7)) in
  if negb (has_cont b1) then Ok (result, r1) else
  let* (b2, r2) := read_u8 r1 in
  if 3 <? b2 then Err EBadUnsignedLeb128 else
  (* `result += u16::from(byte) << 14` : result < 2^14 and byte <= 3, no overflow possible;
     the model keeps the check *)
  let s := result + wrap16 (N.shiftl b2 14) in
  if s <? two16 then Ok (s, r2) else Panic.

(* Reader::read_uleb128_u32 *)
Definition read_uleb128_u32 (dbg : bool) (bs : list byte) : res (N * list byte) :=
  let* (v, r) := read_uleb128 dbg bs in
  if v <? two32 then Ok (v, r) else Err EBadUnsignedLeb128.

(* leb128::read::signed: `result` is the i64 as a 64-bit pattern *)
Fixpoint sleb_loop (dbg : bool) (result shift : N) (bs : list byte) : res (Z * list byte) :=
  match bs with
  | [] => Err EUnexpectedEof
  | b :: r =>
      let byte := b2n b in
      if (shift =? 63) && negb (byte =? 0) && negb (byte =? 127) then Err EBadSignedLeb128
      else
        let* sh := shl64 dbg (low7 byte) shift in
        let result := N.lor result sh in
        let shift := shift + 7 in
        if has_cont byte then sleb_loop dbg result shift r
        else
          if (shift <? 64) && (N.land byte 64 =? 64) then
            let* ones := shl64 dbg (two64 - 1) shift in
            Ok (to_i64 (N.lor result ones), r)
          else Ok (to_i64 result, r)
  end.

Definition read_sleb128 (dbg : bool) (bs : list byte) : res (Z * list byte) :=
  sleb_loop dbg 0 0 bs.

(* ---- writers ---- *)

(* Leb128::unsigned — loop on val; fuel 10 suffices for u64 (theorem) and the
   Rust array has 10 slots: an 11th byte would be an index panic. *)
Fixpoint write_uleb_fuel (fuel : nat) (val : N) : res (list byte) :=
  match fuel with
  | O => Panic   (* bytes[10] out of bounds *)
  | S f =>
      let byte := low7 (N.land val 255) in
      let val' := N.shiftr val 7 in
      if val' =? 0 then Ok [n2b byte]
      else let* rest := write_uleb_fuel f val' in Ok (n2b (N.lor byte CONT) :: rest)
  end.
Definition write_uleb128 (val : N) : res (list byte) := write_uleb_fuel 10 val.

(* Leb128::signed on an i64 given as Z; `>>` is arithmetic *)
Fixpoint write_sleb_fuel (fuel : nat) (val : Z) : res (list byte) :=
  match fuel with
  | O => Panic
  | S f =>
      let byte := Z.to_N (val mod 256)%Z in            (* val as u8 *)
      let v6 := Z.shiftr val 6 in
      let done := (v6 =? 0)%Z || (v6 =? -1)%Z in
      if done then Ok [n2b (N.land byte 127)]
      else let* rest := write_sleb_fuel f (Z.shiftr v6 1) in Ok (n2b (N.lor byte CONT) :: rest)
  end.
Definition write_sleb128 (val : Z) : res (list byte) := write_sleb_fuel 10 val.

Fixpoint uleb_size_fuel (fuel : nat) (val : N) : N :=
  match fuel with
  | O => 0
  | S f => let val' := N.shiftr val 7 in if val' =? 0 then 1 else 1 + uleb_size_fuel f val'
  end.
Definition uleb128_size (val : N) : N := uleb_size_fuel 10 val.

Fixpoint sleb_size_fuel (fuel : nat) (val : Z) : N :=
  match fuel with
  | O => 0
  | S f =>
      let v6 := Z.shiftr val 6 in
      let done := (v6 =? 0)%Z || (v6 =? -1)%Z in
      if done then 1 else 1 + sleb_size_fuel f (Z.shiftr v6 1)
  end.
Definition sleb128_size (val : Z) : N := sleb_size_fuel 10 val.
