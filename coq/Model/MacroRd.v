(* Model/MacroRd.v — mirrors /repo/src/read/macros.rs function by function:
     DebugMacinfo::get_macinfo, DebugMacro::get_macros, MacroUnitHeader::{parse, format},
     MacroIter::{next, parse_next}; MacroEntry / MacroString are Spec/MacroSpec.{mentry, mstring}.
   The reader is an EndianSlice: the state of an iterator is the remaining input (a `list byte`), the
   format and `is_macro`.  `input.empty()` = the remaining input becomes [].  There is no separate
   "done" flag in the Rust: after an error and after the zero type byte the input IS emptied, and an
   empty input makes `next` return Ok(None) — the model keeps exactly that state.
   The only arithmetic is inside leb128::read::unsigned (Model/Leb.v, takes `dbg`).
   Offsets are `usize` on the checked 64-bit platform: `R::Offset::from_u64` never fails.
   No proofs here.  Correspondence streams: c0101.info c0101.macro c0101.rt (ocaml/s_c01m.ml). *)
From Coq Require Import List NArith ZArith Bool.
From Coq.Strings Require Import Byte.
Require Import GV.Base.Res GV.Base.Byt GV.Base.Ints GV.Model.Leb GV.Model.Prim GV.Spec.MacroSpec.
Import ListNotations.
Local Open Scope N_scope.

(* Reader::skip(len) on a slice reader *)
Definition mskip (n : N) (bs : list byte) : res (list byte) :=
  if N.of_nat (length bs) <? n then Err EUnexpectedEof else Ok (skipn (N.to_nat n) bs).

(* Reader::read_offset(format) = read_word(format) *)
Definition read_offset (fmt64 be : bool) (bs : list byte) : res (N * list byte) := read_word fmt64 be bs.

(* struct MacroIter { input, format, is_macro } *)
Record miter : Type := {
  mi_input : list byte;
  mi_fmt64 : bool;          (* Format::Dwarf64 *)
  mi_is_macro : bool
}.
Definition set_input (it : miter) (inp : list byte) : miter :=
  {| mi_input := inp; mi_fmt64 := mi_fmt64 it; mi_is_macro := mi_is_macro it |}.

(* DebugMacinfo::get_macinfo *)
Definition get_macinfo (section : list byte) (offset : N) : res miter :=
  let* input := mskip offset section in
  Ok {| mi_input := input; mi_fmt64 := false; mi_is_macro := false |}.

(* MacroUnitHeader::parse: the fields are read in this order, the operands-table flag is tested last *)
Definition parse_header (be : bool) (input : list byte) : res (mheader * list byte) :=
  let* (version, r1) := read_u16 be input in
  let* (flags, r2) := read_u8 r1 in
  let fmt64 := flag_set flags OFFSET_SIZE_FLAG in
  let* (line_off, r3) :=
    if flag_set flags DEBUG_LINE_OFFSET_FLAG then read_offset fmt64 be r2
    else Ok (0, r2) in                                   (* R::Offset::from_u64(0)? *)
  if flag_set flags OPCODE_OPERANDS_TABLE_FLAG then Err EUnsupportedOpcodeOperandsTable
  else Ok ({| mh_version := version; mh_flags := flags; mh_line_offset := line_off |}, r3).

(* DebugMacro::get_macros; header.format() recomputes the format from the stored flags *)
Definition get_macros (be : bool) (section : list byte) (offset : N) : res miter :=
  let* input := mskip offset section in
  let* (header, input') := parse_header be input in
  Ok {| mi_input := input'; mi_fmt64 := mh_fmt64 header; mi_is_macro := true |}.

(* operand shapes of parse_next *)
Definition p_line_str (dbg : bool) (bs : list byte) : res ((N * list byte) * list byte) :=
  let* (line, r1) := read_uleb128 dbg bs in
  let* (s, r2) := read_cstr r1 in                        (* read_null_terminated_slice *)
  Ok ((line, s), r2).
Definition p_two_uleb (dbg : bool) (bs : list byte) : res ((N * N) * list byte) :=
  let* (a, r1) := read_uleb128 dbg bs in
  let* (b, r2) := read_uleb128 dbg r1 in                 (* strx: `.and_then(R::Offset::from_u64)` is the identity *)
  Ok ((a, b), r2).
Definition p_line_off (dbg fmt64 be : bool) (bs : list byte) : res ((N * N) * list byte) :=
  let* (line, r1) := read_uleb128 dbg bs in
  let* (o, r2) := read_offset fmt64 be r1 in
  Ok ((line, o), r2).

(* MacroIter::parse_next: Ok (entry, remaining input).  On Err the Rust leaves a partly consumed (or, in
   the `_` arm, emptied) input behind; `next` empties it in every Err case, so the model does not carry it. *)
Definition parse_next (dbg be : bool) (it : miter) : res (option mentry * list byte) :=
  let fmt := mi_fmt64 it in
  let ism := mi_is_macro it in
  let* (ty, r) := read_u8 (mi_input it) in
  if ty =? 0 then Ok (None, [])                          (* self.input.empty(); Ok(None) *)
  else if ty =? DW_MACRO_define then
    let* (p, r') := p_line_str dbg r in Ok (Some (MDefine (fst p) (MDirect (snd p))), r')
  else if ty =? DW_MACRO_undef then
    let* (p, r') := p_line_str dbg r in Ok (Some (MUndef (fst p) (MDirect (snd p))), r')
  else if ty =? DW_MACRO_start_file then
    let* (p, r') := p_two_uleb dbg r in Ok (Some (MStartFile (fst p) (snd p)), r')
  else if ty =? DW_MACRO_end_file then Ok (Some MEndFile, r)
  else if (ty =? DW_MACRO_define_strp) && ism then
    let* (p, r') := p_line_off dbg fmt be r in Ok (Some (MDefine (fst p) (MStrp (snd p))), r')
  else if (ty =? DW_MACRO_undef_strp) && ism then
    let* (p, r') := p_line_off dbg fmt be r in Ok (Some (MUndef (fst p) (MStrp (snd p))), r')
  else if (ty =? DW_MACRO_import) && ism then
    let* (o, r') := read_offset fmt be r in Ok (Some (MImport o), r')
  else if (ty =? DW_MACRO_define_sup) && ism then
    let* (p, r') := p_line_off dbg fmt be r in Ok (Some (MDefine (fst p) (MSup (snd p))), r')
  else if (ty =? DW_MACRO_undef_sup) && ism then
    let* (p, r') := p_line_off dbg fmt be r in Ok (Some (MUndef (fst p) (MSup (snd p))), r')
  else if (ty =? DW_MACRO_import_sup) && ism then
    let* (o, r') := read_offset fmt be r in Ok (Some (MImportSup o), r')
  else if (ty =? DW_MACRO_define_strx) && ism then
    let* (p, r') := p_two_uleb dbg r in Ok (Some (MDefine (fst p) (MStrx (snd p))), r')
  else if (ty =? DW_MACRO_undef_strx) && ism then
    let* (p, r') := p_two_uleb dbg r in Ok (Some (MUndef (fst p) (MStrx (snd p))), r')
  else if ism then Err EInvalidMacroType                 (* self.input.empty(); Err(..) *)
  else if ty =? DW_MACINFO_vendor_ext then
    let* (p, r') := p_line_str dbg r in Ok (Some (MVendorExt (fst p) (snd p)), r')
  else Err EInvalidMacinfoType.                          (* self.input.empty(); Err(..) *)

(* MacroIter::next: (result, iterator state afterwards) *)
Definition macro_next (dbg be : bool) (it : miter) : res (option mentry) * miter :=
  match mi_input it with
  | [] => (Ok None, it)                                  (* if self.input.is_empty() { return Ok(None) } *)
  | _ :: _ =>
      match parse_next dbg be it with
      | Ok (entry, rest) => (Ok entry, set_input it rest)
      | Err e => (Err e, set_input it [])                (* self.input.empty(); Err(e) *)
      | Panic => (Panic, it)
      | OutOfFuel => (OutOfFuel, it)
      end
  end.

(* ---- a caller that ignores errors: `loop { match iter.next() { Ok(None) => break, _ => continue } }` ---- *)

Inductive mev : Type :=
| EvEntry (e : mentry)
| EvErr (e : error).

Fixpoint macro_run (fuel : nat) (dbg be : bool) (it : miter) : res (list mev) :=
  match fuel with
  | O => OutOfFuel
  | S f =>
      match macro_next dbg be it with
      | (Ok None, _) => Ok []
      | (Ok (Some e), it') => let* l := macro_run f dbg be it' in Ok (EvEntry e :: l)
      | (Err e, it') => let* l := macro_run f dbg be it' in Ok (EvErr e :: l)
      | (Panic, _) => Panic
      | (OutOfFuel, _) => OutOfFuel
      end
  end.

(* the iterator state after k calls of next(), whatever they returned *)
Fixpoint macro_after (k : nat) (dbg be : bool) (it : miter) : miter :=
  match k with
  | O => it
  | S k' => macro_after k' dbg be (snd (macro_next dbg be it))
  end.

(* whole entry points with the fuel bound of the theorems: |section| + 1 calls of next() *)
Definition macinfo_all (dbg be : bool) (section : list byte) (offset : N) : res (list mev) :=
  let* it := get_macinfo section offset in
  macro_run (S (length section)) dbg be it.
Definition macros_all (dbg be : bool) (section : list byte) (offset : N) : res (list mev) :=
  let* it := get_macros be section offset in
  macro_run (S (length section)) dbg be it.

(* what a caller observes from one call of next(): an entry, an error, or nothing (Ok(None)) *)
Definition ev_of (r : res (option mentry)) : option mev :=
  match r with
  | Ok (Some e) => Some (EvEntry e)
  | Err e => Some (EvErr e)
  | _ => None
  end.
