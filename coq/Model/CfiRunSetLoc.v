(* Model/CfiRunSetLoc.v — unwind-table evaluation of an FDE THROUGH `DW_CFA_set_loc` operands that use the CIE's
   FDE pointer encoding ('R' augmentation). Mirrors, in /repo/src/read/cfi.rs,
     FrameDescriptionEntry::instructions  (address_encoding = cie.augmentation.fde_address_encoding,
                                           parameters { bases: &bases.eh_frame, func_base: None,
                                                        address_size: cie.address_size, section })
     CallFrameInstruction::parse, arm DW_CFA_set_loc:
         if let Some(encoding) = address_encoding { parse_encoded_pointer(encoding, parameters, input)?.direct()? }
         else { input.read_address(parameters.address_size)? }
     CallFrameInstructionIter::next, UnwindTable::{next_row, evaluate (SetLoc arm: address < start -> InvalidCfiSetLoc)},
     FrameDescriptionEntry::{rows, unwind_info_for_address}, UnwindSection::unwind_info_for_address,
     EhHdrTable::unwind_info_for_address.
   Model/CfiRun.v (C06) decodes set_loc as a plain address only (`.debug_frame` without augmentation) and
   Model/CfiUwi.v composes it with the entry reader under that restriction. This file is the EXTENSION: the same
   loops (`next_row`, `rows`, `unwind_info_for_address`), written once over the instruction parser [P] of the
   iterator, and instantiated with [parse_insn_sl] = CfiRun.parse_insn except for opcode 0x01 under an address
   encoding, where the operand is CfiUwi.parse_set_loc (= CfiRd.parse_encoded_pointer + direct()). The CIE's initial
   instructions are still run by CfiRun.table_new (cie.instructions() has address_encoding = None). Evaluation of a
   decoded instruction is CfiRun.evaluate, unchanged.
   Proofs/CfiRunSetLocProofs.v: agreement with CfiRun/CfiUwi where those are exact, and the C05 composition theorems
   without `section_setloc_plain`.   Correspondence stream: c05.setloctab.   NO proofs in this file. *)
From Coq Require Import List NArith ZArith Bool.
From Coq.Strings Require Import Byte.
Require Import GV.Base.Res GV.Base.Byt GV.Base.Ints GV.Model.Leb GV.Model.Prim.
Require Import GV.Spec.CfaSpec GV.Model.CfiRun GV.Model.CfiRd GV.Model.CfiUwi.
Import ListNotations.
Local Open Scope N_scope.

(* CallFrameInstruction::parse as called by the instruction iterator of the FDE [fd] of a section with
   configuration [c]; [off]/[bs]: section offset and contents of the iterator's reader *)
Definition parse_insn_sl (dbg : bool) (c : scfg) (aa : bool) (fd : CfiRd.fde) (off : N) (bs : list byte)
  : res (insn * list byte) :=
  match fde_addr_enc fd, bs with
  | Some _, b :: r =>
      if b2n b =? 1 then                                     (* DW_CFA_set_loc, the opcode byte consumed *)
        let* (a, r1) := parse_set_loc dbg c fd (mkrd (off + 1) r) in
        Ok (ISetLoc a, win r1)
      else parse_insn dbg (sc_be c) (ci_asz (fd_cie fd)) aa off bs
  | _, _ => parse_insn dbg (sc_be c) (ci_asz (fd_cie fd)) aa off bs
  end.

Section Gen.
(* the parser of this iterator (closes over build mode, byte order, address size, vendor, encoding) *)
Variable P : N -> list byte -> res (insn * list byte).

(* CallFrameInstructionIter::next: on error the input is emptied *)
Definition iter_next_g (it : cfi_iter) : res (option insn) * cfi_iter :=
  match it_bytes it with
  | [] => (Ok None, it)
  | _ :: _ =>
      match P (it_off it) (it_bytes it) with
      | Ok (i, rest) =>
          (Ok (Some i), {| it_off := it_off it + consumed (it_bytes it) rest; it_bytes := rest |})
      | Err e => (Err e, {| it_off := it_off it; it_bytes := [] |})
      | Panic => (Panic, it)
      | OutOfFuel => (OutOfFuel, it)
      end
  end.

(* the whole stream as the iterator yields it: stops at the first error *)
Fixpoint decode_fuel_g (fuel : nat) (it : cfi_iter) : list CfaSpec.item :=
  match fuel with
  | O => [BadFuel]
  | S f =>
      match iter_next_g it with
      | (Ok None, _) => []
      | (Ok (Some i), it') => It i :: decode_fuel_g f it'
      | (Err e, _) => [Bad e]
      | (Panic, _) => [BadPanic]
      | (OutOfFuel, _) => [BadFuel]
      end
  end.
Definition decode_g (off : N) (bs : list byte) : list CfaSpec.item :=
  decode_fuel_g (S (length bs)) {| it_off := off; it_bytes := bs |}.

(* the `loop` of UnwindTable::next_row (CfiRun.next_row_loop with this iterator) *)
Fixpoint next_row_loop_g (fuel : nat) (c : caps) (t : tbl) (it : cfi_iter)
  : res (option row) * (tbl * cfi_iter) :=
  match fuel with
  | O => (OutOfFuel, (t, it))
  | S f =>
      match iter_next_g it with
      | (Err e, it') => (Err e, (t, it'))
      | (Panic, it') => (Panic, (t, it'))
      | (OutOfFuel, it') => (OutOfFuel, (t, it'))
      | (Ok None, it') =>
          if t_returned_last t then (Ok None, (t, it')) else
          match with_top (set_end (t_last_end t)) (t_ctx t) with
          | Ok cx =>
              let t1 := with_flags true true (with_ctx cx t) in
              (some_row cx, (t1, it'))
          | Err e => (Err e, (t, it'))
          | Panic => (Panic, (t, it'))
          | OutOfFuel => (OutOfFuel, (t, it'))
          end
      | (Ok (Some i), it') =>
          match evaluate c t i with
          | Ok (true, t1) =>
              let t2 := with_flags (t_returned_last t1) true t1 in
              (some_row (t_ctx t2), (t2, it'))
          | Ok (false, t1) => next_row_loop_g f c t1 it'
          | Err e => (Err e, (t, it'))
          | Panic => (Panic, (t, it'))
          | OutOfFuel => (OutOfFuel, (t, it'))
          end
      end
  end.

(* UnwindTable::next_row *)
Definition next_row_g (c : caps) (t : tbl) (it : cfi_iter) : res (option row) * (tbl * cfi_iter) :=
  match c_stack (t_ctx t) with
  | [] => (Panic, (t, it))
  | _ :: _ =>
      match with_top (set_start (t_next_start t)) (t_ctx t) with
      | Ok cx =>
          let t0 := with_flags (t_returned_last t) false (with_ctx cx t) in
          next_row_loop_g (S (length (it_bytes it))) c t0 it
      | _ => (Panic, (t, it))
      end
  end.

(* `while let Some(row) = table.next_row()? { .. }` *)
Fixpoint collect_g (fuel : nat) (c : caps) (t : tbl) (it : cfi_iter) : (list row * outcome) * ctx :=
  match fuel with
  | O => (([], Fuel), t_ctx t)
  | S f =>
      match next_row_g c t it with
      | (Ok None, (t', _)) => (([], Done), t_ctx t')
      | (Ok (Some r), (t', it')) =>
          let '((rows, o), cx) := collect_g f c t' it' in ((r :: rows, o), cx)
      | (Err e, (t', _)) => (([], Fail e), t_ctx t')
      | (Panic, (t', _)) => (([], Crash), t_ctx t')
      | (OutOfFuel, (t', _)) => (([], Fuel), t_ctx t')
      end
  end.

(* the loop of FrameDescriptionEntry::unwind_info_for_address *)
Fixpoint find_row_g (fuel : nat) (c : caps) (a : N) (t : tbl) (it : cfi_iter) : res row * ctx :=
  match fuel with
  | O => (OutOfFuel, t_ctx t)
  | S f =>
      match next_row_g c t it with
      | (Ok None, (t', _)) => (Err ENoUnwindInfoForAddress, t_ctx t')
      | (Ok (Some r), (t', it')) =>
          if row_contains r a then (Ok r, t_ctx t') else find_row_g f c a t' it'
      | (Err e, (t', _)) => (Err e, t_ctx t')
      | (Panic, (t', _)) => (Panic, t_ctx t')
      | (OutOfFuel, (t', _)) => (OutOfFuel, t_ctx t')
      end
  end.
End Gen.

(* fde.rows(section, bases, ctx) + the next_row loop, for the FDE record [fd] of the entry reader *)
Definition fde_rows_sl (dbg : bool) (cp : caps) (c : scfg) (aa : bool) (fd : CfiRd.fde) (cx : ctx)
  : (list row * outcome) * ctx :=
  let f := fde_in_of (sc_be c) aa fd in
  if negb (valid_asize (f_asize f)) then (([], Fail EUnsupportedAddressSize), cx) else
  match table_new dbg cp f cx with
  | Ok t => collect_g (parse_insn_sl dbg c aa fd) (length (f_fde f) + 2) cp t
                      {| it_off := f_fde_off f; it_bytes := f_fde f |}
  | Err e => (([], Fail e), cx)
  | Panic => (([], Crash), cx)
  | OutOfFuel => (([], Fuel), cx)
  end.

(* FrameDescriptionEntry::unwind_info_for_address *)
Definition fde_uwi_sl (dbg : bool) (cp : caps) (c : scfg) (aa : bool) (fd : CfiRd.fde) (cx : ctx) (a : N)
  : res row * ctx :=
  let f := fde_in_of (sc_be c) aa fd in
  if negb (valid_asize (f_asize f)) then (Err EUnsupportedAddressSize, cx) else
  match table_new dbg cp f cx with
  | Ok t => find_row_g (parse_insn_sl dbg c aa fd) (length (f_fde f) + 2) cp a t
                       {| it_off := f_fde_off f; it_bytes := f_fde f |}
  | Err e => (Err e, cx)
  | Panic => (Panic, cx)
  | OutOfFuel => (OutOfFuel, cx)
  end.

(* UnwindSection::unwind_info_for_address(bases, ctx, address, Section::cie_from_offset) *)
Definition unwind_info_for_address_sl (dbg : bool) (cp : caps) (c : scfg) (aa : bool)
           (sec : list byte) (cx : ctx) (a : N) : res row * ctx :=
  match fde_for_address dbg c sec a with
  | Ok fd => fde_uwi_sl dbg cp c aa fd cx a
  | Err e => (Err e, cx)
  | Panic => (Panic, cx)
  | OutOfFuel => (OutOfFuel, cx)
  end.

(* EhHdrTable::unwind_info_for_address *)
Definition hdr_unwind_info_for_address_sl (dbg : bool) (cp : caps) (hb : sbases) (h : hdr) (c : scfg)
           (aa : bool) (sec : list byte) (cx : ctx) (a : N) : res row * ctx :=
  match hdr_fde_for_address dbg hb h c sec a with
  | Ok fd => fde_uwi_sl dbg cp c aa fd cx a
  | Err e => (Err e, cx)
  | Panic => (Panic, cx)
  | OutOfFuel => (OutOfFuel, cx)
  end.

(* what the FDE's instruction iterator yields, for the specification side *)
Definition fde_items_sl (dbg : bool) (c : scfg) (aa : bool) (fd : CfiRd.fde) : list CfaSpec.item :=
  decode_g (parse_insn_sl dbg c aa fd) (CfiRd.off (fd_instr fd)) (win (fd_instr fd)).
