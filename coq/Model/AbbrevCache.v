(* Model/AbbrevCache.v — mirrors AbbreviationsCache::{populate, get} (src/read/abbrev.rs).
   `parse` stands for DebugAbbrev::abbreviations(offset) on the immutable section: a pure function of the
   offset (Ok or Err alike), passed as a parameter. The BTreeMap is an association list keyed by offset
   (later insertions of an equal key replace earlier ones, as `collect` into a map does).
   Stream: c20.cache (impl-side oracle over all three strategies). *)
From Coq Require Import List NArith Bool Sorting.Mergesort Orders.
Import ListNotations.
Local Open Scope N_scope.

Module NOrder <: TotalLeBool.
  Definition t := N.
  Definition leb := N.leb.
  Theorem leb_total : forall a1 a2, leb a1 a2 = true \/ leb a2 a1 = true.
  Proof. intros a b. unfold leb. destruct (N.leb_spec a b); [left; reflexivity|right]. apply N.leb_le. apply N.lt_le_incl. assumption. Qed.
End NOrder.
Module NSort := Sort NOrder.

Inductive strategy := Duplicates | All.

(* offsets.retain(|offset| { if count == 0 || prev != offset { prev = offset; count = 1 } else { count += 1 }; count == 2 }) *)
Fixpoint retain_second (prev : N) (count : N) (l : list N) : list N :=
  match l with
  | [] => []
  | o :: r =>
      let '(prev', count') := if (count =? 0) || negb (prev =? o) then (o, 1) else (prev, count + 1) in
      if count' =? 2 then o :: retain_second prev' count' r else retain_second prev' count' r
  end.

(* Vec::dedup on a sorted vector: remove consecutive duplicates *)
Fixpoint dedup (l : list N) : list N :=
  match l with
  | [] => []
  | o :: r => match r with
              | o' :: _ => if o =? o' then dedup r else o :: dedup r
              | [] => [o]
              end
  end.

Definition cached_offsets (s : strategy) (unit_offsets : list N) : list N :=
  let sorted := NSort.sort unit_offsets in
  match s with
  | Duplicates => retain_second 0 0 sorted
  | All => dedup sorted
  end.

Section Cache.
  Context {A : Type}.
  Variable parse : N -> A.

  Definition cache := list (N * A).

  Fixpoint insert (k : N) (v : A) (c : cache) : cache :=
    match c with
    | [] => [(k, v)]
    | (k', v') :: r => if k =? k' then (k, v) :: r else (k', v') :: insert k v r
    end.

  Definition populate (s : strategy) (unit_offsets : list N) : cache :=
    fold_left (fun c o => insert o (parse o) c) (cached_offsets s unit_offsets) [].

  Fixpoint lookup (k : N) (c : cache) : option A :=
    match c with
    | [] => None
    | (k', v) :: r => if k =? k' then Some v else lookup k r
    end.

  Definition get (c : cache) (o : N) : A :=
    match lookup o c with Some e => e | None => parse o end.

  (* AbbreviationsCache::set — manual population (not used by populate) *)
  Definition set (c : cache) (o : N) (v : A) : cache := insert o v c.
End Cache.
