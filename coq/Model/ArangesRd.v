(* Model/ArangesRd.v — mirrors /repo/src/read/aranges.rs (ArangeHeader::parse, ArangeHeaderIter::next,
   DebugAranges::header, ArangeEntry::parse, ArangeEntryIter::{next, next_raw, convert_raw}) and
   /repo/src/read/lookup.rs (PubStuffParser::{parse_header, parse_entry}, LookupEntryIter::next) as used by
   pubnames.rs / pubtypes.rs.
   Correspondence streams: c17.aranges c17.pub *)
From Coq Require Import List NArith ZArith Bool.
From Coq.Strings Require Import Byte.
Require Import GV.Base.Res GV.Base.Byt GV.Base.Ints GV.Model.Leb GV.Model.Prim GV.Model.IndexRd.
Import ListNotations.
Local Open Scope N_scope.

(* ------------------------------------------------------------------ .debug_aranges *)

Record arange_header := {
  ah_offset : N; ah_length : N; ah_fmt64 : bool; ah_version : N; ah_info_offset : N;
  ah_addr_size : N; ah_entries : list byte }.

(* ArangeHeader::parse (aranges.rs:156-206); returns the header and the rest of the section *)
Definition arange_header_parse (dbg be : bool) (offset : N) (bs : list byte)
  : res (arange_header * list byte) :=
  let* ((len, f64), r) := read_initial_length be bs in
  let* (rest, after) := rd_split len r in
  let* (version, rest) := read_un 2 be rest in
  if negb (version =? 2) && negb (version =? 3) then Err EUnknownVersion else
  let* (info_off, rest) := read_word f64 be rest in
  let* (asz, rest) := read_address_size rest in
  let* (seg, rest) := read_u8 rest in
  if negb (seg =? 0) then Err EUnsupportedSegmentSize else
  (* format.initial_length_size() + 2 + format.word_size() + 1 + 1 : u8 *)
  let* h1 := chk_add 8 dbg (if f64 then 12 else 4) 2 in
  let* h2 := chk_add 8 dbg h1 (word_size f64) in
  let* h3 := chk_add 8 dbg h2 1 in
  let* hlen := chk_add 8 dbg h3 1 in
  (* address_size.checked_mul(2) *)
  if 256 <=? asz * 2 then Err EUnsupportedAddressSize else
  let tl := asz * 2 in
  if tl =? 0 then Err EUnsupportedAddressSize else
  let* padding := (if hlen mod tl =? 0 then Ok 0 else chk_sub 8 dbg tl (hlen mod tl)) in
  let* rest := rd_skip padding rest in
  Ok ({| ah_offset := offset; ah_length := len; ah_fmt64 := f64; ah_version := version;
         ah_info_offset := info_off; ah_addr_size := asz; ah_entries := rest |}, after).

(* ArangeHeaderIter::next drained (aranges.rs:98-114) *)
Fixpoint arange_headers_loop (dbg be : bool) (fuel : nat) (offset : N) (bs : list byte)
  : run arange_header :=
  match fuel with
  | O => ([], SFuel)
  | S f =>
      match bs with
      | [] => ([], SDone)
      | _ =>
          match arange_header_parse dbg be offset bs with
          | Ok (h, rest) =>
              (* self.offset.0 += len - self.input.len() *)
              match (let* d := chk_sub 64 dbg (blen bs) (blen rest) in chk_add 64 dbg offset d) with
              | Ok offset' => run_cons h (arange_headers_loop dbg be f offset' rest)
              | r => ([h], stop_of_res r)
              end
          | r => ([], stop_of_res r)
          end
      end
  end.
Definition arange_headers (dbg be : bool) (bs : list byte) : run arange_header :=
  arange_headers_loop dbg be (S (length bs)) 0 bs.

(* DebugAranges::header *)
Definition arange_header_at (dbg be : bool) (offset : N) (bs : list byte) : res arange_header :=
  let* r := rd_skip offset bs in
  let* (h, _) := arange_header_parse dbg be offset r in Ok h.

(* ArangeEntryIter::next drained: next_raw (ArangeEntry::parse: zero tuples are skipped, fewer than
   2*address_size remaining bytes end the set) then convert_raw (tombstones skipped, end computed).
   An item is (begin, length, end). *)
Fixpoint arange_entries_loop (dbg be : bool) (fuel : nat) (asz : N) (bs : list byte) : run (N * N * N) :=
  match fuel with
  | O => ([], SFuel)
  | S f =>
      match bs with
      | [] => ([], SDone)
      | _ =>
          (* 2 * address_size : u8 *)
          match chk_mul 8 dbg 2 asz with
          | Ok tl =>
              if blen bs <? tl then ([], SDone) else
              match read_address asz be bs with
              | Ok (begin, r) =>
                  match read_address asz be r with
                  | Ok (len, r') =>
                      if (begin =? 0) && (len =? 0) then arange_entries_loop dbg be f asz r'
                      else
                        (* convert_raw: min_tombstone / add_sized go through ones_sized *)
                        match ones_sized dbg asz with
                        | Ok mask =>
                            if N.land (two64 - 2) mask <=? begin then arange_entries_loop dbg be f asz r'
                            else
                              let s := begin + len in
                              if two64 <=? s then ([], SErr EAddressOverflow)
                              else if mask <? s (* address & !mask != 0, mask = 2^k - 1 *)
                              then ([], SErr EAddressOverflow)
                              else run_cons (begin, len, s) (arange_entries_loop dbg be f asz r')
                        | r => ([], stop_of_res r)
                        end
                  | r => ([], stop_of_res r)
                  end
              | r => ([], stop_of_res r)
              end
          | r => ([], stop_of_res r)
          end
      end
  end.
Definition arange_entries (dbg be : bool) (h : arange_header) : run (N * N * N) :=
  arange_entries_loop dbg be (S (length (ah_entries h))) (ah_addr_size h) (ah_entries h).

(* ArangeEntryIter::next_raw drained: every non-zero tuple, tombstones included, end = 0 *)
Fixpoint arange_raw_loop (dbg be : bool) (fuel : nat) (asz : N) (bs : list byte) : run (N * N) :=
  match fuel with
  | O => ([], SFuel)
  | S f =>
      match bs with
      | [] => ([], SDone)
      | _ =>
          match chk_mul 8 dbg 2 asz with
          | Ok tl =>
              if blen bs <? tl then ([], SDone) else
              match read_address asz be bs with
              | Ok (begin, r) =>
                  match read_address asz be r with
                  | Ok (len, r') =>
                      if (begin =? 0) && (len =? 0) then arange_raw_loop dbg be f asz r'
                      else run_cons (begin, len) (arange_raw_loop dbg be f asz r')
                  | r => ([], stop_of_res r)
                  end
              | r => ([], stop_of_res r)
              end
          | r => ([], stop_of_res r)
          end
      end
  end.
Definition arange_raw_entries (dbg be : bool) (h : arange_header) : run (N * N) :=
  arange_raw_loop dbg be (S (length (ah_entries h))) (ah_addr_size h) (ah_entries h).

(* ------------------------------------------------------------------ .debug_pubnames / .debug_pubtypes *)

Record pub_header := {
  ph_fmt64 : bool; ph_length : N; ph_version : N; ph_unit_offset : N; ph_unit_length : N }.
Record pub_entry := { pe_die_offset : N; pe_name : list byte; pe_unit_offset : N }.

(* PubStuffParser::parse_header (lookup.rs:155-175): (entries of the set, header, rest of the section) *)
Definition pub_header_parse (be : bool) (bs : list byte) : res (list byte * pub_header * list byte) :=
  let* ((len, f64), r) := read_initial_length be bs in
  let* (rest, after) := rd_split len r in
  let* (version, rest) := read_un 2 be rest in
  if negb (version =? 2) then Err EUnknownVersion else
  let* (uoff, rest) := read_word f64 be rest in
  let* (ulen, rest) := read_word f64 be rest in
  Ok (rest, {| ph_fmt64 := f64; ph_length := len; ph_version := version;
               ph_unit_offset := uoff; ph_unit_length := ulen |}, after).

(* PubStuffParser::parse_entry (lookup.rs:178-192): a zero offset empties the set *)
Definition pub_entry_parse (be : bool) (h : pub_header) (bs : list byte)
  : res (option pub_entry * list byte) :=
  let* (off, r) := read_word (ph_fmt64 h) be bs in
  if off =? 0 then Ok (None, [])
  else let* (name, r') := read_cstr r in
       Ok (Some {| pe_die_offset := off; pe_name := name; pe_unit_offset := ph_unit_offset h |}, r').

(* LookupEntryIter::next drained (lookup.rs:93-124) *)
Fixpoint pub_loop (be : bool) (fuel : nat) (cur : option (list byte * pub_header)) (rem : list byte)
  : run pub_entry :=
  match fuel with
  | O => ([], SFuel)
  | S f =>
      let next_set :=
        match rem with
        | [] => ([], SDone)
        | _ => match pub_header_parse be rem with
               | Ok (set, h, rest) => pub_loop be f (Some (set, h)) rest
               | r => ([], stop_of_res r)
               end
        end in
      match cur with
      | Some (b :: inp, h) =>
          match pub_entry_parse be h (b :: inp) with
          | Ok (Some e, r) => run_cons e (pub_loop be f (Some (r, h)) rem)
          | Ok (None, _) => next_set
          | r => ([], stop_of_res r)
          end
      | _ => next_set
      end
  end.
Definition pub_items (be : bool) (bs : list byte) : run pub_entry :=
  pub_loop be (S (S (length bs))) None bs.
