(* Model/Reloc.v — relocation on the writing and on the reading side.

   WRITER HALF mirrors
     src/write/endian_vec.rs   EndianVec::{write, write_at}
     src/write/writer.rs       Writer::{write_address, write_eh_pointer, write_eh_pointer_data, write_offset,
                               write_offset_at, write_reference, write_udata, write_udata_at} (default methods)
     src/write/relocate.rs     impl<T: RelocateWriter> Writer for T :
                               write_address / write_offset / write_offset_at / write_eh_pointer
   A model writer is a `list wop`; `run_plain` interprets it on an EndianVec, `run_reloc` on a RelocateWriter
   whose `relocate` pushes to a Vec (the recorder of crates/examples/src/bin/simple_write.rs and of the
   crate's own test).  `apply_relocs` is the consumer of the recorded list ("the linker").

   READER HALF mirrors
     src/read/endian_slice.rs  EndianSlice::{len, skip, truncate, split(read_slice), offset_from}
     src/read/relocate.rs      RelocateReader::{read_address, read_offset, read_sized_offset, split} and the
                               delegating methods; `Relocate` is a pair of functions.
   Parsers are written once in a small reader-monad syntax `prog` and interpreted by `run_plain_rd` (an
   EndianSlice) and by `run_reloc_rd` (a RelocateReader over an EndianSlice).  `map_relocator` is the
   relocation-map `Relocate` of object::read::RelocationMap::relocate, which every gimli example uses.

   No proofs here.  Streams: c18.wops c18.rprog c18.hdr c18.ranges *)
From Coq Require Import List NArith ZArith Bool.
From Coq.Strings Require Import Byte.
Require Import GV.Base.Res GV.Base.Byt GV.Base.Ints GV.Model.Leb GV.Model.Prim GV.Model.Attr.
Import ListNotations.
Local Open Scope N_scope.

(* ------------------------------------------------------------------------------------------------ *)
(*                                         WRITER HALF                                              *)
(* ------------------------------------------------------------------------------------------------ *)

(* write::RelocationTarget; SectionId is kept as its discriminant *)
Inductive target : Type := TSym (s : N) | TSect (id : N).

(* write::Address *)
Inductive waddr : Type := AConst (v : N) | ASym (s : N) (addend : Z).

(* write::Relocation *)
Record reloc : Type := mkReloc {
  r_off : N;            (* offset: usize *)
  r_size : N;           (* size: u8 *)
  r_target : target;
  r_addend : Z;         (* addend: i64 *)
  r_ehpe : option N     (* eh_pe: Option<DwEhPe> *)
}.

(* the operations of the Writer trait through which every gimli writer emits bytes *)
Inductive wop : Type :=
| WBytes (bs : list byte)                    (* write *)
| WAt (pos : N) (bs : list byte)             (* write_at *)
| WUdata (v size : N)                        (* write_udata (also write_u8..u64) *)
| WUdataAt (pos v size : N)                  (* write_udata_at (initial lengths, UnitRef fix-ups, aug. lengths) *)
| WAddr (a : waddr) (size : N)               (* write_address *)
| WOffset (v sect size : N)                  (* write_offset *)
| WOffsetAt (pos v sect size : N)            (* write_offset_at (DebugInfoRef fix-ups) *)
| WEhPtr (a : waddr) (eh_pe size : N)        (* write_eh_pointer *)
| WRef (sym size : N).                       (* write_reference *)

(* overwrite |new| bytes at index pos (caller guarantees pos + |new| <= |bs|) *)
Definition patch (pos : nat) (new bs : list byte) : list byte :=
  firstn pos bs ++ new ++ skipn (pos + length new) bs.

Definition blen (bs : list byte) : N := N.of_nat (length bs).

(* EndianVec::write_at *)
Definition ev_write_at (buf : list byte) (pos : N) (bs : list byte) : res (list byte) :=
  if blen buf <? pos then Err WOffsetOutOfBounds
  else if blen buf - pos <? blen bs then Err WLengthOutOfBounds
  else Ok (patch (N.to_nat pos) bs buf).

(* Writer::write_udata / write_udata_at on an EndianVec: the size/value checks come first *)
Definition ev_udata (be : bool) (buf : list byte) (v size : N) : res (list byte) :=
  let* e := write_udata be v size in Ok (buf ++ e).
Definition ev_udata_at (be : bool) (buf : list byte) (pos v size : N) : res (list byte) :=
  let* e := write_udata be v size in ev_write_at buf pos e.

(* DwEhPe::format / application *)
Definition eh_format (eh : N) : N := N.land eh 15.
Definition eh_application (eh : N) : N := N.land eh 112.

(* Writer::write_eh_pointer_data *)
Definition eh_pointer_data (be : bool) (v fmt size : N) : res (list byte) :=
  if fmt =? 0 then write_udata be v size
  else if fmt =? 1 then write_uleb128 v
  else if fmt =? 2 then write_udata be v 2
  else if fmt =? 3 then write_udata be v 4
  else if fmt =? 4 then write_udata be v 8
  else if fmt =? 9 then write_sleb128 (to_i64 v)
  else if fmt =? 10 then write_sdata be (to_i64 v) 2
  else if fmt =? 11 then write_sdata be (to_i64 v) 4
  else if fmt =? 12 then write_sdata be (to_i64 v) 8
  else Err WUnsupportedPointerEncoding.

(* u64::wrapping_sub *)
Definition wsub64 (a b : N) : N := wrap64 (a + two64 - wrap64 b).
(* u64::wrapping_add of an i64 reinterpreted as u64 *)
Definition wadd64s (a : N) (z : Z) : N := wrap64 (a + of_i64 z).

(* Writer::write_eh_pointer (default method), at current section length len *)
Definition eh_plain (be : bool) (len : N) (a : waddr) (eh size : N) : res (list byte) :=
  match a with
  | ASym _ _ => Err WInvalidAddress
  | AConst v =>
      let app := eh_application eh in
      if app =? 0 then eh_pointer_data be v (eh_format eh) size
      else if app =? 16 then eh_pointer_data be (wsub64 v len) (eh_format eh) size
      else Err WUnsupportedPointerEncoding
  end.

(* one operation on an EndianVec *)
Definition step_plain (be : bool) (op : wop) (buf : list byte) : res (list byte) :=
  match op with
  | WBytes bs => Ok (buf ++ bs)
  | WAt pos bs => ev_write_at buf pos bs
  | WUdata v size => ev_udata be buf v size
  | WUdataAt pos v size => ev_udata_at be buf pos v size
  | WAddr (AConst v) size => ev_udata be buf v size
  | WAddr (ASym _ _) _ => Err WInvalidAddress
  | WOffset v _ size => ev_udata be buf v size
  | WOffsetAt pos v _ size => ev_udata_at be buf pos v size
  | WEhPtr a eh size => let* e := eh_plain be (blen buf) a eh size in Ok (buf ++ e)
  | WRef _ _ => Err WInvalidReference
  end.

Fixpoint run_plain (be : bool) (ws : list wop) (buf : list byte) : res (list byte) :=
  match ws with
  | [] => Ok buf
  | op :: rest => let* buf' := step_plain be op buf in run_plain be rest buf'
  end.

(* the size a symbolic eh pointer occupies (RelocateWriter::write_eh_pointer) *)
Definition eh_sym_size (eh size : N) : res N :=
  let fmt := eh_format eh in
  if fmt =? 0 then Ok size
  else if (fmt =? 2) || (fmt =? 10) then Ok 2
  else if (fmt =? 3) || (fmt =? 11) then Ok 4
  else if (fmt =? 4) || (fmt =? 12) then Ok 8
  else Err WUnsupportedPointerEncoding.

Definition wstate : Type := (list byte * list reloc)%type.

(* one operation on a RelocateWriter whose inner writer is an EndianVec and whose `relocate` pushes.
   The relocation is recorded BEFORE the zero placeholder is written (so it exists even when the write
   then fails on an unsupported size; the failing state is not observable through `res`). *)
Definition step_reloc (be : bool) (op : wop) (st : wstate) : res wstate :=
  let (buf, rs) := st in
  match op with
  | WAddr (ASym s a) size =>
      let rs' := rs ++ [mkReloc (blen buf) size (TSym s) a None] in
      let* b := ev_udata be buf 0 size in Ok (b, rs')
  | WOffset v sect size =>
      let rs' := rs ++ [mkReloc (blen buf) size (TSect sect) (to_i64 v) None] in
      let* b := ev_udata be buf 0 size in Ok (b, rs')
  | WOffsetAt pos v sect size =>
      let rs' := rs ++ [mkReloc pos size (TSect sect) (to_i64 v) None] in
      let* b := ev_udata_at be buf pos 0 size in Ok (b, rs')
  | WEhPtr (ASym s a) eh size =>
      let* sz := eh_sym_size eh size in
      let rs' := rs ++ [mkReloc (blen buf) sz (TSym s) a (Some eh)] in
      let* b := ev_udata be buf 0 sz in Ok (b, rs')
  | _ => let* b := step_plain be op buf in Ok (b, rs)
  end.

Fixpoint run_reloc (be : bool) (ws : list wop) (st : wstate) : res wstate :=
  match ws with
  | [] => Ok st
  | op :: rest => let* st' := step_reloc be op st in run_reloc be rest st'
  end.

(* ---- the consumer of the recorded list ---- *)

(* value a relocation stands for, given the final address of every symbol / section:
   S + A, minus the place P for a pc-relative eh pointer (the section itself is taken to start at 0,
   as Writer::write_eh_pointer does for constants) *)
Definition reloc_value (env : target -> N) (r : reloc) : N :=
  let sa := wadd64s (env (r_target r)) (r_addend r) in
  match r_ehpe r with
  | Some eh => if eh_application eh =? 16 then wsub64 sa (r_off r) else sa
  | None => sa
  end.

(* store the low r_size bytes of the value at r_off; a site outside the section is left alone *)
Definition apply_reloc (env : target -> N) (be : bool) (r : reloc) (bs : list byte) : list byte :=
  if blen bs <? r_off r + r_size r then bs
  else patch (N.to_nat (r_off r)) (enc_un (N.to_nat (r_size r)) be (reloc_value env r)) bs.

Definition apply_relocs (env : target -> N) (be : bool) (rs : list reloc) (bs : list byte) : list byte :=
  fold_left (fun b r => apply_reloc env be r b) rs bs.

(* writing directly with final values: every symbol and section offset is resolved first *)
Definition resolve_addr (env : target -> N) (a : waddr) : waddr :=
  match a with
  | AConst v => AConst v
  | ASym s addend => AConst (wadd64s (env (TSym s)) addend)
  end.
Definition resolve (env : target -> N) (op : wop) : wop :=
  match op with
  | WAddr a size => WAddr (resolve_addr env a) size
  | WEhPtr a eh size => WEhPtr (resolve_addr env a) eh size
  | WOffset v sect size => WOffset (wrap64 (env (TSect sect) + v)) sect size
  | WOffsetAt pos v sect size => WOffsetAt pos (wrap64 (env (TSect sect) + v)) sect size
  | _ => op
  end.

(* ---- what the recorded list must be: one entry per relocatable operation, at its position ---- *)

(* bytes an operation appends, at section length len *)
Definition op_len (be : bool) (len : N) (op : wop) : N :=
  match op with
  | WBytes bs => blen bs
  | WUdata _ size | WAddr _ size | WOffset _ _ size => size
  | WEhPtr (ASym _ _) eh size => match eh_sym_size eh size with Ok s => s | _ => 0 end
  | WEhPtr (AConst v) eh size => match eh_plain be len (AConst v) eh size with Ok e => blen e | _ => 0 end
  | WAt _ _ | WUdataAt _ _ _ | WOffsetAt _ _ _ _ | WRef _ _ => 0
  end.

Definition op_relocs (len : N) (op : wop) : list reloc :=
  match op with
  | WAddr (ASym s a) size => [mkReloc len size (TSym s) a None]
  | WOffset v sect size => [mkReloc len size (TSect sect) (to_i64 v) None]
  | WOffsetAt pos v sect size => [mkReloc pos size (TSect sect) (to_i64 v) None]
  | WEhPtr (ASym s a) eh size =>
      match eh_sym_size eh size with Ok sz => [mkReloc len sz (TSym s) a (Some eh)] | _ => [] end
  | _ => []
  end.

Fixpoint spec_relocs (be : bool) (len : N) (ws : list wop) : list reloc :=
  match ws with
  | [] => []
  | op :: rest => op_relocs len op ++ spec_relocs be (len + op_len be len op) rest
  end.

(* side condition on a writer: a positional write never lands on an already recorded relocation site *)
Definition ranges_disjoint (a la b lb : N) : bool := (a + la <=? b) || (b + lb <=? a) .
Definition at_range (op : wop) : option (N * N) :=
  match op with
  | WAt pos bs => Some (pos, blen bs)
  | WUdataAt pos _ size => Some (pos, size)
  | WOffsetAt pos _ _ size => Some (pos, size)
  | _ => None
  end.
Definition at_ok (op : wop) (rs : list reloc) : bool :=
  match at_range op with
  | Some (pos, n) => forallb (fun r => ranges_disjoint (r_off r) (r_size r) pos n) rs
  | None => true
  end.
Fixpoint no_clobber (be : bool) (ws : list wop) (st : wstate) : bool :=
  match ws with
  | [] => true
  | op :: rest =>
      at_ok op (snd st) &&
      match step_reloc be op st with
      | Ok st' => no_clobber be rest st'
      | _ => true
      end
  end.

(* ------------------------------------------------------------------------------------------------ *)
(*                                         READER HALF                                              *)
(* ------------------------------------------------------------------------------------------------ *)

(* EndianSlice: `off` stands for the slice pointer (an address; only differences are observable) *)
Record rd : Type := mkRd { off : N; win : list byte }.

Definition rd_len (r : rd) : N := blen (win r).

Definition rd_skip (n : N) (r : rd) : res rd :=
  if rd_len r <? n then Err EUnexpectedEof
  else Ok (mkRd (off r + n) (skipn (N.to_nat n) (win r))).

Definition rd_truncate (n : N) (r : rd) : res rd :=
  if rd_len r <? n then Err EUnexpectedEof
  else Ok (mkRd (off r) (firstn (N.to_nat n) (win r))).

(* EndianSlice::split = read_slice: (the split-off head, the advanced reader) *)
Definition rd_split (n : N) (r : rd) : res (rd * rd) :=
  if rd_len r <? n then Err EUnexpectedEof
  else Ok (mkRd (off r) (firstn (N.to_nat n) (win r)),
           mkRd (off r + n) (skipn (N.to_nat n) (win r))).

(* EndianSlice::offset_from: two debug_assert!s, then `ptr - base_ptr` *)
Definition rd_offset_from (dbg : bool) (r base : rd) : res N :=
  if dbg && ((off r <? off base) || (off base + rd_len base <? off r + rd_len r)) then Panic
  else chk_sub 64 dbg (off r) (off base).

(* a primitive of Prim/Leb (list byte -> value * rest) run on an EndianSlice *)
Definition rd_lift {A : Type} (f : list byte -> res (A * list byte)) (r : rd) : res (A * rd) :=
  let* (a, rest) := f (win r) in
  Ok (a, mkRd (off r + (rd_len r - blen rest)) rest).

(* read::Relocate *)
Record relocator : Type := mkRelocator {
  rl_addr : N -> N -> res N;    (* relocate_address(offset, value) *)
  rl_off : N -> N -> res N      (* relocate_offset(offset, value) *)
}.

Definition id_relocator : relocator := mkRelocator (fun _ v => Ok v) (fun _ v => Ok v).

(* a relocation as a reader sees it: position, width of the field, implicit addend?, addend (u64) *)
Record rrel : Type := mkRrel { rr_pos : N; rr_w : N; rr_impl : bool; rr_add : N }.

Definition rrel_value (r : rrel) (v : N) : N :=
  if rr_impl r then wrap64 (v + rr_add r) else rr_add r.

(* object::read::RelocationMap::relocate — the map is keyed by offset only *)
Definition relocate (R : list rrel) (pos v : N) : N :=
  match find (fun r => rr_pos r =? pos) R with
  | Some r => rrel_value r v
  | None => v
  end.

Definition map_relocator (R : list rrel) : relocator :=
  mkRelocator (fun pos v => Ok (relocate R pos v)) (fun pos v => Ok (relocate R pos v)).

(* the section with one relocation already applied: the field of width rr_w at rr_pos is decoded,
   relocated and stored back (low rr_w bytes).  A site that does not fit the section is left alone. *)
Definition slice (bs : list byte) (pos len : nat) : list byte := firstn len (skipn pos bs).
Definition dec_un (be : bool) (bs : list byte) : N := if be then be_val bs else le_val bs.

Definition apply_rrel (be : bool) (r : rrel) (bs : list byte) : list byte :=
  if blen bs <? rr_pos r + rr_w r then bs
  else
    let p := N.to_nat (rr_pos r) in
    let w := N.to_nat (rr_w r) in
    patch p (enc_un w be (rrel_value r (dec_un be (slice bs p w)))) bs.

Definition apply_rrels (be : bool) (R : list rrel) (bs : list byte) : list byte :=
  fold_left (fun b r => apply_rrel be r b) R bs.

(* how a recorded writer relocation looks to a reader of the unrelocated bytes (explicit addend) *)
Definition rrel_of (env : target -> N) (r : reloc) : rrel :=
  mkRrel (r_off r) (r_size r) false (reloc_value env r).

(* ---- reader-monad syntax: the Reader methods a parser may call ---- *)
Inductive prog (A : Type) : Type :=
| PRet (a : A)
| PFail (e : error)
| PNoFuel                                         (* model artefact of fuelled loops *)
| PU (n : nat) (k : N -> prog A)                  (* read_u8/u16/u32/u64/u128: n bytes, plain *)
| PUleb (k : N -> prog A)                         (* read_uleb128 *)
| PSleb (k : Z -> prog A)                         (* read_sleb128 *)
| PSkip (n : N) (k : prog A)                      (* skip *)
| PLen (k : N -> prog A)                          (* len / is_empty *)
| PAddr (size : N) (k : N -> prog A)              (* read_address          — relocatable *)
| POffset (fmt64 : bool) (k : N -> prog A)        (* read_offset           — relocatable *)
| PSized (size : N) (k : N -> prog A)             (* read_sized_offset     — relocatable *)
| PWord (fmt64 : bool) (k : N -> prog A)          (* read_word/read_length — plain *)
| PSplit (len : N) (sub : prog A) (k : A -> prog A).  (* split(len); run sub on the head, k on the rest *)
Arguments PRet {A} a.
Arguments PFail {A} e.
Arguments PNoFuel {A}.
Arguments PU {A} n k.
Arguments PUleb {A} k.
Arguments PSleb {A} k.
Arguments PSkip {A} n k.
Arguments PLen {A} k.
Arguments PAddr {A} size k.
Arguments POffset {A} fmt64 k.
Arguments PSized {A} size k.
Arguments PWord {A} fmt64 k.
Arguments PSplit {A} len sub k.

(* plain interpretation: R = EndianSlice *)
Fixpoint run_plain_rd {A : Type} (be dbg : bool) (p : prog A) (r : rd) : res (A * rd) :=
  match p with
  | PRet a => Ok (a, r)
  | PFail e => Err e
  | PNoFuel => OutOfFuel
  | PU n k => let* (v, r') := rd_lift (read_un n be) r in run_plain_rd be dbg (k v) r'
  | PUleb k => let* (v, r') := rd_lift (read_uleb128 dbg) r in run_plain_rd be dbg (k v) r'
  | PSleb k => let* (v, r') := rd_lift (read_sleb128 dbg) r in run_plain_rd be dbg (k v) r'
  | PSkip n k => let* r' := rd_skip n r in run_plain_rd be dbg k r'
  | PLen k => run_plain_rd be dbg (k (rd_len r)) r
  | PAddr size k => let* (v, r') := rd_lift (read_address size be) r in run_plain_rd be dbg (k v) r'
  | POffset f k => let* (v, r') := rd_lift (read_word f be) r in run_plain_rd be dbg (k v) r'
  | PSized size k => let* (v, r') := rd_lift (read_sized_offset size be) r in run_plain_rd be dbg (k v) r'
  | PWord f k => let* (v, r') := rd_lift (read_word f be) r in run_plain_rd be dbg (k v) r'
  | PSplit len sub k =>
      let* (h, r') := rd_split len r in
      let* (a, _) := run_plain_rd be dbg sub h in
      run_plain_rd be dbg (k a) r'
  end.

(* RelocateReader { section, reader, relocate } over EndianSlice; `relocate` is passed separately *)
Record rrd : Type := mkRrd { section : rd; reader : rd }.

(* RelocateReader::new *)
Definition rrd_new (sect : rd) : rrd := mkRrd sect sect.

(* ghost instrumentation of the relocating interpretation: which bytes were read how *)
Inductive ev : Type :=
| EvPlain (pos n : N)          (* n bytes at section offset pos read by a non-relocatable method *)
| EvRel (pos w v : N).         (* field of width w at pos with raw value v passed to Relocate *)

Definition tres (A : Type) : Type := (list ev * res A)%type.
Definition tret {A} (r : res A) : tres A := ([], r).
Definition tbind {A B} (x : tres A) (f : A -> tres B) : tres B :=
  match snd x with
  | Ok a => let y := f a in (fst x ++ fst y, snd y)
  | Err e => (fst x, Err e)
  | Panic => (fst x, Panic)
  | OutOfFuel => (fst x, OutOfFuel)
  end.

(* a delegated (non-relocatable) read of the inner reader; the event covers the consumed bytes, or the
   whole remaining window when the read fails *)
Definition rr_plain {A} (f : list byte -> res (A * list byte)) (x : rrd) : tres (A * rrd) :=
  let pos := off (reader x) - off (section x) in      (* ghost: the real method does not compute it *)
  match rd_lift f (reader x) with
  | Ok (a, r') => ([EvPlain pos (rd_len (reader x) - rd_len r')], Ok (a, mkRrd (section x) r'))
  | Err e => ([EvPlain pos (rd_len (reader x))], Err e)
  | Panic => ([EvPlain pos (rd_len (reader x))], Panic)
  | OutOfFuel => ([EvPlain pos (rd_len (reader x))], OutOfFuel)
  end.

(* RelocateReader::read_address / read_offset / read_sized_offset:
     let offset = self.reader.offset_from(&self.section);
     let value = self.reader.<same method>(..)?;
     self.relocate.relocate_*(offset, value)                                               *)
Definition rr_rel (dbg : bool) (w : N) (f : list byte -> res (N * list byte)) (hook : N -> N -> res N)
    (x : rrd) : tres (N * rrd) :=
  match rd_offset_from dbg (reader x) (section x) with
  | Ok pos =>
      match rd_lift f (reader x) with
      | Ok (v, r') =>
          ([EvRel pos w v], let* v' := hook pos v in Ok (v', mkRrd (section x) r'))
      | Err e => ([], Err e)
      | Panic => ([], Panic)
      | OutOfFuel => ([], OutOfFuel)
      end
  | Err e => ([], Err e)
  | Panic => ([], Panic)
  | OutOfFuel => ([], OutOfFuel)
  end.

(* RelocateReader::split: clone; other.reader.truncate(len)?; self.reader.skip(len)? *)
Definition rr_split (len : N) (x : rrd) : res (rrd * rrd) :=
  let* t := rd_truncate len (reader x) in
  let* s := rd_skip len (reader x) in
  Ok (mkRrd (section x) t, mkRrd (section x) s).

Fixpoint run_reloc_rd {A : Type} (be dbg : bool) (rl : relocator) (p : prog A) (x : rrd) : tres (A * rrd) :=
  match p with
  | PRet a => tret (Ok (a, x))
  | PFail e => tret (Err e)
  | PNoFuel => tret OutOfFuel
  | PU n k => tbind (rr_plain (read_un n be) x) (fun '(v, x') => run_reloc_rd be dbg rl (k v) x')
  | PUleb k => tbind (rr_plain (read_uleb128 dbg) x) (fun '(v, x') => run_reloc_rd be dbg rl (k v) x')
  | PSleb k => tbind (rr_plain (read_sleb128 dbg) x) (fun '(v, x') => run_reloc_rd be dbg rl (k v) x')
  | PSkip n k => tbind (tret (let* r' := rd_skip n (reader x) in Ok (mkRrd (section x) r')))
                       (fun x' => run_reloc_rd be dbg rl k x')
  | PLen k => run_reloc_rd be dbg rl (k (rd_len (reader x))) x
  | PAddr size k =>
      tbind (rr_rel dbg size (read_address size be) (rl_addr rl) x)
            (fun '(v, x') => run_reloc_rd be dbg rl (k v) x')
  | POffset f k =>
      tbind (rr_rel dbg (word_size f) (read_word f be) (rl_off rl) x)
            (fun '(v, x') => run_reloc_rd be dbg rl (k v) x')
  | PSized size k =>
      tbind (rr_rel dbg size (read_sized_offset size be) (rl_off rl) x)
            (fun '(v, x') => run_reloc_rd be dbg rl (k v) x')
  | PWord f k => tbind (rr_plain (read_word f be) x) (fun '(v, x') => run_reloc_rd be dbg rl (k v) x')
  | PSplit len sub k =>
      tbind (tret (rr_split len x)) (fun '(h, x') =>
      tbind (run_reloc_rd be dbg rl sub h) (fun '(a, _) =>
      run_reloc_rd be dbg rl (k a) x'))
  end.

(* observable outcome of a run: value, position and remaining length of the final reader *)
Definition out_plain {A} (base : rd) (r : res (A * rd)) : res (A * N * N) :=
  let* (a, r') := r in Ok (a, off r' - off base, rd_len r').
Definition out_reloc {A} (r : res (A * rrd)) : res (A * N * N) :=
  let* (a, x') := r in Ok (a, off (reader x') - off (section x'), rd_len (reader x')).

(* side condition of transparency, on the ghost trace of the relocating run: plain reads avoid every
   relocation site; a relocatable read either avoids them all or sits exactly on one of its own width,
   and the relocated value fits the field *)
Definition site_disjoint (r : rrel) (pos n : N) : Prop :=
  rr_pos r + rr_w r <= pos \/ pos + n <= rr_pos r.
Definition ev_ok (R : list rrel) (e : ev) : Prop :=
  match e with
  | EvPlain pos n => forall r, In r R -> site_disjoint r pos n
  | EvRel pos w v =>
      (forall r, In r R -> rr_pos r = pos -> rr_w r = w /\ rrel_value r v < 2 ^ (8 * w)) /\
      (forall r, In r R -> rr_pos r <> pos -> site_disjoint r pos w)
  end.
Definition trace_ok (R : list rrel) (t : list ev) : Prop := Forall (ev_ok R) t.

(* executable versions (used by the streams to tell the harness when equality is owed) *)
Definition site_disjointb (r : rrel) (pos n : N) : bool :=
  (rr_pos r + rr_w r <=? pos) || (pos + n <=? rr_pos r).
Definition ev_okb (R : list rrel) (e : ev) : bool :=
  match e with
  | EvPlain pos n => forallb (fun r => site_disjointb r pos n) R
  | EvRel pos w v =>
      forallb (fun r => if rr_pos r =? pos then (rr_w r =? w) && (rrel_value r v <? 2 ^ (8 * w))
                        else site_disjointb r pos w) R
  end.
Definition trace_okb (R : list rrel) (t : list ev) : bool := forallb (ev_okb R) t.

(* relocation sites of a set are pairwise disjoint *)
Fixpoint sites_disjointb (R : list rrel) : bool :=
  match R with
  | [] => true
  | r :: rest => forallb (fun r' => site_disjointb r' (rr_pos r) (rr_w r)) rest && sites_disjointb rest
  end.

(* ---- two model parsers written against the monad ---- *)

(* read_initial_length on the monad *)
Definition p_initial_length {A} (k : N -> bool -> prog A) : prog A :=
  PU 4 (fun v =>
    if v <? 4294967280 then k v false
    else if v =? 4294967295 then PU 8 (fun v8 => k v8 true)
    else PFail EUnknownReservedLength).

(* read_address_size *)
Definition p_address_size {A} (k : N -> prog A) : prog A :=
  PU 1 (fun s => if (s =? 1) || (s =? 2) || (s =? 4) || (s =? 8) then k s else PFail EUnsupportedAddressSize).

Definition b2N (b : bool) : N := if b then 1 else 0.

(* src/read/unit.rs parse_unit_header.  Result (flat, for printing):
   [format(4|8); version; address_size; unit_type; abbrev_offset; a; b; unit_length; |entries_buf|]
   where (a, b) = (type_signature, type_offset) for type units, (dwo_id, 0) for skeleton/split_compile. *)
Definition p_unit_type_tail (fmt : bool) (ver asz ut abbrev len : N) : prog (list N) :=
  let fin a b := PLen (fun l => PRet [word_size fmt; ver; asz; ut; abbrev; a; b; len; l]) in
  if (ut =? 1) || (ut =? 3) then fin 0 0
  else if (ut =? 2) || (ut =? 6) then PU 8 (fun sig => POffset fmt (fun toff => fin sig toff))
  else if (ut =? 4) || (ut =? 5) then PU 8 (fun id => fin id 0)
  else PFail EUnknownUnitType.

Definition p_unit_header (debug_types : bool) : prog (list N) :=
  p_initial_length (fun len fmt =>
    PSplit len
      (PU 2 (fun ver =>
         if (2 <=? ver) && (ver <=? 4) then
           POffset fmt (fun abbrev =>
           p_address_size (fun asz =>
           p_unit_type_tail fmt ver asz (if debug_types then 2 else 1) abbrev len))
         else if ver =? 5 then
           PU 1 (fun ut =>
           p_address_size (fun asz =>
           POffset fmt (fun abbrev =>
           p_unit_type_tail fmt ver asz ut abbrev len)))
         else PFail EUnknownVersion))
      (fun hdr => PRet hdr)).

(* src/read/rnglists.rs RawRngListIter::next with RangeListsFormat::Bare (.debug_ranges; .debug_loc uses
   the same RawRange::parse), iterated to the end: entries are 1 base | 2 begin end.
   fuel = an upper bound on the number of entries (the window length suffices). *)
Fixpoint p_raw_ranges (fuel : nat) (asz : N) (acc : list N) : prog (list N) :=
  match fuel with
  | O => PNoFuel
  | S f =>
      PLen (fun l =>
        if l =? 0 then PRet acc
        else PAddr asz (fun b => PAddr asz (fun e =>
          if (b =? 0) && (e =? 0) then PRet acc
          else if b =? mask_of asz then p_raw_ranges f asz (acc ++ [1; e])
          else p_raw_ranges f asz (acc ++ [2; b; e]))))
  end.

(* src/read/unit.rs parse_attribute, the three forms that can hold a section offset: DW_FORM_data4 (6) and
   DW_FORM_data8 (7) are read with read_offset — so that relocations apply — exactly when the format
   matches and Attr.allow_section_offset accepts (name, version) (DWARF 2/3 loclistptr/lineptr/macptr/
   rangelistptr classes), with read_u32/read_u64 otherwise; DW_FORM_sec_offset (23) always with
   read_offset.  Result [1; v] for AttributeValue::SecOffset(v), [0; v] for Data4/Data8(v). *)
Definition p_attr_word (fmt64 : bool) (ver name form : N) : prog (list N) :=
  if form =? 6 then
    (if negb fmt64 && allow_section_offset name ver then POffset false (fun v => PRet [1; v])
     else PU 4 (fun v => PRet [0; v]))
  else if form =? 7 then
    (if fmt64 && allow_section_offset name ver then POffset true (fun v => PRet [1; v])
     else PU 8 (fun v => PRet [0; v]))
  else if form =? 23 then POffset fmt64 (fun v => PRet [1; v])
  else PFail EUnknownForm.

(* the attribute names whose DWARF 2/3 classes include a section-offset class *)
Definition dwarf3_secoff_names : list N :=
  [DW_AT_location; DW_AT_stmt_list; DW_AT_string_length; DW_AT_return_addr; DW_AT_start_scope;
   DW_AT_frame_base; DW_AT_macro_info; DW_AT_segment; DW_AT_static_link; DW_AT_use_location;
   DW_AT_vtable_elem_location; DW_AT_data_member_location; DW_AT_ranges].
