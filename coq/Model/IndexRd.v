(* Model/IndexRd.v — mirrors /repo/src/read/index.rs (UnitIndex::{parse, find, sections},
   UnitIndexSectionIterator::next, IndexSectionId), /repo/src/read/mod.rs Section::dwp_range and the
   contribution arithmetic of /repo/src/read/dwarf.rs DwarfPackage::sections.
   Also the slice-reader primitives skip/split/truncate with N lengths (EndianSlice, src/read/endian_slice.rs)
   and the collecting-iterator outcome type shared by NamesRd/ArangesRd.
   Correspondence streams: c17.index c17.sect c17.pkg *)
From Coq Require Import List NArith ZArith Bool.
From Coq.Strings Require Import Byte.
Require Import GV.Base.Res GV.Base.Byt GV.Base.Ints GV.Model.Leb GV.Model.Prim.
Import ListNotations.
Local Open Scope N_scope.

(* ---- EndianSlice::{split, skip, truncate}: Err(UnexpectedEof) when fewer than n bytes remain ---- *)
Definition blen (bs : list byte) : N := N.of_nat (length bs).
Definition rd_split (n : N) (bs : list byte) : res (list byte * list byte) :=
  if blen bs <? n then Err EUnexpectedEof
  else Ok (firstn (N.to_nat n) bs, skipn (N.to_nat n) bs).
Definition rd_skip (n : N) (bs : list byte) : res (list byte) :=
  if blen bs <? n then Err EUnexpectedEof else Ok (skipn (N.to_nat n) bs).
Definition rd_truncate (n : N) (bs : list byte) : res (list byte) :=
  if blen bs <? n then Err EUnexpectedEof else Ok (firstn (N.to_nat n) bs).

(* ---- what a drained iterator produced: the items and why it stopped ---- *)
Inductive stop : Type := SDone | SErr (e : error) | SPanic | SFuel.
Definition run (A : Type) : Type := (list A * stop)%type.
Definition run_cons {A} (a : A) (r : run A) : run A := (a :: fst r, snd r).
Definition stop_of_res {A} (r : res A) : stop :=
  match r with Ok _ => SDone | Err e => SErr e | Panic => SPanic | OutOfFuel => SFuel end.

(* ---- IndexSectionId ---- *)
Inductive isect : Type :=
| SAbbrev | SInfo | SLine | SLoc | SLocLists | SMacinfo | SMacro | SRngLists | SStrOffsets | STypes.

(* the `match constants::DwSectV2(section)` of parse *)
Definition sect_v2 (n : N) : option isect :=
  if n =? 1 then Some SInfo else if n =? 2 then Some STypes else if n =? 3 then Some SAbbrev
  else if n =? 4 then Some SLine else if n =? 5 then Some SLoc else if n =? 6 then Some SStrOffsets
  else if n =? 7 then Some SMacinfo else if n =? 8 then Some SMacro else None.
(* the `match constants::DwSect(section)` of parse *)
Definition sect_v5 (n : N) : option isect :=
  if n =? 1 then Some SInfo else if n =? 3 then Some SAbbrev else if n =? 4 then Some SLine
  else if n =? 5 then Some SLocLists else if n =? 6 then Some SStrOffsets else if n =? 7 then Some SMacro
  else if n =? 8 then Some SRngLists else None.
Definition isect_code (s : isect) : N :=
  match s with
  | SAbbrev => 0 | SInfo => 1 | SLine => 2 | SLoc => 3 | SLocLists => 4 | SMacinfo => 5
  | SMacro => 6 | SRngLists => 7 | SStrOffsets => 8 | STypes => 9
  end.

Record unit_index := {
  ix_version : N;
  ix_section_count : N;
  ix_unit_count : N;
  ix_slot_count : N;
  ix_hash_ids : list byte;
  ix_hash_rows : list byte;
  ix_sections : list isect;      (* the [IndexSectionId; 8] array *)
  ix_offsets : list byte;
  ix_sizes : list byte }.

Definition SECTION_COUNT_MAX : N := 8.

(* the `for i in 0..section_count` loop of parse *)
Fixpoint read_sections (be : bool) (version : N) (n : nat) (bs : list byte)
  : res (list isect * list byte) :=
  match n with
  | O => Ok ([], bs)
  | S k =>
      let* (code, r) := read_un 4 be bs in
      let* s := (if version =? 2 then of_option EUnknownIndexSectionV2 (sect_v2 code)
                 else of_option EUnknownIndexSection (sect_v5 code)) in
      let* (ss, r') := read_sections be version k r in
      Ok (s :: ss, r')
  end.

(* UnitIndex::parse (index.rs:138-226) *)
Definition index_parse (dbg be : bool) (bs : list byte) : res unit_index :=
  match bs with
  | [] => Ok {| ix_version := 0; ix_section_count := 0; ix_unit_count := 0; ix_slot_count := 0;
                ix_hash_ids := []; ix_hash_rows := []; ix_sections := repeat SAbbrev 8;
                ix_offsets := []; ix_sizes := [] |}
  | _ =>
    let* (v32, input) := read_un 4 be bs in
    let* version :=
      (if v32 =? 2 then Ok 2
       else let* (v16, _) := read_un 2 be bs in
            if v16 =? 5 then Ok v16 else Err EUnknownVersion) in
    let* (section_count, input) := read_un 4 be input in
    let* (unit_count, input) := read_un 4 be input in
    let* (slot_count, input) := read_un 4 be input in
    (* slot_count != 0 && (slot_count & (slot_count - 1) != 0 || slot_count <= unit_count) *)
    let* bad :=
      (if slot_count =? 0 then Ok false
       else let* m := chk_sub 32 dbg slot_count 1 in
            Ok (negb (N.land slot_count m =? 0) || (slot_count <=? unit_count))) in
    if bad then Err EInvalidIndexSlotCount else
    let* idsz := chk_mul 64 dbg slot_count 8 in
    let* (hash_ids, input) := rd_split idsz input in
    let* rowsz := chk_mul 64 dbg slot_count 4 in
    let* (hash_rows, input) := rd_split rowsz input in
    if SECTION_COUNT_MAX <? section_count then Err EUnsupportedIndexSectionCount else
    let* (ss, input) := read_sections be version (N.to_nat section_count) input in
    let* m1 := chk_mul 64 dbg unit_count section_count in
    let* tsz := chk_mul 64 dbg m1 4 in
    let* (offsets, input) := rd_split tsz input in
    let* (sizes, input) := rd_split tsz input in
    Ok {| ix_version := version; ix_section_count := section_count; ix_unit_count := unit_count;
          ix_slot_count := slot_count; ix_hash_ids := hash_ids; ix_hash_rows := hash_rows;
          ix_sections := ss ++ repeat SAbbrev (8 - length ss);
          ix_offsets := offsets; ix_sizes := sizes |}
  end.

(* one probe: `Some(Some row)` found, `Some None` definite miss / reader failure (`.ok()?`),
   `None` continue with the next slot *)
Definition find_probe (dbg be : bool) (ix : unit_index) (id hash1 : N) : res (option (option N)) :=
  let* o8 := chk_mul 64 dbg hash1 8 in
  match rd_skip o8 (ix_hash_ids ix) with
  | Ok r =>
      match read_un 8 be r with
      | Ok (hash_id, _) =>
          if hash_id =? id then
            let* o4 := chk_mul 64 dbg hash1 4 in
            match rd_skip o4 (ix_hash_rows ix) with
            | Ok r2 => match read_un 4 be r2 with
                       | Ok (row, _) => Ok (Some (Some row))
                       | _ => Ok (Some None)
                       end
            | _ => Ok (Some None)
            end
          else if hash_id =? 0 then Ok (Some None)
          else Ok None
      | _ => Ok (Some None)
      end
  | _ => Ok (Some None)
  end.

(* the `for _ in 0..self.slot_count` loop; also reports how many slots were probed *)
Fixpoint find_loop (dbg be : bool) (ix : unit_index) (id mask hash2 : N) (n : nat) (hash1 : N)
  : res (option N * N) :=
  match n with
  | O => Ok (None, 0)
  | S k =>
      let* p := find_probe dbg be ix id hash1 in
      match p with
      | Some r => Ok (r, 1)
      | None =>
          let* s := chk_add 64 dbg hash1 hash2 in
          let* (r, cnt) := find_loop dbg be ix id mask hash2 k (N.land s mask) in
          Ok (r, cnt + 1)
      end
  end.

(* UnitIndex::find (index.rs:232-256), with the number of probes performed *)
Definition index_find_probes (dbg be : bool) (ix : unit_index) (id : N) : res (option N * N) :=
  (* `if self.slot_count == 0 || id == 0 { return None; }` — id 0 marks an unused slot (repo 8339644) *)
  if (ix_slot_count ix =? 0) || (id =? 0) then Ok (None, 0) else
  let* mask := chk_sub 32 dbg (ix_slot_count ix) 1 in
  let hash1 := N.land id mask in
  let hash2 := N.lor (N.land (N.shiftr id 32) mask) 1 in
  find_loop dbg be ix id mask hash2 (N.to_nat (ix_slot_count ix)) hash1.
Definition index_find (dbg be : bool) (ix : unit_index) (id : N) : res (option N) :=
  let* (r, _) := index_find_probes dbg be ix id in Ok r.

(* UnitIndexSectionIterator drained: stops at the first failing read (`.ok()?`) *)
Fixpoint sect_iter (be : bool) (ss : list isect) (offs szs : list byte) : list (isect * N * N) :=
  match ss with
  | [] => []
  | s :: ss' =>
      match read_un 4 be offs with
      | Ok (o, offs') =>
          match read_un 4 be szs with
          | Ok (z, szs') => (s, o, z) :: sect_iter be ss' offs' szs'
          | _ => []
          end
      | _ => []
      end
  end.

(* UnitIndex::sections (index.rs:259-274) *)
Definition index_sections (dbg be : bool) (ix : unit_index) (row : N) : res (list (isect * N * N)) :=
  if (row =? 0) || (ix_unit_count ix <? row) then Err EInvalidIndexRow else
  let* r1 := chk_sub 32 dbg row 1 in
  let* m1 := chk_mul 64 dbg r1 (ix_section_count ix) in
  let* ro := chk_mul 64 dbg m1 4 in
  let* offs := rd_skip ro (ix_offsets ix) in
  let* szs := rd_skip ro (ix_sizes ix) in
  (* self.sections[..self.section_count as usize] on an array of 8 *)
  if N.of_nat (length (ix_sections ix)) <? ix_section_count ix then Panic else
  Ok (sect_iter be (firstn (N.to_nat (ix_section_count ix)) (ix_sections ix)) offs szs).

(* Section::dwp_range (read/mod.rs:660-668) *)
Definition dwp_range (offset size : N) (bs : list byte) : res (list byte) :=
  let* d := rd_skip offset bs in rd_truncate size d.

(* DwarfPackage::sections (dwarf.rs:1075-1160): the last contribution of a kind wins, kinds not listed
   contribute (0,0); then one dwp_range per kind in the order
   abbrev, info, line, loc, loclists, macinfo, macro, str_offsets, rnglists, types.
   `sec k` is the package's section of kind k; the result lists (start, length) within that section. *)
Fixpoint contrib_of (k : isect) (cs : list (isect * N * N)) (acc : N * N) : N * N :=
  match cs with
  | [] => acc
  | (s, o, z) :: r => contrib_of k r (if isect_code s =? isect_code k then (o, z) else acc)
  end.
Definition pkg_order : list isect :=
  [SAbbrev; SInfo; SLine; SLoc; SLocLists; SMacinfo; SMacro; SStrOffsets; SRngLists; STypes].
Fixpoint pkg_ranges (cs : list (isect * N * N)) (seclen : isect -> N) (ks : list isect)
  : res (list (isect * N * N)) :=
  match ks with
  | [] => Ok []
  | k :: r =>
      let '(o, z) := contrib_of k cs (0, 0) in
      if seclen k <? o then Err EUnexpectedEof
      else if seclen k - o <? z then Err EUnexpectedEof
      else let* rest := pkg_ranges cs seclen r in Ok ((k, o, z) :: rest)
  end.
(* DwarfPackage::cu_sections / tu_sections *)
Definition pkg_sections (dbg be : bool) (ix : unit_index) (row : N) (seclen : isect -> N)
  : res (list (isect * N * N)) :=
  let* cs := index_sections dbg be ix row in
  pkg_ranges cs seclen pkg_order.
