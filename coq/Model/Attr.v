(* Model/Attr.v — mirrors, function by function,
     /repo/src/read/abbrev.rs : AttributeSpecification::{new, implicit_const_value, parse}, get_attribute_size
     /repo/src/read/line.rs   : parse_attribute (the line-table variant)
     /repo/src/read/unit.rs   : allow_section_offset, parse_attribute, skip_attributes,
                                EntriesRaw::read_attributes, Attribute::value (+ its class macros),
                                AttributeValue::{u8_value,u16_value,udata_value,sdata_value,offset_value,exprloc_value}
   for R = EndianSlice (Offset = usize = u64: ReaderOffset::from_u64 never fails).
   No proofs here. Streams: c03.forms c03.lists c03.size c03.value c03.helpers c03.lineform *)
From Coq Require Import List NArith ZArith Bool.
From Coq.Strings Require Import Byte.
Require Import GV.Base.Res GV.Base.Byt GV.Base.Ints GV.Model.Leb GV.Model.Prim GV.Spec.FormSpec.
Import ListNotations.
Local Open Scope N_scope.

(* ---- constants.rs: DW_FORM_* (DwForm(u16)) ---- *)
Definition DW_FORM_addr : N := 1.
Definition DW_FORM_block2 : N := 3.
Definition DW_FORM_block4 : N := 4.
Definition DW_FORM_data2 : N := 5.
Definition DW_FORM_data4 : N := 6.
Definition DW_FORM_data8 : N := 7.
Definition DW_FORM_string : N := 8.
Definition DW_FORM_block : N := 9.
Definition DW_FORM_block1 : N := 10.
Definition DW_FORM_data1 : N := 11.
Definition DW_FORM_flag : N := 12.
Definition DW_FORM_sdata : N := 13.
Definition DW_FORM_strp : N := 14.
Definition DW_FORM_udata : N := 15.
Definition DW_FORM_ref_addr : N := 16.
Definition DW_FORM_ref1 : N := 17.
Definition DW_FORM_ref2 : N := 18.
Definition DW_FORM_ref4 : N := 19.
Definition DW_FORM_ref8 : N := 20.
Definition DW_FORM_ref_udata : N := 21.
Definition DW_FORM_indirect : N := 22.
Definition DW_FORM_sec_offset : N := 23.
Definition DW_FORM_exprloc : N := 24.
Definition DW_FORM_flag_present : N := 25.
Definition DW_FORM_strx : N := 26.
Definition DW_FORM_addrx : N := 27.
Definition DW_FORM_ref_sup4 : N := 28.
Definition DW_FORM_strp_sup : N := 29.
Definition DW_FORM_data16 : N := 30.
Definition DW_FORM_line_strp : N := 31.
Definition DW_FORM_ref_sig8 : N := 32.
Definition DW_FORM_implicit_const : N := 33.
Definition DW_FORM_loclistx : N := 34.
Definition DW_FORM_rnglistx : N := 35.
Definition DW_FORM_ref_sup8 : N := 36.
Definition DW_FORM_strx1 : N := 37.
Definition DW_FORM_strx2 : N := 38.
Definition DW_FORM_strx3 : N := 39.
Definition DW_FORM_strx4 : N := 40.
Definition DW_FORM_addrx1 : N := 41.
Definition DW_FORM_addrx2 : N := 42.
Definition DW_FORM_addrx3 : N := 43.
Definition DW_FORM_addrx4 : N := 44.
Definition DW_FORM_GNU_addr_index : N := 7937.
Definition DW_FORM_GNU_str_index : N := 7938.
Definition DW_FORM_GNU_ref_alt : N := 7968.
Definition DW_FORM_GNU_strp_alt : N := 7969.

(* ---- abbrev.rs: AttributeSpecification { name, form, implicit_const_value: i64 } ---- *)
Record aspec : Type := mkSpec { at_name : N; at_form : N; at_implicit : Z }.

(* AttributeSpecification::new(name, form, Option<i64>): stores unwrap_or(0) *)
Definition aspec_new (name form : N) (implicit : option Z) : aspec :=
  mkSpec name form (match implicit with Some z => z | None => 0%Z end).

Definition implicit_const_value (s : aspec) : option Z :=
  if at_form s =? DW_FORM_implicit_const then Some (at_implicit s) else None.

(* AttributeSpecification::parse: None for the (0,0) terminator *)
Definition parse_attr_spec (dbg : bool) (bs : list byte) : res (option aspec * list byte) :=
  let* (name, r1) := read_uleb128_u16 bs in
  let* (form, r2) := read_uleb128_u16 r1 in
  if (name =? 0) && (form =? 0) then Ok (None, r2)
  else if name =? 0 then Err EAttributeNameZero
  else if form =? 0 then Err EAttributeFormZero
  else if form =? DW_FORM_implicit_const then
    let* (z, r3) := read_sleb128 dbg r2 in Ok (Some (aspec_new name form (Some z)), r3)
  else Ok (Some (aspec_new name form None), r2).

(* abbrev.rs get_attribute_size: Option<u8> *)
Definition get_attribute_size (form : N) (e : enc) : option N :=
  if form =? DW_FORM_addr then Some (address_size e)
  else if (form =? DW_FORM_implicit_const) || (form =? DW_FORM_flag_present) then Some 0
  else if (form =? DW_FORM_data1) || (form =? DW_FORM_flag) || (form =? DW_FORM_strx1)
          || (form =? DW_FORM_ref1) || (form =? DW_FORM_addrx1) then Some 1
  else if (form =? DW_FORM_data2) || (form =? DW_FORM_ref2) || (form =? DW_FORM_addrx2)
          || (form =? DW_FORM_strx2) then Some 2
  else if (form =? DW_FORM_addrx3) || (form =? DW_FORM_strx3) then Some 3
  else if (form =? DW_FORM_data4) || (form =? DW_FORM_ref_sup4) || (form =? DW_FORM_ref4)
          || (form =? DW_FORM_strx4) || (form =? DW_FORM_addrx4) then Some 4
  else if (form =? DW_FORM_data8) || (form =? DW_FORM_ref8) || (form =? DW_FORM_ref_sig8)
          || (form =? DW_FORM_ref_sup8) then Some 8
  else if form =? DW_FORM_data16 then Some 16
  else if (form =? DW_FORM_sec_offset) || (form =? DW_FORM_GNU_ref_alt) || (form =? DW_FORM_strp)
          || (form =? DW_FORM_strp_sup) || (form =? DW_FORM_GNU_strp_alt)
          || (form =? DW_FORM_line_strp) then Some (word_size (fmt64 e))
  else if form =? DW_FORM_ref_addr then
    Some (if version e =? 2 then address_size e else word_size (fmt64 e))
  else None.   (* the listed variable forms and `_` *)

(* ---- unit.rs ---- *)
(* constants.rs DW_AT_* used by allow_section_offset *)
Definition DW_AT_location : N := 2.
Definition DW_AT_stmt_list : N := 16.
Definition DW_AT_string_length : N := 25.
Definition DW_AT_return_addr : N := 42.
Definition DW_AT_start_scope : N := 44.
Definition DW_AT_frame_base : N := 64.
Definition DW_AT_macro_info : N := 67.
Definition DW_AT_macros : N := 121.
Definition DW_AT_segment : N := 70.
Definition DW_AT_static_link : N := 72.
Definition DW_AT_use_location : N := 74.
Definition DW_AT_vtable_elem_location : N := 77.
Definition DW_AT_ranges : N := 85.
Definition DW_AT_data_member_location : N := 56.

Definition allow_section_offset (name ver : N) : bool :=
  if (name =? DW_AT_location) || (name =? DW_AT_stmt_list) || (name =? DW_AT_string_length)
     || (name =? DW_AT_return_addr) || (name =? DW_AT_start_scope) || (name =? DW_AT_frame_base)
     || (name =? DW_AT_macro_info) || (name =? DW_AT_macros) || (name =? DW_AT_segment)
     || (name =? DW_AT_static_link) || (name =? DW_AT_use_location)
     || (name =? DW_AT_vtable_elem_location) || (name =? DW_AT_ranges) then true
  else if name =? DW_AT_data_member_location then (ver =? 2) || (ver =? 3)
  else false.

(* Reader::split(len) / Reader::skip(len) on a slice: structural on the input so that lengths
   near 2^64 cost nothing *)
Fixpoint split_n (n : N) (bs : list byte) : res (list byte * list byte) :=
  if n =? 0 then Ok ([], bs) else
  match bs with
  | [] => Err EUnexpectedEof
  | b :: r => let* (h, t) := split_n (N.pred n) r in Ok (b :: h, t)
  end.
Definition skip_n (n : N) (bs : list byte) : res (list byte) :=
  let* (_, t) := split_n n bs in Ok t.

(* Reader::read_offset(format) = read_word *)
Definition read_offset (e : enc) (bs : list byte) : res (N * list byte) :=
  read_word (fmt64 e) (be e) bs.

(* length prefix followed by split *)
Definition read_block (len : res (N * list byte)) : res (list byte * list byte) :=
  let* (n, r) := len in split_n n r.

(* one arm of parse_attribute's `match form` other than DW_FORM_indirect *)
Definition parse_direct (dbg : bool) (e : enc) (spec : aspec) (form : N) (bs : list byte)
  : res (attr_value * list byte) :=
  let bigend := be e in
  let num (mk : N -> attr_value) (r : res (N * list byte)) : res (attr_value * list byte) :=
    let* (v, t) := r in Ok (mk v, t) in
  let bytes (mk : list byte -> attr_value) (r : res (list byte * list byte)) :=
    let* (v, t) := r in Ok (mk v, t) in
  if form =? DW_FORM_addr then num VAddr (read_address (address_size e) bigend bs)
  else if form =? DW_FORM_block1 then bytes VBlock (read_block (read_u8 bs))
  else if form =? DW_FORM_block2 then bytes VBlock (read_block (read_u16 bigend bs))
  else if form =? DW_FORM_block4 then bytes VBlock (read_block (read_u32 bigend bs))
  else if form =? DW_FORM_block then bytes VBlock (read_block (read_uleb128 dbg bs))
  else if form =? DW_FORM_data1 then num VData1 (read_u8 bs)
  else if form =? DW_FORM_data2 then num VData2 (read_u16 bigend bs)
  else if form =? DW_FORM_data4 then
    (if negb (fmt64 e) && allow_section_offset (at_name spec) (version e)
     then num VSecOffset (read_word false bigend bs)
     else num VData4 (read_u32 bigend bs))
  else if form =? DW_FORM_data8 then
    (if fmt64 e && allow_section_offset (at_name spec) (version e)
     then num VSecOffset (read_word true bigend bs)
     else num VData8 (read_u64 bigend bs))
  else if form =? DW_FORM_data16 then num VData16 (read_u128 bigend bs)
  else if form =? DW_FORM_udata then num VUdata (read_uleb128 dbg bs)
  else if form =? DW_FORM_sdata then
    (let* (z, t) := read_sleb128 dbg bs in Ok (VSdata z, t))
  else if form =? DW_FORM_exprloc then bytes VExprloc (read_block (read_uleb128 dbg bs))
  else if form =? DW_FORM_flag then num (fun v => VFlag (negb (v =? 0))) (read_u8 bs)
  else if form =? DW_FORM_flag_present then Ok (VFlag true, bs)
  else if form =? DW_FORM_sec_offset then num VSecOffset (read_offset e bs)
  else if form =? DW_FORM_ref1 then num VUnitRef (read_u8 bs)
  else if form =? DW_FORM_ref2 then num VUnitRef (read_u16 bigend bs)
  else if form =? DW_FORM_ref4 then num VUnitRef (read_u32 bigend bs)
  else if form =? DW_FORM_ref8 then num VUnitRef (read_u64 bigend bs)
  else if form =? DW_FORM_ref_udata then num VUnitRef (read_uleb128 dbg bs)
  else if form =? DW_FORM_ref_addr then
    num VDebugInfoRef (if version e =? 2 then read_sized_offset (address_size e) bigend bs
                       else read_offset e bs)
  else if form =? DW_FORM_ref_sig8 then num VDebugTypesRef (read_u64 bigend bs)
  else if form =? DW_FORM_ref_sup4 then num VDebugInfoRefSup (read_u32 bigend bs)
  else if form =? DW_FORM_ref_sup8 then num VDebugInfoRefSup (read_u64 bigend bs)
  else if form =? DW_FORM_GNU_ref_alt then num VDebugInfoRefSup (read_offset e bs)
  else if form =? DW_FORM_string then bytes VString (read_cstr bs)
  else if form =? DW_FORM_strp then num VDebugStrRef (read_offset e bs)
  else if (form =? DW_FORM_strp_sup) || (form =? DW_FORM_GNU_strp_alt) then
    num VDebugStrRefSup (read_offset e bs)
  else if form =? DW_FORM_line_strp then num VDebugLineStrRef (read_offset e bs)
  else if form =? DW_FORM_implicit_const then
    (match implicit_const_value spec with
     | Some z => Ok (VSdata z, bs)
     | None => Err EInvalidImplicitConst
     end)
  else if (form =? DW_FORM_strx) || (form =? DW_FORM_GNU_str_index) then
    num VDebugStrOffsetsIndex (read_uleb128 dbg bs)
  else if form =? DW_FORM_strx1 then num VDebugStrOffsetsIndex (read_u8 bs)
  else if form =? DW_FORM_strx2 then num VDebugStrOffsetsIndex (read_u16 bigend bs)
  else if form =? DW_FORM_strx3 then num VDebugStrOffsetsIndex (read_uint 3 bigend bs)
  else if form =? DW_FORM_strx4 then num VDebugStrOffsetsIndex (read_u32 bigend bs)
  else if (form =? DW_FORM_addrx) || (form =? DW_FORM_GNU_addr_index) then
    num VDebugAddrIndex (read_uleb128 dbg bs)
  else if form =? DW_FORM_addrx1 then num VDebugAddrIndex (read_u8 bs)
  else if form =? DW_FORM_addrx2 then num VDebugAddrIndex (read_u16 bigend bs)
  else if form =? DW_FORM_addrx3 then num VDebugAddrIndex (read_uint 3 bigend bs)
  else if form =? DW_FORM_addrx4 then num VDebugAddrIndex (read_u32 bigend bs)
  else if form =? DW_FORM_loclistx then num VDebugLocListsIndex (read_uleb128 dbg bs)
  else if form =? DW_FORM_rnglistx then num VDebugRngListsIndex (read_uleb128 dbg bs)
  else Err EUnknownForm.

(* the `loop` of parse_attribute: every DW_FORM_indirect iteration consumes at least one byte,
   so S (length input) iterations are enough (AttrProofs.parse_attribute_fuel) *)
Fixpoint parse_form (fuel : nat) (dbg : bool) (e : enc) (spec : aspec) (form : N) (bs : list byte)
  : res (attr_value * list byte) :=
  if form =? DW_FORM_indirect then
    match fuel with
    | O => OutOfFuel
    | S k => let* (dynamic_form, r) := read_uleb128_u16 bs in parse_form k dbg e spec dynamic_form r
    end
  else parse_direct dbg e spec form bs.

(* parse_attribute(input, encoding, spec): the value of the returned Attribute (its name and form
   are copied from spec) and the advanced input *)
Definition parse_attribute (dbg : bool) (e : enc) (spec : aspec) (bs : list byte)
  : res (attr_value * list byte) :=
  parse_form (S (length bs)) dbg e spec (at_form spec) bs.

(* EntriesRaw::read_attributes *)
Fixpoint read_attributes (dbg : bool) (e : enc) (specs : list aspec) (bs : list byte)
  : res (list attr_value * list byte) :=
  match specs with
  | [] => Ok ([], bs)
  | s :: t =>
      let* (v, r) := parse_attribute dbg e s bs in
      let* (vs, r') := read_attributes dbg e t r in
      Ok (v :: vs, r')
  end.

(* skip_attributes: the arms of the inner `match form` other than DW_FORM_indirect; returns the new
   value of skip_bytes and the input *)
Definition skip_var (dbg : bool) (e : enc) (form : N) (bs : list byte) : res (N * list byte) :=
  if form =? DW_FORM_block1 then read_u8 bs
  else if form =? DW_FORM_block2 then read_u16 (be e) bs
  else if form =? DW_FORM_block4 then read_u32 (be e) bs
  else if (form =? DW_FORM_block) || (form =? DW_FORM_exprloc) then read_uleb128 dbg bs
  else if form =? DW_FORM_string then (let* (_, t) := read_cstr bs in Ok (0, t))
  else if (form =? DW_FORM_udata) || (form =? DW_FORM_sdata) || (form =? DW_FORM_ref_udata)
          || (form =? DW_FORM_strx) || (form =? DW_FORM_GNU_str_index) || (form =? DW_FORM_addrx)
          || (form =? DW_FORM_GNU_addr_index) || (form =? DW_FORM_loclistx)
          || (form =? DW_FORM_rnglistx) then
    (let* (_, t) := skip_leb bs in Ok (0, t))
  else Err EUnknownForm.

(* the inner `loop` for one spec: (skip_bytes, input) -> (skip_bytes, input).
   `skip_bytes.checked_add(len)` is on u64: overflow is Err(UnexpectedEof) in both build modes. *)
Fixpoint skip_form (fuel : nat) (dbg : bool) (e : enc) (skip_bytes : N) (form : N) (bs : list byte)
  : res (N * list byte) :=
  match get_attribute_size form e with
  | Some len =>
      if skip_bytes + len <? two64 then Ok (skip_bytes + len, bs) else Err EUnexpectedEof
  | None =>
      let* bs1 := (if skip_bytes =? 0 then Ok bs else skip_n skip_bytes bs) in
      if form =? DW_FORM_indirect then
        match fuel with
        | O => OutOfFuel
        | S k => let* (dynamic_form, r) := read_uleb128_u16 bs1 in skip_form k dbg e 0 dynamic_form r
        end
      else skip_var dbg e form bs1
  end.

Fixpoint skip_specs (dbg : bool) (e : enc) (skip_bytes : N) (specs : list aspec) (bs : list byte)
  : res (N * list byte) :=
  match specs with
  | [] => Ok (skip_bytes, bs)
  | s :: t =>
      let* (sb, r) := skip_form (S (length bs)) dbg e skip_bytes (at_form s) bs in
      skip_specs dbg e sb t r
  end.

Definition skip_attributes (dbg : bool) (e : enc) (specs : list aspec) (bs : list byte)
  : res (list byte) :=
  let* (sb, r) := skip_specs dbg e 0 specs bs in
  if sb =? 0 then Ok r else skip_n sb r.

(* ---- src/read/line.rs parse_attribute(input, encoding, form): the forms a DWARF 5 line-table
   directory / file entry format may use. No name, no DW_FORM_indirect, DW_FORM_data16 is returned
   as a 16-byte block. ---- *)
Definition line_parse_attribute (dbg : bool) (e : enc) (form : N) (bs : list byte)
  : res (attr_value * list byte) :=
  let bigend := be e in
  let num (mk : N -> attr_value) (r : res (N * list byte)) : res (attr_value * list byte) :=
    let* (v, t) := r in Ok (mk v, t) in
  let bytes (mk : list byte -> attr_value) (r : res (list byte * list byte)) :=
    let* (v, t) := r in Ok (mk v, t) in
  if form =? DW_FORM_block1 then bytes VBlock (read_block (read_u8 bs))
  else if form =? DW_FORM_block2 then bytes VBlock (read_block (read_u16 bigend bs))
  else if form =? DW_FORM_block4 then bytes VBlock (read_block (read_u32 bigend bs))
  else if form =? DW_FORM_block then bytes VBlock (read_block (read_uleb128 dbg bs))
  else if form =? DW_FORM_data1 then num VData1 (read_u8 bs)
  else if form =? DW_FORM_data2 then num VData2 (read_u16 bigend bs)
  else if form =? DW_FORM_data4 then num VData4 (read_u32 bigend bs)
  else if form =? DW_FORM_data8 then num VData8 (read_u64 bigend bs)
  else if form =? DW_FORM_data16 then bytes VBlock (split_n 16 bs)
  else if form =? DW_FORM_udata then num VUdata (read_uleb128 dbg bs)
  else if form =? DW_FORM_sdata then (let* (z, t) := read_sleb128 dbg bs in Ok (VSdata z, t))
  else if form =? DW_FORM_flag then num (fun v => VFlag (negb (v =? 0))) (read_u8 bs)
  else if form =? DW_FORM_sec_offset then num VSecOffset (read_offset e bs)
  else if form =? DW_FORM_string then bytes VString (read_cstr bs)
  else if form =? DW_FORM_strp then num VDebugStrRef (read_offset e bs)
  else if (form =? DW_FORM_strp_sup) || (form =? DW_FORM_GNU_strp_alt) then
    num VDebugStrRefSup (read_offset e bs)
  else if form =? DW_FORM_line_strp then num VDebugLineStrRef (read_offset e bs)
  else if (form =? DW_FORM_strx) || (form =? DW_FORM_GNU_str_index) then
    num VDebugStrOffsetsIndex (read_uleb128 dbg bs)
  else if form =? DW_FORM_strx1 then num VDebugStrOffsetsIndex (read_u8 bs)
  else if form =? DW_FORM_strx2 then num VDebugStrOffsetsIndex (read_u16 bigend bs)
  else if form =? DW_FORM_strx3 then num VDebugStrOffsetsIndex (read_uint 3 bigend bs)
  else if form =? DW_FORM_strx4 then num VDebugStrOffsetsIndex (read_u32 bigend bs)
  else Err EUnknownForm.

(* ---- AttributeValue helpers ---- *)
Definition udata_value (v : attr_value) : option N :=
  match v with
  | VData1 n | VData2 n | VData4 n | VData8 n | VUdata n => Some n
  | VSdata z => if (z <? 0)%Z then None else Some (of_i64 z)      (* data as u64 *)
  | _ => None
  end.

Definition sdata_value (v : attr_value) : option Z :=
  match v with
  | VData1 n => Some (to_i8 n)        (* i64::from(data as i8) *)
  | VData2 n => Some (to_i16 n)
  | VData4 n => Some (to_i32 n)
  | VData8 n => Some (to_i64 n)
  | VSdata z => Some z
  | VUdata n => if two63 - 1 <? n then None else Some (to_i64 n)   (* data > i64::MAX as u64 *)
  | _ => None
  end.

(* u8::try_from / u16::try_from *)
Definition u8_value (v : attr_value) : option N :=
  match udata_value v with Some n => if n <? 256 then Some n else None | None => None end.
Definition u16_value (v : attr_value) : option N :=
  match udata_value v with Some n => if n <? two16 then Some n else None | None => None end.

Definition offset_value (v : attr_value) : option N :=
  match v with VSecOffset o => Some o | _ => None end.

Definition exprloc_value (v : attr_value) : option (list byte) :=
  match v with VBlock b => Some b | VExprloc b => Some b | _ => None end.

(* ---- Attribute::value ---- *)
(* the class macros of Attribute::value that do something *)
Inductive u8_variant := U8Ordering | U8Visibility | U8Inline | U8Accessibility | U8CallingConvention
                      | U8Encoding | U8IdentifierCase | U8Virtuality | U8DecimalSign | U8Endianity.
Inductive udata_variant := UUdata | UFileIndex | UAddressClass | UDwoId.
Inductive offset_variant := OAddrBase | OLineRef | OLocationListsRef | OLocListsBase | OMacinfoRef
                          | OMacroRef | ORangeListsRef | ORngListsBase | OStrOffsetsBase.
Inductive conv :=
| CU8 (t : u8_variant)        (* constant!(u8_value, V, DwX) *)
| CU16Language                (* constant!(u16_value, Language, DwLang) *)
| CUdata (t : udata_variant)  (* constant!(udata_value, V [, DwAddr]) and dwoid!() *)
| CExprloc                    (* exprloc!() *)
| COffset (t : offset_variant).  (* addrptr! lineptr! loclistptr! loclistsptr! macinfoptr! macroptr!
                                    rangelistptr! rnglistsptr! stroffsetsptr! *)

Definition mk_u8 (t : u8_variant) (n : N) : attr_value :=
  match t with
  | U8Ordering => VOrdering n | U8Visibility => VVisibility n | U8Inline => VInline n
  | U8Accessibility => VAccessibility n | U8CallingConvention => VCallingConvention n
  | U8Encoding => VEncoding n | U8IdentifierCase => VIdentifierCase n
  | U8Virtuality => VVirtuality n | U8DecimalSign => VDecimalSign n | U8Endianity => VEndianity n
  end.
Definition mk_udata (t : udata_variant) (n : N) : attr_value :=
  match t with
  | UUdata => VUdata n | UFileIndex => VFileIndex n | UAddressClass => VAddressClass n
  | UDwoId => VDwoId n
  end.
Definition mk_offset (t : offset_variant) (o : N) : attr_value :=
  match t with
  | OAddrBase => VDebugAddrBase o | OLineRef => VDebugLineRef o
  | OLocationListsRef => VLocationListsRef o | OLocListsBase => VDebugLocListsBase o
  | OMacinfoRef => VDebugMacinfoRef o | OMacroRef => VDebugMacroRef o
  | ORangeListsRef => VRangeListsRef o | ORngListsBase => VDebugRngListsBase o
  | OStrOffsetsBase => VDebugStrOffsetsBase o
  end.

(* one macro invocation: Some = `return`, None = fall through *)
Definition apply_conv (c : conv) (v : attr_value) : option attr_value :=
  match c with
  | CU8 t => option_map (mk_u8 t) (u8_value v)
  | CU16Language => option_map VLanguage (u16_value v)
  | CUdata t => option_map (mk_udata t) (udata_value v)
  | CExprloc => option_map VExprloc (exprloc_value v)
  | COffset t => option_map (mk_offset t) (offset_value v)
  end.

Fixpoint apply_convs (cs : list conv) (v : attr_value) : attr_value :=
  match cs with
  | [] => v                                   (* self.value.clone() *)
  | c :: t => match apply_conv c v with Some r => r | None => apply_convs t v end
  end.

(* the `match self.name` of Attribute::value: the non-empty macro invocations of each arm, in order
   (address!, block!, flag!, reference!, string! expand to nothing) *)
Definition name_convs (name : N) : list conv :=
  let loc := [CExprloc; COffset OLocationListsRef] in
  let size := [CUdata UUdata; CExprloc] in
  match name with
  | 2 (* location *) => loc
  | 9 (* ordering *) => [CU8 U8Ordering]
  | 11 (* byte_size *) | 12 (* bit_offset *) | 13 (* bit_size *) => size
  | 16 (* stmt_list *) => [COffset OLineRef]
  | 18 (* high_pc *) => [CUdata UUdata]
  | 19 (* language *) => [CU16Language]
  | 23 (* visibility *) => [CU8 U8Visibility]
  | 25 (* string_length *) => loc
  | 32 (* inline *) => [CU8 U8Inline]
  | 34 (* lower_bound *) => [CExprloc]
  | 42 (* return_addr *) => loc
  | 44 (* start_scope *) => [COffset ORangeListsRef]
  | 46 (* bit_stride *) => size
  | 47 (* upper_bound *) => [CExprloc]
  | 50 (* accessibility *) => [CU8 U8Accessibility]
  | 51 (* address_class *) => [CUdata UAddressClass]
  | 54 (* calling_convention *) => [CU8 U8CallingConvention]
  | 55 (* count *) => [CExprloc]
  | 56 (* data_member_location *) => [CUdata UUdata; CExprloc; COffset OLocationListsRef]
  | 57 (* decl_column *) => [CUdata UUdata]
  | 58 (* decl_file *) => [CUdata UFileIndex]
  | 59 (* decl_line *) => [CUdata UUdata]
  | 62 (* encoding *) => [CU8 U8Encoding]
  | 64 (* frame_base *) => loc
  | 66 (* identifier_case *) => [CU8 U8IdentifierCase]
  | 67 (* macro_info *) => [COffset OMacinfoRef]
  | 70 (* segment *) => loc
  | 72 (* static_link *) => loc
  | 74 (* use_location *) => loc
  | 76 (* virtuality *) => [CU8 U8Virtuality]
  | 77 (* vtable_elem_location *) => loc
  | 78 (* allocated *) | 79 (* associated *) | 80 (* data_location *) => [CExprloc]
  | 81 (* byte_stride *) => size
  | 85 (* ranges *) => [COffset ORangeListsRef]
  | 87 (* call_column *) => [CUdata UUdata]
  | 88 (* call_file *) => [CUdata UFileIndex]
  | 89 (* call_line *) => [CUdata UUdata]
  | 94 (* decimal_sign *) => [CU8 U8DecimalSign]
  | 101 (* endianity *) => [CU8 U8Endianity]
  | 113 (* rank *) => [CExprloc]
  | 114 (* str_offsets_base *) => [COffset OStrOffsetsBase]
  | 115 (* addr_base *) | 8499 (* GNU_addr_base 0x2133 *) => [COffset OAddrBase]
  | 116 (* rnglists_base *) | 8498 (* GNU_ranges_base 0x2132 *) => [COffset ORngListsBase]
  | 121 (* macros *) => [COffset OMacroRef]
  | 126 (* call_value *) | 127 (* call_origin *) => [CExprloc]
  | 131 (* call_target *) | 132 (* call_target_clobbered *) | 133 (* call_data_location *)
  | 134 (* call_data_value *) => [CExprloc]
  | 140 (* loclists_base *) => [COffset OLocListsBase]
  | 8497 (* GNU_dwo_id 0x2131 *) => [CUdata UDwoId]
  | _ => []
  end.

(* Attribute::value() of an attribute with this name and raw value *)
Definition attr_normalise (name : N) (raw_value : attr_value) : attr_value :=
  apply_convs (name_convs name) raw_value.
