(* Spec/StackMachine.v — the DWARF expression stack machine (DWARF 5 §2.5, §2.6) over CANONICAL values.
   The stack holds canonical values only: a generic value is an element of Z / 2^(8*address_size), a typed
   value an element of Z / 2^width.  Every operation acts through the value algebra of Spec/StackSpec.v
   (sp_add, sp_div, sp_shl, ... : ordinary integer arithmetic with the per-operation signedness of §2.5.1.4);
   nothing here mentions address masks, 64-bit containers, sign-extension tricks, build modes or panics.
   The syntax (operation, request, piece, location, answer, the state record, the trace) is shared with
   Model/OpEval.v, and so is the control skeleton the DWARF text leaves to the consumer (end of expression /
   return from DW_OP_call, composite-location rules, the iteration limit, the optional fixed capacities).
   Decoding goes through the operand-layout table (generic_decode).  Branch targets use compute_pc, whose
   arithmetic reading is theorem branch_target_exact (0 <= offset_of_next_op + t <= len, no wrap-around).
   Theorem eval_refines (Properties/C07.v): the trace of the model evaluator, with generic values read
   modulo 2^(8*address_size), IS the trace of this machine.  No proofs here. *)
From Coq Require Import List NArith ZArith Bool.
From Coq.Strings Require Import Byte.
Require Import GV.Base.Res GV.Base.Byt GV.Base.Ints GV.Model.Leb GV.Model.Prim
  GV.Model.OpDec GV.Model.OpVal GV.Model.OpEval GV.Spec.StackSpec.
Import ListNotations.
Local Open Scope N_scope.

Section Machine.
Variable sz : N.          (* address size in bytes *)
Variable F : fops.        (* IEEE-754 arithmetic on bit patterns *)

(* ---- the abstraction: what a model value / piece / answer / configuration denotes ---- *)
Definition abs_loc (l : location) : location :=
  match l with LValue v => LValue (canon sz v) | _ => l end.
Definition abs_piece (p : piece) : piece := mkPiece (p_size p) (p_bit_offset p) (abs_loc (p_loc p)).
Definition abs_answer (a : answer) : answer :=
  mkAns (canon sz (a_val a)) (a_u64 a mod modulus sz TGeneric) (a_bytes a) (a_ty a).
Definition abs_cfg (c : cfg) : cfg :=
  mkCfg (c_enc c) (option_map (fun v => v mod modulus sz TGeneric) (c_obj c)) (c_max c)
        (option_map (fun v => v mod modulus sz TGeneric) (c_init c))
        (c_cap_stack c) (c_cap_expr c) (c_cap_res c) None.
Definition abs_final (f : final) : final :=
  match f with
  | FComplete ps vr a b => FComplete (map abs_piece ps) (option_map (canon sz) vr) a b
  | _ => f
  end.
Definition abs_trace (t : trace) : trace := (fst t, abs_final (snd t)).

(* ---- the machine ---- *)
(* the unsigned 64-bit number an integral value is handed to the consumer as (addresses, sizes, indices):
   a generic value is its residue, a signed typed value is taken modulo 2^64 *)
Definition sp_to_u64 (v : value) : res N :=
  if is_float v then Err EIntegralTypeRequired else Ok (of_signed 64 (as_int sz false v)).
(* the value of type t denoting the unsigned number x *)
Definition sp_from_u64 (t : vtype) (x : N) : value :=
  match tclass_of t with
  | CFloat => mkV t (f_of_u64 F (is64 t) x)
  | _ => mkV t (x mod modulus sz t)
  end.

Definition sp_push (c : cfg) (s : st) (v : value) : res st :=
  if full (c_cap_stack c) (s_stack s) then Err EStackFull else Ok (set_stack s (v :: s_stack s)).

Definition sp_binop (c : cfg) (s : st) (f : value -> value -> res value) : res (opres * st) :=
  let* (rhs, s1) := pop s in
  let* (lhs, s2) := pop s1 in
  let* r := f lhs rhs in
  let* s3 := sp_push c s2 r in
  Ok (RIncomplete, s3).
Definition sp_unop (c : cfg) (s : st) (f : value -> res value) : res (opres * st) :=
  let* (v, s1) := pop s in
  let* r := f v in
  let* s2 := sp_push c s1 r in
  Ok (RIncomplete, s2).

(* one decoded operation on a state whose pc is already behind the operation *)
Definition spec_step (c : cfg) (s : st) (o : operation) : res (opres * st) :=
  match o with
  | ODeref base_type size space =>
      if e_asz (c_enc c) <? size then Err EInvalidDerefSize else
      let* (entry, s1) := pop s in
      let* addr := sp_to_u64 entry in
      if space then
        let* (entry2, s2) := pop s1 in
        let* sp := sp_to_u64 entry2 in
        Ok (RWaiting WMemory (RMemory addr size (Some sp) base_type), s2)
      else Ok (RWaiting WMemory (RMemory addr size None base_type), s1)
  | ODrop => let* (_, s1) := pop s in Ok (RIncomplete, s1)
  | OPick index =>
      match nth_error (s_stack s) (N.to_nat index) with
      | Some v => let* s1 := sp_push c s v in Ok (RIncomplete, s1)
      | None => Err ENotEnoughStackItems
      end
  | OSwap =>
      let* (top, s1) := pop s in
      let* (next, s2) := pop s1 in
      let* s3 := sp_push c s2 top in
      let* s4 := sp_push c s3 next in
      Ok (RIncomplete, s4)
  | ORot =>
      let* (one, s1) := pop s in
      let* (two, s2) := pop s1 in
      let* (three, s3) := pop s2 in
      let* s4 := sp_push c s3 one in
      let* s5 := sp_push c s4 three in
      let* s6 := sp_push c s5 two in
      Ok (RIncomplete, s6)
  | OAbs => sp_unop c s (sp_abs sz)
  | OAnd => sp_binop c s sp_and
  | ODiv => sp_binop c s (sp_div sz F)
  | OMinus => sp_binop c s (sp_sub sz F)
  | OMod => sp_binop c s (sp_rem sz)
  | OMul => sp_binop c s (sp_mul sz F)
  | ONeg => sp_unop c s (sp_neg sz)
  | ONot => sp_unop c s (sp_not sz)
  | OOr => sp_binop c s sp_or
  | OPlus => sp_binop c s (sp_add sz F)
  | OPlusConstant value =>
      let* (lhs, s1) := pop s in
      let* r := sp_add sz F lhs (sp_from_u64 (vty lhs) value) in
      let* s2 := sp_push c s1 r in
      Ok (RIncomplete, s2)
  | OShl => sp_binop c s (sp_shl sz)
  | OShr => sp_binop c s (sp_shr sz)
  | OShra => sp_binop c s (sp_shra sz)
  | OXor => sp_binop c s sp_xor
  | OBra target =>
      let* (entry, s1) := pop s in
      let* v := sp_to_u64 entry in
      if negb (v =? 0) then
        let* pc2 := compute_pc s1 target in Ok (RIncomplete, set_pc s1 pc2)
      else Ok (RIncomplete, s1)
  | OEq => sp_binop c s (sp_eq sz)
  | OGe => sp_binop c s (sp_ge sz)
  | OGt => sp_binop c s (sp_gt sz)
  | OLe => sp_binop c s (sp_le sz)
  | OLt => sp_binop c s (sp_lt sz)
  | ONe => sp_binop c s (sp_ne sz)
  | OSkip target => let* pc2 := compute_pc s target in Ok (RIncomplete, set_pc s pc2)
  | OUnsignedConstant value => let* s1 := sp_push c s (sp_from_u64 TGeneric value) in Ok (RIncomplete, s1)
  | OSignedConstant value => let* s1 := sp_push c s (of_int sz TGeneric value) in Ok (RIncomplete, s1)
  | ORegisterOffset register offset base_type =>
      Ok (RWaiting (WRegister offset) (RRegister register base_type), s)
  | OFrameOffset offset => Ok (RWaiting (WFrameBase offset) RFrameBase, s)
  | ONop => Ok (RIncomplete, s)
  | OPushObjectAddress =>
      match c_obj c with
      | Some v => let* s1 := sp_push c s (mkV TGeneric v) in Ok (RIncomplete, s1)
      | None => Err EInvalidPushObjectAddress
      end
  | OCall offset => Ok (RWaiting WAtLocation (RAtLocation offset), s)
  | OTLS =>
      let* (entry, s1) := pop s in
      let* index := sp_to_u64 entry in
      Ok (RWaiting WTls (RTls index), s1)
  | OCallFrameCFA => Ok (RWaiting WCfa RCfa, s)
  | ORegister register => Ok (RComplete (LRegister register), s)
  | OImplicitValue data => Ok (RComplete (LBytes data), s)
  | OStackValue => let* (v, s1) := pop s in Ok (RComplete (LValue v), s1)
  | OImplicitPointer value byte_offset => Ok (RComplete (LImplicitPointer value byte_offset), s)
  | OEntryValue expression => Ok (RWaiting WEntryValue (REntryValue expression), s)
  | OParameterRef offset => Ok (RWaiting WParameterRef (RParameterRef offset), s)
  | OAddress address => Ok (RWaiting WRelocatedAddress (RRelocatedAddress address), s)
  | OAddressIndex index => Ok (RWaiting WIndexedAddress (RIndexedAddress index true), s)
  | OConstantIndex index => Ok (RWaiting WIndexedAddress (RIndexedAddress index false), s)
  | OPiece size_in_bits bit_offset =>
      let* (loc, s1) :=
        match s_stack s with
        | [] => Ok (LEmpty, s)
        | _ => let* (entry, s1) := pop s in
               let* address := sp_to_u64 entry in
               Ok (LAddress address, s1)
        end in
      let* s2 := push_piece c s1 (mkPiece (Some size_in_bits) bit_offset loc) in
      Ok (RPiece, s2)
  | OTypedLiteral base_type value => Ok (RWaiting (WTypedLiteral value) (RBaseType base_type), s)
  | OConvert base_type => Ok (RWaiting WConvert (RBaseType base_type), s)
  | OReinterpret base_type => Ok (RWaiting WReinterpret (RBaseType base_type), s)
  | OWasmLocal index => Ok (RWaiting WWasmValue (RWasmLocal index), s)
  | OWasmGlobal index => Ok (RWaiting WWasmValue (RWasmGlobal index), s)
  | OWasmStack index => Ok (RWaiting WWasmValue (RWasmStack index), s)
  | OVariableValue _ | OUninitialized => Err EUnsupportedEvaluation
  end.

(* decoding by the operand-layout table of DWARF 5 §7.7.1 (theorem decode_table) *)
Definition sp_decode (e : enc) (pc : list byte) : res (operation * list byte) :=
  match pc with
  | [] => Err EUnexpectedEof
  | opc :: bs => generic_decode true e opc bs
  end.

(* decode the operation at the pc and execute it (the ghost counters count as in the model) *)
Definition spec_one (c : cfg) (s0 : st) : res (opres * st) :=
  let s0 := count_op (count_parse s0) in
  let* (operation, pc') := sp_decode (c_enc c) (s_pc s0) in
  spec_step c (set_pc s0 pc') operation.

Definition sp_finish (c : cfg) (s : st) : res (outcome * st) :=
  match s_result s with
  | [] =>
      let* (entry, s1) := pop s in
      let s2 := set_vres s1 (Some entry) in
      let* addr := sp_to_u64 entry in
      let* s3 := push_piece c s2 (mkPiece None None (LAddress addr)) in
      Ok (Done, s3)
  | _ => Ok (Done, s)
  end.

(* the iteration limit: at most max operations are executed; the counter is a natural number *)
Definition sp_count_iteration (c : cfg) (s : st) : res st :=
  match c_max c with
  | Some m => if m <=? s_iter s then Err ETooManyIterations else Ok (set_iter s (s_iter s + 1))
  | None => Ok s
  end.

Fixpoint sp_internal (fuel : nat) (c : cfg) (s : st) : res (outcome * st) :=
  match fuel with
  | O => OutOfFuel
  | S fuel' =>
      let '(e, s) := end_of_expression s in
      if e then sp_finish c s else
      let* s := sp_count_iteration c s in
      let* (r, s) := spec_one c s in
      match r with
      | RPiece => sp_internal fuel' c s
      | RIncomplete =>
          let '(e, s) := end_of_expression s in
          if e && negb (match s_result s with [] => true | _ => false end) then Err EInvalidPiece
          else sp_internal fuel' c s
      | RComplete loc =>
          let '(e, s) := end_of_expression s in
          if e then
            match s_result s with
            | [] => let* s := push_piece c s (mkPiece None None loc) in
                    sp_internal fuel' c s
            | _ => Err EInvalidPiece
            end
          else
            let s := count_parse s in
            let* (o, pc') := sp_decode (c_enc c) (s_pc s) in
            let s := set_pc s pc' in
            match o with
            | OPiece size_in_bits bit_offset =>
                let* s := push_piece c s (mkPiece (Some size_in_bits) bit_offset loc) in
                sp_internal fuel' c s
            | _ => Err EInvalidExpressionTerminator
            end
      | RWaiting w rq => Ok (Need w rq, s)
      end
  end.

Definition sp_evaluate (fuel : nat) (c : cfg) (bytecode : list byte) : res (outcome * st) :=
  let s := initial_state bytecode in
  let* s := match c_init c with
            | Some v => sp_push c s (mkV TGeneric v)
            | None => Ok s
            end in
  sp_internal fuel c s.

(* the consumer's answer enters the machine (answers are canonical: abs_answer) *)
Definition sp_resume_apply (c : cfg) (w : waiting) (a : answer) (s : st) : res st :=
  match w with
  | WMemory | WWasmValue | WEntryValue => sp_push c s (a_val a)
  | WRegister offset =>
      let value := a_val a in
      let* v := sp_add sz F value (sp_from_u64 (vty value) (of_signed 64 offset)) in
      sp_push c s v
  | WFrameBase offset => sp_push c s (sp_from_u64 TGeneric (a_u64 a + of_signed 64 offset))
  | WTls | WCfa | WParameterRef | WRelocatedAddress | WIndexedAddress => sp_push c s (mkV TGeneric (a_u64 a))
  | WAtLocation =>
      match a_bytes a with
      | [] => Ok s
      | bytes =>
          if full (c_cap_expr c) (s_estack s) then Err EStackFull
          else Ok (set_code s bytes bytes ((s_pc s, s_bytecode s) :: s_estack s))
      end
  | WTypedLiteral v =>
      let* x := value_parse (e_be (c_enc c)) (a_ty a) v in
      sp_push c s x
  | WConvert =>
      let* (entry, s1) := pop s in
      let* x := sp_convert sz F entry (a_ty a) in
      sp_push c s1 x
  | WReinterpret =>
      let* (entry, s1) := pop s in
      let* x := sp_reinterpret sz entry (a_ty a) in
      sp_push c s1 x
  end.

Definition sp_resume (fuel : nat) (c : cfg) (w : waiting) (a : answer) (s : st) : res (outcome * st) :=
  let* s := sp_resume_apply c w a s in
  sp_internal fuel c s.

Fixpoint sp_drive (fuel : nat) (c : cfg) (r : res (outcome * st)) (answers : list answer) : trace :=
  match r with
  | Ok (Done, s) => ([], FComplete (rev (s_result s)) (s_vres s) (s_nops s) (s_nparse s))
  | Ok (Need w rq, s) =>
      match answers with
      | [] => ([rq], FStuck)
      | a :: rest =>
          let '(rqs, f) := sp_drive fuel c (sp_resume fuel c w a s) rest in
          (rq :: rqs, f)
      end
  | Err e => ([], FErr e)
  | Panic => ([], FPanic)
  | OutOfFuel => ([], FOutOfFuel)
  end.

(* the whole conversation: the configuration and the answers are read as canonical values *)
Definition spec_run (fuel : nat) (c : cfg) (program : list byte) (answers : list answer) : trace :=
  let c' := abs_cfg c in
  sp_drive fuel c' (sp_evaluate fuel c' program) (map abs_answer answers).

End Machine.
