(* Spec/MacroSpec.v — what a `.debug_macinfo` list (DWARF 2-4 §6.3) and a DWARF 5 `.debug_macro` unit
   (§6.3, §7.23) mean, and the encoder of well-formed ones.

   Meaning = the list of entries in order.  An entry is what gimli's `MacroEntry` / `MacroString`
   carry: line numbers and indices are unsigned 64-bit values, section offsets are 4 or 8 bytes wide
   according to the unit's offset-size flag, inline strings are the bytes before the terminating NUL.

   The unit header of DWARF 5: version (2 bytes), flags (1 byte: bit 0 = offset_size_flag,
   bit 1 = debug_line_offset_flag, bit 2 = opcode_operands_table_flag), then debug_line_offset
   (4/8 bytes, only if bit 1).  gimli does NOT parse an opcode operands table: a header with bit 2 set
   is rejected with `UnsupportedOpcodeOperandsTable` (after the fields before it were read), so a
   well-formed unit *for this reader* has bit 2 clear; the other five flag bits are ignored.
   A list ends at a zero type byte or at the end of the section. *)
From Coq Require Import List NArith ZArith Bool.
From Coq.Strings Require Import Byte.
Require Import GV.Base.Byt GV.Base.Ints GV.Spec.LebSpec GV.Model.Prim.
Import ListNotations.
Local Open Scope N_scope.

(* MacroString *)
Inductive mstring : Type :=
| MDirect (s : list byte)          (* inline, NUL-terminated in the encoding *)
| MStrp (off : N)                  (* DW_MACRO_*_strp: offset into .debug_str *)
| MStrx (idx : N)                  (* DW_MACRO_*_strx: index into .debug_str_offsets *)
| MSup (off : N).                  (* DW_MACRO_*_sup: offset into the supplementary .debug_str *)

(* MacroEntry *)
Inductive mentry : Type :=
| MDefine (line : N) (text : mstring)
| MUndef (line : N) (name : mstring)
| MStartFile (line file : N)
| MEndFile
| MImport (off : N)
| MImportSup (off : N)
| MVendorExt (numeric : N) (s : list byte).   (* DW_MACINFO_vendor_ext, .debug_macinfo only *)

(* type codes (constants.rs: DW_MACINFO_* = DW_MACRO_* for 1..4) *)
Definition DW_MACRO_define : N := 1.
Definition DW_MACRO_undef : N := 2.
Definition DW_MACRO_start_file : N := 3.
Definition DW_MACRO_end_file : N := 4.
Definition DW_MACRO_define_strp : N := 5.
Definition DW_MACRO_undef_strp : N := 6.
Definition DW_MACRO_import : N := 7.
Definition DW_MACRO_define_sup : N := 8.
Definition DW_MACRO_undef_sup : N := 9.
Definition DW_MACRO_import_sup : N := 10.
Definition DW_MACRO_define_strx : N := 11.
Definition DW_MACRO_undef_strx : N := 12.
Definition DW_MACINFO_vendor_ext : N := 255.

Definition OFFSET_SIZE_FLAG : N := 1.
Definition DEBUG_LINE_OFFSET_FLAG : N := 2.
Definition OPCODE_OPERANDS_TABLE_FLAG : N := 4.

Definition flag_set (flags f : N) : bool := negb (N.land flags f =? 0).

(* ---- encoder ---- *)

Definition off_bytes (fmt64 : bool) : nat := if fmt64 then 8%nat else 4%nat.
Definition enc_off (fmt64 be : bool) (o : N) : list byte := enc_un (off_bytes fmt64) be o.
Definition enc_cstr (s : list byte) : list byte := s ++ [x00].

Definition enc_entry (fmt64 be : bool) (e : mentry) : list byte :=
  match e with
  | MDefine l (MDirect s) => n2b DW_MACRO_define :: enc_uleb l ++ enc_cstr s
  | MUndef l (MDirect s) => n2b DW_MACRO_undef :: enc_uleb l ++ enc_cstr s
  | MStartFile l f => n2b DW_MACRO_start_file :: enc_uleb l ++ enc_uleb f
  | MEndFile => [n2b DW_MACRO_end_file]
  | MDefine l (MStrp o) => n2b DW_MACRO_define_strp :: enc_uleb l ++ enc_off fmt64 be o
  | MUndef l (MStrp o) => n2b DW_MACRO_undef_strp :: enc_uleb l ++ enc_off fmt64 be o
  | MImport o => n2b DW_MACRO_import :: enc_off fmt64 be o
  | MDefine l (MSup o) => n2b DW_MACRO_define_sup :: enc_uleb l ++ enc_off fmt64 be o
  | MUndef l (MSup o) => n2b DW_MACRO_undef_sup :: enc_uleb l ++ enc_off fmt64 be o
  | MImportSup o => n2b DW_MACRO_import_sup :: enc_off fmt64 be o
  | MDefine l (MStrx i) => n2b DW_MACRO_define_strx :: enc_uleb l ++ enc_uleb i
  | MUndef l (MStrx i) => n2b DW_MACRO_undef_strx :: enc_uleb l ++ enc_uleb i
  | MVendorExt n s => n2b DW_MACINFO_vendor_ext :: enc_uleb n ++ enc_cstr s
  end.

Definition enc_entries (fmt64 be : bool) (es : list mentry) : list byte :=
  concat (map (enc_entry fmt64 be) es).

(* ---- well-formedness: exactly the values the encoding can carry ---- *)

Definition no_nul (s : list byte) : bool := forallb (fun b => negb (b2n b =? 0)) s.
Definition fits_off (fmt64 : bool) (o : N) : bool := if fmt64 then o <? two64 else o <? two32.

Definition wf_mstring (is_macro fmt64 : bool) (s : mstring) : bool :=
  match s with
  | MDirect s => no_nul s
  | MStrp o => is_macro && fits_off fmt64 o
  | MStrx i => is_macro && (i <? two64)
  | MSup o => is_macro && fits_off fmt64 o
  end.

(* is_macro = false: a .debug_macinfo list of DW_MACINFO entries; true: a DWARF 5 .debug_macro unit *)
Definition wf_entry (is_macro fmt64 : bool) (e : mentry) : bool :=
  match e with
  | MDefine l s => (l <? two64) && wf_mstring is_macro fmt64 s
  | MUndef l s => (l <? two64) && wf_mstring is_macro fmt64 s
  | MStartFile l f => (l <? two64) && (f <? two64)
  | MEndFile => true
  | MImport o => is_macro && fits_off fmt64 o
  | MImportSup o => is_macro && fits_off fmt64 o
  | MVendorExt n s => negb is_macro && (n <? two64) && no_nul s
  end.

(* how a list ends: at the end of the section, or at a zero type byte (anything may follow it) *)
Definition ends_list (tail : list byte) : Prop := tail = [] \/ exists t, tail = x00 :: t.

(* ---- DWARF 5 unit header ---- *)

Record mheader : Type := {
  mh_version : N;           (* 2 bytes; gimli does not check it *)
  mh_flags : N;             (* 1 byte *)
  mh_line_offset : N        (* debug_line_offset; meaningful iff bit 1 of the flags *)
}.

Definition mh_fmt64 (h : mheader) : bool := flag_set (mh_flags h) OFFSET_SIZE_FLAG.
Definition mh_has_line (h : mheader) : bool := flag_set (mh_flags h) DEBUG_LINE_OFFSET_FLAG.
Definition mh_has_table (h : mheader) : bool := flag_set (mh_flags h) OPCODE_OPERANDS_TABLE_FLAG.

Definition wf_header (h : mheader) : bool :=
  (mh_version h <? two16) && (mh_flags h <? 256) &&
  (if mh_has_line h then fits_off (mh_fmt64 h) (mh_line_offset h) else mh_line_offset h =? 0).

Definition enc_header (be : bool) (h : mheader) : list byte :=
  enc_un 2 be (mh_version h) ++ [n2b (mh_flags h)] ++
  (if mh_has_line h then enc_off (mh_fmt64 h) be (mh_line_offset h) else []).

(* a complete unit: header, entries, zero terminator *)
Definition enc_unit (be : bool) (h : mheader) (es : list mentry) : list byte :=
  enc_header be h ++ enc_entries (mh_fmt64 h) be es ++ [x00].

(* a complete .debug_macinfo list: entries, zero terminator (offsets do not occur: format irrelevant) *)
Definition enc_macinfo (be : bool) (es : list mentry) : list byte :=
  enc_entries false be es ++ [x00].
