(* Spec/UnitGlueSpec.v — what a unit's root DIE and the string / address sections DENOTE for the fields of a
   unit (DWARF 5 §3.1.1-3.1.3 unit attributes, §7.26 string offsets table, §7.27 address table, §7.3.2 split
   DWARF; the GNU DW_AT_GNU_* extensions of DWARF 4 split units), stated as a choice among the attributes:

     last_attr / first_attr   the designated occurrence of an attribute when it is repeated;
     root_choice              for every field: which attribute supplies it (by name AND class of its value),
                              which occurrence wins, and the default when there is none;
     cstr_at                  the NUL-terminated byte string at an offset of a string section;
     str_offsets_header_len   the size of the header of a DWARF 5 .debug_str_offsets contribution.
   Nothing here mentions the reader code; `attr_normalise` (Attribute::value, C03) gives the class of a value. *)
From Coq Require Import List NArith ZArith Bool.
From Coq.Strings Require Import Byte.
Require Import GV.Base.Byt GV.Base.Ints GV.Spec.FormSpec GV.Model.Attr GV.Spec.Forest.
Import ListNotations.
Local Open Scope N_scope.

(* ------------------------------------------------------------------ attribute names (DWARF 5 Table 7.5, GNU) *)
Definition DW_AT_name : N := 3.
Definition DW_AT_low_pc : N := 17.
Definition DW_AT_high_pc : N := 18.
Definition DW_AT_comp_dir : N := 27.
Definition DW_AT_str_offsets_base : N := 114.
Definition DW_AT_addr_base : N := 115.
Definition DW_AT_rnglists_base : N := 116.
Definition DW_AT_dwo_name : N := 118.
Definition DW_AT_loclists_base : N := 140.
Definition DW_AT_GNU_dwo_name : N := 8496.     (* 0x2130 *)
Definition DW_AT_GNU_dwo_id : N := 8497.       (* 0x2131 *)
Definition DW_AT_GNU_ranges_base : N := 8498.  (* 0x2132 *)
Definition DW_AT_GNU_addr_base : N := 8499.    (* 0x2133 *)

(* ------------------------------------------------------------------ attributes of the root entry *)
Definition rattr : Type := (aspec * attr_value)%type.          (* specification + raw value, as read (C02/C03) *)
Definition nm (p : rattr) : N := at_name (fst p).
Definition val (p : rattr) : attr_value := attr_normalise (nm p) (snd p).    (* its value by class *)

Definition last_attr (f : rattr -> bool) (l : list rattr) : option rattr := find f (rev l).
Definition first_attr (f : rattr -> bool) (l : list rattr) : option rattr := find f l.

Definition named (n : N) (p : rattr) : bool := nm p =? n.
Definition named2 (n1 n2 : N) (p : rattr) : bool := (nm p =? n1) || (nm p =? n2).

(* the classes that matter *)
Definition as_line_ref (v : attr_value) : option N := match v with VDebugLineRef o => Some o | _ => None end.
Definition as_sob (v : attr_value) : option N := match v with VDebugStrOffsetsBase o => Some o | _ => None end.
Definition as_addr_base (v : attr_value) : option N := match v with VDebugAddrBase o => Some o | _ => None end.
Definition as_llb (v : attr_value) : option N := match v with VDebugLocListsBase o => Some o | _ => None end.
Definition as_rlb (v : attr_value) : option N := match v with VDebugRngListsBase o => Some o | _ => None end.
Definition as_dwo_id (v : attr_value) : option N := match v with VDwoId i => Some i | _ => None end.

Definition is_some {A} (o : option A) : bool := match o with Some _ => true | None => false end.

(* the LAST attribute with one of the names whose value has the class; else the default *)
Definition last_of_class (sel : rattr -> bool) (cls : attr_value -> option N) (l : list rattr) : option N :=
  match last_attr (fun p => sel p && is_some (cls (val p))) l with
  | Some p => cls (val p)
  | None => None
  end.
Definition first_of_class (sel : rattr -> bool) (cls : attr_value -> option N) (l : list rattr) : option N :=
  match first_attr (fun p => sel p && is_some (cls (val p))) l with
  | Some p => cls (val p)
  | None => None
  end.
Definition or_default (o : option N) (d : N) : N := match o with Some x => x | None => d end.

(* what the root entry says about each field of the unit *)
Record root_choice : Type := mkChoice {
  ch_name : option attr_value;        (* the last DW_AT_name, whatever its form *)
  ch_comp_dir : option attr_value;    (* the last DW_AT_comp_dir *)
  ch_low_pc : option attr_value;      (* the last DW_AT_low_pc *)
  ch_stmt_list : option N;            (* the last DW_AT_stmt_list of class lineptr *)
  ch_str_offsets_base : option N;     (* the last DW_AT_str_offsets_base of class stroffsetsptr *)
  ch_addr_base : option N;            (* the last DW_AT_addr_base or DW_AT_GNU_addr_base of class addrptr *)
  ch_loclists_base : option N;        (* the last DW_AT_loclists_base of class loclistsptr *)
  ch_rnglists_base : option N;        (* the last DW_AT_rnglists_base or DW_AT_GNU_ranges_base of class rnglistsptr *)
  ch_gnu_dwo_id : option N }.         (* the FIRST DW_AT_GNU_dwo_id that is a constant *)

Definition choose (l : list rattr) : root_choice :=
  mkChoice (option_map val (last_attr (named DW_AT_name) l))
           (option_map val (last_attr (named DW_AT_comp_dir) l))
           (option_map val (last_attr (named DW_AT_low_pc) l))
           (last_of_class (named DW_AT_stmt_list) as_line_ref l)
           (last_of_class (named DW_AT_str_offsets_base) as_sob l)
           (last_of_class (named2 DW_AT_addr_base DW_AT_GNU_addr_base) as_addr_base l)
           (last_of_class (named DW_AT_loclists_base) as_llb l)
           (last_of_class (named2 DW_AT_rnglists_base DW_AT_GNU_ranges_base) as_rlb l)
           (first_of_class (named DW_AT_GNU_dwo_id) as_dwo_id l).

(* DWARF 5 unit headers of skeleton and split compilation units carry the dwo id *)
Definition header_id (t : utype) : option N :=
  match t with USkeleton i | USplitCompile i => Some i | _ => None end.

(* ------------------------------------------------------------------ sections *)

(* the bytes before the first NUL at `off` of a string section; None when `off` is outside the section or no NUL
   follows *)
Fixpoint until_nul (bs : list byte) : option (list byte) :=
  match bs with
  | [] => None
  | b :: r => if b2n b =? 0 then Some [] else option_map (cons b) (until_nul r)
  end.
Definition cstr_at (sect : list byte) (off : N) : option (list byte) :=
  if N.of_nat (length sect) <? off then None else until_nul (skipn (N.to_nat off) sect).

(* the header of a DWARF 5 string offsets table (§7.26): unit_length, version (2 bytes), padding (2 bytes) *)
Definition str_offsets_header (bigend fmt64 : bool) (unit_length : N) : list byte :=
  enc_initial_length bigend fmt64 unit_length ++ enc_fixed 2 bigend 5 ++ enc_fixed 2 bigend 0.

(* the implicit base of a unit that has no DW_AT_str_offsets_base: the entries of the only table of a DWARF 5
   .dwo file start right after its header; everywhere else the base is 0 (GNU tables have no header) *)
Definition implicit_str_offsets_base (version : N) (fmt64 dwo : bool) : N :=
  if (5 <=? version) && dwo then (if fmt64 then 16 else 8) else 0.

(* ... and likewise for .debug_rnglists / .debug_loclists (§7.28, §7.29): unit_length, version, address_size,
   segment_selector_size, offset_entry_count *)
Definition implicit_lists_base (version : N) (fmt64 dwo : bool) : N :=
  if (5 <=? version) && dwo then (if fmt64 then 20 else 12) else 0.
