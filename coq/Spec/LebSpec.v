(* Spec/LebSpec.v — the mathematical meaning of LEB128 (DWARF 5 §7.6). *)
From Coq Require Import List NArith ZArith Bool.
From Coq.Strings Require Import Byte.
Require Import GV.Base.Byt.
Import ListNotations.
Local Open Scope N_scope.

Definition cont_bit (b : byte) : bool := negb (N.land (b2n b) 128 =? 0).

(* the unique terminated prefix of a byte string, if any *)
Fixpoint split_leb (bs : list byte) : option (list byte * list byte) :=
  match bs with
  | [] => None
  | b :: r =>
      if cont_bit b then
        match split_leb r with Some (e, rest) => Some (b :: e, rest) | None => None end
      else Some ([b], r)
  end.

(* sum of (b_i land 127) * 128^i *)
Fixpoint uval (enc : list byte) : N :=
  match enc with
  | [] => 0
  | b :: r => N.land (b2n b) 127 + 128 * uval r
  end.

(* two's complement at 7*|enc| bits *)
Definition sval (enc : list byte) : Z :=
  let bits := 7 * N.of_nat (length enc) in
  let u := uval enc in
  if u <? 2 ^ (bits - 1) then Z.of_N u else (Z.of_N u - Z.of_N (2 ^ bits))%Z.

(* minimal encodings, as functions of the value *)
Fixpoint enc_uleb_fuel (fuel : nat) (v : N) : list byte :=
  match fuel with
  | O => []
  | S f => if v <? 128 then [n2b v] else n2b (128 + v mod 128) :: enc_uleb_fuel f (v / 128)
  end.
Definition enc_uleb (v : N) : list byte := enc_uleb_fuel 19 v.   (* 19*7 = 133 bits: enough for u128 *)
