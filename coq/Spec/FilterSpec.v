(* Spec/FilterSpec.v — what C19 demands of the filter, stated on the DIE forest itself
   (no parent stack, no hash map, no worklist).
     unit_pairs u          preorder list of (DIE, its parent DIE); None = child of the unit root
     f_valid               the section offsets at which a (non-root) DIE starts
     f_edge rf             the dependency relation: DIE -> parent, DIE -> every reference `rf` sees in it,
                           parent -> member-like child when the parent is not a namespace
   The reading of the property fixed in DESIGN §5 C19: children of the root DIE have no parent edge in
   either direction (the root is always emitted and treated like a namespace).
   No proofs here. *)
From Coq Require Import List NArith ZArith Bool.
Require Import GV.Base.Res GV.Spec.Graph GV.Model.Filter.
Import ListNotations.
Local Open Scope N_scope.

Fixpoint tree_pairs (top : option entry) (t : tree) : list (entry * option entry) :=
  match t with
  | Node e ks =>
      (e, top) ::
      (fix go (l : list tree) : list (entry * option entry) :=
         match l with [] => [] | k :: l' => tree_pairs (Some e) k ++ go l' end) ks
  end.
Fixpoint forest_pairs (top : option entry) (l : list tree) : list (entry * option entry) :=
  match l with [] => [] | k :: l' => tree_pairs top k ++ forest_pairs top l' end.

Definition unit_pairs (u : unitd) : list (entry * option entry) := forest_pairs None (u_kids u).

(* DIE e of unit u, whose parent is par *)
Definition occurs (units : list unitd) (u : unitd) (e : entry) (par : option entry) : Prop :=
  In u units /\ In (e, par) (unit_pairs u).

Definition f_valid (units : list unitd) (x : N) : Prop :=
  exists u e par, occurs units u e par /\ x = sec u (e_off e).

Inductive f_edge (rf : unitd -> site -> list N) (units : list unitd) : N -> N -> Prop :=
| fe_ref : forall u e par s y,
    occurs units u e par -> In s (e_sites e) -> In y (rf u s) ->
    f_edge rf units (sec u (e_off e)) y
| fe_parent : forall u e pe,
    occurs units u e (Some pe) ->
    f_edge rf units (sec u (e_off e)) (sec u (e_off pe))
| fe_member : forall u e pe,
    occurs units u e (Some pe) ->
    e_tag pe <> DW_TAG_namespace -> has_die_back_edge (e_tag e) (e_decl e) = true ->
    f_edge rf units (sec u (e_off pe)) (sec u (e_off e)).

(* all DIE offsets of the section, in order *)
Definition section_offsets (units : list unitd) : list N :=
  flat_map (fun u => map (fun p => sec u (e_off (fst p))) (unit_pairs u)) units.

(* distinct DIEs start at distinct offsets *)
Definition wf_offsets (units : list unitd) : Prop := NoDup (section_offsets units).

(* layout facts used only for the per-unit slicing: every DIE lies inside its unit, behind the root
   DIE, and the units follow each other in the section *)
Definition unit_end (u : unitd) : N := u_off u + u_hdr u + u_len u.
Definition die_inside (u : unitd) (e : entry) : Prop :=
  u_hdr u < e_off e /\ e_off e < u_hdr u + u_len u.
Fixpoint units_ordered (units : list unitd) : Prop :=
  match units with
  | [] => True
  | u :: us => (forall u', In u' us -> unit_end u <= u_off u') /\ units_ordered us
  end.
Definition wf_layout (units : list unitd) : Prop :=
  units_ordered units /\
  forall u e par, occurs units u e par -> die_inside u e.

(* The four closure clauses of the property for a set T of DIE offsets: T contains the required DIEs, the
   parent of each of its DIEs, every DIE referenced (as seen by `rf`) from one of its DIEs, and the
   member-like children of each of its non-namespace DIEs. *)
Definition dependency_closed (rf : unitd -> site -> list N) (req : N -> bool) (units : list unitd)
           (T : N -> Prop) : Prop :=
  (forall x, f_valid units x -> req x = true -> T x) /\
  (forall u e pe, occurs units u e (Some pe) -> T (sec u (e_off e)) -> T (sec u (e_off pe))) /\
  (forall u e par s y, occurs units u e par -> In s (e_sites e) -> In y (rf u s) ->
                       f_valid units y -> T (sec u (e_off e)) -> T y) /\
  (forall u e pe, occurs units u e (Some pe) -> e_tag pe <> DW_TAG_namespace ->
                  has_die_back_edge (e_tag e) (e_decl e) = true ->
                  T (sec u (e_off pe)) -> T (sec u (e_off e))).
