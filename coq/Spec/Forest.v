(* Spec/Forest.v — what a DWARF unit encodes (DWARF 5 §7.5.1 unit headers, §7.5.2 debugging
   information entries, §7.5.3 abbreviation tables, §2.3 sibling lists and null entries).

   abbrev        one abbreviation declaration: code, tag, children flag, attribute specifications;
   enc_abbrevs   the bytes of an abbreviation table (declarations in any order, any codes);
   uheader       the fields of a unit header; enc_header its bytes for DWARF 2-4 (unit kind given by
                 the section) and DWARF 5 (DW_UT_* byte + kind specific fields), 32/64-bit;
   tree          a debugging information entry with its attributes and its children;
   enc_forest    the bytes of a list of sibling trees placed at a unit offset: abbreviation code
                 (from an arbitrary assignment `codes`), attribute data, children, null terminator;
                 a DW_AT_sibling attribute, wherever one is placed, holds the unit offset just after
                 the entry's subtree;
   preorder      the entries of a forest in the order, and with the unit offsets and depths, that
                 DWARF assigns to them.
   Nothing in this file mentions the reader (Model/Attr.v is imported for the record `aspec` only). *)
From Coq Require Import List NArith ZArith Bool.
From Coq.Strings Require Import Byte.
Require Import GV.Base.Byt GV.Base.Ints GV.Spec.LebSpec GV.Spec.FormSpec GV.Model.Attr.
Import ListNotations.
Local Open Scope N_scope.

Definition nlen {A} (l : list A) : N := N.of_nat (length l).

(* ------------------------------------------------------------------ *)
(** * Abbreviation tables (§7.5.3) *)

Record abbrev : Type := mkAbbrev { ab_code : N; ab_tag : N; ab_children : bool; ab_specs : list aspec }.

Definition enc_spec (s : aspec) : list byte :=
  enc_uleb (at_name s) ++ enc_uleb (at_form s) ++
  (if at_form s =? 33 (* DW_FORM_implicit_const *) then enc_sleb (at_implicit s) else []).

Definition enc_abbrev (a : abbrev) : list byte :=
  enc_uleb (ab_code a) ++ enc_uleb (ab_tag a) ++ [if ab_children a then x01 else x00] ++
  concat (map enc_spec (ab_specs a)) ++ [x00; x00].

(* declarations back to back, then the null abbreviation *)
Definition enc_decls (l : list abbrev) : list byte := concat (map enc_abbrev l).
Definition enc_abbrevs (l : list abbrev) : list byte := enc_decls l ++ [x00].

(* what can be written down at all: the field widths of the format *)
Definition spec_ok (s : aspec) : Prop :=
  0 < at_name s < two16 /\ 0 < at_form s < two16 /\
  (- 9223372036854775808 <= at_implicit s < 9223372036854775808)%Z /\
  (at_form s <> 33 -> at_implicit s = 0%Z).   (* only DW_FORM_implicit_const carries a constant *)
Definition abbrev_ok (a : abbrev) : Prop :=
  0 < ab_code a < two64 /\ 0 < ab_tag a < two16 /\ Forall spec_ok (ab_specs a).

(* ------------------------------------------------------------------ *)
(** * Unit headers (§7.5.1) *)

Inductive utype : Type :=
| UCompile | UType (signature type_offset : N) | UPartial | USkeleton (dwo_id : N)
| USplitCompile (dwo_id : N) | USplitType (signature type_offset : N).

Definition ut_code (t : utype) : N :=
  match t with
  | UCompile => 1 | UType _ _ => 2 | UPartial => 3 | USkeleton _ => 4 | USplitCompile _ => 5
  | USplitType _ _ => 6
  end.

Record uheader : Type :=
  mkUH { uh_version : N; uh_fmt64 : bool; uh_asize : N; uh_type : utype; uh_abbrev_off : N }.

Definition word (fmt64 : bool) : nat := if fmt64 then 8%nat else 4%nat.

Definition enc_utype (bigend fmt64 : bool) (t : utype) : list byte :=
  match t with
  | UCompile | UPartial => []
  | UType s o | USplitType s o => enc_fixed 8 bigend s ++ enc_fixed (word fmt64) bigend o
  | USkeleton i | USplitCompile i => enc_fixed 8 bigend i
  end.

(* everything after the initial length, up to the first entry *)
Definition enc_header_fields (bigend : bool) (h : uheader) : list byte :=
  let w := word (uh_fmt64 h) in
  enc_fixed 2 bigend (uh_version h) ++
  (if uh_version h =? 5
   then [n2b (ut_code (uh_type h)); n2b (uh_asize h)] ++ enc_fixed w bigend (uh_abbrev_off h)
   else enc_fixed w bigend (uh_abbrev_off h) ++ [n2b (uh_asize h)]) ++
  enc_utype bigend (uh_fmt64 h) (uh_type h).

Definition enc_initial_length (bigend fmt64 : bool) (len : N) : list byte :=
  if fmt64 then enc_fixed 4 bigend 4294967295 ++ enc_fixed 8 bigend len else enc_fixed 4 bigend len.

(* unit_length counts the header fields and the entries *)
Definition unit_length_of (bigend : bool) (h : uheader) (body_len : N) : N :=
  nlen (enc_header_fields bigend h) + body_len.

Definition enc_header (bigend : bool) (h : uheader) (body_len : N) : list byte :=
  enc_initial_length bigend (uh_fmt64 h) (unit_length_of bigend h body_len) ++ enc_header_fields bigend h.

Definition header_len (h : uheader) : N := nlen (enc_header false h 0).

Definition enc_unit (bigend : bool) (h : uheader) (body : list byte) : list byte :=
  enc_header bigend h (nlen body) ++ body.

(* `types` = the unit lives in .debug_types. Before DWARF 5 the section decides the unit kind. *)
Definition utype_ok (types : bool) (h : uheader) : Prop :=
  match uh_type h with
  | UCompile => uh_version h = 5 \/ types = false
  | UType s o => (uh_version h = 5 \/ types = true) /\ s < two64 /\ o < 2 ^ (8 * N.of_nat (word (uh_fmt64 h)))
  | UPartial => uh_version h = 5
  | USkeleton i | USplitCompile i => uh_version h = 5 /\ i < two64
  | USplitType s o => uh_version h = 5 /\ s < two64 /\ o < 2 ^ (8 * N.of_nat (word (uh_fmt64 h)))
  end.

Definition uheader_ok (types : bool) (h : uheader) (body_len : N) : Prop :=
  2 <= uh_version h <= 5 /\
  (uh_asize h = 1 \/ uh_asize h = 2 \/ uh_asize h = 4 \/ uh_asize h = 8) /\
  uh_abbrev_off h < 2 ^ (8 * N.of_nat (word (uh_fmt64 h))) /\
  utype_ok types h /\
  (if uh_fmt64 h then unit_length_of false h body_len < two64
   else unit_length_of false h body_len < 4294967280).

(* ------------------------------------------------------------------ *)
(** * Entries (§7.5.2, §2.3) *)

(* one attribute of one entry: its specification in the abbreviation, its bytes in the entry, the
   value it denotes. `resolve` builds it from the form table of Spec/FormSpec.v. *)
Record attr : Type := mkAttr { a_spec : aspec; a_bytes : list byte; a_value : attr_value }.

Record uattr : Type :=
  mkUAttr { u_name : N; u_implicit : Z; u_hops : nat; u_form : form; u_data : raw }.

Definition resolve (e : enc) (u : uattr) : option attr :=
  match enc_layout (form_layout (u_form u) e) (be e) (u_data u),
        form_value e (u_name u) (u_implicit u) (u_form u) (u_data u) with
  | Some p, Some v =>
      Some (mkAttr (mkSpec (u_name u) (spec_form (u_hops u) (u_form u)) (u_implicit u))
                   (enc_hops (u_hops u) (u_form u) ++ p) v)
  | _, _ => None
  end.

Definition DW_AT_sibling : N := 1.

Definition uattr_ok (e : enc) (u : uattr) : Prop :=
  u_form u <> F_indirect /\ (u_form u = F_implicit_const -> u_hops u = O) /\
  raw_fits (form_layout (u_form u) e) (u_data u) /\ u_name u <> DW_AT_sibling.
Definition attr_ok (e : enc) (a : attr) : Prop := exists u, uattr_ok e u /\ resolve e u = Some a.

(* width of a DW_AT_sibling reference: DW_FORM_ref1/2/4/8 *)
Inductive sibw : Type := W1 | W2 | W4 | W8.
Definition sib_len (w : sibw) : nat := match w with W1 => 1 | W2 => 2 | W4 => 4 | W8 => 8 end%nat.
Definition sib_form (w : sibw) : N := match w with W1 => 17 | W2 => 18 | W4 => 19 | W8 => 20 end.
Definition sib_spec (w : sibw) : aspec := mkSpec DW_AT_sibling (sib_form w) 0.

(* an attribute slot of an entry: ordinary data, or a DW_AT_sibling whose value is fixed by the
   position of the entry's next sibling *)
Inductive item : Type := IAttr (a : attr) | ISib (w : sibw).

(* `flag`: the abbreviation says DW_CHILDREN_yes even though the child list is empty *)
Inductive tree : Type := Node (tag : N) (flag : bool) (items : list item) (kids : list tree).

Definition is_nil {A} (l : list A) : bool := match l with [] => true | _ => false end.
Definition t_tag (t : tree) : N := match t with Node tag _ _ _ => tag end.
Definition t_items (t : tree) : list item := match t with Node _ _ items _ => items end.
Definition t_kids (t : tree) : list tree := match t with Node _ _ _ kids => kids end.
Definition has_children (t : tree) : bool :=
  match t with Node _ flag _ kids => flag || negb (is_nil kids) end.

Definition item_spec (it : item) : aspec :=
  match it with IAttr a => a_spec a | ISib w => sib_spec w end.
Definition t_specs (t : tree) : list aspec := map item_spec (t_items t).

(* an abbreviation-code assignment: any function of (tag, children flag, specifications) *)
Definition coding : Type := N -> bool -> list aspec -> N.
Definition t_code (codes : coding) (t : tree) : N := codes (t_tag t) (has_children t) (t_specs t).
Definition t_abbrev (codes : coding) (t : tree) : abbrev :=
  mkAbbrev (t_code codes t) (t_tag t) (has_children t) (t_specs t).

Definition sumN (l : list N) : N := fold_right N.add 0 l.

Definition item_len (it : item) : N :=
  match it with IAttr a => nlen (a_bytes a) | ISib w => N.of_nat (sib_len w) end.

(* number of bytes of an entry together with its subtree *)
Fixpoint tree_size (codes : coding) (t : tree) : N :=
  match t with
  | Node tag flag items kids =>
      nlen (enc_uleb (t_code codes t)) + sumN (map item_len items) +
      (if has_children t then sumN (map (tree_size codes) kids) + 1 else 0)
  end.

(* sibling trees back to back, the first one at unit offset `off` *)
Definition on_list {A} (f : N -> tree -> list A) (size : tree -> N) : N -> list tree -> list A :=
  fix go (off : N) (l : list tree) : list A :=
    match l with
    | [] => []
    | t :: r => f off t ++ go (off + size t) r
    end.

Definition enc_item (bigend : bool) (next : N) (it : item) : list byte :=
  match it with IAttr a => a_bytes a | ISib w => enc_fixed (sib_len w) bigend next end.

(* offset of the first child = offset of the entry + code + attribute data *)
Definition kids_off (codes : coding) (off : N) (t : tree) : N :=
  off + nlen (enc_uleb (t_code codes t)) + sumN (map item_len (t_items t)).

Fixpoint enc_tree (codes : coding) (bigend : bool) (off : N) (t : tree) : list byte :=
  match t with
  | Node tag flag items kids =>
      let next := off + tree_size codes t in
      enc_uleb (t_code codes t) ++ concat (map (enc_item bigend next) items) ++
      (if has_children t
       then on_list (enc_tree codes bigend) (tree_size codes) (kids_off codes off t) kids ++ [x00]
       else [])
  end.

(* a unit's entries: sibling trees at depth 0 starting at `off`, then `pad` null entries *)
Definition enc_forest (codes : coding) (bigend : bool) (off : N) (f : list tree) (pad : nat) : list byte :=
  on_list (enc_tree codes bigend) (tree_size codes) off f ++ repeat x00 pad.

(* ---- what is reported ---- *)
Record die : Type :=
  mkDie { d_offset : N; d_depth : Z; d_tag : N; d_children : bool; d_attrs : list (aspec * attr_value) }.

Definition item_val (next : N) (it : item) : aspec * attr_value :=
  match it with IAttr a => (a_spec a, a_value a) | ISib w => (sib_spec w, VUnitRef next) end.

Definition root_die (codes : coding) (off : N) (depth : Z) (t : tree) : die :=
  mkDie off depth (t_tag t) (has_children t) (map (item_val (off + tree_size codes t)) (t_items t)).

Fixpoint pre_tree (codes : coding) (depth : Z) (off : N) (t : tree) : list die :=
  match t with
  | Node tag flag items kids =>
      root_die codes off depth t ::
      on_list (pre_tree codes (depth + 1)) (tree_size codes) (kids_off codes off t) kids
  end.

Definition preorder (codes : coding) (off : N) (depth : Z) (f : list tree) : list die :=
  on_list (pre_tree codes depth) (tree_size codes) off f.

(* the entries of a sibling list *)
Definition roots (codes : coding) (off : N) (depth : Z) (f : list tree) : list die :=
  on_list (fun o t => [root_die codes o depth t]) (tree_size codes) off f.

(* the forest as a tree of reported entries *)
Inductive dtree : Type := DNode (d : die) (kids : list dtree).
Fixpoint dtree_of (codes : coding) (depth : Z) (off : N) (t : tree) : dtree :=
  match t with
  | Node tag flag items kids =>
      DNode (root_die codes off depth t)
            (on_list (fun o k => [dtree_of codes (depth + 1) o k]) (tree_size codes) (kids_off codes off t) kids)
  end.

(* what reading one entry after the other reports: the entries in preorder and, after the children of
   every entry whose abbreviation says DW_CHILDREN_yes, the null entry ending the list (reported at
   the depth of the children); trailing padding is a run of null entries, each one level further up *)
Definition null_at (off : N) (depth : Z) : die := mkDie off depth 0 false [].

Fixpoint seq_tree (codes : coding) (depth : Z) (off : N) (t : tree) : list die :=
  match t with
  | Node tag flag items kids =>
      root_die codes off depth t ::
      (if has_children t
       then on_list (seq_tree codes (depth + 1)) (tree_size codes) (kids_off codes off t) kids ++
            [null_at (off + tree_size codes t - 1) (depth + 1)]
       else [])
  end.

Fixpoint pad_nulls (off : N) (depth : Z) (n : nat) : list die :=
  match n with
  | O => []
  | S k => null_at off depth :: pad_nulls (off + 1) (depth - 1) k
  end.

Definition forest_size (codes : coding) (f : list tree) : N := sumN (map (tree_size codes) f).

Definition raw_seq (codes : coding) (off : N) (f : list tree) (pad : nat) : list die :=
  on_list (seq_tree codes 0) (tree_size codes) off f ++ pad_nulls (off + forest_size codes f) 0 pad.

(* all entries of a forest *)
Fixpoint nodes (t : tree) : list tree :=
  match t with Node _ _ _ kids => t :: flat_map nodes kids end.
Definition forest_nodes (f : list tree) : list tree := flat_map nodes f.

(* ---- well-formedness ---- *)
(* attributes are DWARF attributes under the unit's encoding; tags and codes are writable *)
Definition node_ok (codes : coding) (e : enc) (t : tree) : Prop :=
  abbrev_ok (t_abbrev codes t) /\
  Forall (fun it => match it with IAttr a => attr_ok e a | ISib _ => True end) (t_items t).
Definition forest_ok (codes : coding) (e : enc) (f : list tree) : Prop :=
  Forall (node_ok codes e) (forest_nodes f).

(* every entry with its unit offset *)
Fixpoint placed (codes : coding) (off : N) (t : tree) : list (N * tree) :=
  match t with
  | Node tag flag items kids =>
      (off, t) :: on_list (placed codes) (tree_size codes) (kids_off codes off t) kids
  end.

(* every DW_AT_sibling value fits its form *)
Definition node_fits (codes : coding) (p : N * tree) : Prop :=
  Forall (fun it => match it with
                    | ISib w => fst p + tree_size codes (snd p) < 2 ^ (8 * N.of_nat (sib_len w))
                    | IAttr _ => True end) (t_items (snd p)).
Definition sibs_fit (codes : coding) (off : N) (f : list tree) : Prop :=
  Forall (node_fits codes) (on_list (placed codes) (tree_size codes) off f).

(* the assignment gives different codes to different abbreviations of the forest *)
Definition codes_injective (codes : coding) (f : list tree) : Prop :=
  forall t1 t2, In t1 (forest_nodes f) -> In t2 (forest_nodes f) ->
  t_code codes t1 = t_code codes t2 -> t_abbrev codes t1 = t_abbrev codes t2.

(* the abbreviation table of a forest: one declaration per distinct abbreviation, first use first *)
Definition aspec_eqb (a b : aspec) : bool :=
  (at_name a =? at_name b) && (at_form a =? at_form b) && (at_implicit a =? at_implicit b)%Z.
Fixpoint specs_eqb (a b : list aspec) : bool :=
  match a, b with
  | [], [] => true
  | x :: a', y :: b' => aspec_eqb x y && specs_eqb a' b'
  | _, _ => false
  end.
Definition abbrev_eqb (a b : abbrev) : bool :=
  (ab_code a =? ab_code b) && (ab_tag a =? ab_tag b) && Bool.eqb (ab_children a) (ab_children b) &&
  specs_eqb (ab_specs a) (ab_specs b).
Fixpoint dedup (l : list abbrev) : list abbrev :=
  match l with
  | [] => []
  | a :: r => a :: filter (fun b => negb (abbrev_eqb a b)) (dedup r)
  end.
Definition forest_abbrevs (codes : coding) (f : list tree) : list abbrev :=
  dedup (map (t_abbrev codes) (forest_nodes f)).
