(* Spec/CfiSpec.v — what a .debug_frame / .eh_frame section *means* (DWARF 5 §6.4.1, LSB "Exception
   Frames"), written as an encoder from abstract entries to bytes plus the meaning of an encoded
   pointer. No reference to the reader model: these are the definitions the generators use to
   build structured inputs and the theorems of Properties/C05.v are stated against. *)
From Coq Require Import List NArith ZArith Bool.
From Coq.Strings Require Import Byte.
Require Import GV.Base.Byt GV.Spec.LebSpec.
Import ListNotations.
Local Open Scope N_scope.

(* ------------------------------------------------------------------ DW_EH_PE_* (LSB 10.5.1) *)
(* a pointer-encoding byte is `format | application | indirect`, or the single value 0xff = omit *)
Definition fmt_of (e : N) : N := e mod 16.
Definition app_of (e : N) : N := (e / 16) mod 8 * 16.
Definition ind_of (e : N) : N := e / 128 * 128.

(* formats: absptr 0, uleb128 1, udata2 2, udata4 3, udata8 4, sleb128 9, sdata2 10, sdata4 11, sdata8 12 *)
Definition fmt_valid (f : N) : bool := existsb (N.eqb f) [0; 1; 2; 3; 4; 9; 10; 11; 12].
(* applications: absptr 0x00, pcrel 0x10, textrel 0x20, datarel 0x30, funcrel 0x40, aligned 0x50 *)
Definition app_valid (a : N) : bool := existsb (N.eqb a) [0; 16; 32; 48; 64; 80].

Definition valid_spec (e : N) : bool := (e =? 255) || (fmt_valid (fmt_of e) && app_valid (app_of e)).

(* ------------------------------------------------------------------ integers in bytes *)
Fixpoint le_n (n : nat) (v : N) : list byte :=
  match n with O => [] | S k => n2b v :: le_n k (v / 256) end.
Definition un_bytes (n : nat) (be : bool) (v : N) : list byte := if be then rev (le_n n v) else le_n n v.

(* signed LEB128 (DWARF 5 §7.6, Figure 47) of an integer *)
Fixpoint enc_sleb_fuel (fuel : nat) (z : Z) : list byte :=
  match fuel with
  | O => []
  | S f =>
      let b := (z mod 128)%Z in
      let z' := (z / 128)%Z in
      if ((z' =? 0)%Z && (b <? 64)%Z) || ((z' =? -1)%Z && (64 <=? b)%Z) then [n2b (Z.to_N b)]
      else n2b (128 + Z.to_N b) :: enc_sleb_fuel f z'
  end.
Definition enc_sleb (z : Z) : list byte := enc_sleb_fuel 19 z.

(* the 64-bit two's complement reading of a u64 *)
Definition s64 (v : N) : Z := if v <? 2 ^ 63 then Z.of_N v else (Z.of_N v - 2 ^ 64)%Z.

(* ------------------------------------------------------------------ encoded values and pointers *)
(* `v` is the value as the consumer sees it: a u64; for the signed formats the sign-extended
   64-bit pattern. value_fits says v is representable in the format. *)
Definition value_fits (fmt asz v : N) : bool :=
  if fmt =? 0 then v <? 2 ^ (8 * asz)
  else if fmt =? 1 then v <? 2 ^ 64
  else if fmt =? 2 then v <? 2 ^ 16
  else if fmt =? 3 then v <? 2 ^ 32
  else if fmt =? 4 then v <? 2 ^ 64
  else if fmt =? 9 then v <? 2 ^ 64
  else if fmt =? 10 then (v <? 2 ^ 15) || ((2 ^ 64 - 2 ^ 15 <=? v) && (v <? 2 ^ 64))
  else if fmt =? 11 then (v <? 2 ^ 31) || ((2 ^ 64 - 2 ^ 31 <=? v) && (v <? 2 ^ 64))
  else if fmt =? 12 then v <? 2 ^ 64
  else false.

Definition enc_value (fmt asz : N) (be : bool) (v : N) : list byte :=
  if fmt =? 0 then un_bytes (N.to_nat asz) be v
  else if fmt =? 1 then enc_uleb v
  else if fmt =? 2 then un_bytes 2 be v
  else if fmt =? 3 then un_bytes 4 be v
  else if fmt =? 4 then un_bytes 8 be v
  else if fmt =? 9 then enc_sleb (s64 v)
  else if fmt =? 10 then un_bytes 2 be v
  else if fmt =? 11 then un_bytes 4 be v
  else if fmt =? 12 then un_bytes 8 be v
  else [].

(* base addresses available to a pointer (None = not provided) *)
Record pbases := mkpb { b_section : option N; b_text : option N; b_data : option N; b_func : option N }.

(* the base selected by the application; `pos` = offset of the encoded field in its section *)
Definition base_spec (app asz : N) (b : pbases) (pos : N) : option N :=
  if app =? 0 then Some 0
  else if app =? 16 then match b_section b with Some s => Some ((s + pos) mod 2 ^ (8 * asz)) | None => None end
  else if app =? 32 then b_text b
  else if app =? 48 then b_data b
  else if app =? 64 then b_func b
  else None.

(* the address an encoded pointer denotes: (base + value) truncated to the address size; the
   indirect bit only marks the result as the address *of* the pointer *)
Definition ptr_spec (enc asz : N) (b : pbases) (pos v : N) : option (bool * N) :=
  match base_spec (app_of enc) asz b pos with
  | Some base => Some (negb (ind_of enc =? 0), (base + v) mod 2 ^ (8 * asz))
  | None => None
  end.

(* ------------------------------------------------------------------ entries *)
(* augmentation characters after the leading 'z', each with its CIE augmentation data *)
Inductive aug_item :=
| AL (enc : N)                (* 'L': LSDA pointer encoding *)
| AP (enc : N) (raw : N)      (* 'P': personality encoding + encoded value *)
| AR (enc : N)                (* 'R': FDE address encoding *)
| AS.                         (* 'S': signal frame, no data *)

Record cie_rec := mkcie_rec {
  c_fmt64 : bool; c_ver : N; c_z : bool; c_items : list aug_item;
  c_asz : N;                  (* address_size field, present only in version 4 .debug_frame *)
  c_caf : N; c_daf : Z; c_rar : N; c_instr : list byte }.

Record fde_rec := mkfde_rec {
  f_fmt64 : bool; f_cie : nat;          (* index of its CIE in the entry list *)
  f_init : N; f_range : N;              (* encoded values of initial_location / address_range *)
  f_lsda : N;                           (* encoded LSDA value, present iff the CIE has 'L' *)
  f_pad : list byte;                    (* further augmentation data bytes *)
  f_instr : list byte }.

Inductive entry := ECie (c : cie_rec) | EFde (f : fde_rec) | EZero.   (* EZero: a 4-byte zero length *)

Definition item_char (i : aug_item) : N :=
  match i with AL _ => 76 | AP _ _ => 80 | AR _ => 82 | AS => 83 end.
Definition item_data (asz : N) (be : bool) (i : aug_item) : list byte :=
  match i with
  | AL e => [n2b e]
  | AP e raw => n2b e :: enc_value (fmt_of e) asz be raw
  | AR e => [n2b e]
  | AS => []
  end.

(* the 'L' / 'R' encoding in force: a later occurrence overrides an earlier one *)
Fixpoint find_L (l : list aug_item) : option N :=
  match l with
  | [] => None
  | i :: r => match find_L r with
              | Some e => Some e
              | None => match i with AL e => Some e | _ => None end
              end
  end.
Fixpoint find_R (l : list aug_item) : option N :=
  match l with
  | [] => None
  | i :: r => match find_R r with
              | Some e => Some e
              | None => match i with AR e => Some e | _ => None end
              end
  end.
Definition has_aug (c : cie_rec) : bool := c_z c || negb (match c_items c with [] => true | _ => false end).

(* section-level parameters: eh = .eh_frame, asz0 = address size of the target (used unless the
   CIE is a version-4 .debug_frame CIE, which carries its own) *)
Record sparams := mksp { s_eh : bool; s_be : bool; s_asz : N }.

Definition cie_asz (sp : sparams) (c : cie_rec) : N :=
  if negb (s_eh sp) && (c_ver c =? 4) then c_asz c else s_asz sp.

Definition initial_length (be fmt64 : bool) (len : N) : list byte :=
  if fmt64 then un_bytes 4 be 4294967295 ++ un_bytes 8 be len else un_bytes 4 be len.
Definition len_field_size (fmt64 : bool) : N := if fmt64 then 12 else 4.
Definition id_size (sp : sparams) (fmt64 : bool) : N := if negb (s_eh sp) && fmt64 then 8 else 4.

Definition blen (l : list byte) : N := N.of_nat (length l).

(* CIE body after the id field *)
Definition cie_tail (sp : sparams) (c : cie_rec) : list byte :=
  let asz := cie_asz sp c in
  let be := s_be sp in
  let data := concat (map (item_data asz be) (c_items c)) in
  [n2b (c_ver c)]
  ++ (if c_z c then [n2b 122] else []) ++ map (fun i => n2b (item_char i)) (c_items c) ++ [n2b 0]
  ++ (if negb (s_eh sp) && (c_ver c =? 4) then [n2b (c_asz c); n2b 0] else [])
  ++ enc_uleb (c_caf c) ++ enc_sleb (c_daf c)
  ++ (if c_ver c =? 1 then [n2b (c_rar c)] else enc_uleb (c_rar c))
  ++ (if c_z c then enc_uleb (blen data) ++ data else [])
  ++ c_instr c.

Definition cie_id (sp : sparams) (fmt64 : bool) : list byte :=
  if s_eh sp then un_bytes 4 (s_be sp) 0
  else if fmt64 then un_bytes 8 (s_be sp) 18446744073709551615
  else un_bytes 4 (s_be sp) 4294967295.

Definition enc_cie (sp : sparams) (c : cie_rec) : list byte :=
  let body := cie_id sp (c_fmt64 c) ++ cie_tail sp c in
  initial_length (s_be sp) (c_fmt64 c) (blen body) ++ body.

(* FDE body after the CIE pointer, given its CIE *)
Definition fde_tail (sp : sparams) (c : cie_rec) (f : fde_rec) : list byte :=
  let asz := cie_asz sp c in
  let be := s_be sp in
  let afmt := match find_R (c_items c) with Some e => fmt_of e | None => 0 end in
  let ad := (match find_L (c_items c) with Some e => enc_value (fmt_of e) asz be (f_lsda f) | None => [] end)
            ++ f_pad f in
  enc_value afmt asz be (f_init f) ++ enc_value afmt asz be (f_range f)
  ++ (if has_aug c then enc_uleb (blen ad) ++ ad else [])
  ++ f_instr f.

(* the CIE pointer of an FDE whose id field sits at offset `pos`, for a CIE at offset `co` *)
Definition cie_pointer (sp : sparams) (fmt64 : bool) (pos co : N) : list byte :=
  if s_eh sp then un_bytes 4 (s_be sp) (pos - co)
  else if fmt64 then un_bytes 8 (s_be sp) co else un_bytes 4 (s_be sp) co.

Definition enc_fde (sp : sparams) (c : cie_rec) (co : N) (o : N) (f : fde_rec) : list byte :=
  let pos := o + len_field_size (f_fmt64 f) in
  let body := cie_pointer sp (f_fmt64 f) pos co ++ fde_tail sp c f in
  initial_length (s_be sp) (f_fmt64 f) (blen body) ++ body.

Definition dummy_cie : cie_rec := mkcie_rec false 1 false [] 8 1 1 0 [].

Definition cie_at (es : list entry) (i : nat) : option cie_rec :=
  match nth_error es i with Some (ECie c) => Some c | _ => None end.

(* size of an entry: independent of where it and its CIE are placed *)
Definition entry_size (sp : sparams) (es : list entry) (e : entry) : N :=
  match e with
  | ECie c => blen (enc_cie sp c)
  | EFde f => blen (enc_fde sp (match cie_at es (f_cie f) with Some c => c | None => dummy_cie end) 0 0 f)
  | EZero => 4
  end.

Fixpoint offsets_from (sp : sparams) (es : list entry) (o : N) (l : list entry) : list N :=
  match l with
  | [] => []
  | e :: r => o :: offsets_from sp es (o + entry_size sp es e) r
  end.
Definition offsets (sp : sparams) (es : list entry) : list N := offsets_from sp es 0 es.

Definition enc_entry (sp : sparams) (es : list entry) (offs : list N) (o : N) (e : entry) : list byte :=
  match e with
  | ECie c => enc_cie sp c
  | EFde f =>
      enc_fde sp (match cie_at es (f_cie f) with Some c => c | None => dummy_cie end)
              (nth (f_cie f) offs 0) o f
  | EZero => un_bytes 4 (s_be sp) 0
  end.

Fixpoint enc_entries (sp : sparams) (es : list entry) (offs : list N) (o : N) (l : list entry) : list byte :=
  match l with
  | [] => []
  | e :: r => enc_entry sp es offs o e ++ enc_entries sp es offs (o + entry_size sp es e) r
  end.

Definition enc_section (sp : sparams) (es : list entry) : list byte :=
  enc_entries sp es (offsets sp es) 0 es.

(* ------------------------------------------------------------------ .eh_frame_hdr *)
(* version 1, three encoding bytes, eh_frame_ptr, fde_count, then fde_count rows of
   (initial_location, fde address), both in table_enc *)
Record hdr_rec := mkhdr_rec {
  h_ptr_enc : N; h_cnt_enc : N; h_tbl_enc : N;
  h_ptr_raw : N; h_cnt : N; h_rows : list (N * N) }.    (* rows hold encoded values *)

Definition enc_hdr (be : bool) (asz : N) (h : hdr_rec) : list byte :=
  [n2b 1; n2b (h_ptr_enc h); n2b (h_cnt_enc h); n2b (h_tbl_enc h)]
  ++ enc_value (fmt_of (h_ptr_enc h)) asz be (h_ptr_raw h)
  ++ enc_value (fmt_of (h_cnt_enc h)) asz be (h_cnt h)
  ++ concat (map (fun r => enc_value (fmt_of (h_tbl_enc h)) asz be (fst r)
                            ++ enc_value (fmt_of (h_tbl_enc h)) asz be (snd r)) (h_rows h)).

(* ------------------------------------------------------------------ table search *)
(* index of the last row whose location is <= a, 0 when there is none *)
Fixpoint last_le_from (locs : list N) (a : N) (i best : nat) : nat :=
  match locs with
  | [] => best
  | l :: r => last_le_from r a (S i) (if l <=? a then i else best)
  end.
Definition bs_index (locs : list N) (a : N) : nat := last_le_from locs a 0 0.

Definition strictly_sorted (locs : list N) : Prop :=
  forall i j, (i < j)%nat -> (j < length locs)%nat -> nth i locs 0 < nth j locs 0.
