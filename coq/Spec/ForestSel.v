(* Spec/ForestSel.v — what a PARTIAL traversal of an encoded forest has to report.

   A selection strategy `sel` is asked at every entry the traversal visits:
     sel d = None      the children of d are not requested;
     sel d = Some n    the children of d are iterated, and the traversal goes back to the list d
                       belongs to after n children (n larger than the number of children: all).
   A strategy may inspect the whole entry (offset, depth, tag, attribute values); entries of one unit
   have distinct offsets, so every adaptive way of driving the API over one unit is some `sel`.

   sel_tree      the entries reported when the traversal starts at the entry t placed at unit offset
                 `off` and reported at depth `depth`: t itself, then — if selected — its first n
                 children in order, each with its own selected sub-forest (preorder of the selected
                 sub-forest; offsets and depths are those DWARF assigns, see Spec/Forest.v).
   Nothing in this file mentions the reader. *)
From Coq Require Import List NArith ZArith Bool.
Require Import GV.Spec.Forest.
Import ListNotations.
Local Open Scope N_scope.

Definition strategy : Type := die -> option nat.

(* `on_list f size off (firstn n l)`, written so that a recursive `f` is accepted *)
Definition on_first {A} (f : N -> tree -> list A) (size : tree -> N) : nat -> N -> list tree -> list A :=
  fix go (n : nat) (off : N) (l : list tree) {struct l} : list A :=
    match l with
    | [] => []
    | t :: r => match n with O => [] | S n' => f off t ++ go n' (off + size t) r end
    end.

Fixpoint sel_tree (codes : coding) (sel : strategy) (depth : Z) (off : N) (t : tree) : list die :=
  match t with
  | Node tag flag items kids =>
      root_die codes off depth t ::
      match sel (root_die codes off depth t) with
      | None => []
      | Some n =>
          on_first (sel_tree codes sel (depth + 1)) (tree_size codes) n (kids_off codes off t) kids
      end
  end.

(* the selected part of a sibling list: its first n trees *)
Definition sel_list (codes : coding) (sel : strategy) (depth : Z) (off : N) (n : nat) (l : list tree) : list die :=
  on_first (sel_tree codes sel depth) (tree_size codes) n off l.
