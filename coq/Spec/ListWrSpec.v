(* Spec/ListWrSpec.v — what a range list / location list handed to gimli's WRITER means, and how the
   bytes the writer emits are decoded (C16).

   * `wrange` / `wloc`   : the lists a user builds (write::Range, write::Location; expressions are opaque
                            byte blobs, `Expression::raw`).
   * `ent`               : one decoded list entry, addresses as numbers.
   * `resolve`           : DWARF 5 §2.17.3 (range lists) / §2.6.2 (location lists): a running base address,
                            offset pairs relative to it, start/end and start/length absolute, default location;
                            the pre-v5 "address or offset pair" is base-relative. Entries that denote no address
                            are dropped exactly as gimli's reading API documents: begin >= end (empty/inverted),
                            begin at or above the tombstone -2 (at the address size), and offset pairs while the
                            base address itself is a tombstone.
   * `meaning_rng/loc`   : the meaning of a WRITTEN list relative to the unit base address = resolve of its
                            entries (defined only when every address is a constant; symbolic addresses need a
                            relocating writer and are outside this spec).
   * `rejected`          : the lists the pre-v5 pair format cannot hold unambiguously, with the error each one gets.
   * `dec5` / `dec4`     : decoders of the bytes the writers emit: DWARF 5 DW_RLE_* / DW_LLE_* entries and
                            the pre-v5 pair format (terminator (0,0), base selection = all-ones at the
                            address size; location entries carry a u16 length + expression bytes).
   No proofs in this file. *)
From Coq Require Import List NArith ZArith Bool.
From Coq.Strings Require Import Byte.
Require Import GV.Base.Res GV.Base.Byt GV.Base.Ints GV.Model.Leb GV.Model.Prim.
Import ListNotations.
Local Open Scope N_scope.

(* write::Address *)
Inductive addr : Type :=
| AConst (v : N)                       (* Address::Constant(u64) *)
| ASym (sym : N) (addend : Z).         (* Address::Symbol { symbol: usize, addend: i64 } *)

(* write::Range *)
Inductive wrange : Type :=
| RBase (a : addr)
| ROffsetPair (b e : N)
| RStartEnd (b e : addr)
| RStartLength (b : addr) (len : N).

(* write::Location; d = the raw expression bytes *)
Inductive wloc : Type :=
| LBase (a : addr)
| LOffsetPair (b e : N) (d : list byte)
| LStartEnd (b e : addr) (d : list byte)
| LStartLength (b : addr) (len : N) (d : list byte)
| LDefault (d : list byte).

(* a range is a location without data *)
Definition loc_of_range (r : wrange) : wloc :=
  match r with
  | RBase a => LBase a
  | ROffsetPair b e => LOffsetPair b e []
  | RStartEnd b e => LStartEnd b e []
  | RStartLength b len => LStartLength b len []
  end.

(* values representable in the Rust types (u64 / usize / i64) *)
Definition addr_wf (a : addr) : Prop :=
  match a with
  | AConst v => v < 2 ^ 64
  | ASym s z => s < 2 ^ 64 /\ (- 2 ^ 63 <= z < 2 ^ 63)%Z
  end.
Definition wloc_wf (x : wloc) : Prop :=
  match x with
  | LBase a => addr_wf a
  | LOffsetPair b e _ => b < 2 ^ 64 /\ e < 2 ^ 64
  | LStartEnd b e _ => addr_wf b /\ addr_wf e
  | LStartLength b len _ => addr_wf b /\ len < 2 ^ 64
  | LDefault _ => True
  end.

(* ---------------------------------------------------------------- decoded entries and their meaning *)

Inductive ent : Type :=
| EBase (a : N)
| EOffsetPair (b e : N) (d : list byte)
| EStartEnd (b e : N) (d : list byte)
| EStartLength (b len : N) (d : list byte)
| EDefault (d : list byte)
| EPair (b e : N) (d : list byte).       (* pre-v5 address-or-offset pair *)

Definition amod (asz : N) : N := 2 ^ (8 * asz).
Definition tombstone (asz : N) : N := amod asz - 2.       (* -2 at the address size; -1 is above it *)

(* a resolved range denotes addresses *)
Definition keep (asz : N) (r : N * N) : bool := (fst r <? snd r) && (fst r <? tombstone asz).

Definition emit (asz : N) (r : N * N) (d : list byte) (rest : list ((N * N) * list byte)) :=
  if keep asz r then (r, d) :: rest else rest.

Fixpoint resolve (asz base : N) (l : list ent) : list ((N * N) * list byte) :=
  match l with
  | [] => []
  | EBase a :: r => resolve asz a r
  | EOffsetPair b e d :: r | EPair b e d :: r =>
      if tombstone asz <=? base then resolve asz base r
      else emit asz ((base + b) mod amod asz, (base + e) mod amod asz) d (resolve asz base r)
  | EStartEnd b e d :: r => emit asz (b, e) d (resolve asz base r)
  | EStartLength b len d :: r => emit asz (b, (b + len) mod amod asz) d (resolve asz base r)
  | EDefault d :: r => ((0, 2 ^ 64 - 1), d) :: resolve asz base r
  end.

(* the entries a written list stands for (None: a symbolic address) *)
Definition ent_of (x : wloc) : option ent :=
  match x with
  | LBase (AConst a) => Some (EBase a)
  | LOffsetPair b e d => Some (EOffsetPair b e d)
  | LStartEnd (AConst b) (AConst e) d => Some (EStartEnd b e d)
  | LStartLength (AConst b) len d => Some (EStartLength b len d)
  | LDefault d => Some (EDefault d)
  | _ => None
  end.

Fixpoint ents_of (l : list wloc) : option (list ent) :=
  match l with
  | [] => Some []
  | x :: r => match ent_of x, ents_of r with
              | Some e, Some es => Some (e :: es)
              | _, _ => None
              end
  end.

Definition meaning_loc (asz base : N) (l : list wloc) : option (list ((N * N) * list byte)) :=
  option_map (resolve asz base) (ents_of l).
Definition meaning_rng (asz base : N) (l : list wrange) : option (list (N * N)) :=
  option_map (fun es => map fst (resolve asz base es)) (ents_of (map loc_of_range l)).

(* the pairs a pre-v5 list is written as (what a reader of the pair format sees when nothing is ambiguous):
   every entry kind collapses to "address or offset pair"; start+length is summed (the writer rejects a sum
   that does not fit u64) *)
Definition pair_of (x : wloc) : option ent :=
  match x with
  | LBase (AConst a) => Some (EBase a)
  | LOffsetPair b e d => Some (EPair b e d)
  | LStartEnd (AConst b) (AConst e) d => Some (EPair b e d)
  | LStartLength (AConst b) len d => Some (EPair b (b + len) d)
  | _ => None
  end.
Fixpoint pairs_of (l : list wloc) : option (list ent) :=
  match l with
  | [] => Some []
  | x :: r => match pair_of x, pairs_of r with
              | Some e, Some es => Some (e :: es)
              | _, _ => None
              end
  end.

(* ---------------------------------------------------------------- lists the pre-v5 encoding must reject *)

(* #[derive(PartialEq)] on Address *)
Definition addr_eqb (a b : addr) : bool :=
  match a, b with
  | AConst x, AConst y => x =? y
  | ASym s z, ASym s' z' => (s =? s') && (z =? z')%Z
  | _, _ => false
  end.

(* begin + length representable in the Rust types: u64 for a constant address; for a symbolic address the length
   must fit i64 (i64::try_from) and addend + length must not overflow i64 *)
Definition sum_fits (x : wloc) : bool :=
  match x with
  | LStartLength (AConst b) len _ => b + len <? 2 ^ 64
  | LStartLength (ASym _ a) len _ => (len <? 2 ^ 63) && in_i64 (a + Z.of_N len)
  | _ => true
  end.

(* the first word of a base-address selection entry: all ones at the address size *)
Definition marker (asz : N) : N := amod asz - 1.

(* hb = a base address is in force (the unit has one, or a BaseAddress entry came earlier in this list).
   Empty ranges (begin = end, length 0) could be taken for the (0,0) terminator; a pair of offsets needs a base;
   a pair of addresses must not be added to one; an entry that begins with the marker would be read back as a base
   address selection; a start+length whose end is not representable cannot be written; there is no
   default-location entry before v5. The order of the tests is the order of the code. *)
Definition reject_entry (asz : N) (hb : bool) (x : wloc) : option error :=
  match x with
  | LBase _ => None
  | LOffsetPair b e _ =>
      if b =? e then Some WInvalidRange
      else if negb hb then Some WMissingBaseAddress
      else if b =? marker asz then Some WInvalidRange
      else None
  | LStartEnd b e _ =>
      if addr_eqb b e then Some WInvalidRange
      else if hb then Some WUnexpectedBaseAddress
      else if addr_eqb b (AConst (marker asz)) then Some WInvalidRange
      else None
  | LStartLength b len _ =>
      if negb (sum_fits x) then Some WValueTooLarge
      else if len =? 0 then Some WInvalidRange
      else if hb then Some WUnexpectedBaseAddress
      else if addr_eqb b (AConst (marker asz)) then Some WInvalidRange
      else None
  | LDefault _ => Some WInvalidRange
  end.
Definition is_base (x : wloc) : bool := match x with LBase _ => true | _ => false end.

(* the error of the first entry that must be rejected, scanning with the running flag *)
Fixpoint rejected (asz : N) (hb : bool) (l : list wloc) : option error :=
  match l with
  | [] => None
  | x :: r => match reject_entry asz hb x with
              | Some e => Some e
              | None => rejected asz (hb || is_base x) r
              end
  end.

(* an entry that the pair format can hold at this address size: constants that fit, sum that fits,
   expression shorter than 2^16 *)
Definition plainb (asz : N) (x : wloc) : bool :=
  match x with
  | LBase (AConst a) => a <? amod asz
  | LOffsetPair b e d => (b <? amod asz) && (e <? amod asz) && (N.of_nat (length d) <? 65536)
  | LStartEnd (AConst b) (AConst e) d => (b <? amod asz) && (e <? amod asz) && (N.of_nat (length d) <? 65536)
  | LStartLength (AConst b) len d => (b + len <? amod asz) && (N.of_nat (length d) <? 65536)
  | _ => false
  end.
(* everything before the first rejected entry is plain (so that no earlier ValueTooLarge / InvalidAddress wins) *)
Fixpoint plain_until_reject (asz : N) (hb : bool) (l : list wloc) : bool :=
  match l with
  | [] => true
  | x :: r => match reject_entry asz hb x with
              | Some _ => true
              | None => plainb asz x && plain_until_reject asz (hb || is_base x) r
              end
  end.

(* ---------------------------------------------------------------- decoders *)

(* expression bytes of a location entry: u16 length before v5, ULEB128 length in v5 *)
Definition dec_data (dbg : bool) (v5 : bool) (be : bool) (bs : list byte) : res (list byte * list byte) :=
  let* (len, r) := if v5 then read_uleb128 dbg bs else read_un 2 be bs in
  if N.of_nat (length r) <? len then Err EUnexpectedEof else read_bytes (N.to_nat len) r.

Definition dec_opt_data (dbg loc v5 be : bool) (bs : list byte) : res (list byte * list byte) :=
  if loc then dec_data dbg v5 be bs else Ok ([], bs).

(* one DWARF 5 entry after its kind byte k (k <> 0). The indexed kinds (1,2,3: base_addressx, startx_endx,
   startx_length) are never emitted by the writer and are outside this decoder. *)
Definition dec5_entry (dbg loc be : bool) (asz k : N) (bs : list byte) : res (ent * list byte) :=
  let k_base := if loc then 6 else 5 in
  let k_se := if loc then 7 else 6 in
  let k_sl := if loc then 8 else 7 in
  if k =? 4 then
    let* (b, r1) := read_uleb128 dbg bs in
    let* (e, r2) := read_uleb128 dbg r1 in
    let* (d, r3) := dec_opt_data dbg loc true be r2 in
    Ok (EOffsetPair b e d, r3)
  else if k =? k_base then
    let* (a, r1) := read_address asz be bs in Ok (EBase a, r1)
  else if k =? k_se then
    let* (b, r1) := read_address asz be bs in
    let* (e, r2) := read_address asz be r1 in
    let* (d, r3) := dec_opt_data dbg loc true be r2 in
    Ok (EStartEnd b e d, r3)
  else if k =? k_sl then
    let* (b, r1) := read_address asz be bs in
    let* (len, r2) := read_uleb128 dbg r1 in
    let* (d, r3) := dec_opt_data dbg loc true be r2 in
    Ok (EStartLength b len d, r3)
  else if loc && (k =? 5) then
    let* (d, r1) := dec_data dbg true be bs in Ok (EDefault d, r1)
  else if (1 <=? k) && (k <=? 3) then Err EOther
  else Err (if loc then EUnknownLocListsEntry else EUnknownRangeListsEntry).

(* entries up to DW_*_end_of_list; every entry consumes at least its kind byte, so fuel = S (length bs) is enough *)
Fixpoint dec5_fuel (fuel : nat) (dbg loc be : bool) (asz : N) (bs : list byte) : res (list ent * list byte) :=
  match fuel with
  | O => OutOfFuel
  | S f =>
      let* (k, r) := read_u8 bs in
      if k =? 0 then Ok ([], r)
      else
        let* (e, r1) := dec5_entry dbg loc be asz k r in
        let* (es, r2) := dec5_fuel f dbg loc be asz r1 in
        Ok (e :: es, r2)
  end.
Definition dec5 (dbg loc be : bool) (asz : N) (bs : list byte) : res (list ent * list byte) :=
  dec5_fuel (S (length bs)) dbg loc be asz bs.

(* pre-v5: pairs of address-size words *)
Fixpoint dec4_fuel (fuel : nat) (dbg loc be : bool) (asz : N) (bs : list byte) : res (list ent * list byte) :=
  match fuel with
  | O => OutOfFuel
  | S f =>
      let* (b, r1) := read_address asz be bs in
      let* (e, r2) := read_address asz be r1 in
      if (b =? 0) && (e =? 0) then Ok ([], r2)
      else if b =? mask_of asz then
        let* (es, r3) := dec4_fuel f dbg loc be asz r2 in Ok (EBase e :: es, r3)
      else
        let* (d, r3) := dec_opt_data dbg loc false be r2 in
        let* (es, r4) := dec4_fuel f dbg loc be asz r3 in
        Ok (EPair b e d :: es, r4)
  end.
Definition dec4 (dbg loc be : bool) (asz : N) (bs : list byte) : res (list ent * list byte) :=
  dec4_fuel (S (length bs)) dbg loc be asz bs.

(* the section contents from a section offset on *)
Definition at_offset (off : N) (bs : list byte) : list byte := skipn (N.to_nat off) bs.

(* ---------------------------------------------------------------- the unit base address *)

(* the part of a root DIE's attribute list that matters here *)
Inductive attrval : Type :=
| VAddress (a : addr)          (* AttributeValue::Address *)
| VUdata (v : N)               (* any non-address value, e.g. AttributeValue::Udata *)
| VOther.

Definition DW_AT_low_pc : N := 17.

(* what read::Unit::new derives: `low_pc_attr = Some(attr.value())` for every DW_AT_low_pc of the root (the last
   one wins; write::DebuggingInformationEntry::set keeps names unique anyway), then `unit.low_pc = addr` only when
   the value has an address form; otherwise low_pc stays 0. *)
Fixpoint last_low_pc (cur : option attrval) (attrs : list (N * attrval)) : option attrval :=
  match attrs with
  | [] => cur
  | (n, v) :: r => last_low_pc (if n =? DW_AT_low_pc then Some v else cur) r
  end.
Definition unit_base (attrs : list (N * attrval)) : N :=
  match last_low_pc None attrs with
  | Some (VAddress (AConst a)) => a
  | _ => 0
  end.
