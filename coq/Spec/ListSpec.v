(* Spec/ListSpec.v — what a range list / location list MEANS.
   DWARF 5 §2.17.3 (non-contiguous address ranges), §2.6.2 (location lists), §7.7.3, §7.25, and the
   pre-v5 pair format of DWARF 2-4 §2.17.3 / §2.6.6 (base-selection marker = all ones at the address
   size, terminator = (0,0)); GNU split-DWARF v4 layout: DW_LLE opcodes inside .debug_loc with a fixed
   u32 length for startx_length and a fixed u16 expression size.

   Three parts:  (1) abstract entries and their byte encodings (used by the generators and by
   `raw_roundtrip`), (2) the address / offset tables as mathematical lookups, (3) resolution of a list
   of entries to address ranges relative to a running base address. *)
From Coq Require Import List NArith ZArith Bool.
From Coq.Strings Require Import Byte.
Require Import GV.Base.Byt GV.Spec.LebSpec GV.Model.Prim.
Import ListNotations.
Local Open Scope N_scope.

(* ------------------------------------------------------------------ entries *)

(* the address part of an entry; a location-list entry pairs it with its expression bytes *)
Inductive lent : Type :=
| LPair (b e : N)            (* pre-v5 (begin, end) offsets from the base address *)
| LBase (a : N)              (* base address selection / DW_RLE_base_address / DW_LLE_base_address *)
| LBasex (i : N)             (* DW_*LE_base_addressx: index into .debug_addr *)
| LStartxEndx (i j : N)
| LStartxLength (i len : N)
| LOffsetPair (b e : N)
| LDefault                   (* DW_LLE_default_location *)
| LStartEnd (b e : N)
| LStartLength (b len : N).

Definition lloc : Type := (lent * list byte)%type.

Record lcfg : Type := { c_be : bool; c_asize : N; c_version : N }.

Definition valid_asize (sz : N) : bool := (sz =? 1) || (sz =? 2) || (sz =? 4) || (sz =? 8).

Definition amod (sz : N) : N := 2 ^ (8 * sz).
Definition aones (sz : N) : N := amod sz - 1.          (* -1 at the address size: pre-v5 base-selection marker *)
Definition atomb (sz : N) : N := amod sz - 2.          (* -2 at the address size: smallest tombstone *)

Definition enc_addr (c : lcfg) (a : N) : list byte := enc_un (N.to_nat (c_asize c)) (c_be c) a.
Definition u64_max : N := 18446744073709551615.

(* ---- .debug_rnglists (DW_RLE opcodes) *)
Definition enc_rle (c : lcfg) (e : lent) : list byte :=
  match e with
  | LBasex i => n2b 1 :: enc_uleb i
  | LStartxEndx i j => n2b 2 :: enc_uleb i ++ enc_uleb j
  | LStartxLength i l => n2b 3 :: enc_uleb i ++ enc_uleb l
  | LOffsetPair b e => n2b 4 :: enc_uleb b ++ enc_uleb e
  | LBase a => n2b 5 :: enc_addr c a
  | LStartEnd b e => n2b 6 :: enc_addr c b ++ enc_addr c e
  | LStartLength b l => n2b 7 :: enc_addr c b ++ enc_uleb l
  | LPair _ _ | LDefault => []
  end.

Definition fits_addr (c : lcfg) (a : N) : bool := a <? amod (c_asize c).
Definition fits_u64 (a : N) : bool := a <=? u64_max.

Definition wf_rle (c : lcfg) (e : lent) : bool :=
  match e with
  | LBasex i => fits_u64 i
  | LStartxEndx i j => fits_u64 i && fits_u64 j
  | LStartxLength i l => fits_u64 i && fits_u64 l
  | LOffsetPair b e => fits_u64 b && fits_u64 e
  | LBase a => fits_addr c a
  | LStartEnd b e => fits_addr c b && fits_addr c e
  | LStartLength b l => fits_addr c b && fits_u64 l
  | LPair _ _ | LDefault => false
  end.

Definition enc_rnglist (c : lcfg) (es : list lent) : list byte :=
  concat (map (enc_rle c) es) ++ [n2b 0].

(* ---- .debug_ranges (pairs) *)
Definition enc_pair (c : lcfg) (e : lent) : list byte :=
  match e with
  | LPair b e => enc_addr c b ++ enc_addr c e
  | LBase a => enc_addr c (aones (c_asize c)) ++ enc_addr c a
  | _ => []
  end.

Definition wf_pair (c : lcfg) (e : lent) : bool :=
  match e with
  | LPair b e => fits_addr c b && fits_addr c e && negb ((b =? 0) && (e =? 0)) && negb (b =? aones (c_asize c))
  | LBase a => fits_addr c a
  | _ => false
  end.

Definition enc_ranges (c : lcfg) (es : list lent) : list byte :=
  concat (map (enc_pair c) es) ++ enc_addr c 0 ++ enc_addr c 0.

(* ---- location expressions: counted blocks *)
Definition enc_data (c : lcfg) (d : list byte) : list byte :=
  (if 5 <=? c_version c then enc_uleb (N.of_nat (length d))
   else enc_un 2 (c_be c) (N.of_nat (length d))) ++ d.

Definition wf_data (c : lcfg) (d : list byte) : bool :=
  if 5 <=? c_version c then fits_u64 (N.of_nat (length d)) else N.of_nat (length d) <? 65536.

(* ---- .debug_loclists (DW_LLE opcodes), and the GNU v4 split-DWARF variant when c_version < 5 *)
Definition enc_lle (c : lcfg) (x : lloc) : list byte :=
  let (e, d) := x in
  match e with
  | LBasex i => n2b 1 :: enc_uleb i
  | LStartxEndx i j => n2b 2 :: enc_uleb i ++ enc_uleb j ++ enc_data c d
  | LStartxLength i l =>
      n2b 3 :: enc_uleb i ++ (if 5 <=? c_version c then enc_uleb l else enc_un 4 (c_be c) l) ++ enc_data c d
  | LOffsetPair b e => n2b 4 :: enc_uleb b ++ enc_uleb e ++ enc_data c d
  | LDefault => n2b 5 :: enc_data c d
  | LBase a => n2b 6 :: enc_addr c a
  | LStartEnd b e => n2b 7 :: enc_addr c b ++ enc_addr c e ++ enc_data c d
  | LStartLength b l => n2b 8 :: enc_addr c b ++ enc_uleb l ++ enc_data c d
  | LPair _ _ => []
  end.

Definition has_data (e : lent) : bool :=
  match e with LBase _ | LBasex _ => false | _ => true end.

Definition wf_lle (c : lcfg) (x : lloc) : bool :=
  let (e, d) := x in
  (if has_data e then wf_data c d else match d with [] => true | _ => false end) &&
  match e with
  | LBasex i => fits_u64 i
  | LStartxEndx i j => fits_u64 i && fits_u64 j
  | LStartxLength i l => fits_u64 i && (if 5 <=? c_version c then fits_u64 l else l <? 4294967296)
  | LOffsetPair b e => fits_u64 b && fits_u64 e
  | LDefault => true
  | LBase a => fits_addr c a
  | LStartEnd b e => fits_addr c b && fits_addr c e
  | LStartLength b l => fits_addr c b && fits_u64 l
  | LPair _ _ => false
  end.

Definition enc_loclist (c : lcfg) (xs : list lloc) : list byte :=
  concat (map (enc_lle c) xs) ++ [n2b 0].

(* ---- .debug_loc (pairs followed by a u16-counted expression) *)
Definition enc_locpair (c : lcfg) (x : lloc) : list byte :=
  let (e, d) := x in
  match e with
  | LPair b e => enc_addr c b ++ enc_addr c e ++ enc_un 2 (c_be c) (N.of_nat (length d)) ++ d
  | LBase a => enc_addr c (aones (c_asize c)) ++ enc_addr c a
  | _ => []
  end.

Definition wf_locpair (c : lcfg) (x : lloc) : bool :=
  let (e, d) := x in
  match e with
  | LPair _ _ => wf_pair c e && (N.of_nat (length d) <? 65536)
  | LBase _ => wf_pair c e && match d with [] => true | _ => false end
  | _ => false
  end.

Definition enc_loc (c : lcfg) (xs : list lloc) : list byte :=
  concat (map (enc_locpair c) xs) ++ enc_addr c 0 ++ enc_addr c 0.

(* ---- the encoding a unit's lists use: pairs up to DWARF 4, opcodes from DWARF 5 on; location lists of a
   split-DWARF (.dwo) file use the opcodes in every version *)
Definition rng_bare (c : lcfg) : bool := c_version c <=? 4.
Definition loc_bare (c : lcfg) (dwo : bool) : bool := (c_version c <=? 4) && negb dwo.

Definition enc_rng_list (c : lcfg) (es : list lent) : list byte :=
  if rng_bare c then enc_ranges c es else enc_rnglist c es.
Definition wf_rng (c : lcfg) (e : lent) : bool := if rng_bare c then wf_pair c e else wf_rle c e.

Definition enc_loc_list (c : lcfg) (dwo : bool) (xs : list lloc) : list byte :=
  if loc_bare c dwo then enc_loc c xs else enc_loclist c xs.
Definition wf_loc (c : lcfg) (dwo : bool) (x : lloc) : bool :=
  if loc_bare c dwo then wf_locpair c x else wf_lle c x.

(* ------------------------------------------------------------------ tables *)

(* value of the n bytes at offset off of a section, if they are all inside it *)
Definition word_at (be : bool) (n : nat) (sect : list byte) (off : N) : option N :=
  if off + N.of_nat n <=? N.of_nat (length sect) then
    let w := firstn n (skipn (N.to_nat off) sect) in
    Some (if be then be_val w else le_val w)
  else None.

(* .debug_addr: entry i of the table starting at addr_base *)
Definition addr_table (be : bool) (asize : N) (debug_addr : list byte) (addr_base : N) (i : N) : option N :=
  word_at be (N.to_nat asize) debug_addr (addr_base + i * asize).

(* .debug_rnglists / .debug_loclists offset arrays: entry i, relative to base *)
Definition offset_table (be fmt64 : bool) (sect : list byte) (base : N) (i : N) : option N :=
  match word_at be (if fmt64 then 8 else 4)%nat sect (base + i * word_size fmt64) with
  | Some w => Some (base + w)
  | None => None
  end.

(* .debug_str_offsets: entry i (absolute .debug_str offset) *)
Definition str_offset_table (be fmt64 : bool) (sect : list byte) (base : N) (i : N) : option N :=
  word_at be (if fmt64 then 8 else 4)%nat sect (base + i * word_size fmt64).

(* ------------------------------------------------------------------ resolution *)

(* addresses are asize-byte quantities: sums wrap at the address size *)
Definition wadd (sz a b : N) : N := (a + b) mod amod sz.

(* one entry: Some (new base, optional range) or None when an address index is outside the table *)
Definition resolve1 (sz : N) (tbl : N -> option N) (base : N) (e : lent) : option (N * option (N * N)) :=
  match e with
  | LBase a => Some (a, None)
  | LBasex i => match tbl i with Some a => Some (a, None) | None => None end
  | LStartxEndx i j =>
      match tbl i, tbl j with Some b, Some e => Some (base, Some (b, e)) | _, _ => None end
  | LStartxLength i l =>
      match tbl i with Some b => Some (base, Some (b, wadd sz b l)) | None => None end
  | LPair b e | LOffsetPair b e =>
      (* offsets from a deleted (tombstoned) base address denote nothing *)
      if atomb sz <=? base then Some (base, None)
      else Some (base, Some (wadd sz base b, wadd sz base e))
  | LDefault => Some (base, Some (0, u64_max))
  | LStartEnd b e => Some (base, Some (b, e))
  | LStartLength b l => Some (base, Some (b, wadd sz b l))
  end.

(* a range denotes code iff it is non-empty and does not begin at a tombstone *)
Definition live (sz : N) (r : N * N) : bool := (fst r <? atomb sz) && (fst r <? snd r).

Fixpoint resolve_rng (sz : N) (tbl : N -> option N) (base : N) (es : list lent) : option (list (N * N)) :=
  match es with
  | [] => Some []
  | e :: es' =>
      match resolve1 sz tbl base e with
      | None => None
      | Some (base', o) =>
          match resolve_rng sz tbl base' es' with
          | None => None
          | Some rs => Some (match o with Some r => if live sz r then r :: rs else rs | None => rs end)
          end
      end
  end.

Fixpoint resolve_loc (sz : N) (tbl : N -> option N) (base : N) (xs : list lloc)
  : option (list ((N * N) * list byte)) :=
  match xs with
  | [] => Some []
  | (e, d) :: xs' =>
      match resolve1 sz tbl base e with
      | None => None
      | Some (base', o) =>
          match resolve_loc sz tbl base' xs' with
          | None => None
          | Some rs => Some (match o with Some r => if live sz r then (r, d) :: rs else rs | None => rs end)
          end
      end
  end.

(* ------------------------------------------------------------------ DIE-level ranges *)
(* DWARF 5 §2.17.2: DW_AT_low_pc + DW_AT_high_pc of class address = [low, high);
   DW_AT_high_pc of class constant = [low, low + n) *)
Definition lowhigh_addr (low high : N) : N * N := (low, high).
Definition lowhigh_const (low n : N) : N * N := (low, low + n).
