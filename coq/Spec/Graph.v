(* Spec/Graph.v — reachability in a directed graph whose nodes are section offsets (C19).
   `reach valid E R x`: x is reachable from the required set R over the edge relation E, where
   only valid nodes count (an edge to, or a requirement of, an invalid node is ignored — exactly
   the documented behaviour of FilterDependencies::add_edge / require_entry).
   No proofs here. *)
From Coq Require Import List NArith.
Import ListNotations.

Section Reach.
  Variable valid : N -> Prop.
  Variable E : N -> N -> Prop.
  Variable R : N -> Prop.

  Inductive reach : N -> Prop :=
  | reach_req  : forall x, R x -> valid x -> reach x
  | reach_edge : forall x y, reach x -> E x y -> valid y -> reach y.

  (* S contains every valid required node and is closed under edges to valid nodes *)
  Definition closed_under (S : N -> Prop) : Prop :=
    (forall x, R x -> valid x -> S x) /\
    (forall x y, S x -> E x y -> valid y -> S y).
End Reach.

(* strictly increasing list: the canonical enumeration of a finite set of offsets *)
Inductive strict_sorted : list N -> Prop :=
| ss_nil : strict_sorted []
| ss_one : forall x, strict_sorted [x]
| ss_cons : forall x y l, (x < y)%N -> strict_sorted (y :: l) -> strict_sorted (x :: y :: l).
