(* Spec/CursorSpec.v — what "a view of the section bytes at a reported offset and length" means (C10),
   and the Unicode definition of well-formed UTF-8 used by Reader::to_string. *)
From Coq Require Import List NArith Bool.
From Coq.Strings Require Import Byte.
Require Import GV.Base.Byt.
Import ListNotations.
Local Open Scope N_scope.

(* [v] is the run of bytes of the section [b] that starts at section offset [o]:
   nothing copied from elsewhere, nothing reordered. *)
Definition is_view (b : list byte) (o : N) (v : list byte) : Prop :=
  exists pre post, b = pre ++ v ++ post /\ N.of_nat (length pre) = o.

(* the same thing computed: [l] bytes of [b] from offset [o] *)
Definition view_of (b : list byte) (o l : N) : list byte :=
  firstn (N.to_nat l) (skipn (N.to_nat o) b).

(* [i] is the index of the first occurrence of [x] in [l] *)
Definition first_occurrence (x : byte) (l : list byte) (i : N) : Prop :=
  exists pre post, l = pre ++ x :: post /\ ~ In x pre /\ N.of_nat (length pre) = i.

(* Well-formed UTF-8 byte sequences, Unicode Standard table 3-7. *)
Definition rng (lo hi : N) (b : byte) : Prop := lo <= b2n b /\ b2n b <= hi.
Inductive wf_seq : list byte -> Prop :=
| wf1 a : rng 0 127 a -> wf_seq [a]
| wf2 a b : rng 194 223 a -> rng 128 191 b -> wf_seq [a; b]
| wf3_e0 a b c : rng 224 224 a -> rng 160 191 b -> rng 128 191 c -> wf_seq [a; b; c]
| wf3_e1 a b c : rng 225 236 a -> rng 128 191 b -> rng 128 191 c -> wf_seq [a; b; c]
| wf3_ed a b c : rng 237 237 a -> rng 128 159 b -> rng 128 191 c -> wf_seq [a; b; c]
| wf3_ee a b c : rng 238 239 a -> rng 128 191 b -> rng 128 191 c -> wf_seq [a; b; c]
| wf4_f0 a b c d : rng 240 240 a -> rng 144 191 b -> rng 128 191 c -> rng 128 191 d -> wf_seq [a; b; c; d]
| wf4_f1 a b c d : rng 241 243 a -> rng 128 191 b -> rng 128 191 c -> rng 128 191 d -> wf_seq [a; b; c; d]
| wf4_f4 a b c d : rng 244 244 a -> rng 128 143 b -> rng 128 191 c -> rng 128 191 d -> wf_seq [a; b; c; d].

Inductive wf_utf8 : list byte -> Prop :=
| wfu_nil : wf_utf8 []
| wfu_app s r : wf_seq s -> wf_utf8 r -> wf_utf8 (s ++ r).
