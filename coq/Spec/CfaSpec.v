(* Spec/CfaSpec.v — the DWARF call-frame table machine (DWARF 5 §6.4), as a short
   mathematical definition: a total register -> rule map (finite map, `None` = the
   default rule gimli reports as `None`), a state stack, `initial` rules fixed after
   the CIE program, NO storage limits. Errors only for: restore in CIE context,
   def_cfa_register/offset(_sf) while the CFA is an expression, negate_ra_state on a
   non-constant rule, restore_state on an empty stack, set_loc backwards, advance
   overflow (and an undecodable instruction, which ends the stream with its error).
   The optional storage limits of the implementation are layered on top by [guard]
   (occupancy defined on the spec side), so that "limits hit exactly" is a statement
   about this file, not about the model.
   Also: the wire forms of every DW_CFA opcode with their encoder (used by the
   generators and by the decode round-trip theorem). No proofs here. *)
From Coq Require Import List NArith ZArith Bool.
From Coq.Strings Require Import Byte.
Require Import GV.Base.Res GV.Base.Byt GV.Base.Ints GV.Spec.LebSpec.
Import ListNotations.
Local Open Scope N_scope.

(* ------------------------------------------------------------------ data *)

Definition reg := N.                       (* Register(u16) *)

(* UnwindExpression { offset, length }: a byte range of the section *)
Record uexpr := { ue_off : N; ue_len : N }.

Inductive rule : Type :=
| RUndefined | RSameValue
| ROffset (o : Z) | RValOffset (o : Z)
| RRegister (r : reg)
| RExpression (e : uexpr) | RValExpression (e : uexpr)
| RArchitectural
| RConstant (v : N).

Inductive cfa_rule : Type :=
| CfaRegOff (r : reg) (off : Z)
| CfaExpr (e : uexpr).

(* CallFrameInstruction, operands as decoded (before factoring) *)
Inductive insn : Type :=
| ISetLoc (a : N)
| IAdvanceLoc (d : N)
| IDefCfa (r : reg) (off : N)
| IDefCfaSf (r : reg) (fo : Z)
| IDefCfaRegister (r : reg)
| IDefCfaOffset (off : N)
| IDefCfaOffsetSf (fo : Z)
| IDefCfaExpression (e : uexpr)
| IUndefined (r : reg)
| ISameValue (r : reg)
| IOffset (r : reg) (fo : N)
| IOffsetExtendedSf (r : reg) (fo : Z)
| IValOffset (r : reg) (fo : N)
| IValOffsetSf (r : reg) (fo : Z)
| IRegister (d s : reg)
| IExpression (r : reg) (e : uexpr)
| IValExpression (r : reg) (e : uexpr)
| IRestore (r : reg)
| IRememberState
| IRestoreState
| IArgsSize (n : N)
| INegateRaState
| INop.

(* one element of a lazily decoded instruction stream: an instruction, or the
   reason decoding stopped (everything after it is ignored) *)
Inductive item : Type :=
| It (i : insn)
| Bad (e : error)
| BadPanic
| BadFuel.

(* how a table evaluation ends *)
Inductive outcome : Type :=
| Done
| Fail (e : error)
| Crash          (* a panic of the implementation *)
| Fuel.          (* model artefact *)

(* ------------------------------------------------------- finite rule maps *)

Definition rmap := list (reg * rule).

Fixpoint lookup (r : reg) (m : rmap) : option rule :=
  match m with
  | [] => None
  | (r', x) :: t => if r' =? r then Some x else lookup r t
  end.

Definition remove (r : reg) (m : rmap) : rmap :=
  filter (fun p => negb (fst p =? r)) m.

(* m[r := o]; `None` gives the register its default rule back *)
Definition update (r : reg) (o : option rule) (m : rmap) : rmap :=
  match o with
  | Some x => (r, x) :: remove r m
  | None => remove r m
  end.

(* ----------------------------------------------------------- the machine *)

Record sparams := { sp_caf : N; sp_daf : Z; sp_asize : N }.

Record sstate := {
  s_loc : N;
  s_cfa : cfa_rule;
  s_rules : rmap;
  s_args : N;
  s_stack : list (cfa_rule * rmap * N)     (* remembered (cfa, rules, args_size), newest first *)
}.

Record srow := {
  sr_start : N; sr_end : N;
  sr_cfa : cfa_rule;
  sr_args : N;
  sr_rules : rmap
}.

Definition wrap_i64 (z : Z) : Z := wrap_signed 64 z.
Definition factored (p : sparams) (operand : Z) : Z := wrap_i64 (operand * sp_daf p).

Definition RA_SIGN_STATE : reg := 34.

Definition init_state : sstate :=
  {| s_loc := 0; s_cfa := CfaRegOff 0 0; s_rules := []; s_args := 0; s_stack := [] |}.

Definition with_loc (a : N) (s : sstate) : sstate :=
  {| s_loc := a; s_cfa := s_cfa s; s_rules := s_rules s; s_args := s_args s; s_stack := s_stack s |}.
Definition with_cfa (c : cfa_rule) (s : sstate) : sstate :=
  {| s_loc := s_loc s; s_cfa := c; s_rules := s_rules s; s_args := s_args s; s_stack := s_stack s |}.
Definition with_rules (m : rmap) (s : sstate) : sstate :=
  {| s_loc := s_loc s; s_cfa := s_cfa s; s_rules := m; s_args := s_args s; s_stack := s_stack s |}.
Definition with_args (n : N) (s : sstate) : sstate :=
  {| s_loc := s_loc s; s_cfa := s_cfa s; s_rules := s_rules s; s_args := n; s_stack := s_stack s |}.
Definition set_rule (r : reg) (x : rule) (s : sstate) : sstate :=
  with_rules (update r (Some x) (s_rules s)) s.

(* the table row [s_loc, a) described by state s *)
Definition row_of (s : sstate) (a : N) : srow :=
  {| sr_start := s_loc s; sr_end := a; sr_cfa := s_cfa s; sr_args := s_args s; sr_rules := s_rules s |}.

(* One instruction. [ini] is `None` while the CIE's initial instructions run and
   `Some initial_rules` while the FDE's run. A completed row is returned with the
   state that starts the next row. *)
Definition spec_step (p : sparams) (ini : option rmap) (s : sstate) (i : insn)
  : res (sstate * option srow) :=
  match i with
  | ISetLoc a =>
      if a <? s_loc s then Err EInvalidCfiSetLoc
      else Ok (with_loc a s, Some (row_of s a))
  | IAdvanceLoc d =>
      let a := s_loc s + wrap64 (d * sp_caf p) in
      if 2 ^ (8 * sp_asize p) <=? a then Err EAddressOverflow
      else Ok (with_loc a s, Some (row_of s a))
  | IDefCfa r off => Ok (with_cfa (CfaRegOff r (wrap_i64 (Z.of_N off))) s, None)
  | IDefCfaSf r fo => Ok (with_cfa (CfaRegOff r (factored p fo)) s, None)
  | IDefCfaRegister r =>
      match s_cfa s with
      | CfaRegOff _ o => Ok (with_cfa (CfaRegOff r o) s, None)
      | CfaExpr _ => Err ECfiInstructionInInvalidContext
      end
  | IDefCfaOffset off =>
      match s_cfa s with
      | CfaRegOff r _ => Ok (with_cfa (CfaRegOff r (wrap_i64 (Z.of_N off))) s, None)
      | CfaExpr _ => Err ECfiInstructionInInvalidContext
      end
  | IDefCfaOffsetSf fo =>
      match s_cfa s with
      | CfaRegOff r _ => Ok (with_cfa (CfaRegOff r (factored p fo)) s, None)
      | CfaExpr _ => Err ECfiInstructionInInvalidContext
      end
  | IDefCfaExpression e => Ok (with_cfa (CfaExpr e) s, None)
  | IUndefined r => Ok (set_rule r RUndefined s, None)
  | ISameValue r => Ok (set_rule r RSameValue s, None)
  | IOffset r fo => Ok (set_rule r (ROffset (factored p (Z.of_N fo))) s, None)
  | IOffsetExtendedSf r fo => Ok (set_rule r (ROffset (factored p fo)) s, None)
  | IValOffset r fo => Ok (set_rule r (RValOffset (factored p (Z.of_N fo))) s, None)
  | IValOffsetSf r fo => Ok (set_rule r (RValOffset (factored p fo)) s, None)
  | IRegister d src => Ok (set_rule d (RRegister src) s, None)
  | IExpression r e => Ok (set_rule r (RExpression e) s, None)
  | IValExpression r e => Ok (set_rule r (RValExpression e) s, None)
  | IRestore r =>
      match ini with
      | None => Err ECfiInstructionInInvalidContext
      | Some m => Ok (with_rules (update r (lookup r m) (s_rules s)) s, None)
      end
  | IRememberState =>
      Ok ({| s_loc := s_loc s; s_cfa := s_cfa s; s_rules := s_rules s; s_args := s_args s;
             s_stack := (s_cfa s, s_rules s, s_args s) :: s_stack s |}, None)
  | IRestoreState =>
      match s_stack s with
      | [] => Err EPopWithEmptyStack
      | (c, m, a) :: st =>
          Ok ({| s_loc := s_loc s; s_cfa := c; s_rules := m; s_args := a; s_stack := st |}, None)
      end
  | IArgsSize n => Ok (with_args n s, None)
  | INegateRaState =>
      match lookup RA_SIGN_STATE (s_rules s) with
      | None => Ok (set_rule RA_SIGN_STATE (RConstant (N.lxor 0 1)) s, None)
      | Some (RConstant v) => Ok (set_rule RA_SIGN_STATE (RConstant (N.lxor v 1)) s, None)
      | Some _ => Err ECfiInstructionInInvalidContext
      end
  | INop => Ok (s, None)
  end.

(* ---------------------------------------------- storage limits (optional) *)

(* `None` = unbounded (Vec storage) *)
Record caps := { max_stack : option nat; max_rules : option nat }.
Definition no_caps : caps := {| max_stack := None; max_rules := None |}.

(* rows the implementation needs for this state: the remembered ones, the current
   one, and one more for the saved initial rules when the CIE left more than one *)
Definition stack_occ (ini : option rmap) (s : sstate) : nat :=
  length (s_stack s) + 1 +
  match ini with
  | Some m => if Nat.leb 2 (length m) then 1 else 0
  | None => 0
  end.
Definition rules_occ (s : sstate) : nat := length (s_rules s).

Definition over (c : option nat) (n : nat) : bool :=
  match c with Some k => Nat.ltb k n | None => false end.

Definition guard (c : caps) (ini : option rmap) (s : sstate) : res unit :=
  if over (max_stack c) (stack_occ ini s) then Err EStackFull
  else if over (max_rules c) (rules_occ s) then Err ETooManyRegisterRules
  else Ok tt.

Definition step_lim (c : caps) (p : sparams) (ini : option rmap) (s : sstate) (i : insn)
  : res (sstate * option srow) :=
  let* (s', row) := spec_step p ini s i in
  let* _ := guard c ini s' in
  Ok (s', row).

(* ------------------------------------------------------------- whole runs *)

(* rows of one instruction stream from state s; the last row ends at end_addr.
   Returns the rows produced before the run ended, how it ended, and the final state. *)
Fixpoint spec_run (c : caps) (p : sparams) (ini : option rmap) (end_addr : N)
         (s : sstate) (items : list item) : list srow * (outcome * sstate) :=
  match items with
  | [] => ([row_of s end_addr], (Done, s))
  | Bad e :: _ => ([], (Fail e, s))
  | BadPanic :: _ => ([], (Crash, s))
  | BadFuel :: _ => ([], (Fuel, s))
  | It i :: rest =>
      match step_lim c p ini s i with
      | Ok (s', None) => spec_run c p ini end_addr s' rest
      | Ok (s', Some row) =>
          let '(rows, fin) := spec_run c p ini end_addr s' rest in (row :: rows, fin)
      | Err e => ([], (Fail e, s))
      | Panic => ([], (Crash, s))
      | OutOfFuel => ([], (Fuel, s))
      end
  end.

(* The table of an FDE: the CIE's initial instructions run first (their rows are
   discarded, their errors are not); whatever they leave — CFA, rules, args size and
   remembered states — is where the FDE starts, and the rules they leave are the
   initial rules that DW_CFA_restore refers to. *)
Definition run_spec_lim (c : caps) (p : sparams) (init_addr end_addr : N)
           (cie fde : list item) : list srow * outcome :=
  match spec_run c p None 0 init_state cie with
  | (_, (Done, sc)) =>
      let ini := Some (s_rules sc) in
      let s0 := with_loc init_addr sc in
      match guard c ini s0 with
      | Ok _ => let '(rows, (o, _)) := spec_run c p ini end_addr s0 fde in (rows, o)
      | Err e => ([], Fail e)
      | Panic => ([], Crash)
      | OutOfFuel => ([], Fuel)
      end
  | (_, (o, _)) => ([], o)
  end.

Definition run_spec := run_spec_lim no_caps.

(* FrameDescriptionEntry::end_address as DWARF states it: initial + range at the address size *)
Definition spec_end (asize init_addr range : N) : N := (init_addr + range) mod 2 ^ (8 * asize).

(* "occupancy never exceeds the limits along the unlimited run" *)
Definition guard_ok (c : caps) (ini : option rmap) (s : sstate) : bool :=
  match guard c ini s with Ok _ => true | _ => false end.

Fixpoint fits (c : caps) (p : sparams) (ini : option rmap) (s : sstate) (items : list item) : bool :=
  match items with
  | It i :: rest =>
      match spec_step p ini s i with
      | Ok (s', _) => guard_ok c ini s' && fits c p ini s' rest
      | _ => true
      end
  | _ => true
  end.

Definition fits_run (c : caps) (p : sparams) (init_addr : N) (cie fde : list item) : bool :=
  fits c p None init_state cie &&
  match spec_run no_caps p None 0 init_state cie with
  | (_, (Done, sc)) =>
      let ini := Some (s_rules sc) in
      let s0 := with_loc init_addr sc in
      guard_ok c ini s0 && fits c p ini s0 fde
  | _ => true
  end.

(* ------------------------------------------------- wire forms and encoder *)

(* signed LEB128, minimal encoding *)
Fixpoint enc_sleb_fuel (fuel : nat) (v : Z) : list byte :=
  match fuel with
  | O => []
  | S f =>
      let b := (v mod 128)%Z in
      let v' := (v / 128)%Z in
      if ((v' =? 0)%Z && (b <? 64)%Z) || ((v' =? -1)%Z && (64 <=? b)%Z)
      then [n2b (Z.to_N b)]
      else n2b (128 + Z.to_N b) :: enc_sleb_fuel f v'
  end.
Definition enc_sleb (v : Z) : list byte := enc_sleb_fuel 19 v.

(* every encoded form of every DW_CFA opcode the reader knows *)
Inductive wire : Type :=
| WAdvanceLoc0 (d : N)                 (* 0x40 | d *)
| WOffset0 (r : N) (fo : N)            (* 0x80 | r, uleb *)
| WRestore0 (r : N)                    (* 0xc0 | r *)
| WNop
| WSetLoc (a : N)
| WAdvanceLoc1 (d : N) | WAdvanceLoc2 (d : N) | WAdvanceLoc4 (d : N)
| WOffsetExtended (r : N) (fo : N)
| WRestoreExtended (r : N)
| WUndefined (r : N)
| WSameValue (r : N)
| WRegister (d s : N)
| WRememberState | WRestoreState
| WDefCfa (r : N) (off : N)
| WDefCfaRegister (r : N)
| WDefCfaOffset (off : N)
| WDefCfaExpression (e : list byte)
| WExpression (r : N) (e : list byte)
| WOffsetExtendedSf (r : N) (fo : Z)
| WDefCfaSf (r : N) (fo : Z)
| WDefCfaOffsetSf (fo : Z)
| WValOffset (r : N) (fo : N)
| WValOffsetSf (r : N) (fo : Z)
| WValExpression (r : N) (e : list byte)
| WArgsSize (n : N)
| WNegateRaState.

Fixpoint le_enc (n : nat) (v : N) : list byte :=
  match n with O => [] | S k => n2b v :: le_enc k (v / 256) end.
Definition fixed_enc (be : bool) (n : nat) (v : N) : list byte :=
  if be then rev (le_enc n v) else le_enc n v.

Definition blk (e : list byte) : list byte := enc_uleb (N.of_nat (length e)) ++ e.

Definition enc_wire (be : bool) (asize : N) (w : wire) : list byte :=
  match w with
  | WAdvanceLoc0 d => [n2b (64 + d mod 64)]
  | WOffset0 r fo => n2b (128 + r mod 64) :: enc_uleb fo
  | WRestore0 r => [n2b (192 + r mod 64)]
  | WNop => [n2b 0]
  | WSetLoc a => n2b 1 :: fixed_enc be (N.to_nat asize) a
  | WAdvanceLoc1 d => n2b 2 :: fixed_enc be 1 d
  | WAdvanceLoc2 d => n2b 3 :: fixed_enc be 2 d
  | WAdvanceLoc4 d => n2b 4 :: fixed_enc be 4 d
  | WOffsetExtended r fo => n2b 5 :: enc_uleb r ++ enc_uleb fo
  | WRestoreExtended r => n2b 6 :: enc_uleb r
  | WUndefined r => n2b 7 :: enc_uleb r
  | WSameValue r => n2b 8 :: enc_uleb r
  | WRegister d s => n2b 9 :: enc_uleb d ++ enc_uleb s
  | WRememberState => [n2b 10]
  | WRestoreState => [n2b 11]
  | WDefCfa r off => n2b 12 :: enc_uleb r ++ enc_uleb off
  | WDefCfaRegister r => n2b 13 :: enc_uleb r
  | WDefCfaOffset off => n2b 14 :: enc_uleb off
  | WDefCfaExpression e => n2b 15 :: blk e
  | WExpression r e => n2b 16 :: enc_uleb r ++ blk e
  | WOffsetExtendedSf r fo => n2b 17 :: enc_uleb r ++ enc_sleb fo
  | WDefCfaSf r fo => n2b 18 :: enc_uleb r ++ enc_sleb fo
  | WDefCfaOffsetSf fo => n2b 19 :: enc_sleb fo
  | WValOffset r fo => n2b 20 :: enc_uleb r ++ enc_uleb fo
  | WValOffsetSf r fo => n2b 21 :: enc_uleb r ++ enc_sleb fo
  | WValExpression r e => n2b 22 :: enc_uleb r ++ blk e
  | WArgsSize n => n2b 46 :: enc_uleb n
  | WNegateRaState => [n2b 45]
  end.

Definition ulen (v : N) : N := N.of_nat (length (enc_uleb v)).
Definition mkexpr (off : N) (e : list byte) : uexpr :=
  {| ue_off := off; ue_len := N.of_nat (length e) |}.

(* the instruction a wire form denotes when its first byte sits at section offset [off] *)
Definition wire_meaning (off : N) (w : wire) : insn :=
  match w with
  | WAdvanceLoc0 d => IAdvanceLoc d
  | WOffset0 r fo => IOffset r fo
  | WRestore0 r => IRestore r
  | WNop => INop
  | WSetLoc a => ISetLoc a
  | WAdvanceLoc1 d | WAdvanceLoc2 d | WAdvanceLoc4 d => IAdvanceLoc d
  | WOffsetExtended r fo => IOffset r fo
  | WRestoreExtended r => IRestore r
  | WUndefined r => IUndefined r
  | WSameValue r => ISameValue r
  | WRegister d s => IRegister d s
  | WRememberState => IRememberState
  | WRestoreState => IRestoreState
  | WDefCfa r o => IDefCfa r o
  | WDefCfaRegister r => IDefCfaRegister r
  | WDefCfaOffset o => IDefCfaOffset o
  | WDefCfaExpression e =>
      IDefCfaExpression (mkexpr (off + 1 + ulen (N.of_nat (length e))) e)
  | WExpression r e =>
      IExpression r (mkexpr (off + 1 + ulen r + ulen (N.of_nat (length e))) e)
  | WOffsetExtendedSf r fo => IOffsetExtendedSf r fo
  | WDefCfaSf r fo => IDefCfaSf r fo
  | WDefCfaOffsetSf fo => IDefCfaOffsetSf fo
  | WValOffset r fo => IValOffset r fo
  | WValOffsetSf r fo => IValOffsetSf r fo
  | WValExpression r e =>
      IValExpression r (mkexpr (off + 1 + ulen r + ulen (N.of_nat (length e))) e)
  | WArgsSize n => IArgsSize n
  | WNegateRaState => INegateRaState
  end.

(* operand ranges under which a wire form is encodable *)
Definition u64b (v : N) : bool := v <? two64.
Definition i64b (z : Z) : bool := in_i64 z.
Definition regb (r : N) : bool := r <? two16.
Definition wire_ok (asize : N) (w : wire) : bool :=
  match w with
  | WAdvanceLoc0 d => d <? 64
  | WOffset0 r fo => (r <? 64) && u64b fo
  | WRestore0 r => r <? 64
  | WNop | WRememberState | WRestoreState | WNegateRaState => true
  | WSetLoc a => a <? 2 ^ (8 * asize)
  | WAdvanceLoc1 d => d <? 256
  | WAdvanceLoc2 d => d <? two16
  | WAdvanceLoc4 d => d <? two32
  | WOffsetExtended r fo | WDefCfa r fo | WValOffset r fo => regb r && u64b fo
  | WRestoreExtended r | WUndefined r | WSameValue r | WDefCfaRegister r => regb r
  | WRegister d s => regb d && regb s
  | WDefCfaOffset o | WArgsSize o => u64b o
  | WDefCfaExpression e => u64b (N.of_nat (length e))
  | WExpression r e | WValExpression r e => regb r && u64b (N.of_nat (length e))
  | WOffsetExtendedSf r fo | WDefCfaSf r fo | WValOffsetSf r fo => regb r && i64b fo
  | WDefCfaOffsetSf fo => i64b fo
  end.
