(* Spec/CfaEncSpec.v — the meaning of the call-frame instruction encodings that
   gimli's frame-table writer can emit (DWARF 5 §6.4.2, §7.24; GNU/AArch64 extensions
   DW_CFA_GNU_args_size and DW_CFA_AARCH64_negate_ra_state).

   * [cfi]      the abstract instruction = write::CallFrameInstruction (offsets unfactored);
   * [dinsn]    one decoded instruction with its operands exactly as encoded (factored);
   * [decode1]  the decoder: high-2-bit forms, extended opcodes with ULEB/SLEB/fixed
                operands, expression blocks as length-prefixed blobs. LEB operands have their
                mathematical value (LebSpec), no width limit;
   * [sem]      the meaning of a decoded instruction under a CIE: factored operands are
                multiplied back by the code/data alignment factors;
   * [locate]   absolute code offsets of the instructions of a decoded program.
   This is a read-back spec for the WRITER (C14). The reader models are CfiRd/CfiRun (C05/C06). *)
From Coq Require Import List NArith ZArith Bool.
From Coq.Strings Require Import Byte.
Require Import GV.Base.Byt GV.Spec.LebSpec.
Import ListNotations.
Local Open Scope N_scope.

(* ---- abstract instructions (registers u16, offsets i32, sizes u32 in the Rust types) ---- *)
Inductive cfi : Type :=
| Cfa (r : N) (o : Z)
| CfaRegister (r : N)
| CfaOffset (o : Z)
| CfaExpression (e : list byte)
| Restore (r : N)
| Undefined (r : N)
| SameValue (r : N)
| Offset (r : N) (o : Z)
| ValOffset (r : N) (o : Z)
| Register (r1 r2 : N)
| Expression (r : N) (e : list byte)
| ValExpression (r : N) (e : list byte)
| RememberState
| RestoreState
| ArgsSize (n : N)
| NegateRaState.

(* what one encoded instruction means *)
Inductive meaning : Type :=
| MInsn (i : cfi)          (* a rule-changing instruction, offsets in bytes *)
| MAdvance (bytes : N)     (* location += bytes *)
| MNop.

(* ---- decoded instructions, operands as they appear in the byte stream ---- *)
Inductive dinsn : Type :=
| DAdvance (delta : N)                 (* advance_loc / advance_loc1 / 2 / 4 : factored delta *)
| DOffset (r : N) (fo : N)             (* offset (short) / offset_extended *)
| DRestore (r : N)                     (* restore (short) / restore_extended *)
| DNop
| DUndefined (r : N)
| DSameValue (r : N)
| DRegister (r1 r2 : N)
| DRememberState
| DRestoreState
| DDefCfa (r : N) (o : N)              (* unfactored *)
| DDefCfaRegister (r : N)
| DDefCfaOffset (o : N)                (* unfactored *)
| DDefCfaExpression (e : list byte)
| DExpression (r : N) (e : list byte)
| DOffsetExtendedSf (r : N) (fo : Z)
| DDefCfaSf (r : N) (fo : Z)
| DDefCfaOffsetSf (fo : Z)
| DValOffset (r : N) (fo : N)
| DValOffsetSf (r : N) (fo : Z)
| DValExpression (r : N) (e : list byte)
| DArgsSize (n : N)
| DNegateRaState.

(* ---- operand decoders ---- *)
Definition uleb (bs : list byte) : option (N * list byte) :=
  match split_leb bs with Some (e, r) => Some (uval e, r) | None => None end.
Definition sleb (bs : list byte) : option (Z * list byte) :=
  match split_leb bs with Some (e, r) => Some (sval e, r) | None => None end.

Fixpoint le_num (bs : list byte) : N :=
  match bs with [] => 0 | b :: r => b2n b + 256 * le_num r end.
Definition num (be : bool) (bs : list byte) : N := if be then le_num (rev bs) else le_num bs.

(* n-byte unsigned integer in the section's byte order *)
Definition fixed (n : nat) (be : bool) (bs : list byte) : option (N * list byte) :=
  if (length bs <? n)%nat then None else Some (num be (firstn n bs), skipn n bs).

(* ULEB length followed by that many bytes *)
Definition blob (bs : list byte) : option (list byte * list byte) :=
  match uleb bs with
  | Some (n, r) =>
      if N.of_nat (length r) <? n then None
      else Some (firstn (N.to_nat n) r, skipn (N.to_nat n) r)
  | None => None
  end.

Definition omap {A B} (o : option (A * list byte)) (f : A -> list byte -> option B) : option B :=
  match o with Some (a, r) => f a r | None => None end.

(* one instruction; None = truncated operand or an opcode the writer never emits *)
Definition decode1 (be : bool) (bs : list byte) : option (dinsn * list byte) :=
  match bs with
  | [] => None
  | b :: r =>
      let op := b2n b in
      let hi := op / 64 in
      let lo := op mod 64 in
      if hi =? 1 then Some (DAdvance lo, r)
      else if hi =? 2 then omap (uleb r) (fun o r1 => Some (DOffset lo o, r1))
      else if hi =? 3 then Some (DRestore lo, r)
      else if lo =? 0 then Some (DNop, r)
      else if lo =? 2 then omap (fixed 1 be r) (fun d r1 => Some (DAdvance d, r1))
      else if lo =? 3 then omap (fixed 2 be r) (fun d r1 => Some (DAdvance d, r1))
      else if lo =? 4 then omap (fixed 4 be r) (fun d r1 => Some (DAdvance d, r1))
      else if lo =? 5 then omap (uleb r) (fun g r1 => omap (uleb r1) (fun o r2 => Some (DOffset g o, r2)))
      else if lo =? 6 then omap (uleb r) (fun g r1 => Some (DRestore g, r1))
      else if lo =? 7 then omap (uleb r) (fun g r1 => Some (DUndefined g, r1))
      else if lo =? 8 then omap (uleb r) (fun g r1 => Some (DSameValue g, r1))
      else if lo =? 9 then omap (uleb r) (fun g r1 => omap (uleb r1) (fun h r2 => Some (DRegister g h, r2)))
      else if lo =? 10 then Some (DRememberState, r)
      else if lo =? 11 then Some (DRestoreState, r)
      else if lo =? 12 then omap (uleb r) (fun g r1 => omap (uleb r1) (fun o r2 => Some (DDefCfa g o, r2)))
      else if lo =? 13 then omap (uleb r) (fun g r1 => Some (DDefCfaRegister g, r1))
      else if lo =? 14 then omap (uleb r) (fun o r1 => Some (DDefCfaOffset o, r1))
      else if lo =? 15 then omap (blob r) (fun e r1 => Some (DDefCfaExpression e, r1))
      else if lo =? 16 then omap (uleb r) (fun g r1 => omap (blob r1) (fun e r2 => Some (DExpression g e, r2)))
      else if lo =? 17 then omap (uleb r) (fun g r1 => omap (sleb r1) (fun o r2 => Some (DOffsetExtendedSf g o, r2)))
      else if lo =? 18 then omap (uleb r) (fun g r1 => omap (sleb r1) (fun o r2 => Some (DDefCfaSf g o, r2)))
      else if lo =? 19 then omap (sleb r) (fun o r1 => Some (DDefCfaOffsetSf o, r1))
      else if lo =? 20 then omap (uleb r) (fun g r1 => omap (uleb r1) (fun o r2 => Some (DValOffset g o, r2)))
      else if lo =? 21 then omap (uleb r) (fun g r1 => omap (sleb r1) (fun o r2 => Some (DValOffsetSf g o, r2)))
      else if lo =? 22 then omap (uleb r) (fun g r1 => omap (blob r1) (fun e r2 => Some (DValExpression g e, r2)))
      else if lo =? 45 then Some (DNegateRaState, r)
      else if lo =? 46 then omap (uleb r) (fun n r1 => Some (DArgsSize n, r1))
      else None
  end.

(* a whole instruction area; every instruction takes at least one byte, so |bs| is enough fuel *)
Fixpoint decode_fuel (fuel : nat) (be : bool) (bs : list byte) : option (list dinsn) :=
  match bs with
  | [] => Some []
  | _ =>
      match fuel with
      | O => None
      | S f =>
          match decode1 be bs with
          | Some (d, r) =>
              match decode_fuel f be r with Some ds => Some (d :: ds) | None => None end
          | None => None
          end
      end
  end.
Definition decode_all (be : bool) (bs : list byte) : option (list dinsn) :=
  decode_fuel (length bs) be bs.

(* ---- meaning under a CIE with code/data alignment factors caf, daf ---- *)
Definition sem (caf : N) (daf : Z) (d : dinsn) : meaning :=
  match d with
  | DAdvance delta => MAdvance (delta * caf)
  | DOffset r fo => MInsn (Offset r (Z.of_N fo * daf))
  | DRestore r => MInsn (Restore r)
  | DNop => MNop
  | DUndefined r => MInsn (Undefined r)
  | DSameValue r => MInsn (SameValue r)
  | DRegister r1 r2 => MInsn (Register r1 r2)
  | DRememberState => MInsn RememberState
  | DRestoreState => MInsn RestoreState
  | DDefCfa r o => MInsn (Cfa r (Z.of_N o))
  | DDefCfaRegister r => MInsn (CfaRegister r)
  | DDefCfaOffset o => MInsn (CfaOffset (Z.of_N o))
  | DDefCfaExpression e => MInsn (CfaExpression e)
  | DExpression r e => MInsn (Expression r e)
  | DOffsetExtendedSf r fo => MInsn (Offset r (fo * daf))
  | DDefCfaSf r fo => MInsn (Cfa r (fo * daf))
  | DDefCfaOffsetSf fo => MInsn (CfaOffset (fo * daf))
  | DValOffset r fo => MInsn (ValOffset r (Z.of_N fo * daf))
  | DValOffsetSf r fo => MInsn (ValOffset r (fo * daf))
  | DValExpression r e => MInsn (ValExpression r e)
  | DArgsSize n => MInsn (ArgsSize n)
  | DNegateRaState => MInsn NegateRaState
  end.

(* the instructions of a program with the code offset at which each takes effect *)
Fixpoint locate (loc : N) (ms : list meaning) : list (N * cfi) :=
  match ms with
  | [] => []
  | MAdvance d :: r => locate (loc + d) r
  | MNop :: r => locate loc r
  | MInsn i :: r => (loc, i) :: locate loc r
  end.

(* ---- the encoding of a location advance, as a function of the factored delta ---- *)
Fixpoint le_enc (n : nat) (v : N) : list byte :=
  match n with O => [] | S k => n2b v :: le_enc k (v / 256) end.
Definition enc_num (n : nat) (be : bool) (v : N) : list byte :=
  if be then rev (le_enc n v) else le_enc n v.

Definition adv_enc (be : bool) (delta : N) : list byte :=
  if delta <? 64 then [n2b (64 + delta)]                    (* DW_CFA_advance_loc | delta *)
  else if delta <? 256 then [x02; n2b delta]                (* DW_CFA_advance_loc1 *)
  else if delta <? 65536 then x03 :: enc_num 2 be delta     (* DW_CFA_advance_loc2 *)
  else x04 :: enc_num 4 be delta.                           (* DW_CFA_advance_loc4 *)

(* ---- the order in which a table is emitted ----
   refs = the CIE index of every FDE in insertion order; each CIE is emitted immediately before the first
   FDE that refers to it and never again. *)
Inductive item : Type := ICie (idx : nat) | IFde (k : nat).
Fixpoint plan (seen : list nat) (k : nat) (refs : list nat) : list item :=
  match refs with
  | [] => []
  | idx :: r =>
      if existsb (Nat.eqb idx) seen then IFde k :: plan seen (S k) r
      else ICie idx :: IFde k :: plan (idx :: seen) (S k) r
  end.

(* ---- the Rust operand types, as predicates ---- *)
Definition is_u8 (n : N) : bool := n <? 256.
Definition is_u16 (n : N) : bool := n <? 65536.
Definition is_u32 (n : N) : bool := n <? 4294967296.
Definition is_i8 (z : Z) : bool := ((-128 <=? z) && (z <? 128))%Z.
Definition is_i32 (z : Z) : bool := ((-2147483648 <=? z) && (z <? 2147483648))%Z.
(* a Vec<u8> length is a usize *)
Definition is_blob (e : list byte) : bool := N.of_nat (length e) <? 18446744073709551616.

Definition cfi_wf (i : cfi) : bool :=
  match i with
  | Cfa r o => is_u16 r && is_i32 o
  | CfaRegister r => is_u16 r
  | CfaOffset o => is_i32 o
  | CfaExpression e => is_blob e
  | Restore r | Undefined r | SameValue r => is_u16 r
  | Offset r o | ValOffset r o => is_u16 r && is_i32 o
  | Register r1 r2 => is_u16 r1 && is_u16 r2
  | Expression r e | ValExpression r e => is_u16 r && is_blob e
  | RememberState | RestoreState | NegateRaState => true
  | ArgsSize n => is_u32 n
  end.

(* the operand of an instruction that the writer has to divide by the data alignment factor *)
Definition factored_operand (i : cfi) : option Z :=
  match i with
  | Cfa _ o | CfaOffset o => if (o <? 0)%Z then Some o else None
  | Offset _ o | ValOffset _ o => Some o
  | _ => None
  end.
(* o = q * daf with q an i32 *)
Definition factorable (daf o : Z) : Prop := exists q, daf <> 0%Z /\ (q * daf)%Z = o /\ is_i32 q = true.

(* ---- layout facts used by the entry_layout statements ---- *)
Definition all_nop (bs : list byte) : bool := forallb (fun b => b2n b =? 0) bs.
Definition is_pow2 (n : N) : bool := negb (n =? 0) && (N.land n (n - 1) =? 0).

(* ---- reading back the header of a CIE / FDE (z-augmentation as in the LSB eh_frame chapter) ---- *)

(* two's complement value of a bits-wide pattern *)
Definition signed_of (bits : N) (v : N) : Z :=
  if v <? 2 ^ (bits - 1) then Z.of_N v else (Z.of_N v - Z.of_N (2 ^ bits))%Z.

(* the value of a pointer-encoded field; fmt = low four bits of the DW_EH_PE byte *)
Definition pe_value (be : bool) (asz fmt : N) (bs : list byte) : option (Z * list byte) :=
  if fmt =? 0 then omap (fixed (N.to_nat asz) be bs) (fun v r => Some (Z.of_N v, r))
  else if fmt =? 1 then omap (uleb bs) (fun v r => Some (Z.of_N v, r))
  else if fmt =? 2 then omap (fixed 2 be bs) (fun v r => Some (Z.of_N v, r))
  else if fmt =? 3 then omap (fixed 4 be bs) (fun v r => Some (Z.of_N v, r))
  else if fmt =? 4 then omap (fixed 8 be bs) (fun v r => Some (Z.of_N v, r))
  else if fmt =? 9 then sleb bs
  else if fmt =? 10 then omap (fixed 2 be bs) (fun v r => Some (signed_of 16 v, r))
  else if fmt =? 11 then omap (fixed 4 be bs) (fun v r => Some (signed_of 32 v, r))
  else if fmt =? 12 then omap (fixed 8 be bs) (fun v r => Some (signed_of 64 v, r))
  else None.

(* an encoded pointer found at section offset pos (section loaded at address 0): absolute or pc-relative,
   reduced to the address size; the indirect bit does not change the stored value *)
Definition pe_pointer (be : bool) (asz enc pos : N) (bs : list byte) : option (N * list byte) :=
  omap (pe_value be asz (N.land enc 15) bs) (fun v r =>
    let m := Z.of_N (2 ^ (8 * asz)) in
    let app := N.land enc 112 in
    if app =? 0 then Some (Z.to_N (v mod m), r)
    else if app =? 16 then Some (Z.to_N ((Z.of_N pos + v) mod m), r)
    else None).

(* NUL-terminated string *)
Fixpoint cstr (bs : list byte) : option (list byte * list byte) :=
  match bs with
  | [] => None
  | b :: r => if b2n b =? 0 then Some ([], r)
              else match cstr r with Some (s, t) => Some (b :: s, t) | None => None end
  end.

Definition consumed (before after : list byte) : N := N.of_nat (length before) - N.of_nat (length after).

(* the header fields of a CIE as a reader sees them *)
Record cie_fields : Type := mkFields {
  cf_version : N;
  cf_aug : list byte;                  (* augmentation string without the NUL *)
  cf_asize : option N;                 (* address_size field (version 4) *)
  cf_caf : N;
  cf_daf : Z;
  cf_ra : N;
  cf_lsda_enc : option N;              (* 'L' *)
  cf_pers : option (N * N);            (* 'P': encoding, pointer reduced to the address size *)
  cf_fde_enc : option N;               (* 'R' *)
  cf_sig : bool                        (* 'S' *)
}.

(* the characters after 'z' against the augmentation data; pos = section offset of the first data byte *)
Fixpoint aug_walk (be : bool) (asz : N) (chars data : list byte) (pos : N)
         (l : option N) (p : option (N * N)) (r : option N) (s : bool)
  : option (option N * option (N * N) * option N * bool) :=
  match chars with
  | [] => Some (l, p, r, s)
  | ch :: cs =>
      if b2n ch =? 76 then                                       (* 'L' *)
        match data with
        | e :: d => aug_walk be asz cs d (pos + 1) (Some (b2n e)) p r s
        | [] => None
        end
      else if b2n ch =? 80 then                                  (* 'P' *)
        match data with
        | e :: d =>
            match pe_pointer be asz (b2n e) (pos + 1) d with
            | Some (v, d') => aug_walk be asz cs d' (pos + 1 + consumed d d') l (Some (b2n e, v)) r s
            | None => None
            end
        | [] => None
        end
      else if b2n ch =? 82 then                                  (* 'R' *)
        match data with
        | e :: d => aug_walk be asz cs d (pos + 1) l p (Some (b2n e)) s
        | [] => None
        end
      else if b2n ch =? 83 then aug_walk be asz cs data pos l p r true   (* 'S' *)
      else None
  end.

(* body = the entry after its initial length, found at section offset pos; asz0 = the address size of the
   section (used unless the CIE carries its own, version 4); returns the fields and the instruction area *)
Definition parse_cie_body (be eh fmt64 : bool) (asz0 pos : N) (body : list byte)
  : option (cie_fields * list byte) :=
  omap (fixed (if eh then 4 else if fmt64 then 8 else 4) be body) (fun id r0 =>
  if negb (id =? (if eh then 0 else if fmt64 then 18446744073709551615 else 4294967295)) then None else
  omap (fixed 1 be r0) (fun ver r1 =>
  omap (cstr r1) (fun aug r2 =>
  omap (if ver =? 4 then omap (fixed 1 be r2) (fun a r => omap (fixed 1 be r) (fun seg r' =>
                            if seg =? 0 then Some (Some a, r') else None))
        else Some (None, r2)) (fun oasz r3 =>
  let asz := match oasz with Some a => a | None => asz0 end in
  omap (uleb r3) (fun caf r4 =>
  omap (sleb r4) (fun daf r5 =>
  omap (if ver =? 1 then fixed 1 be r5 else uleb r5) (fun ra r6 =>
  match aug with
  | [] => Some (mkFields ver aug oasz caf daf ra None None None false, r6)
  | z :: chars =>
      if negb (b2n z =? 122) then None else
      omap (uleb r6) (fun alen r7 =>
      if N.of_nat (length r7) <? alen then None else
      let data := firstn (N.to_nat alen) r7 in
      let area := skipn (N.to_nat alen) r7 in
      match aug_walk be asz chars data (pos + consumed body r7) None None None false with
      | Some (l, p, r, s) => Some (mkFields ver aug oasz caf daf ra l p r s, area)
      | None => None
      end)
  end))))))).


(* the header fields of an FDE; what is needed from its CIE: address size, 'R' and 'L' encodings, and
   whether the CIE has an augmentation string *)
Record fde_fields : Type := mkFdeFields {
  ff_cie : N;                          (* section offset of the CIE the entry points to *)
  ff_addr : N;                         (* initial address, reduced to the address size *)
  ff_len : N;                          (* address range *)
  ff_lsda : option N
}.

Definition parse_fde_body (be eh fmt64 : bool) (asz : N) (fenc lsda_enc : option N) (has_aug : bool)
           (pos : N) (body : list byte) : option (fde_fields * list byte) :=
  omap (fixed (if eh then 4 else if fmt64 then 8 else 4) be body) (fun ptr r0 =>
  let cie_off := if eh then pos - ptr else ptr in
  omap (match fenc with
        | Some e =>
            omap (pe_pointer be asz e (pos + consumed body r0) r0) (fun a r =>
            omap (pe_value be asz (N.land e 15) r) (fun l r' =>
              Some ((a, Z.to_N (l mod 18446744073709551616)), r')))
        | None =>
            omap (fixed (N.to_nat asz) be r0) (fun a r =>
            omap (fixed (N.to_nat asz) be r) (fun l r' => Some ((a, l), r')))
        end) (fun al r1 =>
  if has_aug then
    omap (uleb r1) (fun alen r2 =>
    if N.of_nat (length r2) <? alen then None else
    let data := firstn (N.to_nat alen) r2 in
    let area := skipn (N.to_nat alen) r2 in
    match lsda_enc with
    | Some e =>
        omap (pe_pointer be asz e (pos + consumed body r2) data) (fun v _ =>
          Some (mkFdeFields cie_off (fst al) (snd al) (Some v), area))
    | None => Some (mkFdeFields cie_off (fst al) (snd al) None, area)
    end)
  else Some (mkFdeFields cie_off (fst al) (snd al) None, r1))).
