(* Spec/CfaScriptSpec.v — the DWARF call-frame machine (DWARF 5 §6.4) defined DIRECTLY over the script a
   user hands to gimli's frame-table writer (write::cfi): the CIE's `Vec<CallFrameInstruction>` and the FDE's
   `Vec<(u32 code offset, CallFrameInstruction)>` — the types of Model/CfiWr.v ([cfi] of Spec/CfaEncSpec.v).
   Nothing here mentions an encoding: offsets are in bytes (unfactored), expressions are the byte strings
   themselves, rows change exactly where the script's code offset grows.
     * [script_step]  the meaning of one abstract instruction on (cfa, rules, args_size, remembered states);
     * [script_cie]   the CIE's initial instructions;
     * [script_fde]   the FDE's instructions at their code offsets: a row [init+cur, init+off) is completed
                      whenever an instruction sits at a larger offset than the previous one; the last row ends
                      at the FDE's end address;
     * [script_rows_lim] both, with the optional storage limits of a reader context layered on exactly as
                      CfaSpec.guard does (rows needed = remembered + current + one for the saved initial rules
                      when the CIE leaves two or more; rules = registers with a non-default rule).
   The errors are the ones a reader reports (read::Error): restore in a CIE, def_cfa_register/offset while
   the CFA is an expression, negate_ra_state on a non-constant rule / for a non-AArch64 reader, restore_state
   on an empty stack, an address that does not fit the address size, and the two storage-limit errors.
   Property C14 (Proofs/CfaScriptProofs.v): the reader models (C05 entry parsing + C06 table evaluation) over
   the bytes the writer model produces return exactly these rows.  Stream: c14.rows.  No proofs here. *)
From Coq Require Import List NArith ZArith Bool.
From Coq.Strings Require Import Byte.
Require Import GV.Base.Res GV.Base.Byt GV.Base.Ints.
Require Import GV.Spec.CfaEncSpec.
Require GV.Spec.CfaSpec.
Import ListNotations.
Local Open Scope N_scope.

(* ------------------------------------------------------------------ rules, with expressions as bytes *)
Inductive xrule : Type :=
| XUndefined | XSameValue
| XOffset (o : Z) | XValOffset (o : Z)
| XRegister (r : N)
| XExpression (e : list byte) | XValExpression (e : list byte)
| XConstant (v : N).

Inductive xcfa : Type :=
| XCfaRegOff (r : N) (o : Z)
| XCfaExpr (e : list byte).

(* finite register -> rule map; an absent register has the default rule *)
Definition xmap := list (N * xrule).

Fixpoint xlookup (r : N) (m : xmap) : option xrule :=
  match m with
  | [] => None
  | (r', x) :: t => if r' =? r then Some x else xlookup r t
  end.
Definition xremove (r : N) (m : xmap) : xmap := filter (fun p => negb (fst p =? r)) m.
Definition xupdate (r : N) (o : option xrule) (m : xmap) : xmap :=
  match o with
  | Some x => (r, x) :: xremove r m
  | None => xremove r m
  end.

Record xstate := {
  x_cfa : xcfa;
  x_rules : xmap;
  x_args : N;
  x_stack : list (xcfa * xmap * N)          (* remembered (cfa, rules, args_size), newest first *)
}.

Record xrow := {
  xr_start : N; xr_end : N;
  xr_cfa : xcfa;
  xr_args : N;
  xr_rules : xmap
}.

Definition init_x : xstate := {| x_cfa := XCfaRegOff 0 0; x_rules := []; x_args := 0; x_stack := [] |}.

Definition x_with_cfa (c : xcfa) (s : xstate) : xstate :=
  {| x_cfa := c; x_rules := x_rules s; x_args := x_args s; x_stack := x_stack s |}.
Definition x_with_rules (m : xmap) (s : xstate) : xstate :=
  {| x_cfa := x_cfa s; x_rules := m; x_args := x_args s; x_stack := x_stack s |}.
Definition x_with_args (n : N) (s : xstate) : xstate :=
  {| x_cfa := x_cfa s; x_rules := x_rules s; x_args := n; x_stack := x_stack s |}.
Definition x_set (r : N) (x : xrule) (s : xstate) : xstate := x_with_rules (xupdate r (Some x) (x_rules s)) s.

Definition xrow_of (s : xstate) (a b : N) : xrow :=
  {| xr_start := a; xr_end := b; xr_cfa := x_cfa s; xr_args := x_args s; xr_rules := x_rules s |}.

(* ------------------------------------------------------------------ one abstract instruction *)
(* [aa]: the reader's vendor is AArch64 (DW_CFA_AARCH64_negate_ra_state is known to it);
   [ini]: None while the CIE's initial instructions run, Some initial_rules in an FDE. *)
Definition script_step (aa : bool) (ini : option xmap) (s : xstate) (i : cfi) : res xstate :=
  match i with
  | Cfa r o => Ok (x_with_cfa (XCfaRegOff r o) s)
  | CfaRegister r =>
      match x_cfa s with
      | XCfaRegOff _ o => Ok (x_with_cfa (XCfaRegOff r o) s)
      | XCfaExpr _ => Err ECfiInstructionInInvalidContext
      end
  | CfaOffset o =>
      match x_cfa s with
      | XCfaRegOff r _ => Ok (x_with_cfa (XCfaRegOff r o) s)
      | XCfaExpr _ => Err ECfiInstructionInInvalidContext
      end
  | CfaExpression e => Ok (x_with_cfa (XCfaExpr e) s)
  | Restore r =>
      match ini with
      | None => Err ECfiInstructionInInvalidContext
      | Some m => Ok (x_with_rules (xupdate r (xlookup r m) (x_rules s)) s)
      end
  | Undefined r => Ok (x_set r XUndefined s)
  | SameValue r => Ok (x_set r XSameValue s)
  | Offset r o => Ok (x_set r (XOffset o) s)
  | ValOffset r o => Ok (x_set r (XValOffset o) s)
  | Register r1 r2 => Ok (x_set r1 (XRegister r2) s)
  | Expression r e => Ok (x_set r (XExpression e) s)
  | ValExpression r e => Ok (x_set r (XValExpression e) s)
  | RememberState =>
      Ok {| x_cfa := x_cfa s; x_rules := x_rules s; x_args := x_args s;
            x_stack := (x_cfa s, x_rules s, x_args s) :: x_stack s |}
  | RestoreState =>
      match x_stack s with
      | [] => Err EPopWithEmptyStack
      | (c, m, a) :: st => Ok {| x_cfa := c; x_rules := m; x_args := a; x_stack := st |}
      end
  | ArgsSize n => Ok (x_with_args n s)
  | NegateRaState =>
      if negb aa then Err EUnknownCallFrameInstruction else
      match xlookup CfaSpec.RA_SIGN_STATE (x_rules s) with
      | None => Ok (x_set CfaSpec.RA_SIGN_STATE (XConstant (N.lxor 0 1)) s)
      | Some (XConstant v) => Ok (x_set CfaSpec.RA_SIGN_STATE (XConstant (N.lxor v 1)) s)
      | Some _ => Err ECfiInstructionInInvalidContext
      end
  end.

(* ------------------------------------------------------------------ storage limits of a reader context *)
Definition x_stack_occ (ini : option xmap) (s : xstate) : nat :=
  length (x_stack s) + 1 +
  match ini with
  | Some m => if Nat.leb 2 (length m) then 1 else 0
  | None => 0
  end.
Definition x_rules_occ (s : xstate) : nat := length (x_rules s).

Definition xguard (c : CfaSpec.caps) (ini : option xmap) (s : xstate) : res unit :=
  if CfaSpec.over (CfaSpec.max_stack c) (x_stack_occ ini s) then Err EStackFull
  else if CfaSpec.over (CfaSpec.max_rules c) (x_rules_occ s) then Err ETooManyRegisterRules
  else Ok tt.

Definition xstep_lim (c : CfaSpec.caps) (aa : bool) (ini : option xmap) (s : xstate) (i : cfi) : res xstate :=
  let* s' := script_step aa ini s i in
  let* _ := xguard c ini s' in
  Ok s'.

(* ------------------------------------------------------------------ whole programs *)
Fixpoint script_cie (c : CfaSpec.caps) (aa : bool) (s : xstate) (l : list cfi) : res xstate :=
  match l with
  | [] => Ok s
  | i :: r => let* s' := xstep_lim c aa None s i in script_cie c aa s' r
  end.

Definition outcome_of {A} (r : res A) : CfaSpec.outcome :=
  match r with
  | Ok _ => CfaSpec.Done
  | Err e => CfaSpec.Fail e
  | Panic => CfaSpec.Crash
  | OutOfFuel => CfaSpec.Fuel
  end.

(* the FDE's instructions; [cur] = code offset of the row being built. An instruction at a larger offset
   first completes the row [init+cur, init+off) (AddressOverflow if init+off does not fit the address size);
   an instruction whose offset is not larger takes effect in the current row (the writer refuses
   decreasing offsets, so `off < cur` never reaches a reader). *)
Fixpoint script_fde (c : CfaSpec.caps) (aa : bool) (ini : option xmap) (asz init end_addr : N)
         (cur : N) (s : xstate) (l : list (N * cfi)) : list xrow * CfaSpec.outcome :=
  match l with
  | [] => ([xrow_of s (init + cur) end_addr], CfaSpec.Done)
  | (off, i) :: r =>
      if cur <? off then
        if 2 ^ (8 * asz) <=? init + off then ([], CfaSpec.Fail EAddressOverflow)
        else
          let row := xrow_of s (init + cur) (init + off) in
          match xstep_lim c aa ini s i with
          | Ok s' => let '(rows, o) := script_fde c aa ini asz init end_addr off s' r in (row :: rows, o)
          | bad => ([row], outcome_of bad)
          end
      else
        match xstep_lim c aa ini s i with
        | Ok s' => script_fde c aa ini asz init end_addr cur s' r
        | bad => ([], outcome_of bad)
        end
  end.

(* the unwind table of an FDE with initial address [init] and address range [range] under its CIE:
   the rows delivered and how the evaluation ended *)
Definition script_rows_lim (c : CfaSpec.caps) (aa : bool) (asz init range : N)
           (cie : list cfi) (fde : list (N * cfi)) : list xrow * CfaSpec.outcome :=
  match script_cie c aa init_x cie with
  | Ok sc =>
      let ini := Some (x_rules sc) in
      match xguard c ini sc with
      | Ok _ => script_fde c aa ini asz init (CfaSpec.spec_end asz init range) 0 sc fde
      | bad => ([], outcome_of bad)
      end
  | bad => ([], outcome_of bad)
  end.

(* no storage limits: the DWARF table *)
Definition script_rows := script_rows_lim CfaSpec.no_caps.

(* "the storage limits are never hit along the unlimited evaluation" *)
Definition xguard_ok (c : CfaSpec.caps) (ini : option xmap) (s : xstate) : bool :=
  match xguard c ini s with Ok _ => true | _ => false end.

Fixpoint xfits (c : CfaSpec.caps) (aa : bool) (ini : option xmap) (s : xstate) (l : list cfi) : bool :=
  match l with
  | [] => true
  | i :: r =>
      match script_step aa ini s i with
      | Ok s' => xguard_ok c ini s' && xfits c aa ini s' r
      | _ => true
      end
  end.

Definition script_fits (c : CfaSpec.caps) (aa : bool) (cie : list cfi) (fde : list (N * cfi)) : bool :=
  xfits c aa None init_x cie &&
  match script_cie CfaSpec.no_caps aa init_x cie with
  | Ok sc => xguard_ok c (Some (x_rules sc)) sc && xfits c aa (Some (x_rules sc)) sc (map snd fde)
  | _ => true
  end.
