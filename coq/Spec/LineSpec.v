(* Spec/LineSpec.v — the DWARF line-number state machine (DWARF 5 §6.2) over unbounded Z,
   the abstract instruction / header vocabulary, and the reference encoders used to build
   structured inputs. No reference to gimli's representation choices. *)
From Coq Require Import List NArith ZArith Bool.
From Coq.Strings Require Import Byte.
Require Import GV.Base.Byt GV.Spec.LebSpec.
Import ListNotations.
Local Open Scope N_scope.

(* ------------------------------------------------------------------ vocabulary *)

(* value of one component of a v5 directory/file entry (DWARF 5 §6.2.4.1), by form class *)
Inductive form_val : Type :=
| VBlock (bs : list byte) | VData1 (n : N) | VData2 (n : N) | VData4 (n : N) | VData8 (n : N)
| VUdata (n : N) | VSdata (z : Z) | VFlag (b : bool) | VSecOffset (n : N) | VString (bs : list byte)
| VStrRef (n : N) | VStrRefSup (n : N) | VLineStrRef (n : N) | VStrOffsetsIndex (n : N).

Record file_entry : Type := mk_file {
  fe_path : form_val; fe_dir : N; fe_time : N; fe_size : N; fe_md5 : list byte; fe_source : option form_val }.

Record entry_format : Type := mk_ef { ef_ct : N; ef_form : N }.

(* content types / forms (DWARF 5 tables 7.27, 7.6) *)
Definition LNCT_path : N := 1.
Definition LNCT_directory_index : N := 2.
Definition LNCT_timestamp : N := 3.
Definition LNCT_size : N := 4.
Definition LNCT_MD5 : N := 5.
Definition LNCT_LLVM_source : N := 8193.

Definition FORM_block2 : N := 3.   Definition FORM_block4 : N := 4.   Definition FORM_data2 : N := 5.
Definition FORM_data4 : N := 6.    Definition FORM_data8 : N := 7.    Definition FORM_string : N := 8.
Definition FORM_block : N := 9.    Definition FORM_block1 : N := 10.  Definition FORM_data1 : N := 11.
Definition FORM_flag : N := 12.    Definition FORM_sdata : N := 13.   Definition FORM_strp : N := 14.
Definition FORM_udata : N := 15.   Definition FORM_sec_offset : N := 23. Definition FORM_strx : N := 26.
Definition FORM_strp_sup : N := 29. Definition FORM_data16 : N := 30. Definition FORM_line_strp : N := 31.
Definition FORM_strx1 : N := 37.   Definition FORM_strx2 : N := 38.   Definition FORM_strx3 : N := 39.
Definition FORM_strx4 : N := 40.   Definition FORM_GNU_str_index : N := 7938.
Definition FORM_GNU_strp_alt : N := 7969.

(* a decoded line-number program header *)
Record header : Type := mk_header {
  h_fmt64 : bool; h_version : N; h_addr_size : N; h_unit_length : N; h_header_length : N;
  h_min_inst_len : N; h_max_ops : N; h_default_is_stmt : bool; h_line_base : Z; h_line_range : N;
  h_opcode_base : N; h_std_lengths : list byte;
  h_dir_fmt : list entry_format; h_dirs : list form_val;
  h_file_fmt : list entry_format; h_files : list file_entry;
  h_program : list byte }.

(* line-number instructions (§6.2.5) *)
Inductive insn : Type :=
| ISpecial (op : N)
| ICopy | IAdvancePc (n : N) | IAdvanceLine (z : Z) | ISetFile (n : N) | ISetColumn (n : N)
| INegateStmt | ISetBasicBlock | IConstAddPc | IFixedAddPc (n : N)
| ISetPrologueEnd | ISetEpilogueBegin | ISetIsa (n : N)
| IUnkStd0 (op : N) | IUnkStd1 (op : N) (arg : N) | IUnkStdN (op : N) (args : list byte)
| IEndSequence | ISetAddress (a : N) | IDefineFile (f : file_entry) | ISetDiscriminator (n : N)
| IUnkExt (op : N) (bs : list byte).

(* ------------------------------------------------------------------ state machine (§6.2.2, §6.2.5) *)

Record sregs : Type := mk_sregs {
  s_address : Z; s_op_index : Z; s_file : Z; s_line : Z; s_column : Z;
  s_is_stmt : bool; s_basic_block : bool; s_end_sequence : bool;
  s_prologue_end : bool; s_epilogue_begin : bool; s_isa : Z; s_discriminator : Z }.

Definition s_init (h : header) : sregs :=
  mk_sregs 0 0 1 1 0 (h_default_is_stmt h) false false false false 0 0.

Local Open Scope Z_scope.

(* §6.2.5.1: advance the operation pointer by `adv` operations *)
Definition s_advance (h : header) (adv : Z) (s : sregs) : sregs :=
  let mil := Z.of_N (h_min_inst_len h) in
  let mops := Z.of_N (h_max_ops h) in
  let t := s_op_index s + adv in
  mk_sregs (s_address s + mil * (t / mops)) (t mod mops)
           (s_file s) (s_line s) (s_column s) (s_is_stmt s) (s_basic_block s) (s_end_sequence s)
           (s_prologue_end s) (s_epilogue_begin s) (s_isa s) (s_discriminator s).

Definition s_add_line (d : Z) (s : sregs) : sregs :=
  mk_sregs (s_address s) (s_op_index s) (s_file s) (s_line s + d) (s_column s) (s_is_stmt s)
           (s_basic_block s) (s_end_sequence s) (s_prologue_end s) (s_epilogue_begin s) (s_isa s)
           (s_discriminator s).

(* after a row has been appended by a special opcode or DW_LNS_copy *)
Definition s_after_row (s : sregs) : sregs :=
  mk_sregs (s_address s) (s_op_index s) (s_file s) (s_line s) (s_column s) (s_is_stmt s)
           false (s_end_sequence s) false false (s_isa s) 0.

(* special opcode decomposition *)
Definition adjusted (h : header) (op : Z) : Z := op - Z.of_N (h_opcode_base h).
Definition sp_line_inc (h : header) (op : Z) : Z := h_line_base h + (adjusted h op) mod Z.of_N (h_line_range h).
Definition sp_op_adv (h : header) (op : Z) : Z := (adjusted h op) / Z.of_N (h_line_range h).

(* one instruction: the registers after it, and the row it appends (if any) *)
Definition exec_spec (h : header) (s : sregs) (i : insn) : sregs * option sregs :=
  match i with
  | ISpecial op =>
      let s1 := s_advance h (sp_op_adv h (Z.of_N op)) (s_add_line (sp_line_inc h (Z.of_N op)) s) in
      (s_after_row s1, Some s1)
  | ICopy => (s_after_row s, Some s)
  | IAdvancePc n => (s_advance h (Z.of_N n) s, None)
  | IAdvanceLine z => (s_add_line z s, None)
  | ISetFile n =>
      (mk_sregs (s_address s) (s_op_index s) (Z.of_N n) (s_line s) (s_column s) (s_is_stmt s) (s_basic_block s)
                (s_end_sequence s) (s_prologue_end s) (s_epilogue_begin s) (s_isa s) (s_discriminator s), None)
  | ISetColumn n =>
      (mk_sregs (s_address s) (s_op_index s) (s_file s) (s_line s) (Z.of_N n) (s_is_stmt s) (s_basic_block s)
                (s_end_sequence s) (s_prologue_end s) (s_epilogue_begin s) (s_isa s) (s_discriminator s), None)
  | INegateStmt =>
      (mk_sregs (s_address s) (s_op_index s) (s_file s) (s_line s) (s_column s) (negb (s_is_stmt s)) (s_basic_block s)
                (s_end_sequence s) (s_prologue_end s) (s_epilogue_begin s) (s_isa s) (s_discriminator s), None)
  | ISetBasicBlock =>
      (mk_sregs (s_address s) (s_op_index s) (s_file s) (s_line s) (s_column s) (s_is_stmt s) true
                (s_end_sequence s) (s_prologue_end s) (s_epilogue_begin s) (s_isa s) (s_discriminator s), None)
  | IConstAddPc => (s_advance h (sp_op_adv h 255) s, None)
  | IFixedAddPc n =>
      (mk_sregs (s_address s + Z.of_N n) 0 (s_file s) (s_line s) (s_column s) (s_is_stmt s) (s_basic_block s)
                (s_end_sequence s) (s_prologue_end s) (s_epilogue_begin s) (s_isa s) (s_discriminator s), None)
  | ISetPrologueEnd =>
      (mk_sregs (s_address s) (s_op_index s) (s_file s) (s_line s) (s_column s) (s_is_stmt s) (s_basic_block s)
                (s_end_sequence s) true (s_epilogue_begin s) (s_isa s) (s_discriminator s), None)
  | ISetEpilogueBegin =>
      (mk_sregs (s_address s) (s_op_index s) (s_file s) (s_line s) (s_column s) (s_is_stmt s) (s_basic_block s)
                (s_end_sequence s) (s_prologue_end s) true (s_isa s) (s_discriminator s), None)
  | ISetIsa n =>
      (mk_sregs (s_address s) (s_op_index s) (s_file s) (s_line s) (s_column s) (s_is_stmt s) (s_basic_block s)
                (s_end_sequence s) (s_prologue_end s) (s_epilogue_begin s) (Z.of_N n) (s_discriminator s), None)
  | IEndSequence =>
      let s1 := mk_sregs (s_address s) (s_op_index s) (s_file s) (s_line s) (s_column s) (s_is_stmt s)
                         (s_basic_block s) true (s_prologue_end s) (s_epilogue_begin s) (s_isa s)
                         (s_discriminator s) in
      (s_init h, Some s1)
  | ISetAddress a =>
      (mk_sregs (Z.of_N a) 0 (s_file s) (s_line s) (s_column s) (s_is_stmt s) (s_basic_block s)
                (s_end_sequence s) (s_prologue_end s) (s_epilogue_begin s) (s_isa s) (s_discriminator s), None)
  | ISetDiscriminator n =>
      (mk_sregs (s_address s) (s_op_index s) (s_file s) (s_line s) (s_column s) (s_is_stmt s) (s_basic_block s)
                (s_end_sequence s) (s_prologue_end s) (s_epilogue_begin s) (s_isa s) (Z.of_N n), None)
  (* DW_LNE_define_file only extends the file table; unknown opcodes are skipped *)
  | IDefineFile _ | IUnkStd0 _ | IUnkStd1 _ _ | IUnkStdN _ _ | IUnkExt _ _ => (s, None)
  end.

Fixpoint rows_from (h : header) (s : sregs) (is : list insn) : list sregs :=
  match is with
  | [] => []
  | i :: tl =>
      let '(s', r) := exec_spec h s i in
      match r with Some x => x :: rows_from h s' tl | None => rows_from h s' tl end
  end.

(* the line-number matrix of a program *)
Definition rows_spec (h : header) (is : list insn) : list sregs := rows_from h (s_init h) is.

(* the file table after the program: header files followed by the DW_LNE_define_file entries *)
Fixpoint defined_files (is : list insn) : list file_entry :=
  match is with
  | [] => []
  | IDefineFile f :: tl => f :: defined_files tl
  | _ :: tl => defined_files tl
  end.

(* ------------------------------------------------------------------ well-formed programs *)
(* the part of the quantifier "every well-formed program": operands fit their encodings, the
   registers stay inside the target's ranges, DW_LNE_set_address never moves backwards or onto a
   tombstone value, and the line register is never driven below zero. *)

Definition two64z : Z := 18446744073709551616.
Definition addr_mask (h : header) : Z := 2 ^ (8 * Z.of_N (h_addr_size h)) - 1.
Definition u64b (n : N) : bool := (n <? 18446744073709551616)%N.

Definition nth_len (h : header) (op : N) : option N :=
  match nth_error (h_std_lengths h) (N.to_nat (op - 1)) with Some b => Some (b2n b) | None => None end.

Fixpoint no_nul (bs : list byte) : bool :=
  match bs with [] => true | b :: r => negb (b2n b =? 0)%N && no_nul r end.

(* args is exactly k canonical (minimal) unsigned LEB128 numbers below 2^64 *)
Fixpoint lebs_ok (fuel : nat) (k : N) (args : list byte) : bool :=
  match fuel with
  | O => false
  | S f =>
      if (k =? 0)%N then (match args with [] => true | _ => false end)
      else match split_leb args with
           | Some (e, rest) =>
               bytes_eqb (enc_uleb (uval e)) e && (uval e <? 18446744073709551616)%N && lebs_ok f (k - 1)%N rest
           | None => false
           end
  end.

Definition std_known (h : header) (code : N) : bool := (code <? h_opcode_base h)%N.

Definition insn_wf (h : header) (i : insn) : bool :=
  match i with
  | ISpecial op => (h_opcode_base h <=? op)%N && (op <? 256)%N
  | ICopy => std_known h 1
  | IAdvancePc n => std_known h 2 && u64b n
  | IAdvanceLine z => std_known h 3 && (- 9223372036854775808 <=? z) && (z <? 9223372036854775808)
  | ISetFile n => std_known h 4 && u64b n
  | ISetColumn n => std_known h 5 && u64b n
  | INegateStmt => std_known h 6
  | ISetBasicBlock => std_known h 7
  | IConstAddPc => std_known h 8
  | IFixedAddPc n => std_known h 9 && (n <? 65536)%N
  | ISetPrologueEnd => std_known h 10
  | ISetEpilogueBegin => std_known h 11
  | ISetIsa n => std_known h 12 && u64b n
  | IUnkStd0 op => (13 <=? op)%N && (op <? h_opcode_base h)%N &&
                   match nth_len h op with Some 0%N => true | _ => false end
  | IUnkStd1 op a => (13 <=? op)%N && (op <? h_opcode_base h)%N && u64b a &&
                   match nth_len h op with Some 1%N => true | _ => false end
  | IUnkStdN op args => (13 <=? op)%N && (op <? h_opcode_base h)%N &&
                   match nth_len h op with
                   | Some k => (2 <=? k)%N && lebs_ok (S (length args)) k args
                   | None => false end
  | IEndSequence => true
  | ISetAddress a =>
      let sz := h_addr_size h in
      ((sz =? 1) || (sz =? 2) || (sz =? 4) || (sz =? 8))%N && (Z.of_N a <=? addr_mask h)
  | IDefineFile f =>
      (h_version h <=? 4)%N &&
      match fe_path f, fe_source f with
      | VString p, None => no_nul p && u64b (fe_dir f) && u64b (fe_time f) && u64b (fe_size f) &&
                           bytes_eqb (fe_md5 f) (repeat x00 16) && u64b (N.of_nat (length p) + 64)
      | _, _ => false
      end
  | ISetDiscriminator n => u64b n
  | IUnkExt op bs =>
      (op <? 256)%N && negb (op =? 1)%N && negb (op =? 2)%N && negb (op =? 4)%N &&
      ((5 <=? h_version h)%N || negb (op =? 3)%N) && u64b (N.of_nat (length bs) + 1)
  end.

(* registers stay representable after this instruction *)
Definition step_wf (h : header) (s : sregs) (i : insn) : bool :=
  let '(s', _) := exec_spec h s i in
  insn_wf h i &&
  (0 <=? s_address s') && (s_address s' <=? addr_mask h) &&
  (0 <=? s_line s') && (s_line s' <? two64z) &&
  match i with
  | IAdvancePc n => (s_op_index s + Z.of_N n <? two64z)
  | ISetAddress a => (s_address s <=? Z.of_N a) && (Z.of_N a <? addr_mask h - 1)
  | ISpecial op => (0 <=? s_line s + sp_line_inc h (Z.of_N op))
  | _ => true
  end.

Fixpoint prog_wf_from (h : header) (s : sregs) (is : list insn) : bool :=
  match is with
  | [] => true
  | i :: tl => step_wf h s i && prog_wf_from h (fst (exec_spec h s i)) tl
  end.

(* header parameters a decoder accepts (§6.2.4) *)
Definition params_wf (h : header) : bool :=
  ((1 <=? h_min_inst_len h) && (h_min_inst_len h <? 256) &&
   (1 <=? h_max_ops h) && (h_max_ops h <? 256) &&
   (1 <=? h_line_range h) && (h_line_range h <? 256) &&
   (1 <=? h_opcode_base h) && (h_opcode_base h <? 256) &&
   (1 <=? h_addr_size h) && (h_addr_size h <=? 8))%N &&
  (-128 <=? h_line_base h) && (h_line_base h <? 128) &&
  (N.of_nat (length (h_std_lengths h)) =? h_opcode_base h - 1)%N.

Definition prog_wf (h : header) (is : list insn) : bool :=
  params_wf h && prog_wf_from h (s_init h) is.

Local Open Scope N_scope.

(* ------------------------------------------------------------------ reference encoders *)

Fixpoint le_enc (n : nat) (v : N) : list byte :=
  match n with O => [] | S k => n2b v :: le_enc k (v / 256) end.
Definition enc_fixed (n : nat) (be : bool) (v : N) : list byte :=
  if be then rev (le_enc n v) else le_enc n v.

(* minimal signed LEB128 (§7.6) *)
Fixpoint enc_sleb_fuel (fuel : nat) (z : Z) : list byte :=
  match fuel with
  | O => []
  | S f =>
      let low := (z mod 128)%Z in
      let rest := (z / 128)%Z in
      if ((rest =? 0)%Z && (low <? 64)%Z) || ((rest =? -1)%Z && (64 <=? low)%Z)
      then [n2b (Z.to_N low)]
      else n2b (128 + Z.to_N low) :: enc_sleb_fuel f rest
  end.
Definition enc_sleb (z : Z) : list byte := enc_sleb_fuel 19 z.

Definition len_n {A} (bs : list A) : N := N.of_nat (length bs).

Definition enc_ext (payload : list byte) : list byte :=
  x00 :: enc_uleb (len_n payload) ++ payload.

Definition enc_insn (be : bool) (h : header) (i : insn) : list byte :=
  match i with
  | ISpecial op => [n2b op]
  | ICopy => [x01]
  | IAdvancePc n => x02 :: enc_uleb n
  | IAdvanceLine z => x03 :: enc_sleb z
  | ISetFile n => x04 :: enc_uleb n
  | ISetColumn n => x05 :: enc_uleb n
  | INegateStmt => [x06]
  | ISetBasicBlock => [x07]
  | IConstAddPc => [x08]
  | IFixedAddPc n => x09 :: enc_fixed 2 be n
  | ISetPrologueEnd => [x0a]
  | ISetEpilogueBegin => [x0b]
  | ISetIsa n => x0c :: enc_uleb n
  | IUnkStd0 op => [n2b op]
  | IUnkStd1 op a => n2b op :: enc_uleb a
  | IUnkStdN op args => n2b op :: args
  | IEndSequence => enc_ext [x01]
  | ISetAddress a => enc_ext (x02 :: enc_fixed (N.to_nat (h_addr_size h)) be a)
  | IDefineFile f =>
      let p := match fe_path f with VString p => p | _ => [] end in
      enc_ext (x03 :: p ++ x00 :: enc_uleb (fe_dir f) ++ enc_uleb (fe_time f) ++ enc_uleb (fe_size f))
  | ISetDiscriminator n => enc_ext (x04 :: enc_uleb n)
  | IUnkExt op bs => enc_ext (n2b op :: bs)
  end.

Definition enc_prog (be : bool) (h : header) (is : list insn) : list byte :=
  concat (map (enc_insn be h) is).

(* one entry component under a form; [] when the value does not belong to the form's class *)
Definition enc_word (be fmt64 : bool) (n : N) : list byte := enc_fixed (if fmt64 then 8 else 4) be n.

Definition enc_val (be fmt64 : bool) (form : N) (v : form_val) : list byte :=
  match v with
  | VBlock bs =>
      if form =? FORM_block1 then n2b (len_n bs) :: bs
      else if form =? FORM_block2 then enc_fixed 2 be (len_n bs) ++ bs
      else if form =? FORM_block4 then enc_fixed 4 be (len_n bs) ++ bs
      else if form =? FORM_block then enc_uleb (len_n bs) ++ bs
      else if form =? FORM_data16 then bs
      else []
  | VData1 n => if form =? FORM_data1 then [n2b n] else []
  | VData2 n => if form =? FORM_data2 then enc_fixed 2 be n else []
  | VData4 n => if form =? FORM_data4 then enc_fixed 4 be n else []
  | VData8 n => if form =? FORM_data8 then enc_fixed 8 be n else []
  | VUdata n => if form =? FORM_udata then enc_uleb n else []
  | VSdata z => if form =? FORM_sdata then enc_sleb z else []
  | VFlag b => if form =? FORM_flag then [if b then x01 else x00] else []
  | VSecOffset n => if form =? FORM_sec_offset then enc_word be fmt64 n else []
  | VString s => if form =? FORM_string then s ++ [x00] else []
  | VStrRef n => if form =? FORM_strp then enc_word be fmt64 n else []
  | VStrRefSup n => if (form =? FORM_strp_sup) || (form =? FORM_GNU_strp_alt) then enc_word be fmt64 n else []
  | VLineStrRef n => if form =? FORM_line_strp then enc_word be fmt64 n else []
  | VStrOffsetsIndex n =>
      if (form =? FORM_strx) || (form =? FORM_GNU_str_index) then enc_uleb n
      else if form =? FORM_strx1 then [n2b n]
      else if form =? FORM_strx2 then enc_fixed 2 be n
      else if form =? FORM_strx3 then enc_fixed 3 be n
      else if form =? FORM_strx4 then enc_fixed 4 be n
      else []
  end.

Fixpoint enc_entry (be fmt64 : bool) (fmts : list entry_format) (vals : list form_val) : list byte :=
  match fmts, vals with
  | f :: ft, v :: vt => enc_val be fmt64 (ef_form f) v ++ enc_entry be fmt64 ft vt
  | _, _ => []
  end.

(* what an entry means (§6.2.4.1): the path component; directory index / timestamp / size as
   unsigned data; a 16-byte MD5 block; LLVM's embedded source *)
Definition udata_of (v : form_val) : option N :=
  match v with
  | VData1 n | VData2 n | VData4 n | VData8 n | VUdata n => Some n
  | VSdata z => if (z <? 0)%Z then None else Some (Z.to_N z)
  | _ => None
  end.

Fixpoint dir_of_entry (fmts : list entry_format) (vals : list form_val) (acc : option form_val) : option form_val :=
  match fmts, vals with
  | f :: ft, v :: vt => dir_of_entry ft vt (if ef_ct f =? LNCT_path then Some v else acc)
  | _, _ => acc
  end.

Definition upd_file (ct : N) (v : form_val) (f : file_entry) (p : option form_val) : file_entry * option form_val :=
  if ct =? LNCT_path then (f, Some v)
  else if ct =? LNCT_directory_index then
    (match udata_of v with Some n => mk_file (fe_path f) n (fe_time f) (fe_size f) (fe_md5 f) (fe_source f) | None => f end, p)
  else if ct =? LNCT_timestamp then
    (match udata_of v with Some n => mk_file (fe_path f) (fe_dir f) n (fe_size f) (fe_md5 f) (fe_source f) | None => f end, p)
  else if ct =? LNCT_size then
    (match udata_of v with Some n => mk_file (fe_path f) (fe_dir f) (fe_time f) n (fe_md5 f) (fe_source f) | None => f end, p)
  else if ct =? LNCT_MD5 then
    (match v with
     | VBlock bs => if len_n bs =? 16 then mk_file (fe_path f) (fe_dir f) (fe_time f) (fe_size f) bs (fe_source f) else f
     | _ => f end, p)
  else if ct =? LNCT_LLVM_source then
    (mk_file (fe_path f) (fe_dir f) (fe_time f) (fe_size f) (fe_md5 f) (Some v), p)
  else (f, p).

Definition file0 : file_entry := mk_file (VString []) 0 0 0 (repeat x00 16) None.

Fixpoint file_of_entry (fmts : list entry_format) (vals : list form_val) (f : file_entry) (p : option form_val)
  : file_entry * option form_val :=
  match fmts, vals with
  | fm :: ft, v :: vt => let '(f', p') := upd_file (ef_ct fm) v f p in file_of_entry ft vt f' p'
  | _, _ => (f, p)
  end.

(* implicit entry formats of versions 2-4 *)
Definition dir_fmt_v4 : list entry_format := [mk_ef LNCT_path FORM_string].
Definition file_fmt_v4 : list entry_format :=
  [mk_ef LNCT_path FORM_string; mk_ef LNCT_directory_index FORM_udata;
   mk_ef LNCT_timestamp FORM_udata; mk_ef LNCT_size FORM_udata].

(* a header as a producer writes it: parameters, formats, raw entries *)
Record raw_header : Type := mk_raw {
  rh_fmt64 : bool; rh_version : N; rh_addr_size : N;
  rh_min_inst_len : N; rh_max_ops : N; rh_default_is_stmt : bool; rh_line_base : Z; rh_line_range : N;
  rh_opcode_base : N; rh_std_lengths : list byte;
  rh_dir_fmt : list entry_format; rh_dirs : list (list form_val);
  rh_file_fmt : list entry_format; rh_files : list (list form_val) }.

Definition enc_fmts (fmts : list entry_format) : list byte :=
  n2b (len_n fmts) :: concat (map (fun f => enc_uleb (ef_ct f) ++ enc_uleb (ef_form f)) fmts).

(* everything after header_length *)
Definition enc_header_body (be : bool) (r : raw_header) : list byte :=
  let v := rh_version r in
  [n2b (rh_min_inst_len r)] ++ (if 4 <=? v then [n2b (rh_max_ops r)] else []) ++
  [if rh_default_is_stmt r then x01 else x00; n2b (Z.to_N (rh_line_base r mod 256)%Z);
   n2b (rh_line_range r); n2b (rh_opcode_base r)] ++ rh_std_lengths r ++
  (if v <=? 4 then
     concat (map (enc_entry be (rh_fmt64 r) dir_fmt_v4) (rh_dirs r)) ++ [x00] ++
     concat (map (enc_entry be (rh_fmt64 r) file_fmt_v4) (rh_files r)) ++ [x00]
   else
     enc_fmts (rh_dir_fmt r) ++ enc_uleb (len_n (rh_dirs r)) ++
     concat (map (enc_entry be (rh_fmt64 r) (rh_dir_fmt r)) (rh_dirs r)) ++
     enc_fmts (rh_file_fmt r) ++ enc_uleb (len_n (rh_files r)) ++
     concat (map (enc_entry be (rh_fmt64 r) (rh_file_fmt r)) (rh_files r))).

(* a whole .debug_line contribution: initial length, header, program *)
Definition enc_after_len (be : bool) (r : raw_header) (prog : list byte) : list byte :=
  let body := enc_header_body be r in
  enc_fixed 2 be (rh_version r) ++
  (if 5 <=? rh_version r then [n2b (rh_addr_size r); x00] else []) ++
  enc_word be (rh_fmt64 r) (len_n body) ++ body ++ prog.

Definition enc_unit (be : bool) (r : raw_header) (prog : list byte) : list byte :=
  let after_len := enc_after_len be r prog in
  (if rh_fmt64 r then enc_fixed 4 be 4294967295 else []) ++
  enc_word be (rh_fmt64 r) (len_n after_len) ++ after_len.

(* the tables a consumer must see for this raw header *)
Definition dirs_of_raw (r : raw_header) : list (option form_val) :=
  let fm := if rh_version r <=? 4 then dir_fmt_v4 else rh_dir_fmt r in
  map (fun vals => dir_of_entry fm vals None) (rh_dirs r).
Definition files_of_raw (r : raw_header) : list (file_entry * option form_val) :=
  let fm := if rh_version r <=? 4 then file_fmt_v4 else rh_file_fmt r in
  map (fun vals => file_of_entry fm vals file0 None) (rh_files r).

(* the header a consumer must see: `asz0` is the address size of the unit (versions 2-4 do not
   encode it) *)
Definition header_of_raw (be : bool) (asz0 : N) (r : raw_header) (prog : list byte) : header :=
  let v5 := 5 <=? rh_version r in
  mk_header (rh_fmt64 r) (rh_version r) (if v5 then rh_addr_size r else asz0)
    (len_n (enc_after_len be r prog)) (len_n (enc_header_body be r))
    (rh_min_inst_len r) (if 4 <=? rh_version r then rh_max_ops r else 1) (rh_default_is_stmt r)
    (rh_line_base r) (rh_line_range r) (rh_opcode_base r) (rh_std_lengths r)
    (if v5 then rh_dir_fmt r else [])
    (flat_map (fun o => match o with Some v => [v] | None => [] end) (dirs_of_raw r))
    (if v5 then rh_file_fmt r else [])
    (map (fun fp => let f := fst fp in
                    mk_file (match snd fp with Some v => v | None => VString [] end)
                            (fe_dir f) (fe_time f) (fe_size f) (fe_md5 f) (fe_source f))
         (files_of_raw r))
    prog.
