(* Spec/FormSpec.v — what DWARF assigns to an attribute form (DWARF 5 §7.5.5/7.5.6, Table 7.6,
   plus the GNU forms 0x1f01/0x1f02/0x1f20/0x1f21).

   form          the forms a DWARF 2–5 consumer has to know, with their codes;
   form_layout   how many bytes / which self-delimiting encoding the form's data occupies under an
                 encoding (version, 32/64-bit format, address size);
   attr_value    the vocabulary of decoded values (= the variants of gimli's public AttributeValue);
   form_value    the value a form denotes for given data, attribute name and abbreviation constant;
   enc_layout    the (unique minimal) serialisation of data under a layout.
   Nothing in this file mentions the reader. *)
From Coq Require Import List NArith ZArith Bool.
From Coq.Strings Require Import Byte.
Require Import GV.Base.Byt GV.Base.Ints GV.Spec.LebSpec.
Import ListNotations.
Local Open Scope N_scope.

(* Encoding of the unit an attribute lives in (gimli::Encoding + the section's byte order). *)
Record enc : Type := mkEnc { version : N; fmt64 : bool; address_size : N; be : bool }.

Definition word_bytes (e : enc) : N := if fmt64 e then 8 else 4.

Inductive form : Type :=
| F_addr | F_block2 | F_block4 | F_data2 | F_data4 | F_data8 | F_string | F_block | F_block1
| F_data1 | F_flag | F_sdata | F_strp | F_udata | F_ref_addr | F_ref1 | F_ref2 | F_ref4 | F_ref8
| F_ref_udata | F_indirect | F_sec_offset | F_exprloc | F_flag_present | F_strx | F_addrx
| F_ref_sup4 | F_strp_sup | F_data16 | F_line_strp | F_ref_sig8 | F_implicit_const | F_loclistx
| F_rnglistx | F_ref_sup8 | F_strx1 | F_strx2 | F_strx3 | F_strx4 | F_addrx1 | F_addrx2
| F_addrx3 | F_addrx4 | F_GNU_addr_index | F_GNU_str_index | F_GNU_ref_alt | F_GNU_strp_alt.

(* DWARF 5 Table 7.6 (codes), GNU extensions from the binutils/GCC headers *)
Definition form_code (f : form) : N :=
  match f with
  | F_addr => 1 | F_block2 => 3 | F_block4 => 4 | F_data2 => 5 | F_data4 => 6 | F_data8 => 7
  | F_string => 8 | F_block => 9 | F_block1 => 10 | F_data1 => 11 | F_flag => 12 | F_sdata => 13
  | F_strp => 14 | F_udata => 15 | F_ref_addr => 16 | F_ref1 => 17 | F_ref2 => 18 | F_ref4 => 19
  | F_ref8 => 20 | F_ref_udata => 21 | F_indirect => 22 | F_sec_offset => 23 | F_exprloc => 24
  | F_flag_present => 25 | F_strx => 26 | F_addrx => 27 | F_ref_sup4 => 28 | F_strp_sup => 29
  | F_data16 => 30 | F_line_strp => 31 | F_ref_sig8 => 32 | F_implicit_const => 33
  | F_loclistx => 34 | F_rnglistx => 35 | F_ref_sup8 => 36 | F_strx1 => 37 | F_strx2 => 38
  | F_strx3 => 39 | F_strx4 => 40 | F_addrx1 => 41 | F_addrx2 => 42 | F_addrx3 => 43
  | F_addrx4 => 44
  | F_GNU_addr_index => 7937 (* 0x1f01 *) | F_GNU_str_index => 7938 (* 0x1f02 *)
  | F_GNU_ref_alt => 7968 (* 0x1f20 *) | F_GNU_strp_alt => 7969 (* 0x1f21 *)
  end.

Definition all_forms : list form :=
  [F_addr; F_block2; F_block4; F_data2; F_data4; F_data8; F_string; F_block; F_block1;
   F_data1; F_flag; F_sdata; F_strp; F_udata; F_ref_addr; F_ref1; F_ref2; F_ref4; F_ref8;
   F_ref_udata; F_indirect; F_sec_offset; F_exprloc; F_flag_present; F_strx; F_addrx;
   F_ref_sup4; F_strp_sup; F_data16; F_line_strp; F_ref_sig8; F_implicit_const; F_loclistx;
   F_rnglistx; F_ref_sup8; F_strx1; F_strx2; F_strx3; F_strx4; F_addrx1; F_addrx2;
   F_addrx3; F_addrx4; F_GNU_addr_index; F_GNU_str_index; F_GNU_ref_alt; F_GNU_strp_alt].

Definition form_of_code (c : N) : option form :=
  find (fun f => form_code f =? c) all_forms.

(* ---- layout ---- *)
Inductive prefix_kind : Type := P1 | P2 | P4 | PUleb.

Inductive layout : Type :=
| LFixed (n : N)             (* exactly n bytes, an unsigned integer in the section's byte order *)
| LUleb | LSleb              (* one LEB128 number *)
| LBlock (p : prefix_kind)   (* a length (1/2/4 bytes or ULEB128) followed by that many bytes *)
| LCstring                   (* bytes up to and including the first NUL *)
| LNone                      (* no bytes in the DIE (value lives in the abbreviation / is implied) *)
| LIndirect.                 (* a ULEB128 form code followed by data of that form *)

Definition form_layout (f : form) (e : enc) : layout :=
  match f with
  | F_addr => LFixed (address_size e)
  | F_block2 => LBlock P2 | F_block4 => LBlock P4 | F_block => LBlock PUleb | F_block1 => LBlock P1
  | F_exprloc => LBlock PUleb
  | F_data1 | F_flag | F_ref1 | F_strx1 | F_addrx1 => LFixed 1
  | F_data2 | F_ref2 | F_strx2 | F_addrx2 => LFixed 2
  | F_strx3 | F_addrx3 => LFixed 3
  | F_data4 | F_ref4 | F_ref_sup4 | F_strx4 | F_addrx4 => LFixed 4
  | F_data8 | F_ref8 | F_ref_sig8 | F_ref_sup8 => LFixed 8
  | F_data16 => LFixed 16
  | F_string => LCstring
  | F_sdata => LSleb
  | F_udata | F_ref_udata | F_strx | F_addrx | F_loclistx | F_rnglistx
  | F_GNU_addr_index | F_GNU_str_index => LUleb
  | F_strp | F_sec_offset | F_strp_sup | F_line_strp | F_GNU_ref_alt | F_GNU_strp_alt =>
      LFixed (word_bytes e)
  | F_ref_addr => LFixed (if version e =? 2 then address_size e else word_bytes e)   (* DWARF 2: address sized *)
  | F_flag_present | F_implicit_const => LNone
  | F_indirect => LIndirect
  end.

(* the number of bytes a layout occupies when that is known without looking at the data *)
Definition layout_fixed_size (l : layout) : option N :=
  match l with LFixed n => Some n | LNone => Some 0 | _ => None end.

(* ---- values ---- *)
(* One constructor per variant of gimli::read::AttributeValue (the public vocabulary); offsets,
   indices, addresses and constants are numbers, blocks/strings are byte strings. *)
Inductive attr_value : Type :=
| VAddr (a : N) | VBlock (b : list byte)
| VData1 (n : N) | VData2 (n : N) | VData4 (n : N) | VData8 (n : N) | VData16 (n : N)
| VSdata (z : Z) | VUdata (n : N)
| VExprloc (b : list byte) | VFlag (f : bool)
| VSecOffset (o : N) | VDebugAddrBase (o : N) | VDebugAddrIndex (i : N)
| VUnitRef (o : N) | VDebugInfoRef (o : N) | VDebugInfoRefSup (o : N) | VDebugLineRef (o : N)
| VLocationListsRef (o : N) | VDebugLocListsBase (o : N) | VDebugLocListsIndex (i : N)
| VDebugMacinfoRef (o : N) | VDebugMacroRef (o : N) | VRangeListsRef (o : N)
| VDebugRngListsBase (o : N) | VDebugRngListsIndex (i : N) | VDebugTypesRef (sig : N)
| VDebugStrRef (o : N) | VDebugStrRefSup (o : N) | VDebugStrOffsetsBase (o : N)
| VDebugStrOffsetsIndex (i : N) | VDebugLineStrRef (o : N) | VString (s : list byte)
| VEncoding (n : N) | VDecimalSign (n : N) | VEndianity (n : N) | VAccessibility (n : N)
| VVisibility (n : N) | VVirtuality (n : N) | VLanguage (n : N) | VAddressClass (n : N)
| VIdentifierCase (n : N) | VCallingConvention (n : N) | VInline (n : N) | VOrdering (n : N)
| VFileIndex (n : N) | VDwoId (n : N).

(* Attributes whose class was a section pointer (loclistptr, lineptr, macptr, rangelistptr) when
   DW_FORM_data4/data8 were the only way to write one (DWARF 2/3), plus DW_AT_macros; gimli keeps
   reading data4/data8 as a section offset for these names when the width equals the offset
   size of the format. DW_AT_data_member_location became a plain constant in DWARF 4. *)
Definition legacy_pointer_names : list N :=
  [2 (* location *); 16 (* stmt_list *); 25 (* string_length *); 42 (* return_addr *);
   44 (* start_scope *); 64 (* frame_base *); 67 (* macro_info *); 121 (* macros *);
   70 (* segment *); 72 (* static_link *); 74 (* use_location *); 77 (* vtable_elem_location *);
   85 (* ranges *)].
Definition legacy_section_offset (name ver : N) : bool :=
  existsb (N.eqb name) legacy_pointer_names
  || ((name =? 56 (* data_member_location *)) && ((ver =? 2) || (ver =? 3))).

(* the data found in the DIE for one attribute, before interpretation *)
Inductive raw : Type := RNum (n : N) | RInt (z : Z) | RBytes (l : list byte) | RNone.

(* name, implicit: attribute name and the constant carried by the abbreviation *)
Definition form_value (e : enc) (name : N) (implicit : Z) (f : form) (r : raw) : option attr_value :=
  match f, r with
  | F_addr, RNum n => Some (VAddr n)
  | (F_block | F_block1 | F_block2 | F_block4), RBytes b => Some (VBlock b)
  | F_exprloc, RBytes b => Some (VExprloc b)
  | F_data1, RNum n => Some (VData1 n)
  | F_data2, RNum n => Some (VData2 n)
  | F_data4, RNum n =>
      Some (if negb (fmt64 e) && legacy_section_offset name (version e) then VSecOffset n else VData4 n)
  | F_data8, RNum n =>
      Some (if fmt64 e && legacy_section_offset name (version e) then VSecOffset n else VData8 n)
  | F_data16, RNum n => Some (VData16 n)
  | F_udata, RNum n => Some (VUdata n)
  | F_sdata, RInt z => Some (VSdata z)
  | F_flag, RNum n => Some (VFlag (negb (n =? 0)))
  | F_flag_present, RNone => Some (VFlag true)
  | F_implicit_const, RNone => Some (VSdata implicit)
  | F_sec_offset, RNum n => Some (VSecOffset n)
  | (F_ref1 | F_ref2 | F_ref4 | F_ref8 | F_ref_udata), RNum n => Some (VUnitRef n)
  | F_ref_addr, RNum n => Some (VDebugInfoRef n)
  | F_ref_sig8, RNum n => Some (VDebugTypesRef n)
  | (F_ref_sup4 | F_ref_sup8 | F_GNU_ref_alt), RNum n => Some (VDebugInfoRefSup n)
  | F_string, RBytes s => Some (VString s)
  | F_strp, RNum n => Some (VDebugStrRef n)
  | (F_strp_sup | F_GNU_strp_alt), RNum n => Some (VDebugStrRefSup n)
  | F_line_strp, RNum n => Some (VDebugLineStrRef n)
  | (F_strx | F_strx1 | F_strx2 | F_strx3 | F_strx4 | F_GNU_str_index), RNum n =>
      Some (VDebugStrOffsetsIndex n)
  | (F_addrx | F_addrx1 | F_addrx2 | F_addrx3 | F_addrx4 | F_GNU_addr_index), RNum n =>
      Some (VDebugAddrIndex n)
  | F_loclistx, RNum n => Some (VDebugLocListsIndex n)
  | F_rnglistx, RNum n => Some (VDebugRngListsIndex n)
  | _, _ => None
  end.

(* ---- serialisation of data under a layout ---- *)
Fixpoint le_enc (n : nat) (v : N) : list byte :=
  match n with
  | O => []
  | S k => n2b (v mod 256) :: le_enc k (v / 256)
  end.
Definition enc_fixed (n : nat) (bigend : bool) (v : N) : list byte :=
  if bigend then rev (le_enc n v) else le_enc n v.

(* minimal signed LEB128 of an integer (10 bytes are enough for 64 bits) *)
Fixpoint enc_sleb_fuel (fuel : nat) (z : Z) : list byte :=
  match fuel with
  | O => []
  | S f =>
      if ((-64 <=? z) && (z <? 64))%Z then [n2b (Z.to_N (z mod 128)%Z)]
      else n2b (128 + Z.to_N (z mod 128)%Z) :: enc_sleb_fuel f (z / 128)%Z
  end.
Definition enc_sleb (z : Z) : list byte := enc_sleb_fuel 10 z.

Definition enc_prefix (p : prefix_kind) (bigend : bool) (len : N) : list byte :=
  match p with
  | P1 => enc_fixed 1 bigend len
  | P2 => enc_fixed 2 bigend len
  | P4 => enc_fixed 4 bigend len
  | PUleb => enc_uleb len
  end.
Definition prefix_bound (p : prefix_kind) : N :=
  match p with P1 => 256 | P2 => two16 | P4 => two32 | PUleb => two64 end.

Definition enc_layout (l : layout) (bigend : bool) (r : raw) : option (list byte) :=
  match l, r with
  | LFixed n, RNum v => Some (enc_fixed (N.to_nat n) bigend v)
  | LUleb, RNum v => Some (enc_uleb v)
  | LSleb, RInt z => Some (enc_sleb z)
  | LBlock p, RBytes b => Some (enc_prefix p bigend (N.of_nat (length b)) ++ b)
  | LCstring, RBytes s => Some (s ++ [x00])
  | LNone, RNone => Some []
  | _, _ => None
  end.

(* the data is representable under the layout *)
Definition raw_fits (l : layout) (r : raw) : Prop :=
  match l, r with
  | LFixed n, RNum v => v < 2 ^ (8 * n)
  | LUleb, RNum v => v < two64
  | LSleb, RInt z => (- 9223372036854775808 <= z < 9223372036854775808)%Z
  | LBlock p, RBytes b => N.of_nat (length b) < prefix_bound p
  | LCstring, RBytes s => Forall (fun b => b <> x00) s
  | LNone, RNone => True
  | _, _ => False
  end.

(* `depth` nested DW_FORM_indirect hops ending in form f: the abbreviation says `spec_form depth f`,
   the DIE carries `enc_hops depth f` in front of the data *)
Definition indirect_code : N := 22.
Definition spec_form (depth : nat) (f : form) : N :=
  match depth with O => form_code f | S _ => indirect_code end.
Fixpoint enc_hops (depth : nat) (f : form) : list byte :=
  match depth with
  | O => []
  | S O => enc_uleb (form_code f)
  | S d => enc_uleb indirect_code ++ enc_hops d f
  end.

(* ---- what normalisation by attribute name must preserve ---- *)
(* the numeric payload / target of a value (constants and offsets as integers) *)
Inductive payload : Type := PInt (z : Z) | PBytes (l : list byte) | PFlag (b : bool).

Definition payload_of (v : attr_value) : payload :=
  match v with
  | VBlock b | VExprloc b | VString b => PBytes b
  | VFlag f => PFlag f
  | VSdata z => PInt z
  | VAddr n | VData1 n | VData2 n | VData4 n | VData8 n | VData16 n | VUdata n
  | VSecOffset n | VDebugAddrBase n | VDebugAddrIndex n | VUnitRef n | VDebugInfoRef n
  | VDebugInfoRefSup n | VDebugLineRef n | VLocationListsRef n | VDebugLocListsBase n
  | VDebugLocListsIndex n | VDebugMacinfoRef n | VDebugMacroRef n | VRangeListsRef n
  | VDebugRngListsBase n | VDebugRngListsIndex n | VDebugTypesRef n | VDebugStrRef n
  | VDebugStrRefSup n | VDebugStrOffsetsBase n | VDebugStrOffsetsIndex n | VDebugLineStrRef n
  | VEncoding n | VDecimalSign n | VEndianity n | VAccessibility n | VVisibility n | VVirtuality n
  | VLanguage n | VAddressClass n | VIdentifierCase n | VCallingConvention n | VInline n
  | VOrdering n | VFileIndex n | VDwoId n => PInt (Z.of_N n)
  end.

(* the numbers inside a value fit the field types of gimli's AttributeValue (u8/u16/u32/u64/u128/i64) *)
Definition value_in_range (v : attr_value) : Prop :=
  match v with
  | VBlock _ | VExprloc _ | VString _ | VFlag _ => True
  | VSdata z => (- 9223372036854775808 <= z < 9223372036854775808)%Z
  | VData1 n | VEncoding n | VDecimalSign n | VEndianity n | VAccessibility n | VVisibility n
  | VVirtuality n | VIdentifierCase n | VCallingConvention n | VInline n | VOrdering n => n < 256
  | VData2 n | VLanguage n => n < two16
  | VData4 n => n < two32
  | VData16 n => n < 2 ^ 128
  | VAddr n | VData8 n | VUdata n
  | VSecOffset n | VDebugAddrBase n | VDebugAddrIndex n | VUnitRef n | VDebugInfoRef n
  | VDebugInfoRefSup n | VDebugLineRef n | VLocationListsRef n | VDebugLocListsBase n
  | VDebugLocListsIndex n | VDebugMacinfoRef n | VDebugMacroRef n | VRangeListsRef n
  | VDebugRngListsBase n | VDebugRngListsIndex n | VDebugTypesRef n | VDebugStrRef n
  | VDebugStrRefSup n | VDebugStrOffsetsBase n | VDebugStrOffsetsIndex n | VDebugLineStrRef n
  | VAddressClass n | VFileIndex n | VDwoId n => n < two64
  end.

(* ---- reading a constant as unsigned / signed ---- *)
(* two's complement reading of an n-bit pattern *)
Definition twos (bits : N) (n : N) : Z :=
  if n <? 2 ^ (bits - 1) then Z.of_N n else (Z.of_N n - Z.of_N (2 ^ bits))%Z.

(* DW_FORM_data<n> carries no sign: unsigned reading zero-extends, signed reading sign-extends from
   the form's width; sdata/udata convert only when the value is representable *)
Definition unsigned_reading (v : attr_value) : option N :=
  match v with
  | VData1 n | VData2 n | VData4 n | VData8 n | VUdata n => Some n
  | VSdata z => if (0 <=? z)%Z then Some (Z.to_N z) else None
  | _ => None
  end.
Definition signed_reading (v : attr_value) : option Z :=
  match v with
  | VData1 n => Some (twos 8 n) | VData2 n => Some (twos 16 n)
  | VData4 n => Some (twos 32 n) | VData8 n => Some (twos 64 n)
  | VSdata z => Some z
  | VUdata n => if n <? two63 then Some (Z.of_N n) else None
  | _ => None
  end.
