(* Spec/LookupSpec.v — what the accelerated-lookup sections of DWARF mean (C17).
   * the open-addressing hash table of .debug_cu_index/.debug_tu_index (DWARF 5 §7.3.5.3):
     probe sequence, table construction by insertion, contents;
   * the DW_SECT column-kind tables (DWARF 5 table 7.1 and the GNU v2 extension);
   * the .debug_names bucket/hash organisation (DWARF 5 §6.1.1.4.5) and the DJB hash (§7.33);
   * .debug_aranges sets (§6.1.2 / §7.21) and .debug_pubnames/.debug_pubtypes sets (§6.1.1 of DWARF 4);
   * byte-level encoders of all of them (used by the generators through extraction and by the theorems).
   No proofs here. *)
From Coq Require Import List NArith ZArith Bool.
From Coq.Strings Require Import Byte.
Require Import GV.Base.Res GV.Base.Byt GV.Base.Ints GV.Spec.LebSpec GV.Model.Prim.
Import ListNotations.
Local Open Scope N_scope.

(* ------------------------------------------------------------------ words *)

(* a sequence of n-byte words in byte order be *)
Definition enc_words (n : nat) (be : bool) (ws : list N) : list byte :=
  concat (map (enc_un n be) ws).

Definition enc_word (fmt64 be : bool) (v : N) : list byte :=
  if fmt64 then enc_un 8 be v else enc_un 4 be v.

(* initial length field followed by nothing: 4 bytes, or ffffffff + 8 bytes *)
Definition enc_initial_length (fmt64 be : bool) (len : N) : list byte :=
  if fmt64 then enc_un 4 be 4294967295 ++ enc_un 8 be len else enc_un 4 be len.

Fixpoint upd {A} (l : list A) (n : nat) (x : A) : list A :=
  match l, n with
  | [], _ => []
  | _ :: r, O => x :: r
  | a :: r, S k => a :: upd r k x
  end.

(* ------------------------------------------------------------------ unit index hash table *)

(* DWARF 5 §7.3.5.3: "The primary hash H is the low-order bits of the signature masked to the table
   size; the secondary hash H' = (((signature >> 32) & mask) | 1); probe H, H+H', H+2H', ... modulo the
   table size."  slots is the table size (a power of two in a valid table). *)
Definition probe_step (slots id : N) : N := N.lor ((id / 2 ^ 32) mod slots) 1.
Definition probe (slots id j : N) : N := (id mod slots + j * probe_step slots id) mod slots.

(* a table is a list of (id, row) slots; id 0 marks an unused slot *)
Definition table := list (N * N).
Definition empty_table (slots : N) : table := repeat (0, 0) (N.to_nat slots).
Definition slot_id (t : table) (s : N) : option N := option_map fst (nth_error t (N.to_nat s)).

(* t' is t with (id,row) stored in the first unused slot of id's probe sequence *)
Definition inserted (slots : N) (t : table) (id row : N) (t' : table) : Prop :=
  exists j, j < slots /\
    (forall i, i < j -> exists x, slot_id t (probe slots id i) = Some x /\ x <> 0) /\
    slot_id t (probe slots id j) = Some 0 /\
    t' = upd t (N.to_nat (probe slots id j)) (id, row).

(* tables obtainable from the empty table by inserting distinct non-zero ids; any number of
   insertions is allowed (the table may become completely full) *)
Inductive built (slots : N) : table -> Prop :=
| built_empty : built slots (empty_table slots)
| built_insert t id row t' :
    built slots t -> id <> 0 -> id < 2 ^ 64 -> row < 2 ^ 32 ->
    (forall r, ~ In (id, r) t) ->
    inserted slots t id row t' -> built slots t'.

(* executable insertion (generators, examples): probe at most `slots` times *)
Fixpoint insert_at (fuel : nat) (slots : N) (t : table) (id row j : N) : option table :=
  match fuel with
  | O => None
  | S f =>
      let s := probe slots id j in
      match slot_id t s with
      | None => None
      | Some x => if x =? 0 then Some (upd t (N.to_nat s) (id, row))
                  else insert_at f slots t id row (j + 1)
      end
  end.
Definition insert (slots : N) (t : table) (id row : N) : option table :=
  insert_at (N.to_nat slots) slots t id row 0.
Fixpoint insert_all (slots : N) (t : table) (es : list (N * N)) : option table :=
  match es with
  | [] => Some t
  | (id, row) :: r => match insert slots t id row with Some t' => insert_all slots t' r | None => None end
  end.

(* the entries of a table: its used slots *)
Definition contents (t : table) : list (N * N) := filter (fun e => negb (fst e =? 0)) t.

(* DW_SECT_* column identifiers. Section kinds are numbered as in IndexRd.isect:
   0 abbrev 1 info 2 line 3 loc 4 loclists 5 macinfo 6 macro 7 rnglists 8 str_offsets 9 types *)
Definition DW_SECT_V2 : list (N * N) :=   (* GNU DebugFission v2 *)
  [(1, 1) (* INFO *); (2, 9) (* TYPES *); (3, 0) (* ABBREV *); (4, 2) (* LINE *); (5, 3) (* LOC *);
   (6, 8) (* STR_OFFSETS *); (7, 5) (* MACINFO *); (8, 6) (* MACRO *)].
Definition DW_SECT_V5 : list (N * N) :=   (* DWARF 5 table 7.1; 2 is reserved *)
  [(1, 1) (* INFO *); (3, 0) (* ABBREV *); (4, 2) (* LINE *); (5, 4) (* LOCLISTS *);
   (6, 8) (* STR_OFFSETS *); (7, 6) (* MACRO *); (8, 7) (* RNGLISTS *)].
Fixpoint assoc (k : N) (l : list (N * N)) : option N :=
  match l with
  | [] => None
  | (a, b) :: r => if a =? k then Some b else assoc k r
  end.

(* abstract description of an index section and its encoding (DWARF 5 §7.3.5.3) *)
Record index_desc := {
  d_v2 : bool;                (* true: 32-bit version 2; false: 16-bit version 5 + padding *)
  d_pad : N;                  (* the 16 padding bits of a version 5 header *)
  d_cols : list N;            (* DW_SECT codes of the columns *)
  d_unit_count : N;
  d_slots : table;
  d_offsets : list N;         (* unit_count rows x |cols| *)
  d_sizes : list N }.
Definition enc_index (be : bool) (d : index_desc) : list byte :=
  (if d_v2 d then enc_un 4 be 2 else enc_un 2 be 5 ++ enc_un 2 be (d_pad d))
  ++ enc_un 4 be (N.of_nat (length (d_cols d)))
  ++ enc_un 4 be (d_unit_count d)
  ++ enc_un 4 be (N.of_nat (length (d_slots d)))
  ++ enc_words 8 be (map fst (d_slots d))
  ++ enc_words 4 be (map snd (d_slots d))
  ++ enc_words 4 be (d_cols d)
  ++ enc_words 4 be (d_offsets d)
  ++ enc_words 4 be (d_sizes d).

(* ------------------------------------------------------------------ .debug_names hash organisation *)

(* DWARF 5 §6.1.1.4.5: names whose hash has the same value modulo bucket_count are adjacent in the
   hashes array; bucket b holds the 1-based index of the first of them, or 0.  *)
Fixpoint first_in_bucket (bc b : N) (i : N) (hs : list N) : N :=
  match hs with
  | [] => 0
  | h :: r => if h mod bc =? b then i + 1 else first_in_bucket bc b (i + 1) r
  end.
Fixpoint nseq (start : N) (len : nat) : list N :=
  match len with O => [] | S k => start :: nseq (start + 1) k end.
Definition build_buckets (bc : N) (hs : list N) : list N :=
  map (fun b => first_in_bucket bc b 0 hs) (nseq 0 (N.to_nat bc)).

(* hashes grouped by bucket: after the run of names of one bucket ends, that bucket never comes back *)
Fixpoint drop_run (bc b : N) (hs : list N) : list N :=
  match hs with
  | [] => []
  | x :: r => if x mod bc =? b then drop_run bc b r else hs
  end.
Fixpoint grouped (bc : N) (hs : list N) : Prop :=
  match hs with
  | [] => True
  | h :: r => (forall x, In x (drop_run bc (h mod bc) r) -> x mod bc <> h mod bc) /\ grouped bc r
  end.
(* the layout producers emit: sorted by bucket number (a special case of grouped) *)
Fixpoint bucket_sorted (bc : N) (hs : list N) : Prop :=
  match hs with
  | [] => True
  | h :: r => (forall x, In x r -> h mod bc <= x mod bc) /\ bucket_sorted bc r
  end.

(* 0-based positions of the names with hash h, in increasing order *)
Fixpoint positions (h : N) (i : N) (hs : list N) : list N :=
  match hs with
  | [] => []
  | x :: r => if x =? h then i :: positions h (i + 1) r else positions h (i + 1) r
  end.
(* the (position, hash) pairs of bucket b, in increasing order *)
Fixpoint bucket_members (bc b : N) (i : N) (hs : list N) : list (N * N) :=
  match hs with
  | [] => []
  | x :: r => if x mod bc =? b then (i, x) :: bucket_members bc b (i + 1) r
              else bucket_members bc b (i + 1) r
  end.

(* DJB hash of DWARF 5 §7.33 over the case-folded name; for ASCII the folding is to lower case *)
Definition ascii_lower (b : N) : N := if (65 <=? b) && (b <=? 90) then b + 32 else b.
Definition djb_spec (s : list byte) : N :=
  (fold_left (fun h b => h * 33 + ascii_lower (b2n b)) s 5381) mod 2 ^ 32.
Definition is_ascii (s : list byte) : bool := forallb (fun b => b2n b <? 128) s.

(* layout of one name index (DWARF 5 §6.1.1.2 / §6.1.1.4) *)
Record names_desc := {
  n_fmt64 : bool;
  n_aug : list byte;
  n_cus : list N; n_ltus : list N; n_ftus : list N;
  n_buckets : list N;
  n_name_count : N;
  n_hashes : list N;          (* present iff there are buckets *)
  n_stroffs : list N; n_entryoffs : list N;
  n_abbrev : list byte;
  n_pool : list byte }.
Definition aug_padding (len : N) : N := (4 - len mod 4) mod 4.
Definition enc_names_body (be : bool) (d : names_desc) : list byte :=
  enc_un 2 be 5 ++ enc_un 2 be 0
  ++ enc_un 4 be (N.of_nat (length (n_cus d)))
  ++ enc_un 4 be (N.of_nat (length (n_ltus d)))
  ++ enc_un 4 be (N.of_nat (length (n_ftus d)))
  ++ enc_un 4 be (N.of_nat (length (n_buckets d)))
  ++ enc_un 4 be (n_name_count d)
  ++ enc_un 4 be (N.of_nat (length (n_abbrev d)))
  ++ enc_un 4 be (N.of_nat (length (n_aug d)))
  ++ n_aug d ++ repeat x00 (N.to_nat (aug_padding (N.of_nat (length (n_aug d)))))
  ++ concat (map (enc_word (n_fmt64 d) be) (n_cus d))
  ++ concat (map (enc_word (n_fmt64 d) be) (n_ltus d))
  ++ enc_words 8 be (n_ftus d)
  ++ enc_words 4 be (n_buckets d)
  ++ enc_words 4 be (n_hashes d)
  ++ concat (map (enc_word (n_fmt64 d) be) (n_stroffs d))
  ++ concat (map (enc_word (n_fmt64 d) be) (n_entryoffs d))
  ++ n_abbrev d
  ++ n_pool d.
Definition enc_names (be : bool) (d : names_desc) : list byte :=
  let body := enc_names_body be d in
  enc_initial_length (n_fmt64 d) be (N.of_nat (length body)) ++ body.

(* name abbreviation table and entries *)
Definition enc_nabbrev (code tag : N) (attrs : list (N * N)) : list byte :=
  enc_uleb code ++ enc_uleb tag
  ++ concat (map (fun a => enc_uleb (fst a) ++ enc_uleb (snd a)) attrs)
  ++ [x00; x00].

(* ------------------------------------------------------------------ .debug_aranges *)

Record arange_desc := {
  a_fmt64 : bool; a_version : N; a_info_offset : N; a_addr_size : N; a_seg_size : N;
  a_tuples : list (N * N);
  a_tail : list byte }.       (* whatever follows the tuples inside the set (normally the (0,0) terminator) *)
Definition arange_header_len (fmt64 : bool) : N := if fmt64 then 24 else 12.
Definition arange_padding (fmt64 : bool) (addr_size : N) : N :=
  let t := 2 * addr_size in
  (t - arange_header_len fmt64 mod t) mod t.
Definition enc_tuple (sz : N) (be : bool) (t : N * N) : list byte :=
  enc_un (N.to_nat sz) be (fst t) ++ enc_un (N.to_nat sz) be (snd t).
Definition enc_arange_body (be : bool) (d : arange_desc) : list byte :=
  enc_un 2 be (a_version d) ++ enc_word (a_fmt64 d) be (a_info_offset d)
  ++ [n2b (a_addr_size d); n2b (a_seg_size d)]
  ++ repeat x00 (N.to_nat (arange_padding (a_fmt64 d) (a_addr_size d)))
  ++ concat (map (enc_tuple (a_addr_size d) be) (a_tuples d))
  ++ a_tail d.
Definition enc_arange_set (be : bool) (d : arange_desc) : list byte :=
  let body := enc_arange_body be d in
  enc_initial_length (a_fmt64 d) be (N.of_nat (length body)) ++ body.

(* what a set means: its tuples, minus the all-zero ones, minus tombstoned ones (begin >= 2^(8s) - 2),
   each with its end address; an end beyond the address size is an error at that tuple *)
Definition tombstone_min (sz : N) : N := 2 ^ (8 * sz) - 2.
Fixpoint arange_meaning (sz : N) (ts : list (N * N)) : list (N * N * N) * option error :=
  match ts with
  | [] => ([], None)
  | (b, l) :: r =>
      if (b =? 0) && (l =? 0) then arange_meaning sz r
      else if tombstone_min sz <=? b then arange_meaning sz r
      else if 2 ^ (8 * sz) <=? b + l then ([], Some EAddressOverflow)
      else let '(es, e) := arange_meaning sz r in ((b, l, b + l) :: es, e)
  end.

(* ------------------------------------------------------------------ .debug_pubnames / .debug_pubtypes *)

Record pub_desc := {
  p_fmt64 : bool; p_version : N; p_unit_offset : N; p_unit_length : N;
  p_entries : list (N * list byte);   (* (die offset <> 0, name without NUL) *)
  p_tail : list byte }.               (* normally the zero word; anything after a zero word is ignored *)
Definition enc_pub_entry (fmt64 be : bool) (e : N * list byte) : list byte :=
  enc_word fmt64 be (fst e) ++ snd e ++ [x00].
Definition enc_pub_body (be : bool) (d : pub_desc) : list byte :=
  enc_un 2 be (p_version d) ++ enc_word (p_fmt64 d) be (p_unit_offset d)
  ++ enc_word (p_fmt64 d) be (p_unit_length d)
  ++ concat (map (enc_pub_entry (p_fmt64 d) be) (p_entries d))
  ++ p_tail d.
Definition enc_pub_set (be : bool) (d : pub_desc) : list byte :=
  let body := enc_pub_body be d in
  enc_initial_length (p_fmt64 d) be (N.of_nat (length body)) ++ body.
