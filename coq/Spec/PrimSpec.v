(* Spec/PrimSpec.v — positional meaning of fixed-width integers (DWARF 5 §7.5: "integer of N bytes in
   the byte order of the object file"), written as explicit sums over byte positions so that it does not
   share its recursion with the model's le_val/be_val. *)
From Coq Require Import List NArith ZArith Bool.
From Coq.Strings Require Import Byte.
Require Import GV.Base.Byt.
Import ListNotations.
Local Open Scope N_scope.

Definition byte_at (bs : list byte) (i : nat) : N := b2n (nth i bs x00).
Definition nsum (l : list N) : N := fold_right N.add 0 l.

(* Σ_{i<|bs|} bs[i] · 256^i *)
Definition le_sum (bs : list byte) : N :=
  nsum (map (fun i => byte_at bs i * 256 ^ N.of_nat i) (seq 0 (length bs))).

(* Σ_{i<|bs|} bs[i] · 256^(|bs|-1-i) *)
Definition be_sum (bs : list byte) : N :=
  nsum (map (fun i => byte_at bs i * 256 ^ N.of_nat (length bs - 1 - i)) (seq 0 (length bs))).

Definition val_sum (be : bool) (bs : list byte) : N := if be then be_sum bs else le_sum bs.

(* two's complement reading of an unsigned value at `bits` bits *)
Definition signed_at (bits : N) (u : N) : Z :=
  if u <? 2 ^ (bits - 1) then Z.of_N u else (Z.of_N u - Z.of_N (2 ^ bits))%Z.

Definition size_ok (size : N) : bool := (size =? 1) || (size =? 2) || (size =? 4) || (size =? 8).
