(* Spec/OpEncSpec.v — the DWARF expression ENCODING as a table (DWARF 5 §2.5, §7.7.1 + the GNU / WASM
   extensions gimli knows): opcode -> operand layout, and the meaning of one decoded operation.
   Written independently of gimli's reader (src/read/op.rs): it is the decode direction of C15 and doubles
   as a second opinion on that reader (stream c15.expr compares both on gimli's own output).
   LEB128 operands use the mathematical value of Spec/LebSpec.v restricted to 64 bits. *)
From Coq Require Import List NArith ZArith Bool.
From Coq.Strings Require Import Byte.
Require Import GV.Base.Byt GV.Spec.LebSpec.
Import ListNotations.
Local Open Scope N_scope.

(* decoding parameters: DWARF version, 64-bit format, address size, byte order *)
Record dcfg := { d_version : N; d_fmt64 : bool; d_asize : N; d_be : bool }.

Inductive okind :=
| K_u8 | K_u16 | K_u32 | K_u64          (* fixed-size unsigned *)
| K_i8 | K_i16 | K_i32 | K_i64          (* fixed-size two's complement *)
| K_uleb | K_sleb
| K_addr                                (* address-size unsigned *)
| K_off                                 (* format word: 4 or 8 *)
| K_ref                                 (* DW_OP_implicit_pointer: address size in version 2, else format word *)
| K_blk_uleb                            (* ULEB length then that many bytes *)
| K_blk_u8.                             (* u8 length then that many bytes *)

Inductive oarg := AU (n : N) | AS (z : Z) | AB (bs : list byte).

(* opcode -> operands; None = not an operation this table knows.  0xed (WASM) is handled in decode_one. *)
Definition layout (opc : N) : option (list okind) :=
  if opc =? 3 then Some [K_addr]                                  (* addr *)
  else if opc =? 6 then Some []                                   (* deref *)
  else if opc =? 8 then Some [K_u8] else if opc =? 9 then Some [K_i8]
  else if opc =? 10 then Some [K_u16] else if opc =? 11 then Some [K_i16]
  else if opc =? 12 then Some [K_u32] else if opc =? 13 then Some [K_i32]
  else if opc =? 14 then Some [K_u64] else if opc =? 15 then Some [K_i64]
  else if opc =? 16 then Some [K_uleb] else if opc =? 17 then Some [K_sleb]   (* constu consts *)
  else if opc =? 21 then Some [K_u8]                               (* pick *)
  else if (18 <=? opc) && (opc <=? 34) then Some []               (* dup drop over swap rot xderef abs..plus *)
  else if opc =? 35 then Some [K_uleb]                             (* plus_uconst *)
  else if (36 <=? opc) && (opc <=? 39) then Some []               (* shl shr shra xor *)
  else if opc =? 40 then Some [K_i16]                              (* bra *)
  else if (41 <=? opc) && (opc <=? 46) then Some []               (* eq..ne *)
  else if opc =? 47 then Some [K_i16]                              (* skip *)
  else if (48 <=? opc) && (opc <=? 111) then Some []              (* lit0..31 reg0..31 *)
  else if (112 <=? opc) && (opc <=? 143) then Some [K_sleb]       (* breg0..31 *)
  else if opc =? 144 then Some [K_uleb]                            (* regx *)
  else if opc =? 145 then Some [K_sleb]                            (* fbreg *)
  else if opc =? 146 then Some [K_uleb; K_sleb]                    (* bregx *)
  else if opc =? 147 then Some [K_uleb]                            (* piece *)
  else if opc =? 148 then Some [K_u8] else if opc =? 149 then Some [K_u8]     (* deref_size xderef_size *)
  else if opc =? 150 then Some [] else if opc =? 151 then Some []  (* nop push_object_address *)
  else if opc =? 152 then Some [K_u16] else if opc =? 153 then Some [K_u32]   (* call2 call4 *)
  else if opc =? 154 then Some [K_off]                             (* call_ref *)
  else if opc =? 155 then Some [] else if opc =? 156 then Some []  (* form_tls_address call_frame_cfa *)
  else if opc =? 157 then Some [K_uleb; K_uleb]                    (* bit_piece *)
  else if opc =? 158 then Some [K_blk_uleb]                        (* implicit_value *)
  else if opc =? 159 then Some []                                  (* stack_value *)
  else if opc =? 160 then Some [K_ref; K_sleb]                     (* implicit_pointer *)
  else if opc =? 161 then Some [K_uleb] else if opc =? 162 then Some [K_uleb] (* addrx constx *)
  else if opc =? 163 then Some [K_blk_uleb]                        (* entry_value *)
  else if opc =? 164 then Some [K_uleb; K_blk_u8]                  (* const_type *)
  else if opc =? 165 then Some [K_uleb; K_uleb]                    (* regval_type *)
  else if opc =? 166 then Some [K_u8; K_uleb]                      (* deref_type *)
  else if opc =? 167 then Some [K_u8; K_uleb]                      (* xderef_type *)
  else if opc =? 168 then Some [K_uleb] else if opc =? 169 then Some [K_uleb] (* convert reinterpret *)
  else if opc =? 224 then Some []                                  (* GNU_push_tls_address *)
  else if opc =? 240 then Some []                                  (* GNU_uninit *)
  else if opc =? 242 then Some [K_ref; K_sleb]                     (* GNU_implicit_pointer *)
  else if opc =? 243 then Some [K_blk_uleb]                        (* GNU_entry_value *)
  else if opc =? 244 then Some [K_uleb; K_blk_u8]                  (* GNU_const_type *)
  else if opc =? 245 then Some [K_uleb; K_uleb]                    (* GNU_regval_type *)
  else if opc =? 246 then Some [K_u8; K_uleb]                      (* GNU_deref_type *)
  else if opc =? 247 then Some [K_uleb]                            (* GNU_convert *)
  else if opc =? 249 then Some [K_uleb]                            (* GNU_reinterpret *)
  else if opc =? 250 then Some [K_u32]                             (* GNU_parameter_ref *)
  else if opc =? 251 then Some [K_uleb] else if opc =? 252 then Some [K_uleb] (* GNU_addr_index GNU_const_index *)
  else if opc =? 253 then Some [K_off]                             (* GNU_variable_value *)
  else None.

(* ---- operand readers ---- *)

Fixpoint takeb (n : nat) (bs : list byte) : option (list byte * list byte) :=
  match n with
  | O => Some ([], bs)
  | S k => match bs with
           | [] => None
           | b :: r => match takeb k r with Some (h, t) => Some (b :: h, t) | None => None end
           end
  end.

(* value of a byte string, least significant byte first *)
Fixpoint val_le (bs : list byte) : N :=
  match bs with [] => 0 | b :: r => b2n b + 256 * val_le r end.
Definition val_of (be : bool) (bs : list byte) : N := if be then val_le (rev bs) else val_le bs.

Definition rd_fixed (be : bool) (n : nat) (bs : list byte) : option (N * list byte) :=
  match takeb n bs with Some (h, t) => Some (val_of be h, t) | None => None end.

(* two's complement meaning of an n-byte pattern *)
Definition sext (n : nat) (v : N) : Z :=
  let bits := 8 * N.of_nat n in
  if v <? 2 ^ (bits - 1) then Z.of_N v else (Z.of_N v - Z.of_N (2 ^ bits))%Z.

Definition rd_signed (be : bool) (n : nat) (bs : list byte) : option (Z * list byte) :=
  match rd_fixed be n bs with Some (v, t) => Some (sext n v, t) | None => None end.

(* LEB128 restricted to what fits 64 bits in at most 10 bytes (the representable operands) *)
Definition rd_uleb (bs : list byte) : option (N * list byte) :=
  match split_leb bs with
  | Some (e, r) => if (length e <=? 10)%nat && (uval e <? 2 ^ 64) then Some (uval e, r) else None
  | None => None
  end.
Definition rd_sleb (bs : list byte) : option (Z * list byte) :=
  match split_leb bs with
  | Some (e, r) =>
      if (length e <=? 10)%nat && (- 2 ^ 63 <=? sval e)%Z && (sval e <? 2 ^ 63)%Z then Some (sval e, r) else None
  | None => None
  end.

Definition size_nat (s : N) : option nat :=
  if s =? 1 then Some 1%nat else if s =? 2 then Some 2%nat else if s =? 4 then Some 4%nat
  else if s =? 8 then Some 8%nat else None.

Definition rd_sized (be : bool) (s : N) (bs : list byte) : option (N * list byte) :=
  match size_nat s with Some n => rd_fixed be n bs | None => None end.

Definition rd_block (len : N) (bs : list byte) : option (list byte * list byte) :=
  if N.of_nat (length bs) <? len then None else takeb (N.to_nat len) bs.

Definition rd_kind (c : dcfg) (k : okind) (bs : list byte) : option (oarg * list byte) :=
  let u r := match r with Some (v, t) => Some (AU v, t) | None => None end in
  let s r := match r with Some (v, t) => Some (AS v, t) | None => None end in
  match k with
  | K_u8 => u (rd_fixed (d_be c) 1 bs) | K_u16 => u (rd_fixed (d_be c) 2 bs)
  | K_u32 => u (rd_fixed (d_be c) 4 bs) | K_u64 => u (rd_fixed (d_be c) 8 bs)
  | K_i8 => s (rd_signed (d_be c) 1 bs) | K_i16 => s (rd_signed (d_be c) 2 bs)
  | K_i32 => s (rd_signed (d_be c) 4 bs) | K_i64 => s (rd_signed (d_be c) 8 bs)
  | K_uleb => u (rd_uleb bs)
  | K_sleb => s (rd_sleb bs)
  | K_addr => u (rd_sized (d_be c) (d_asize c) bs)
  | K_off => u (rd_fixed (d_be c) (if d_fmt64 c then 8 else 4) bs)
  | K_ref => if d_version c =? 2 then u (rd_sized (d_be c) (d_asize c) bs)
             else u (rd_fixed (d_be c) (if d_fmt64 c then 8 else 4) bs)
  | K_blk_uleb => match rd_uleb bs with
                  | Some (len, t) => match rd_block len t with Some (b, t') => Some (AB b, t') | None => None end
                  | None => None
                  end
  | K_blk_u8 => match rd_fixed (d_be c) 1 bs with
                | Some (len, t) => match rd_block len t with Some (b, t') => Some (AB b, t') | None => None end
                | None => None
                end
  end.

Fixpoint rd_kinds (c : dcfg) (ks : list okind) (bs : list byte) : option (list oarg * list byte) :=
  match ks with
  | [] => Some ([], bs)
  | k :: ks' => match rd_kind c k bs with
                | Some (a, t) => match rd_kinds c ks' t with
                                 | Some (as', t') => Some (a :: as', t')
                                 | None => None
                                 end
                | None => None
                end
  end.

(* ---- meaning of one decoded operation (same granularity as a consumer of DWARF needs) ---- *)
Inductive dop :=
| DoSimple (opc : N)                          (* stack/arithmetic/control operation without operands, by opcode;
                                                 GNU_push_tls_address is form_tls_address *)
| DoAddress (a : N)
| DoUConst (v : N) | DoSConst (v : Z)
| DoPick (index : N)
| DoDeref (base size : N) (space : bool)      (* base 0 = generic type *)
| DoPlusConst (v : N)
| DoBra (disp : Z) | DoSkip (disp : Z)        (* displacement from the end of the 3-byte operation *)
| DoRegister (reg : N)
| DoRegOffset (reg : N) (off : Z) (base : N)
| DoFrameOffset (off : Z)
| DoPiece (bits : N) (bit_off : option N)
| DoCallUnit (off : N) | DoCallRef (off : N)
| DoVarValue (off : N)
| DoImplicitValue (data : list byte)
| DoImplicitPointer (off : N) (byte_off : Z)
| DoAddrIndex (i : N) | DoConstIndex (i : N)
| DoEntryValue (expr : list byte)
| DoParameterRef (off : N)
| DoTypedLiteral (base : N) (value : list byte)
| DoConvert (base : N) | DoReinterpret (base : N)
| DoWasmLocal (i : N) | DoWasmGlobal (i : N) | DoWasmStack (i : N).

Definition meaning (c : dcfg) (opc : N) (args : list oarg) : option dop :=
  match args with
  | [] =>
      if opc =? 6 then Some (DoDeref 0 (d_asize c) false)
      else if opc =? 24 then Some (DoDeref 0 (d_asize c) true)
      else if opc =? 18 then Some (DoPick 0)
      else if opc =? 20 then Some (DoPick 1)
      else if (48 <=? opc) && (opc <=? 79) then Some (DoUConst (opc - 48))
      else if (80 <=? opc) && (opc <=? 111) then Some (DoRegister (opc - 80))
      else if opc =? 224 then Some (DoSimple 155)
      else Some (DoSimple opc)
  | [AU v] =>
      if opc =? 3 then Some (DoAddress v)
      else if (opc =? 8) || (opc =? 10) || (opc =? 12) || (opc =? 14) || (opc =? 16) then Some (DoUConst v)
      else if opc =? 21 then Some (DoPick v)
      else if opc =? 35 then Some (DoPlusConst v)
      else if opc =? 144 then (if v <? 65536 then Some (DoRegister v) else None)
      else if opc =? 147 then (if v * 8 <? 2 ^ 64 then Some (DoPiece (v * 8) None) else None)
      else if opc =? 148 then Some (DoDeref 0 v false)
      else if opc =? 149 then Some (DoDeref 0 v true)
      else if (opc =? 152) || (opc =? 153) then Some (DoCallUnit v)
      else if opc =? 154 then Some (DoCallRef v)
      else if opc =? 253 then Some (DoVarValue v)
      else if (opc =? 161) || (opc =? 251) then Some (DoAddrIndex v)
      else if (opc =? 162) || (opc =? 252) then Some (DoConstIndex v)
      else if (opc =? 168) || (opc =? 247) then Some (DoConvert v)
      else if (opc =? 169) || (opc =? 249) then Some (DoReinterpret v)
      else if opc =? 250 then Some (DoParameterRef v)
      else None
  | [AS v] =>
      if (opc =? 9) || (opc =? 11) || (opc =? 13) || (opc =? 15) || (opc =? 17) then Some (DoSConst v)
      else if opc =? 40 then Some (DoBra v)
      else if opc =? 47 then Some (DoSkip v)
      else if (112 <=? opc) && (opc <=? 143) then Some (DoRegOffset (opc - 112) v 0)
      else if opc =? 145 then Some (DoFrameOffset v)
      else None
  | [AB b] =>
      if opc =? 158 then Some (DoImplicitValue b)
      else if (opc =? 163) || (opc =? 243) then Some (DoEntryValue b)
      else None
  | [AU a; AS s] =>
      if opc =? 146 then (if a <? 65536 then Some (DoRegOffset a s 0) else None)
      else if (opc =? 160) || (opc =? 242) then Some (DoImplicitPointer a s)
      else None
  | [AU a; AU b] =>
      if opc =? 157 then Some (DoPiece a (Some b))
      else if (opc =? 165) || (opc =? 245) then (if a <? 65536 then Some (DoRegOffset a 0 b) else None)
      else if (opc =? 166) || (opc =? 246) then Some (DoDeref b a false)
      else if opc =? 167 then Some (DoDeref b a true)
      else None
  | [AU a; AB b] =>
      if (opc =? 164) || (opc =? 244) then Some (DoTypedLiteral a b) else None
  | _ => None
  end.

(* DW_OP_WASM_location: sub-opcode byte, then ULEB index (0,1,2) or u32 (3); index must fit u32 *)
Definition decode_wasm (c : dcfg) (bs : list byte) : option (dop * list byte) :=
  match bs with
  | [] => None
  | k :: t =>
      let kind := b2n k in
      if kind <? 3 then
        match rd_uleb t with
        | Some (i, t') =>
            if i <? 2 ^ 32 then
              Some ((if kind =? 0 then DoWasmLocal i else if kind =? 1 then DoWasmGlobal i else DoWasmStack i), t')
            else None
        | None => None
        end
      else if kind =? 3 then
        match rd_fixed (d_be c) 4 t with Some (i, t') => Some (DoWasmGlobal i, t') | None => None end
      else None
  end.

Definition decode_one (c : dcfg) (bs : list byte) : option (dop * list byte) :=
  match bs with
  | [] => None
  | o :: t =>
      let opc := b2n o in
      if opc =? 237 then decode_wasm c t else
      match layout opc with
      | None => None
      | Some ks =>
          match rd_kinds c ks t with
          | Some (args, t') => match meaning c opc args with Some d => Some (d, t') | None => None end
          | None => None
          end
      end
  end.

(* the whole expression: (offset of the operation from the start of the expression, operation) *)
Fixpoint decode_from (fuel : nat) (c : dcfg) (off : N) (bs : list byte) : option (list (N * dop)) :=
  match bs with
  | [] => Some []
  | _ :: _ =>
      match fuel with
      | O => None
      | S f =>
          match decode_one c bs with
          | Some (d, t) =>
              let used := N.of_nat (length bs) - N.of_nat (length t) in
              match decode_from f c (off + used) t with
              | Some l => Some ((off, d) :: l)
              | None => None
              end
          | None => None
          end
      end
  end.

Definition decode (c : dcfg) (bs : list byte) : option (list (N * dop)) :=
  decode_from (length bs) c 0 bs.
