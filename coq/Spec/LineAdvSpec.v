(* Spec/LineAdvSpec.v — the DWARF meaning (DWARF 5 §6.2.2, §6.2.5) of the line-number
   instructions that gimli's line WRITER emits, over unbounded Z. This is the reader-side
   yardstick of property C13 only; the full reader model belongs to C04 (LineRd/LineSpec). *)
From Coq Require Import List ZArith Bool.
Import ListNotations.
Local Open Scope Z_scope.

(* header parameters the instructions are interpreted under *)
Record lparams : Type := mkLP {
  lp_min_len : Z;          (* minimum_instruction_length *)
  lp_max_ops : Z;          (* maximum_operations_per_instruction *)
  lp_line_base : Z;
  lp_line_range : Z;
  lp_opcode_base : Z;
  lp_default_is_stmt : bool
}.

(* state-machine registers (§6.2.2) *)
Record regs : Type := mkRegs {
  r_address : Z;
  r_op_index : Z;
  r_file : Z;
  r_line : Z;
  r_column : Z;
  r_is_stmt : bool;
  r_basic_block : bool;
  r_end_sequence : bool;
  r_prologue_end : bool;
  r_epilogue_begin : bool;
  r_isa : Z;
  r_discriminator : Z
}.

Definition init_regs (p : lparams) : regs :=
  mkRegs 0 0 1 1 0 (lp_default_is_stmt p) false false false false 0 0.

(* the instructions the writer can emit, with raw operands *)
Inductive sinsn : Type :=
| SSpecial (opcode : Z)
| SCopy
| SAdvancePc (n : Z)
| SAdvanceLine (d : Z)
| SSetFile (f : Z)
| SSetColumn (c : Z)
| SNegateStmt
| SSetBasicBlock
| SConstAddPc
| SSetPrologueEnd
| SSetEpilogueBegin
| SSetIsa (i : Z)
| SEndSequence
| SSetAddress (a : Z)
| SSetDiscriminator (d : Z).

(* "operation advance" (§6.2.5.1): also the VLIW case; for max_ops = 1 it is address += min_len * n *)
Definition op_adv (p : lparams) (n : Z) (r : regs) : regs :=
  let t := r_op_index r + n in
  mkRegs (r_address r + lp_min_len p * (t / lp_max_ops p)) (t mod lp_max_ops p)
         (r_file r) (r_line r) (r_column r) (r_is_stmt r) (r_basic_block r) (r_end_sequence r)
         (r_prologue_end r) (r_epilogue_begin r) (r_isa r) (r_discriminator r).

Definition line_adv (d : Z) (r : regs) : regs :=
  mkRegs (r_address r) (r_op_index r) (r_file r) (r_line r + d) (r_column r) (r_is_stmt r)
         (r_basic_block r) (r_end_sequence r) (r_prologue_end r) (r_epilogue_begin r) (r_isa r)
         (r_discriminator r).

(* special opcode: adjusted = opcode - opcode_base; operation advance = adjusted / line_range;
   line increment = line_base + adjusted mod line_range *)
Definition special_op_adv (p : lparams) (opcode : Z) : Z := (opcode - lp_opcode_base p) / lp_line_range p.
Definition special_line_adv (p : lparams) (opcode : Z) : Z :=
  lp_line_base p + (opcode - lp_opcode_base p) mod lp_line_range p.

Definition set_file f r := mkRegs (r_address r) (r_op_index r) f (r_line r) (r_column r) (r_is_stmt r)
  (r_basic_block r) (r_end_sequence r) (r_prologue_end r) (r_epilogue_begin r) (r_isa r) (r_discriminator r).
Definition set_column c r := mkRegs (r_address r) (r_op_index r) (r_file r) (r_line r) c (r_is_stmt r)
  (r_basic_block r) (r_end_sequence r) (r_prologue_end r) (r_epilogue_begin r) (r_isa r) (r_discriminator r).
Definition set_is_stmt b r := mkRegs (r_address r) (r_op_index r) (r_file r) (r_line r) (r_column r) b
  (r_basic_block r) (r_end_sequence r) (r_prologue_end r) (r_epilogue_begin r) (r_isa r) (r_discriminator r).
Definition set_basic_block b r := mkRegs (r_address r) (r_op_index r) (r_file r) (r_line r) (r_column r) (r_is_stmt r)
  b (r_end_sequence r) (r_prologue_end r) (r_epilogue_begin r) (r_isa r) (r_discriminator r).
Definition set_end_sequence b r := mkRegs (r_address r) (r_op_index r) (r_file r) (r_line r) (r_column r) (r_is_stmt r)
  (r_basic_block r) b (r_prologue_end r) (r_epilogue_begin r) (r_isa r) (r_discriminator r).
Definition set_prologue_end b r := mkRegs (r_address r) (r_op_index r) (r_file r) (r_line r) (r_column r) (r_is_stmt r)
  (r_basic_block r) (r_end_sequence r) b (r_epilogue_begin r) (r_isa r) (r_discriminator r).
Definition set_epilogue_begin b r := mkRegs (r_address r) (r_op_index r) (r_file r) (r_line r) (r_column r) (r_is_stmt r)
  (r_basic_block r) (r_end_sequence r) (r_prologue_end r) b (r_isa r) (r_discriminator r).
Definition set_isa i r := mkRegs (r_address r) (r_op_index r) (r_file r) (r_line r) (r_column r) (r_is_stmt r)
  (r_basic_block r) (r_end_sequence r) (r_prologue_end r) (r_epilogue_begin r) i (r_discriminator r).
Definition set_discriminator d r := mkRegs (r_address r) (r_op_index r) (r_file r) (r_line r) (r_column r) (r_is_stmt r)
  (r_basic_block r) (r_end_sequence r) (r_prologue_end r) (r_epilogue_begin r) (r_isa r) d.
(* DW_LNE_set_address: address := a, op_index := 0 *)
Definition set_address a r := mkRegs a 0 (r_file r) (r_line r) (r_column r) (r_is_stmt r)
  (r_basic_block r) (r_end_sequence r) (r_prologue_end r) (r_epilogue_begin r) (r_isa r) (r_discriminator r).

(* one instruction: new registers and whether a row is appended (the row is the new registers) *)
Definition exec (p : lparams) (i : sinsn) (r : regs) : regs * bool :=
  match i with
  | SSpecial opc => (op_adv p (special_op_adv p opc) (line_adv (special_line_adv p opc) r), true)
  | SCopy => (r, true)
  | SAdvancePc n => (op_adv p n r, false)
  | SAdvanceLine d => (line_adv d r, false)
  | SSetFile f => (set_file f r, false)
  | SSetColumn c => (set_column c r, false)
  | SNegateStmt => (set_is_stmt (negb (r_is_stmt r)) r, false)
  | SSetBasicBlock => (set_basic_block true r, false)
  | SConstAddPc => (op_adv p (special_op_adv p 255) r, false)
  | SSetPrologueEnd => (set_prologue_end true r, false)
  | SSetEpilogueBegin => (set_epilogue_begin true r, false)
  | SSetIsa i => (set_isa i r, false)
  | SEndSequence => (set_end_sequence true r, true)
  | SSetAddress a => (set_address a r, false)
  | SSetDiscriminator d => (set_discriminator d r, false)
  end.

(* after a row has been appended: end_sequence resets every register; otherwise
   discriminator, basic_block, prologue_end, epilogue_begin are cleared (§6.2.5.1 steps 4-7) *)
Definition after_row (p : lparams) (r : regs) : regs :=
  if r_end_sequence r then init_regs p
  else set_discriminator 0 (set_basic_block false (set_prologue_end false (set_epilogue_begin false r))).

Definition step (p : lparams) (i : sinsn) (r : regs) : list regs * regs :=
  let (r', emit) := exec p i r in
  if emit then ([r'], after_row p r') else ([], r').

(* the rows of an instruction list started in registers r, and the registers afterwards *)
Fixpoint run (p : lparams) (is : list sinsn) (r : regs) : list regs * regs :=
  match is with
  | [] => ([], r)
  | i :: rest =>
      let (rows1, r1) := step p i r in
      let (rows2, r2) := run p rest r1 in
      (rows1 ++ rows2, r2)
  end.

Definition rows_of (p : lparams) (is : list sinsn) : list regs := fst (run p is (init_regs p)).
