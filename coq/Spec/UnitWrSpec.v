(* Spec/UnitWrSpec.v — what a written `.debug_info` unit body means (DWARF 5 §7.5):
   a DIE is an abbreviation code (ULEB128), then one value per attribute
   specification of that abbreviation laid out as its DW_FORM prescribes, then — if
   the abbreviation says DW_CHILDREN_yes — the children followed by a 0 byte.
   `form_decode` is the form layout (the C03 reading of a form), `decode_die` the
   tree reader. Nothing here knows about the writer. *)
From Coq Require Import List NArith ZArith Bool.
From Coq.Strings Require Import Byte.
Require Import GV.Base.Byt GV.Spec.LebSpec.
Import ListNotations.
Local Open Scope N_scope.

(* ---- constants (src/constants.rs) ---- *)
Definition DW_FORM_addr : N := 1.
Definition DW_FORM_data2 : N := 5.
Definition DW_FORM_data4 : N := 6.
Definition DW_FORM_data8 : N := 7.
Definition DW_FORM_string : N := 8.
Definition DW_FORM_block : N := 9.
Definition DW_FORM_data1 : N := 11.
Definition DW_FORM_flag : N := 12.
Definition DW_FORM_sdata : N := 13.
Definition DW_FORM_strp : N := 14.
Definition DW_FORM_udata : N := 15.
Definition DW_FORM_ref_addr : N := 16.
Definition DW_FORM_ref4 : N := 19.
Definition DW_FORM_ref8 : N := 20.
Definition DW_FORM_sec_offset : N := 23.
Definition DW_FORM_exprloc : N := 24.
Definition DW_FORM_flag_present : N := 25.
Definition DW_FORM_ref_sup4 : N := 28.
Definition DW_FORM_strp_sup : N := 29.
Definition DW_FORM_data16 : N := 30.
Definition DW_FORM_line_strp : N := 31.
Definition DW_FORM_ref_sig8 : N := 32.
Definition DW_FORM_implicit_const : N := 33.
Definition DW_FORM_ref_sup8 : N := 36.

Definition DW_AT_sibling : N := 1.
Definition DW_AT_stmt_list : N := 16.
Definition DW_AT_low_pc : N := 17.
Definition DW_TAG_compile_unit : N := 17.
Definition DW_TAG_base_type : N := 36.
Definition DW_UT_compile : N := 1.

(* gimli::Encoding: version (u16), format, address size (u8) *)
Record encoding := mkEnc { e_ver : N; e_fmt64 : bool; e_asz : N }.
Definition wsz (e : encoding) : N := if e_fmt64 e then 8 else 4.

(* ---- form layout ---- *)
Inductive rval :=
| RU (n : N)              (* unsigned constant / offset / address / reference *)
| RS (z : Z)              (* signed constant *)
| RB (bs : list byte)     (* block / expression / string contents *)
| RNone.                  (* flag_present *)

Fixpoint take_n (n : nat) (bs : list byte) : option (list byte * list byte) :=
  match n with
  | O => Some ([], bs)
  | S k => match bs with
           | [] => None
           | b :: r => match take_n k r with Some (h, t) => Some (b :: h, t) | None => None end
           end
  end.

Fixpoint le_num (bs : list byte) : N :=
  match bs with [] => 0 | b :: r => b2n b + 256 * le_num r end.
Definition fixed_num (be : bool) (bs : list byte) : N := if be then le_num (rev bs) else le_num bs.

Definition dec_fixed (n : N) (be : bool) (bs : list byte) : option (rval * list byte) :=
  match take_n (N.to_nat n) bs with
  | Some (h, t) => Some (RU (fixed_num be h), t)
  | None => None
  end.

Definition dec_uleb (bs : list byte) : option (N * list byte) :=
  match split_leb bs with Some (e, rest) => Some (uval e, rest) | None => None end.
Definition dec_sleb (bs : list byte) : option (Z * list byte) :=
  match split_leb bs with Some (e, rest) => Some (sval e, rest) | None => None end.

Fixpoint dec_cstr (bs : list byte) : option (list byte * list byte) :=
  match bs with
  | [] => None
  | b :: r => if b2n b =? 0 then Some ([], r)
              else match dec_cstr r with Some (s, t) => Some (b :: s, t) | None => None end
  end.

(* the value of `form` at the head of `bs` in a unit with encoding e; `ic` is the
   implicit constant stored in the abbreviation *)
Definition form_decode (e : encoding) (be : bool) (form : N) (ic : Z) (bs : list byte)
  : option (rval * list byte) :=
  if form =? DW_FORM_addr then dec_fixed (e_asz e) be bs
  else if (form =? DW_FORM_block) || (form =? DW_FORM_exprloc) then
    match dec_uleb bs with
    | Some (len, r) => match take_n (N.to_nat len) r with
                       | Some (h, t) => Some (RB h, t) | None => None end
    | None => None
    end
  else if (form =? DW_FORM_data1) || (form =? DW_FORM_flag) then dec_fixed 1 be bs
  else if form =? DW_FORM_data2 then dec_fixed 2 be bs
  else if (form =? DW_FORM_data4) || (form =? DW_FORM_ref4) || (form =? DW_FORM_ref_sup4) then dec_fixed 4 be bs
  else if (form =? DW_FORM_data8) || (form =? DW_FORM_ref8) || (form =? DW_FORM_ref_sup8)
          || (form =? DW_FORM_ref_sig8) then dec_fixed 8 be bs
  else if form =? DW_FORM_data16 then dec_fixed 16 be bs
  else if form =? DW_FORM_sdata then
    match dec_sleb bs with Some (z, r) => Some (RS z, r) | None => None end
  else if form =? DW_FORM_udata then
    match dec_uleb bs with Some (n, r) => Some (RU n, r) | None => None end
  else if form =? DW_FORM_flag_present then Some (RNone, bs)
  else if form =? DW_FORM_implicit_const then Some (RS ic, bs)
  else if form =? DW_FORM_string then
    match dec_cstr bs with Some (s, r) => Some (RB s, r) | None => None end
  else if (form =? DW_FORM_strp) || (form =? DW_FORM_line_strp) || (form =? DW_FORM_strp_sup)
          || (form =? DW_FORM_sec_offset) then dec_fixed (wsz e) be bs
  else if form =? DW_FORM_ref_addr then
    dec_fixed (if e_ver e =? 2 then e_asz e else wsz e) be bs
  else None.

(* ---- abbreviations and the DIE tree ---- *)
Record aspec := mkAspec { as_name : N; as_form : N; as_ic : Z }.
Record abbrev := mkAbbrev { ab_tag : N; ab_children : bool; ab_attrs : list aspec }.

(* a decoded DIE: where it starts (section offset), tag, (name, form, value)*, children *)
Inductive sdie := SDie (off : N) (tag : N) (attrs : list (N * N * rval)) (children : list sdie).

Fixpoint decode_attrs (e : encoding) (be : bool) (specs : list aspec) (bs : list byte)
  : option (list (N * N * rval) * list byte) :=
  match specs with
  | [] => Some ([], bs)
  | s :: r =>
      match form_decode e be (as_form s) (as_ic s) bs with
      | Some (v, bs1) =>
          match decode_attrs e be r bs1 with
          | Some (l, bs2) => Some ((as_name s, as_form s, v) :: l, bs2)
          | None => None
          end
      | None => None
      end
  end.

(* abbreviation code c (1-based) of a table written in code order *)
Definition abbrev_lookup (tab : list abbrev) (code : N) : option abbrev :=
  if code =? 0 then None else nth_error tab (N.to_nat (code - 1)).

Definition blen (bs : list byte) : N := N.of_nat (length bs).

(* children of a DIE: DIEs up to the null entry (a 0 code byte); `dd` reads one DIE *)
Fixpoint decode_kids (dd : N -> list byte -> option (sdie * list byte)) (n : nat) (pos : N) (bs : list byte)
  : option (list sdie * list byte) :=
  match n with
  | O => None
  | S k =>
      match bs with
      | [] => None
      | b :: r =>
          if b2n b =? 0 then Some ([], r)
          else
            match dd pos bs with
            | Some (d, bs1) =>
                match decode_kids dd k (pos + (blen bs - blen bs1)) bs1 with
                | Some (ds, bs2) => Some (d :: ds, bs2)
                | None => None
                end
            | None => None
            end
      end
  end.

(* one DIE at section offset `pos`; None = malformed. Every DIE consumes at least one
   byte, so fuel = number of bytes + 1 always suffices. *)
Fixpoint decode_die (fuel : nat) (e : encoding) (be : bool) (tab : list abbrev) (pos : N) (bs : list byte)
  : option (sdie * list byte) :=
  match fuel with
  | O => None
  | S f =>
      match dec_uleb bs with
      | None => None
      | Some (code, bs1) =>
          match abbrev_lookup tab code with
          | None => None
          | Some ab =>
              match decode_attrs e be (ab_attrs ab) bs1 with
              | None => None
              | Some (attrs, bs2) =>
                  if ab_children ab then
                    match decode_kids (decode_die f e be tab) f (pos + (blen bs - blen bs2)) bs2 with
                    | Some (ch, bs3) => Some (SDie pos (ab_tag ab) attrs ch, bs3)
                    | None => None
                    end
                  else Some (SDie pos (ab_tag ab) attrs [], bs2)
              end
          end
      end
  end.
