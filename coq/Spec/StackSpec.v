(* Spec/StackSpec.v — what DWARF assigns to an expression (DWARF 5 §2.5, §2.6, §7.7.1 + GNU/WASM opcodes).
   Part 1: the operand layout of every opcode as a table (op_layout), a generic table-driven decoder,
           and the canonical encoder of an operation.
   Part 2: the stack machine's value algebra over CANONICAL values: a generic value is an element of
           Z / 2^(8*address_size), typed integers are elements of Z / 2^width, with the per-operation
           signedness rules of §2.5.1.4 written with ordinary integer arithmetic.
   The syntax (operation, value, request ...) is shared with the models; nothing here mentions masks,
   sign-extension tricks or 64-bit containers. *)
From Coq Require Import List NArith ZArith Bool.
From Coq.Strings Require Import Byte.
Require Import GV.Base.Res GV.Base.Byt GV.Base.Ints GV.Spec.LebSpec GV.Model.Leb GV.Model.Prim
  GV.Model.OpDec GV.Model.OpVal.
Import ListNotations.
Local Open Scope N_scope.

(* ------------------------------------------------------------------ Part 1: operand layouts *)

Inductive okind : Type :=
| KU (n : nat)       (* n-byte unsigned constant *)
| KS (n : nat)       (* n-byte signed constant (two's complement) *)
| KUleb              (* unsigned LEB128 that fits 64 bits *)
| KSleb              (* signed LEB128 that fits 64 bits *)
| KUleb32            (* unsigned LEB128 that fits 32 bits *)
| KAddr              (* target address: address_size bytes (1, 2, 4 or 8) *)
| KOffset            (* section offset: 4 bytes in 32-bit DWARF, 8 in 64-bit DWARF *)
| KRefV2             (* DW_OP_implicit_pointer's DIE reference: address_size bytes in DWARF version 2, else an offset *)
| KReg               (* unsigned LEB128 register number; gimli supports numbers below 2^16 *)
| KBlockUleb         (* unsigned LEB128 length followed by that many bytes *)
| KBlock1            (* 1-byte length followed by that many bytes *)
| KWasm.             (* DW_OP_WASM_location: kind byte 0..3, then ULEB32 index (0,1,2) or u32 (3) *)

Inductive operand : Type :=
| AN (n : N)
| AZ (z : Z)
| AB (bs : list byte).

(* DWARF 5 Table 7.9 (operand columns), DWARF 2-4 as far as they differ, GNU and WASM vendor opcodes.
   None = not an operation gimli knows: InvalidExpression. *)
Definition op_layout (opc : byte) : option (list okind) :=
  match opc with
  | x03 => Some [KAddr]                                   (* DW_OP_addr *)
  | x06 => Some []                                        (* DW_OP_deref *)
  | x08 => Some [KU 1] | x09 => Some [KS 1]               (* const1u const1s *)
  | x0a => Some [KU 2] | x0b => Some [KS 2]
  | x0c => Some [KU 4] | x0d => Some [KS 4]
  | x0e => Some [KU 8] | x0f => Some [KS 8]
  | x10 => Some [KUleb] | x11 => Some [KSleb]             (* constu consts *)
  | x12 | x13 | x14 => Some []                            (* dup drop over *)
  | x15 => Some [KU 1]                                    (* pick *)
  | x16 | x17 | x18 | x19 | x1a | x1b | x1c | x1d | x1e | x1f | x20 | x21 | x22 => Some []
  | x23 => Some [KUleb]                                   (* plus_uconst *)
  | x24 | x25 | x26 | x27 => Some []
  | x28 => Some [KS 2]                                    (* bra *)
  | x29 | x2a | x2b | x2c | x2d | x2e => Some []
  | x2f => Some [KS 2]                                    (* skip *)
  | x30 | x31 | x32 | x33 | x34 | x35 | x36 | x37 | x38 | x39 | x3a | x3b | x3c | x3d | x3e | x3f
  | x40 | x41 | x42 | x43 | x44 | x45 | x46 | x47 | x48 | x49 | x4a | x4b | x4c | x4d | x4e | x4f => Some []   (* lit0..31 *)
  | x50 | x51 | x52 | x53 | x54 | x55 | x56 | x57 | x58 | x59 | x5a | x5b | x5c | x5d | x5e | x5f
  | x60 | x61 | x62 | x63 | x64 | x65 | x66 | x67 | x68 | x69 | x6a | x6b | x6c | x6d | x6e | x6f => Some []   (* reg0..31 *)
  | x70 | x71 | x72 | x73 | x74 | x75 | x76 | x77 | x78 | x79 | x7a | x7b | x7c | x7d | x7e | x7f
  | x80 | x81 | x82 | x83 | x84 | x85 | x86 | x87 | x88 | x89 | x8a | x8b | x8c | x8d | x8e | x8f => Some [KSleb]   (* breg0..31 *)
  | x90 => Some [KReg]                                    (* regx *)
  | x91 => Some [KSleb]                                   (* fbreg *)
  | x92 => Some [KReg; KSleb]                             (* bregx *)
  | x93 => Some [KUleb]                                   (* piece *)
  | x94 | x95 => Some [KU 1]                              (* deref_size xderef_size *)
  | x96 | x97 => Some []                                  (* nop push_object_address *)
  | x98 => Some [KU 2] | x99 => Some [KU 4]               (* call2 call4 *)
  | x9a => Some [KOffset]                                 (* call_ref *)
  | x9b | x9c => Some []                                  (* form_tls_address call_frame_cfa *)
  | x9d => Some [KUleb; KUleb]                            (* bit_piece *)
  | x9e => Some [KBlockUleb]                              (* implicit_value *)
  | x9f => Some []                                        (* stack_value *)
  | xa0 | xf2 => Some [KRefV2; KSleb]                     (* implicit_pointer, GNU_implicit_pointer *)
  | xa1 | xfb => Some [KUleb]                             (* addrx, GNU_addr_index *)
  | xa2 | xfc => Some [KUleb]                             (* constx, GNU_const_index *)
  | xa3 | xf3 => Some [KBlockUleb]                        (* entry_value, GNU_entry_value *)
  | xa4 | xf4 => Some [KUleb; KBlock1]                    (* const_type *)
  | xa5 | xf5 => Some [KReg; KUleb]                       (* regval_type *)
  | xa6 | xf6 => Some [KU 1; KUleb]                       (* deref_type *)
  | xa7 => Some [KU 1; KUleb]                             (* xderef_type *)
  | xa8 | xf7 => Some [KUleb]                             (* convert *)
  | xa9 | xf9 => Some [KUleb]                             (* reinterpret *)
  | xe0 => Some []                                        (* GNU_push_tls_address *)
  | xf0 => Some []                                        (* GNU_uninit *)
  | xfa => Some [KU 4]                                    (* GNU_parameter_ref *)
  | xfd => Some [KOffset]                                 (* GNU_variable_value *)
  | xed => Some [KWasm]                                   (* WASM_location *)
  | _ => None
  end.

(* one operand; a block yields its bytes, KWasm yields kind and index *)
Definition read_operand (dbg : bool) (e : enc) (k : okind) (bs : list byte) : res (list operand * list byte) :=
  match k with
  | KU n => let* (v, r) := read_un n (e_be e) bs in Ok ([AN v], r)
  | KS n => let* (v, r) := read_in n (e_be e) bs in Ok ([AZ v], r)
  | KUleb => let* (v, r) := read_uleb128 dbg bs in Ok ([AN v], r)
  | KSleb => let* (v, r) := read_sleb128 dbg bs in Ok ([AZ v], r)
  | KUleb32 => let* (v, r) := read_uleb128_u32 dbg bs in Ok ([AN v], r)
  | KAddr => let* (v, r) := read_address (e_asz e) (e_be e) bs in Ok ([AN v], r)
  | KOffset => let* (v, r) := read_word (e_fmt64 e) (e_be e) bs in Ok ([AN v], r)
  | KRefV2 =>
      let* (v, r) := (if e_ver e =? 2 then read_address (e_asz e) (e_be e) bs
                      else read_word (e_fmt64 e) (e_be e) bs) in Ok ([AN v], r)
  | KReg =>
      let* (v, r) := read_uleb128 dbg bs in
      if v <? 65536 then Ok ([AN v], r) else Err EUnsupportedRegister
  | KBlockUleb =>
      let* (len, r) := read_uleb128 dbg bs in
      let* (d, r') := split_n len r in Ok ([AB d], r')
  | KBlock1 =>
      let* (len, r) := read_u8 bs in
      let* (d, r') := split_n len r in Ok ([AB d], r')
  | KWasm =>
      let* (sub, r) := read_u8 bs in
      if sub <? 3 then let* (i, r') := read_uleb128_u32 dbg r in Ok ([AN sub; AN i], r')
      else if sub =? 3 then let* (i, r') := read_un 4 (e_be e) r in Ok ([AN sub; AN i], r')
      else Err EInvalidExpression
  end.

Fixpoint read_operands (dbg : bool) (e : enc) (ks : list okind) (bs : list byte) : res (list operand * list byte) :=
  match ks with
  | [] => Ok ([], bs)
  | k :: ks' =>
      let* (a, r) := read_operand dbg e k bs in
      let* (l, r') := read_operands dbg e ks' r in
      Ok (a ++ l, r')
  end.

(* the operation an opcode denotes, given its operands (DWARF 5 §2.5.1, §2.6.1).  Err EOther is never
   produced for operand lists of the shape op_layout prescribes (theorem decode_table). *)
Definition op_build (e : enc) (opc : byte) (args : list operand) : res operation :=
  let n := b2n opc in
  match opc, args with
  | x03, [AN a] => Ok (OAddress a)
  | x06, [] => Ok (ODeref 0 (e_asz e) false)
  | (x08 | x0a | x0c | x0e | x10), [AN v] => Ok (OUnsignedConstant v)
  | (x09 | x0b | x0d | x0f | x11), [AZ v] => Ok (OSignedConstant v)
  | x12, [] => Ok (OPick 0)
  | x13, [] => Ok ODrop
  | x14, [] => Ok (OPick 1)
  | x15, [AN i] => Ok (OPick i)
  | x16, [] => Ok OSwap
  | x17, [] => Ok ORot
  | x18, [] => Ok (ODeref 0 (e_asz e) true)
  | x19, [] => Ok OAbs | x1a, [] => Ok OAnd | x1b, [] => Ok ODiv | x1c, [] => Ok OMinus
  | x1d, [] => Ok OMod | x1e, [] => Ok OMul | x1f, [] => Ok ONeg | x20, [] => Ok ONot
  | x21, [] => Ok OOr | x22, [] => Ok OPlus
  | x23, [AN v] => Ok (OPlusConstant v)
  | x24, [] => Ok OShl | x25, [] => Ok OShr | x26, [] => Ok OShra | x27, [] => Ok OXor
  | x28, [AZ t] => Ok (OBra t)
  | x29, [] => Ok OEq | x2a, [] => Ok OGe | x2b, [] => Ok OGt | x2c, [] => Ok OLe
  | x2d, [] => Ok OLt | x2e, [] => Ok ONe
  | x2f, [AZ t] => Ok (OSkip t)
  | x90, [AN r] => Ok (ORegister r)
  | x91, [AZ o] => Ok (OFrameOffset o)
  | x92, [AN r; AZ o] => Ok (ORegisterOffset r o 0)
  | x93, [AN size] =>
      (* size in bytes; gimli reports pieces in bits and rejects sizes whose bit count exceeds 64 bits *)
      if size * 8 <? 2 ^ 64 then Ok (OPiece (size * 8) None) else Err EInvalidExpression
  | x94, [AN s] => Ok (ODeref 0 s false)
  | x95, [AN s] => Ok (ODeref 0 s true)
  | x96, [] => Ok ONop
  | x97, [] => Ok OPushObjectAddress
  | (x98 | x99), [AN o] => Ok (OCall (UnitRef o))
  | x9a, [AN o] => Ok (OCall (DebugInfoRef o))
  | (x9b | xe0), [] => Ok OTLS
  | x9c, [] => Ok OCallFrameCFA
  | x9d, [AN s; AN o] => Ok (OPiece s (Some o))
  | x9e, [AB d] => Ok (OImplicitValue d)
  | x9f, [] => Ok OStackValue
  | (xa0 | xf2), [AN v; AZ o] => Ok (OImplicitPointer v o)
  | (xa1 | xfb), [AN i] => Ok (OAddressIndex i)
  | (xa2 | xfc), [AN i] => Ok (OConstantIndex i)
  | (xa3 | xf3), [AB x] => Ok (OEntryValue x)
  | (xa4 | xf4), [AN bt; AB v] => Ok (OTypedLiteral bt v)
  | (xa5 | xf5), [AN r; AN bt] => Ok (ORegisterOffset r 0 bt)
  | (xa6 | xf6), [AN s; AN bt] => Ok (ODeref bt s false)
  | xa7, [AN s; AN bt] => Ok (ODeref bt s true)
  | (xa8 | xf7), [AN bt] => Ok (OConvert bt)
  | (xa9 | xf9), [AN bt] => Ok (OReinterpret bt)
  | xf0, [] => Ok OUninitialized
  | xfa, [AN o] => Ok (OParameterRef o)
  | xfd, [AN o] => Ok (OVariableValue o)
  | xed, [AN sub; AN i] =>
      if sub =? 0 then Ok (OWasmLocal i) else if sub =? 2 then Ok (OWasmStack i) else Ok (OWasmGlobal i)
  | _, [] =>
      if (48 <=? n) && (n <=? 79) then Ok (OUnsignedConstant (n - 48))           (* DW_OP_lit<n> *)
      else if (80 <=? n) && (n <=? 111) then Ok (ORegister (n - 80))             (* DW_OP_reg<n> *)
      else Err EOther
  | _, [AZ o] =>
      if (112 <=? n) && (n <=? 143) then Ok (ORegisterOffset (n - 112) o 0)      (* DW_OP_breg<n> *)
      else Err EOther
  | _, _ => Err EOther
  end.

Definition generic_decode (dbg : bool) (e : enc) (opc : byte) (bs : list byte) : res (operation * list byte) :=
  match op_layout opc with
  | None => Err EInvalidExpression
  | Some ks =>
      let* (args, rest) := read_operands dbg e ks bs in
      let* o := op_build e opc args in
      Ok (o, rest)
  end.

(* ------------------------------------------------------------------ Part 2: the value algebra
   DWARF 5 §2.5.1: "the generic type is an integral type that has the size of an address on the target
   machine and unspecified signedness"; §2.5.1.4 gives each operation's reading of generic operands:
   div, abs, neg, shra and the comparisons are signed, mod and shr unsigned, plus/minus/mul/shl and the
   bitwise operations are the same in either reading; shifts by at least the width give 0 (shl, shr) or
   the sign (shra); typed operands must have the same type. *)
Section ValueSpec.
Variable sz : N.          (* address size in bytes *)
Variable F : fops.        (* IEEE-754 arithmetic on bit patterns; the theorems hold for every F *)

Definition tbits (t : vtype) : N := match t with TGeneric => 8 * sz | _ => width t end.
Definition modulus (t : vtype) : N := 2 ^ tbits t.

(* canonical representative.  Typed values are canonical by construction (an i8 is an i8); a generic
   value is canonical when it is below 2^(8*sz): every 64-bit container denotes its residue. *)
Definition canon (v : value) : value :=
  match vty v with
  | TGeneric => mkV TGeneric (vbits v mod modulus TGeneric)
  | _ => v
  end.
Definition canonical (v : value) : Prop := vbits v < modulus (vty v).

(* the integer a canonical value denotes; `gs` = read a generic operand as signed *)
Definition as_int (gs : bool) (v : value) : Z :=
  match tclass_of (vty v) with
  | CGeneric => if gs then to_signed (tbits (vty v)) (vbits v) else Z.of_N (vbits v)
  | CSigned => to_signed (tbits (vty v)) (vbits v)
  | _ => Z.of_N (vbits v)
  end.
(* the canonical value of type t congruent to z *)
Definition of_int (t : vtype) (z : Z) : value := mkV t (Z.to_N (z mod Z.of_N (modulus t))).

Definition same_type (a b : value) : bool := vtype_eqb (vty a) (vty b).
Definition is_float (v : value) : bool := match tclass_of (vty v) with CFloat => true | _ => false end.
Definition bool_value (b : bool) : value := mkV TGeneric (if b then 1 else 0).

(* plus, minus, mul *)
Definition sp_arith (zop : Z -> Z -> Z) (fop : bool -> N -> N -> N) (a b : value) : res value :=
  if negb (same_type a b) then Err ETypeMismatch
  else if is_float a then Ok (mkV (vty a) (fop (is64 (vty a)) (vbits a) (vbits b)))
  else Ok (of_int (vty a) (zop (as_int false a) (as_int false b))).
Definition sp_add := sp_arith Z.add (f_add F).
Definition sp_sub := sp_arith Z.sub (f_sub F).
Definition sp_mul := sp_arith Z.mul (f_mul F).

(* div: signed for generic operands, truncating *)
Definition sp_div (a b : value) : res value :=
  if negb (is_float b) && (as_int true b =? 0)%Z then Err EDivisionByZero
  else if negb (same_type a b) then Err ETypeMismatch
  else if is_float a then Ok (mkV (vty a) (f_div F (is64 (vty a)) (vbits a) (vbits b)))
  else Ok (of_int (vty a) (Z.quot (as_int true a) (as_int true b))).

(* mod: unsigned for generic operands; integral types only *)
Definition sp_rem (a b : value) : res value :=
  if negb (is_float b) && (as_int false b =? 0)%Z then Err EDivisionByZero
  else if negb (same_type a b) then Err ETypeMismatch
  else if is_float a then Err EIntegralTypeRequired
  else Ok (of_int (vty a) (Z.rem (as_int false a) (as_int false b))).

Definition sp_neg (a : value) : res value :=
  match tclass_of (vty a) with
  | CUnsigned => Err EUnsupportedTypeOperation
  | CFloat => Ok (mkV (vty a) (fneg (width (vty a)) (vbits a)))
  | _ => Ok (of_int (vty a) (- as_int true a))
  end.
Definition sp_abs (a : value) : res value :=
  match tclass_of (vty a) with
  | CFloat => Ok (mkV (vty a) (if flt (width (vty a)) (vbits a) 0 then fneg (width (vty a)) (vbits a) else vbits a))
  | _ => Ok (of_int (vty a) (Z.abs (as_int true a)))
  end.

(* and, or, xor, not: bitwise on the two's complement pattern (payloads of canonical values) *)
Definition sp_bitop (nop : N -> N -> N) (a b : value) : res value :=
  if negb (same_type a b) then Err ETypeMismatch
  else if is_float a then Err EIntegralTypeRequired
  else Ok (mkV (vty a) (nop (vbits a) (vbits b))).
Definition sp_and := sp_bitop N.land.
Definition sp_or := sp_bitop N.lor.
Definition sp_xor := sp_bitop N.lxor.
Definition sp_not (a : value) : res value :=
  if is_float a then Err EIntegralTypeRequired else Ok (mkV (vty a) (modulus (vty a) - 1 - vbits a)).

(* the shift count: a non-negative integer *)
Definition sp_count (b : value) : res Z :=
  if is_float b then Err EInvalidShiftExpression
  else if (as_int false b <? 0)%Z then Err EInvalidShiftExpression
  else Ok (as_int false b).
Definition sp_shl (a b : value) : res value :=
  let* c := sp_count b in
  if is_float a then Err EIntegralTypeRequired
  else Ok (of_int (vty a) (if (Z.of_N (tbits (vty a)) <=? c)%Z then 0 else Z.of_N (vbits a) * 2 ^ c)).
Definition sp_shr (a b : value) : res value :=
  let* c := sp_count b in
  match tclass_of (vty a) with
  | CFloat => Err EIntegralTypeRequired
  | CSigned => Err EUnsupportedTypeOperation
  | _ => Ok (of_int (vty a) (if (Z.of_N (tbits (vty a)) <=? c)%Z then 0 else as_int false a / 2 ^ c))
  end.
Definition sp_shra (a b : value) : res value :=
  let* c := sp_count b in
  match tclass_of (vty a) with
  | CFloat => Err EIntegralTypeRequired
  | CUnsigned => Err EUnsupportedTypeOperation
  | _ => Ok (of_int (vty a) (if (Z.of_N (tbits (vty a)) <=? c)%Z then (if (as_int true a <? 0)%Z then -1 else 0)
                              else as_int true a / 2 ^ c))       (* floor division: arithmetic shift *)
  end.

(* eq ge gt le lt ne: signed reading of generic operands; the result is the generic 0 or 1 *)
Definition sp_compare (zc : Z -> Z -> bool) (fc : N -> N -> N -> bool) (a b : value) : res value :=
  if negb (same_type a b) then Err ETypeMismatch
  else if is_float a then Ok (bool_value (fc (width (vty a)) (vbits a) (vbits b)))
  else Ok (bool_value (zc (as_int true a) (as_int true b))).
Definition sp_eq := sp_compare Z.eqb feq.
Definition sp_ge := sp_compare Z.geb fge.
Definition sp_gt := sp_compare Z.gtb fgt.
Definition sp_le := sp_compare Z.leb fle.
Definition sp_lt := sp_compare Z.ltb flt.
Definition sp_ne := sp_compare (fun x y => negb (Z.eqb x y)) fne.

(* convert: the integer value is kept modulo the target width (generic source read unsigned);
   float sources/targets through F *)
Definition sp_convert (a : value) (t : vtype) : res value :=
  match tclass_of (vty a), tclass_of t with
  | CFloat, CFloat => if vtype_eqb (vty a) t then Ok a else Ok (mkV t (f_cvt F (is64 (vty a)) (vbits a)))
  | CFloat, CSigned => Ok (mkV t (f_to_int F (is64 (vty a)) true (width t) (vbits a)))
  | CFloat, CUnsigned => Ok (mkV t (f_to_int F (is64 (vty a)) false (width t) (vbits a)))
  | CFloat, CGeneric => Ok (of_int t (Z.of_N (f_to_int F (is64 (vty a)) false 64 (vbits a))))
  | _, CFloat => Ok (mkV t (f_of_u64 F (is64 t) (Z.to_N (as_int false a mod 2 ^ 64))))
  | _, _ => Ok (of_int t (as_int false a))
  end.

(* reinterpret: same number of bits, same bit pattern *)
Definition sp_reinterpret (a : value) (t : vtype) : res value :=
  if negb (tbits (vty a) =? tbits t) then Err ETypeMismatch else Ok (mkV t (vbits a)).

End ValueSpec.

(* ------------------------------------------------------------------ Part 3: the canonical encoder
   (DWARF 5 §7.7.1; used for decode_roundtrip and by the correspondence generators) *)
(* ---- signed LEB128 encoder (spec) ---- *)
Fixpoint enc_sleb_fuel (fuel : nat) (z : Z) : list byte :=
  match fuel with
  | O => []
  | S f =>
      let b := Z.to_N (z mod 128) in
      let q := (z / 128)%Z in
      if ((q =? 0)%Z && (b <? 64)) || ((q =? -1)%Z && (64 <=? b)) then [n2b b]
      else n2b (128 + b) :: enc_sleb_fuel f q
  end.
Definition enc_sleb (z : Z) : list byte := enc_sleb_fuel 10 z.


(* ---- the canonical encoding of an operation (spec encoder) ---- *)
Definition enc_off (e : enc) (v : N) : list byte := enc_un (if e_fmt64 e then 8 else 4) (e_be e) v.
Definition enc_addr (e : enc) (v : N) : list byte := enc_un (N.to_nat (e_asz e)) (e_be e) v.
Definition enc_i16 (e : enc) (t : Z) : list byte := enc_un 2 (e_be e) (of_signed 16 t).
Definition enc_block (d : list byte) : list byte := enc_uleb (N.of_nat (length d)) ++ d.

Definition enc_op (e : enc) (o : operation) : list byte :=
  match o with
  | ODeref bt size space =>
      if bt =? 0 then [if space then x95 else x94; n2b size]
      else [if space then xa7 else xa6; n2b size] ++ enc_uleb bt
  | ODrop => [x13] | OPick i => [x15; n2b i] | OSwap => [x16] | ORot => [x17]
  | OAbs => [x19] | OAnd => [x1a] | ODiv => [x1b] | OMinus => [x1c] | OMod => [x1d] | OMul => [x1e]
  | ONeg => [x1f] | ONot => [x20] | OOr => [x21] | OPlus => [x22]
  | OPlusConstant v => x23 :: enc_uleb v
  | OShl => [x24] | OShr => [x25] | OShra => [x26] | OXor => [x27]
  | OBra t => x28 :: enc_i16 e t
  | OEq => [x29] | OGe => [x2a] | OGt => [x2b] | OLe => [x2c] | OLt => [x2d] | ONe => [x2e]
  | OSkip t => x2f :: enc_i16 e t
  | OUnsignedConstant v => x10 :: enc_uleb v
  | OSignedConstant v => x11 :: enc_sleb v
  | ORegister r => x90 :: enc_uleb r
  | ORegisterOffset r off bt =>
      if bt =? 0 then x92 :: enc_uleb r ++ enc_sleb off else xa5 :: enc_uleb r ++ enc_uleb bt
  | OFrameOffset off => x91 :: enc_sleb off
  | ONop => [x96] | OPushObjectAddress => [x97]
  | OCall (UnitRef o) => x99 :: enc_un 4 (e_be e) o
  | OCall (DebugInfoRef o) => x9a :: enc_off e o
  | OVariableValue o => xfd :: enc_off e o
  | OTLS => [x9b] | OCallFrameCFA => [x9c]
  | OPiece s None => x93 :: enc_uleb (s / 8)
  | OPiece s (Some off) => x9d :: enc_uleb s ++ enc_uleb off
  | OImplicitValue d => x9e :: enc_block d
  | OStackValue => [x9f]
  | OImplicitPointer v off => xa0 :: (if e_ver e =? 2 then enc_addr e v else enc_off e v) ++ enc_sleb off
  | OEntryValue x => xa3 :: enc_block x
  | OParameterRef o => xfa :: enc_un 4 (e_be e) o
  | OAddress a => x03 :: enc_addr e a
  | OAddressIndex i => xa1 :: enc_uleb i
  | OConstantIndex i => xa2 :: enc_uleb i
  | OTypedLiteral bt v => xa4 :: enc_uleb bt ++ n2b (N.of_nat (length v)) :: v
  | OConvert bt => xa8 :: enc_uleb bt
  | OReinterpret bt => xa9 :: enc_uleb bt
  | OUninitialized => [xf0]
  | OWasmLocal i => xed :: x00 :: enc_uleb i
  | OWasmGlobal i => xed :: x01 :: enc_uleb i
  | OWasmStack i => xed :: x02 :: enc_uleb i
  end.

(* the operations that exist as values of gimli's Operation type and have an encoding under e *)
Definition u64 (v : N) : Prop := v < 2 ^ 64.
Definition fits_off (e : enc) (v : N) : Prop := v < 256 ^ (if e_fmt64 e then 8 else 4).
Definition fits_addr (e : enc) (v : N) : Prop :=
  (e_asz e = 1 \/ e_asz e = 2 \/ e_asz e = 4 \/ e_asz e = 8) /\ v < 256 ^ e_asz e.
Definition wf_op (e : enc) (o : operation) : Prop :=
  match o with
  | ODeref bt size _ => u64 bt /\ size < 256
  | OPick i => i < 256
  | OPlusConstant v | OUnsignedConstant v | OAddressIndex v | OConstantIndex v | OConvert v | OReinterpret v => u64 v
  | OBra t | OSkip t => in_signed 16 t = true
  | OSignedConstant v | OFrameOffset v => in_i64 v = true
  | ORegister r => r < 65536
  | ORegisterOffset r off bt => r < 65536 /\ in_i64 off = true /\ u64 bt /\ (bt <> 0 -> off = 0%Z)
  | OCall (UnitRef o) | OParameterRef o => o < 256 ^ 4
  | OCall (DebugInfoRef o) | OVariableValue o => fits_off e o
  | OPiece s None => s mod 8 = 0 /\ u64 s
  | OPiece s (Some off) => u64 s /\ u64 off
  | OImplicitValue d | OEntryValue d => u64 (N.of_nat (length d))
  | OImplicitPointer v off => (if e_ver e =? 2 then fits_addr e v else fits_off e v) /\ in_i64 off = true
  | OAddress a => fits_addr e a
  | OTypedLiteral bt v => u64 bt /\ N.of_nat (length v) < 256
  | OWasmLocal i | OWasmGlobal i | OWasmStack i => i < 2 ^ 32
  | _ => True
  end.

