(* Extract/Extract.v — ExtrOcamlBasic only (DESIGN §3). Run from ocaml/extracted/. *)
Require Import ExtrOcamlBasic.
Require Import GV.Base.Res GV.Base.Byt GV.Base.Ints.
Require Import GV.Spec.LebSpec.
Require Import GV.Model.Leb GV.Model.Prim.
Extraction Blacklist String List Nat Int Bool Byte Bytes.
Set Extraction KeepSingleton.
Separate Extraction
  Res Byt Ints LebSpec Leb Prim.
