(* Properties/C16.v — placeholder until the proofs land. *)
From Coq Require Import List NArith ZArith Bool.
Require Import GV.Base.Res GV.Spec.ListWrSpec GV.Model.ListsWr.
